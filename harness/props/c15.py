"""C15 — library models are well-formed and reduce exactly to their nested special cases.

Static theorems: coq/theories/Props/C15.v (soundness of the normaliser / the boolean checks).
Per run:
 (1) translator (harness/translate/models_dsl.py, fail-closed) over the six model files: every function of the
     committed list (harness/props/c15_nesting.json, "functions") must still exist, expose __param_names__ and translate;
     calls of module-level HELPER functions (functions of the model file without __param_names__ that build size functions /
     temporaries, e.g. a factored-out `_IM_size_funcs(s, nu1, nu2, T, nuPre=1)`) are INLINED - arguments bound with the helper's
     current signature, its frame single-assignment, anything else refused - so that the nesting / symmetry / name-semantics /
     concrete-semantics obligations judge the refactored model; a time function used after a name it reads was re-bound is
     refused (Python closures bind late, the translation inlines at the definition);
 (2) Coq obligations (vm_compute inside Coq, one boolean per item):
       wf:<model>        params_match_names && scalars_tfree && (parameters without effect = committed expectation)
       nest:<pair>       nests A sigma complex simple           for every committed nesting pair; two-sided pairs (the simple model
                         is instantiated too: "simple_point") are decided by nests2 A sigma_c sigma_s complex simple
       equiv:<model>     equivariant A perm sigma prog          for every committed label-symmetric model
 (3) numerical predicates on the real code: every model at random in-bounds parameter vectors returns a finite,
     non-negative spectrum of the requested shape with extrap_x set; accepts exactly len(__param_names__) parameters;
     each nesting pair compared at the nesting point (exact: 1e-10 relative); symmetric models under label exchange at two
     time steps (operator-splitting error must shrink).
 (7) SEARCH after a broken translation / obligation: for every model that could not be translated, or one of whose obligations
     (well-formedness, a committed nesting, the label exchange, the name semantics) fails on the current source, EVERY committed
     nesting of that model (as complex and as simple side; the committed parameter names stand in for a model without
     translation) and its committed symmetry are evaluated on the real code at 3 further GENERIC vectors (gen_generic: sizes a
     factor >= 2 away from 1, alternately above and below and pairwise different; fractions away from 1/2; rates and selection
     coefficients non-zero and pairwise different; times 40-100% of their share of the step budget) before "no failing input
     found" is reported for it.  The ordinary vectors (gen_params) never draw a size inside (0.8, 1.25): a slip in the scaling
     by a size (nuPre*(1-s) written as 1-s) is invisible at the reference size 1 and nearly so around it.
 (5) concrete semantics (coq/theories/Model/ProgSem.v; theorems in Props/C15Concrete.v): for every model that returns a spectrum, the REAL
     function func(params, ns, pts) (no extrapolation; Integration.timescale_factor = 0.125, grids of 6-10 points, sample sizes 2-4,
     dyadic in-bounds parameters; 1 vector per model in quick, 3 in thorough) against run_prog -- the composition of the executable
     models of C01 / C06 / C02-C04 / C05 -- on the program translated from the CURRENT source, evaluated inside Coq on 128-bit software
     floats; every unmasked entry at 1e-7 of the largest entry; the static check prog_ok of the program is part of the case.  A
     disagreement is a violation whose replay carries the model name and the parameter vector.
 (4) mutation adequacy of the committed list (harness/props/c15_common.py, Python mirror of the normaliser; the mirror is
     compared with Coq on every obligation of the run): every single-occurrence mutant of every model program of the CURRENT
     translation must be killed by a committed obligation, except the mutants committed as unkillable (with the reason)
     under "adequacy" in c15_nesting.json.  A surviving mutant that is not on that list is a hole opened by a source change.
     Second mutant class (same rule, "adequacy"."exchange"): for every model and every pair of distinct parameters of the same
     kind (two sizes, two times, two rates, two gammas, two proportions) the program with the two parameters EXCHANGED IN ALL
     THEIR OCCURRENCES (= __param_names__ transposed relative to the body) must break a committed obligation, unless the
     exchanged program normalises to the same program (a provable symmetry).
 (6) name semantics (harness/props/c15_names.json, built once from the unchanged tree by harness/tools/c15_names.py and reviewed):
     for every function, the keyword of the library call every declared parameter is handed to ('position:function.keyword') must
     be the committed one; functions the table does not know must follow the conventions themselves (mIJ -> keyword mIJ, nuK /
     nuKa / nuKb -> nuK, gammaK -> gammaK, hK -> hK, local name bound by the unpacking = declared name).  A difference is a
     violation; its failing input is searched among the nestings of that model (run at extra vectors that keep the parameters
     concerned well apart), reported with the parameter vectors BY NAME.
"""
import json, math, os, random, re, time
from fractions import Fraction
from concurrent.futures import ThreadPoolExecutor
from harness import lib
from harness.translate import models_dsl as M, models_dsl_norm as N
from harness.props import c15_common as K
from harness.props.c15_common import parse_point_value

DATA = os.path.join(os.path.dirname(os.path.abspath(__file__)), 'c15_nesting.json')
NAMES = os.path.join(os.path.dirname(os.path.abspath(__file__)), 'c15_names.json')
PAIR_TOL = 1e-10
NEG_TOL = 1e-9

HEADER = '\n'.join(['From Coq Require Import QArith ZArith List Bool.',
                    'From Dadi Require Import Model.DSL.',
                    'Import ListNotations.', 'Open Scope nat_scope.'])

# ------------------------------------------------------------------------------------------------
def gen_params(rng, names, budget_steps, Tmax=3.0):
    """random in-bounds parameter vector: nu log-uniform [1e-2,100], m in [0,10], fractions in (0.05,0.95), gamma in [-8,2];
    times uniform in [0, min(Tmax, budget_steps * 1e-3 / rate)] (rate = what the time-step rule divides by)"""
    vals = {}
    for n in names:
        k = M.kind_of(n)
        if k == 'pos':
            vals[n] = float('%.4g' % (10 ** rng.uniform(-2, 2)))
            # never a size near the reference size 1 (a slip in the scaling by a size - nuPre*(1-s) written as (1-s) - is
            # invisible at 1 and nearly so around it): the band (0.8, 1.25) is mapped out of itself, same PRNG stream
            if 0.8 < vals[n] < 1.25:
                vals[n] = float('%.4g' % (vals[n] * 2 if vals[n] >= 1 else vals[n] / 2))
        elif k == 'frac':
            vals[n] = round(rng.uniform(0.05, 0.95), 4)
        elif n.startswith('gamma'):
            vals[n] = round(rng.uniform(-8, 2), 3)
        elif n.startswith('m'):
            vals[n] = round(rng.uniform(0, 10), 3)
    nus = [v for n, v in vals.items() if M.kind_of(n) == 'pos'] + [1.0]
    if 's' in vals:                       # fractions of the reference size act as population sizes (s and 1-s)
        nus += [vals['s'], 1 - vals['s']]
    ms = sum(v for n, v in vals.items() if n.startswith('m'))
    gs = max([abs(v) for n, v in vals.items() if n.startswith('gamma')] + [0])
    rate = max(0.25 / min(nus), ms, gs, 1e-9)
    tcap = min(Tmax, budget_steps * 1e-3 / rate)
    nT = sum(1 for n in names if n.startswith('T'))
    for n in names:
        if n.startswith('T'):
            vals[n] = float('%.4g' % rng.uniform(0, tcap / max(1, nT) * 2))
        if n not in vals:
            vals[n] = round(rng.uniform(0.1, 0.9), 4)
    return [vals[n] for n in names]

def gen_generic(rng, names, budget_steps, variant, Tmax=3.0):
    """a GENERIC in-bounds vector for the search after a broken translation / obligation: sizes at least a factor 2 away from 1
    (alternately above and below, pairwise different), fractions away from 1/2, migration rates and selection coefficients
    non-zero and pairwise different, every time between 40% and 100% of its share of the step budget (never ~0)"""
    vals = {}
    kpos = kfr = kg = km = 0
    for n in names:
        k = M.kind_of(n)
        if k == 'pos':
            e = rng.uniform(1.0, 3.3) + 0.07 * kpos
            vals[n] = float('%.4g' % (2.0 ** (e if (kpos + variant) % 2 == 0 else -e))); kpos += 1
        elif k == 'frac':
            vals[n] = round(rng.uniform(0.15, 0.38) if (kfr + variant) % 2 == 0 else rng.uniform(0.62, 0.85), 4); kfr += 1
        elif n.startswith('gamma'):
            vals[n] = round(-rng.uniform(0.5, 5.0) - 0.3 * kg if (kg + variant) % 3 != 2 else rng.uniform(0.3, 1.5), 3); kg += 1
        elif n.startswith('m'):
            vals[n] = round(rng.uniform(0.4, 2.5) + 0.6 * ((km + variant) % 4), 3); km += 1
    nus = [v for n, v in vals.items() if M.kind_of(n) == 'pos'] + [1.0]
    if 's' in vals:
        nus += [vals['s'], 1 - vals['s']]
    ms = sum(v for n, v in vals.items() if n.startswith('m'))
    gs = max([abs(v) for n, v in vals.items() if n.startswith('gamma')] + [0])
    rate = max(0.25 / min(nus), ms, gs, 1e-9)
    tcap = min(Tmax, budget_steps * 1e-3 / rate)
    nT = sum(1 for n in names if n.startswith('T'))
    for n in names:
        if n.startswith('T'):
            vals[n] = float('%.4g' % (rng.uniform(0.4, 1.0) * tcap / max(1, nT) * 2))
        if n not in vals:
            vals[n] = round(rng.uniform(0.15, 0.4), 4)
    return [vals[n] for n in names]

def dims_of(prog):
    d = 0
    for i in prog:
        if i['op'] == 'if':
            d = max(d, dims_of(i['then']), dims_of(i['else']))
        elif i['op'] in ('fromphi', 'fromphi_inb'):
            d = max(d, i['d'])
    return d

def uses_inbreeding(prog):
    for i in prog:
        if i['op'] == 'if':
            if uses_inbreeding(i['then']) or uses_inbreeding(i['else']):
                return True
        elif i['op'] == 'fromphi_inb':
            return True
    return False

def run_jobs(jobs, nproc=6, timeout=1500):
    """spread the jobs over nproc interpreter processes (longest first, round-robin)"""
    if not jobs:
        return {}
    order = sorted(range(len(jobs)), key=lambda k: -jobs[k].get('_cost', 1))
    chunks = [[] for _ in range(min(nproc, len(jobs)))]
    for r, k in enumerate(order):
        chunks[r % len(chunks)].append(jobs[k])
    res = {}
    def one(ch):
        return lib.run_impl('c15_impl.py', [{k: v for k, v in j.items() if not k.startswith('_')} for j in ch], timeout=timeout)
    with ThreadPoolExecutor(max_workers=len(chunks)) as ex:
        for out in ex.map(one, chunks):
            for r in out:
                res[r['id']] = r
    return res

# ------------------------------------------------------------------------------------------------
def run(ctx):
    t_start = time.time()
    ctx.rule = ('inputs = (model function, parameter vector drawn inside the documented bounds from one PRNG, sample sizes 4-6 per '
                'population, grid 16-24 points (12-14 for three populations)); nesting pairs and symmetric models from the committed '
                'list harness/props/c15_nesting.json (sizes never inside (0.8, 1.25); after a broken translation / obligation of a model all its committed '
                'nestings and its symmetry again at 3 generic vectors: sizes a factor >= 2 from 1, fractions away from 1/2, distinct non-zero rates); concrete-semantics cases = (function, dyadic in-bounds parameter vector, grid 6-10 points, sample sizes 2-4, '
                'timescale_factor 0.125) from a PRNG stream of their own; distinct = distinct (function, parameter vector); all are non-trivial')
    ctx.assumptions += [
        'documented parameter bounds: nu in [1e-2,100], T in [0,3], m in [0,10], fractions in (0,1); the kinds are read off the declared names (nu*: >0, T*, m*: >=0, s/f/F: in (0,1), gamma*: free)',
        'numerical runs use short times (the number of time steps is capped) so that the quick tier stays within minutes',
        'non-negativity is asserted up to -1e-9*max on a grid that resolves the model: a run with a negative entry is repeated on grids of about 2x and 4x the points; it is a violation unless the negative part vanishes or shrinks by at least 0.6 per refinement and ends below 1e-3 of the largest entry (observed on the unchanged tree: factor 0.25-0.5 per doubling, i.e. discretisation error of the central differences for migration/selection)',
        'nesting pairs agree to 1e-10 relative to the largest entry (observed: 0 or ~1e-16 on the unchanged tree; <= 3e-13 for the zero-length-first-epoch nestings of the admix_origin family, where f*x+(1-f)*x is x only up to rounding)',
        'concrete semantics: the real function and Model/ProgSem.run_prog (128-bit software floats) agree on every unmasked entry to 1e-7 of the largest entry (observed: <= 1e-11) at timescale_factor = 0.125, grids of 6-10 points, sample sizes 2-4, dyadic in-bounds parameters (nu in [1/4,4], m in [0,4], gamma in [-4,2], fractions in [1/8,7/8], times <= 1 and about 20 time steps per model)',
        'label exchange of a symmetric model holds up to the operator-splitting error of the alternating-direction scheme; required: error at timescale_factor/64 <= 0.35 x error at timescale_factor=1e-3 (observed ratios 0.006-0.15, ideal 1/64), or below 1e-9']
    ctx.trusted += [
        'Section hypotheses H_T0 / H_pulse0 / H_admix_diag of Proofs/DSLProofs.v (zero-duration integration, zero pulse, admixture directly after the first split = split of population 2): PROVED for the concrete operations of Model/ProgSem.v (Props/C15Concrete.v: C15_concrete_H_T0, C15_concrete_H_pulse0, C15_concrete_H_admix_diag); they remain hypotheses only of the abstract statements of Props/C15.v',
        'name-semantics table harness/props/c15_names.json and its reviewed deviations from the naming conventions (ms command slots of the *_mscore helpers; gamma1 = selection in population 1 AND the ancestral population in the DFE models, as documented)',
        'concrete semantics (Model/ProgSem.v): composition of the executable models of C01 (phi_1D), C06 (split / admixture / pulses), C02-C04 (integrate_const / integrate_tdep, time-step rule), C05 (from_phi, from_phi_inbreeding); compared with the real library function on every run for every model returning a spectrum. Not modelled: the ValueError tests of Integration.py on negative sizes / rates and on frozen populations with migration (outside the documented bounds)',
        'hypotheses E_* of the relabelling theorem: the numerical layer commutes with exchanging population labels (true of the diffusion, approximately of the alternating-direction scheme; measured at two time steps)',
        'the translator harness/translate/models_dsl.py (fail-closed) and the parameter kinds derived from the declared names',
        'FunctionalExtensionality (standard library axiom) in the soundness proofs']
    data = json.load(open(DATA))
    ctx.notes.append('observed on the unchanged tree: nesting pairs agree to <= 4e-13 relative (mostly exactly); coarse grids (12-24 points) give negative '
                     'entries in about 4% of short-time runs and 25% of long-time runs with strong migration/selection, all vanishing or shrinking by 0.25-0.5 per grid doubling; '
                     'label exchange error 1e-6..1e-3 at timescale_factor=1e-3, ratio 0.006-0.15 at 1/64 of it; equil (params[0]) and the snm placeholders accept longer vectors; '
                     'bottlegrowth_2d_sel: gamma2 has no effect (split at time 0), committed under "ineffective_params"')
    try:
        tr = M.Translator(lib.REPO)
    except (M.Refuse, SyntaxError, OSError) as e:
        ctx.obligation('numerical-layer signatures readable (Integration/PhiManip/Numerics/Spectrum)', False, 'translator', str(e))
        ctx.violation('C15 translator cannot read the numerical-layer signatures: %s' % e, no_input=True, broken='models_dsl.load_signatures')
        return
    for rel, err in tr.errors.items():
        ctx.obligation('module %s has the recognised shape' % rel, False, 'translator', err)
    present = set(tr.all_models())

    # ---- (1) translation of every committed function -------------------------------------------
    progs = {}          # 'file:name' -> translation record
    broken_models = {}  # 'file:name' -> reason
    for fn in data['functions']:
        key = '%s:%s' % (fn['file'], fn['name'])
        if (fn['file'], fn['name']) not in present:
            why = tr.errors.get(fn['file']) or 'function or its __param_names__ is gone'
            ctx.obligation('model %s present with __param_names__' % key, False, 'translator', why)
            broken_models[key] = why
            continue
        try:
            r = tr.translate(fn['file'], fn['name'])
            progs[key] = r
            ctx.obligation('translate %s' % key, True, 'translator')
        except M.Refuse as e:
            ctx.obligation('translate %s' % key, False, 'translator', str(e))
            broken_models[key] = 'translator refused: %s' % e
    extra = sorted(present - {(f['file'], f['name']) for f in data['functions']})
    for rel, name in extra:
        key = '%s:%s' % (rel, name)
        ctx.notes.append('new model function not in the committed list: %s' % key)
        try:
            progs[key] = tr.translate(rel, name)
            ctx.obligation('translate %s (new function)' % key, True, 'translator')
        except M.Refuse as e:
            ctx.obligation('translate %s (new function)' % key, False, 'translator', str(e))
            broken_models[key] = 'translator refused: %s' % e
    ctx.count('functions_translated', len(progs))
    nh = sorted(k for k, r in progs.items() if r.get('helpers'))
    ctx.count('functions_calling_module_level_helpers (inlined)', len(nh))
    if nh:
        ctx.notes.append('models that call module-level helper functions (inlined by the translator): %s' % '; '.join(
            '%s -> %s' % (k.split(':')[-1], ', '.join(h.split(':')[-1] for h in progs[k]['helpers'])) for k in nh[:8]))
    ctx.obligation('function count did not shrink (%d committed)' % len(data['functions']),
                   all('%s:%s' % (f['file'], f['name']) in progs or '%s:%s' % (f['file'], f['name']) in broken_models for f in data['functions'])
                   and not any(v.startswith('function or its') for v in broken_models.values()), 'translator',
                   '; '.join(k for k, v in broken_models.items() if v.startswith('function or its')))

    # ---- (6) name semantics: every declared parameter is handed to the committed keyword ------------------
    names_failed = name_semantics(ctx, data, progs)

    # ---- (2) Coq obligations -----------------------------------------------------------------------
    wf_cases, wf_meta = [], {}
    for k, (key, r) in enumerate(sorted(progs.items())):
        names = r['param_names']
        A = M.assum_of(names)
        exp_ineff = data.get('ineffective_params', {}).get(r['name'], [])
        exp_idx = sorted(names.index(x) for x in exp_ineff if x in names)
        wf_cases.append((k, '(%d, %s, %s, %s, %s)' % (len(names), M.coq_nats(r['unpacked']), M.coq_assum(A), M.coq_prog(r['prog']), M.coq_nats(exp_idx))))
        wf_meta[k] = key
    wf_check = ('(fun c => match c with (n, unp, A, p, ineff) => '
                '(params_match_names n unp p && scalars_tfree p && '
                'list_eqb Nat.eqb (filter (fun i => negb (mem i (vars_prog (norm A p)))) (seq 0 n)) ineff, 0%Z) end)')
    wf_res = ctx.coq_cases('wf', HEADER, wf_cases, wf_check, 'exact (boolean)', shard=40) if wf_cases else {}
    wf_failed = {}
    for k, key in wf_meta.items():
        ok = wf_res.get(k, (False, 0))[0]
        ctx.obligation('wf:%s params_match_names, scalar positions time-free, effective parameters as committed' % key, ok, 'translator',
                       '' if ok else diagnose_wf(progs[key], data))
        if not ok:
            wf_failed[key] = diagnose_wf(progs[key], data)

    pair_cases, pair2_cases, pair_meta, pair_sg = [], [], {}, {}
    for k, pr in enumerate(data['pairs']):
        if pr['complex'] not in progs or pr['simple'] not in progs:
            ctx.obligation('nest:%s' % pr['id'], False, 'translator', 'a model of the pair could not be translated')
            continue
        c, s = progs[pr['complex']], progs[pr['simple']]
        try:
            su = K.pair_setup(pr, c['param_names'], s['param_names'])
        except (KeyError, ValueError) as e:
            ctx.obligation('nest:%s' % pr['id'], False, 'translator', 'nesting point does not fit the current parameter names: %r' % (e,))
            if pr.get('expect') == 'finding':
                ctx.obligations[-1]['known_key'] = pr.get('key')      # e.g. the simple model lacks the parameter altogether
            else:
                ctx.violation('nesting pair %s cannot be formed with the current parameter names: %r' % (pr['id'], e), data={'pair': pr},
                              key=None, no_input=True, broken='nest:%s' % pr['id'])
            continue
        pair_sg[pr['id']] = su
        if su['two_sided']:
            pair2_cases.append((k, '(%s, %s, %s, %s, %s)' % (M.coq_assum(su['A']), M.coq_list([M.coq_expr(e) for e in su['sgc']]),
                                                              M.coq_list([M.coq_expr(e) for e in su['sgs']]), M.coq_prog(c['prog']), M.coq_prog(s['prog']))))
        else:
            pair_cases.append((k, '(%s, %s, %s, %s)' % (M.coq_assum(su['A']), M.coq_list([M.coq_expr(e) for e in su['sgc']]), M.coq_prog(c['prog']), M.coq_prog(s['prog']))))
        pair_meta[k] = pr
    nest_check = '(fun c => match c with (A, sg, pc, ps) => (nests A sg pc ps, 0%Z) end)'
    nest_res = ctx.coq_cases('nest', HEADER, pair_cases, nest_check, 'exact (boolean)', shard=32) if pair_cases else {}
    nest2_check = '(fun c => match c with (A, sgc, sgs, pc, ps) => (nests2 A sgc sgs pc ps, 0%Z) end)'
    nest_res = dict(nest_res)
    nest_res.update(ctx.coq_cases('nest2', HEADER, pair2_cases, nest2_check, 'exact (boolean)', shard=32) if pair2_cases else {})
    ctx.count('nesting_pairs_one_sided', len(pair_cases)); ctx.count('nesting_pairs_two_sided', len(pair2_cases))
    nest_ok = {}
    for k, pr in pair_meta.items():
        ok = nest_res.get(k, (False, 0))[0]
        nest_ok[pr['id']] = ok
        if pr.get('expect') == 'finding':
            # a promised nesting the code does not deliver: the obligation is expected to fail; it stays in the list
            o = ctx.obligation('nest:%s' % pr['id'], ok, 'translator', '' if ok else 'committed finding %s' % pr.get('key'))
            ctx.obligations[-1]['known_key'] = pr.get('key')
        else:
            ctx.obligation('nest:%s' % pr['id'], ok, 'translator', '' if ok else diagnose_pair(pr, progs, pair_sg[pr['id']]))

    sym_cases, sym_meta = [], {}
    for k, sm in enumerate(data['symmetric']):
        if sm['model'] not in progs:
            ctx.obligation('equiv:%s' % sm['model'], False, 'translator', 'model could not be translated')
            continue
        r = progs[sm['model']]
        names = r['param_names']
        try:
            sg = [parse_point_value(sm['exchange'][n], names) for n in names]
        except (KeyError, ValueError) as e:
            ctx.obligation('equiv:%s' % sm['model'], False, 'translator', 'exchange map does not fit the current names: %r' % (e,))
            continue
        perms = [[]] + [sm['perm'].get(str(d), list(range(d))) for d in range(1, 4)]
        pm = '(fun d => nth d %s [])' % M.coq_list([M.coq_nats(p) for p in perms])
        sym_cases.append((k, '(%s, %s, %s, %s)' % (M.coq_assum(M.assum_of(names)), pm, M.coq_list([M.coq_expr(e) for e in sg]), M.coq_prog(r['prog']))))
        sym_meta[k] = (sm, sg)
    sym_check = '(fun c => match c with (A, pm, sg, p) => (equivariant A pm sg p, 0%Z) end)'
    sym_res = ctx.coq_cases('equiv', HEADER, sym_cases, sym_check, 'exact (boolean)', shard=16) if sym_cases else {}
    sym_ok = {}
    for k, (sm, sg) in sym_meta.items():
        ok = sym_res.get(k, (False, 0))[0]
        sym_ok[sm['model']] = ok
        ctx.obligation('equiv:%s program invariant under label exchange with exchanged parameters' % sm['model'], ok, 'translator')
    ctx.checker_cmds.append('translator harness/translate/models_dsl.py over dadi/Demographics{1,2,3}D.py, PortikModels/*.py, DFE/DemogSelModels.py')

    # ---- (4) mutation adequacy of the committed list (Python mirror; cross-checked against Coq) -----------------
    adequacy(ctx, data, progs, broken_models, wf_res, wf_meta, nest_ok, sym_ok)

    # ---- (5) concrete semantics: run_prog on the translated programs == the real functions ---------------------
    if os.environ.get('C15_SKIP_CONCRETE') != '1':
        if os.path.exists(os.path.join(lib.THEORIES, 'Props', 'C15Concrete.v')) and not ctx.replay:
            n_static = ctx.stats.get('static_theorems', 0)
            ctx.check_props_file(os.path.join('Props', 'C15Concrete.v'))
            ctx.stats['static_theorems'] = n_static + ctx.stats.get('static_theorems', 0)
        concrete(ctx, progs, len(progs) + len(broken_models))
    if os.environ.get('C15_ONLY_CONCRETE') == '1':        # development only
        return

    # ---- (3) numerical predicates on the implementation ------------------------------------------------
    rng = ctx.rng
    jobs = []
    meta = {}
    budget = ctx.pick(4000, 15000)
    sfs = [(key, r) for key, r in sorted(progs.items()) if r['kind'] == 'sfs']
    msc = [(key, r) for key, r in sorted(progs.items()) if r['kind'] == 'mscore']
    # functions that could not be translated are still run (by name) so that a failing input can be shown
    nvec = ctx.pick(3, 6)
    def grid_for(d, fine=False):
        if d >= 3:
            return (rng.choice([12, 14]), [24, 40])
        if d == 2:
            return (rng.choice([16, 20, 24]), [44, 88])
        return (rng.choice([16, 20, 24]), [48, 96, 192])
    for key, r in sfs:
        d = dims_of(r['prog'])
        names = r['param_names']
        for v in range(nvec):
            p = gen_params(rng, names, budget if d < 3 else budget // 2, Tmax=3.0)
            ns = [rng.choice([4, 5, 6]) for _ in range(d)]
            if uses_inbreeding(r['prog']):
                ns = [rng.choice([4, 6]) for _ in range(d)]      # sample sizes must be multiples of the ploidy (2)
            pts, refine = grid_for(d)
            jid = 'model|%s|%d' % (key, v)
            jobs.append({'id': jid, 'kind': 'model', 'file': r['file'], 'name': r['name'], 'params': p, 'ns': ns, 'pts': pts,
                         'refine': refine, 'negtol': NEG_TOL, '_cost': (pts ** d) * 3})
            meta[jid] = (key, r, p, ns, pts)
        p = gen_params(rng, names, 50, Tmax=0.05)
        jid = 'arity|%s' % key
        jobs.append({'id': jid, 'kind': 'arity', 'file': r['file'], 'name': r['name'], 'params': p, 'ns': [4] * d, 'pts': 10 if d == 3 else 12, '_cost': 5})
        meta[jid] = (key, r, p, [4] * d, 12)
    for key, r in msc:
        p = gen_params(rng, r['param_names'], 100)
        jobs.append({'id': 'mscore|%s' % key, 'kind': 'mscore', 'file': r['file'], 'name': r['name'], 'params': p, '_cost': 1})
        meta['mscore|%s' % key] = (key, r, p, None, None)
        jobs.append({'id': 'arity|%s' % key, 'kind': 'arity', 'file': r['file'], 'name': r['name'], 'params': p, 'mscore': True, '_cost': 1})
        meta['arity|%s' % key] = (key, r, p, None, None)
    for key, why in broken_models.items():
        # a model that is gone / untranslatable: try to call it with the committed number of parameters
        fn = [f for f in data['functions'] if '%s:%s' % (f['file'], f['name']) == key]
        if fn and fn[0]['kind'] == 'sfs':
            names = fn[0]['param_names']
            p = gen_params(rng, names, 200)
            dd = 3 if '3d' in fn[0]['file'].lower() else 2 if '2d' in fn[0]['file'].lower() else 1
            for d in ([dd] if 'DFE' not in fn[0]['file'] else [1, 2]):
                jid = 'model|%s|b%d' % (key, d)
                jobs.append({'id': jid, 'kind': 'model', 'file': fn[0]['file'], 'name': fn[0]['name'], 'params': p, 'ns': [4] * d, 'pts': 12, '_cost': 10})
                meta[jid] = (key, {'name': fn[0]['name'], 'file': fn[0]['file'], 'param_names': names, 'broken': why}, p, [4] * d, 12)

    # a model that failed the well-formedness obligation: look for a parameter without any effect on the result
    for key, why in wf_failed.items():
        r = progs[key]
        if r['kind'] != 'sfs':
            continue
        names = r['param_names']; d = dims_of(r['prog'])
        if len(r['unpacked']) != len(names):
            continue          # arity mismatch: the model run itself demonstrates it
        A = M.assum_of(names)
        nv = M.prog_vars(N.norm(A, r['prog']))
        exp = data.get('ineffective_params', {}).get(r['name'], [])
        for i, nme in enumerate(names):
            if i in nv or nme in exp:
                continue
            p = gen_params(rng, names, 600)
            q = list(p); q[i] = (p[i] + 1.0) * 1.37 if M.kind_of(nme) != 'frac' else (0.3 if p[i] > 0.5 else 0.7)
            jid = 'probe|%s|%s' % (key, nme)
            jobs.append({'id': jid, 'kind': 'pair', 'cfile': r['file'], 'cname': r['name'], 'sfile': r['file'], 'sname': r['name'],
                         'cparams': q, 'sparams': p, 'ns': [4] * d, 'pts': 12 if d >= 3 else 16, '_cost': 100})
            meta[jid] = (key, nme, p, q, None)

    # nesting pairs: every committed pair in both tiers (they are cheap: small grids, short times)
    committed_names = {'%s:%s' % (f['file'], f['name']): list(f['param_names']) for f in data['functions']}
    def names_of(mk):
        return progs[mk]['param_names'] if mk in progs else committed_names.get(mk)
    def guess_dims(mk):
        """number of populations of a model; for a model that could not be translated: that of a committed nesting partner, else
        read off the file name / the committed parameter names"""
        if mk in progs:
            return dims_of(progs[mk]['prog'])
        # both sides of a nesting have the same number of populations: follow the committed pairs to a translated model
        todo, seen_ = [mk], {mk}
        while todo:
            cur = todo.pop(0)
            for pr in data['pairs']:
                for a, b in ((pr['complex'], pr['simple']), (pr['simple'], pr['complex'])):
                    if a == cur and b not in seen_:
                        if b in progs:
                            return dims_of(progs[b]['prog'])
                        seen_.add(b); todo.append(b)
        low = mk.lower(); nm = committed_names.get(mk) or []
        if '3d' in low: return 3
        if '2d' in low: return 2
        if '1d' in low: return 1
        return 2 if any(re.fullmatch(r'm12|m21|nu2\w*|s', x) for x in nm) else 1
    def inbreeding(mk):
        return uses_inbreeding(progs[mk]['prog']) if mk in progs else True       # unknown: even sample sizes suit both
    def file_name(mk):
        rel, nm = mk.rsplit(':', 1)
        return rel, nm
    def add_pair_job(pr, su, tag, rg, q, cost_mult=1):
        d = guess_dims(pr['simple'])
        if su['two_sided']:
            # times as multiples of 2^-10 (sums/differences of times at the point are then exact in floating point);
            # a time / rate the pair assumes > 0 is kept > 0
            for i, n in enumerate(su['common']):
                if n.startswith('T'):
                    q[i] = round(q[i] * 1024) / 1024.0
                if i in su['A']['pos'] and M.kind_of(n) == 'nonneg' and q[i] <= 0:
                    q[i] = 1 / 1024.0
        ps = [N.evaluate(e, q) for e in su['sgs']]
        pc = [N.evaluate(e, q) for e in su['sgc']]
        ns = [rg.choice([4, 5]) for _ in range(d)]
        if inbreeding(pr['complex']) or inbreeding(pr['simple']):
            ns = [rg.choice([4, 6]) for _ in range(d)]       # sample sizes must be multiples of the ploidy (2)
        pts = rg.choice([12, 14]) if d >= 3 else rg.choice([16, 20])
        jid = 'pair|%s|%s' % (pr['id'], tag)
        (cf, cn), (sf, sn) = file_name(pr['complex']), file_name(pr['simple'])
        jobs.append({'id': jid, 'kind': 'pair', 'cfile': cf, 'cname': cn, 'sfile': sf, 'sname': sn,
                     'cparams': pc, 'sparams': ps, 'ns': ns, 'pts': pts, '_cost': 2 * (pts ** d) * 2})
        meta[jid] = (pr, ps, pc, ns, pts)
    pairs = [pr for pr in data['pairs'] if pr['id'] in pair_sg]
    for pr in pairs:
        c, s = progs[pr['complex']], progs[pr['simple']]
        su = pair_sg[pr['id']]
        d = dims_of(s['prog'])
        # a model whose name semantics changed: its nestings are the search for a failing input -- two extra vectors that keep
        # the common parameters feeding the parameters concerned well apart (from a stream of their own)
        concerned = concerned_commons(su, c, s, pr, names_failed)
        nbase = ctx.pick(1, 2)
        for v in range(nbase + (2 if concerned is not None else 0)):
            # one vector of the COMMON parameters (= the simple model's parameters for a one-sided pair); both models are run at
            # their side of the nesting point
            rg = rng if v < nbase else random.Random('C15-names-%d-%s-%d' % (ctx.seed, pr['id'], v))
            q = gen_params(rg, su['common'], budget // 2 if d < 3 else budget // 4)
            if v >= nbase:
                spread_apart(q, su['common'], concerned, v - nbase)
            add_pair_job(pr, su, '%d' % v, rg, q)
    # symmetric models
    def add_sym_job(sm, names, d, tag, p):
        sg = [parse_point_value(sm['exchange'][n], names) for n in names]
        # moderate migration so that the splitting error is visible but the coarse grid still resolves the model
        p = [min(v, 3.0) if n.startswith('m') else v for n, v in zip(names, p)]
        p2 = [N.evaluate(e, p) for e in sg]
        ns = [4, 6, 5][:d]
        perm = sm['perm'].get(str(d), list(range(d)))
        jid = 'sym|%s%s' % (sm['model'], tag)
        rel, nm = file_name(sm['model'])
        jobs.append({'id': jid, 'kind': 'sym', 'file': rel, 'name': nm, 'params': p, 'params2': p2, 'ns': ns, 'perm': perm,
                     'pts': 12 if d >= 3 else 16, 'tfs': [1e-3, 1.5625e-5], '_cost': 12 * ((12 if d >= 3 else 16) ** d)})
        meta[jid] = (sm, p, p2, ns, perm)
    syms = [sm for sm in data['symmetric'] if sm['model'] in progs]
    for sm in syms:
        r = progs[sm['model']]
        names = r['param_names']
        d = dims_of(r['prog'])
        try:
            [parse_point_value(sm['exchange'][n], names) for n in names]
        except (KeyError, ValueError):
            continue
        add_sym_job(sm, names, d, '', gen_params(rng, names, 300 if d < 3 else 150))

    # ---- SEARCH after a broken translation / obligation -------------------------------------------------------------------
    # a model that could not be translated, or one of whose obligations (well-formedness, a committed nesting, the label
    # exchange, the name semantics) fails on the current source: EVERY committed nesting of that model (as complex and as
    # simple side; for a model without translation the committed parameter names stand in) and its committed symmetry are
    # evaluated on the real code at further GENERIC vectors (sizes a factor >= 2 away from 1, fractions away from 1/2, rates
    # and selection coefficients non-zero and pairwise different, times never ~0) before "no failing input found" is said
    suspects = {}
    for key, why in broken_models.items():
        suspects[key] = why
    for key, why in wf_failed.items():
        suspects.setdefault(key, 'well-formedness obligation fails')
    for pr in data['pairs']:
        if pr.get('expect') != 'finding' and pr['id'] in nest_ok and not nest_ok[pr['id']]:
            for mk in (pr['complex'], pr['simple']):
                suspects.setdefault(mk, 'nesting obligation %s fails' % pr['id'])
    for sm in data['symmetric']:
        if sm['model'] in sym_ok and not sym_ok[sm['model']]:
            suspects.setdefault(sm['model'], 'label-exchange obligation fails')
    for key in names_failed:
        suspects.setdefault(key, 'name semantics changed')
    search_pairs = [pr for pr in data['pairs'] if pr.get('expect') != 'finding' and (pr['complex'] in suspects or pr['simple'] in suspects)]
    search_syms = [sm for sm in data['symmetric'] if sm['model'] in suspects]
    nsearch = 3 if len(search_pairs) <= 60 else 2 if len(search_pairs) <= 140 else 1
    searched = {}           # model key -> number of search jobs planned for it
    for pr in search_pairs:
        cn_, sn_ = names_of(pr['complex']), names_of(pr['simple'])
        if cn_ is None or sn_ is None:
            continue
        su = pair_sg.get(pr['id'])
        if su is None:
            try:
                su = K.pair_setup(pr, cn_, sn_)
            except (KeyError, ValueError):
                continue           # already reported: the point does not fit the current names
        d = guess_dims(pr['simple'])
        for v in range(nsearch):
            rg = random.Random('C15-search-%d-%s-%d' % (ctx.seed, pr['id'], v))
            q = gen_generic(rg, su['common'], budget // 2 if d < 3 else budget // 4, v)
            add_pair_job(pr, su, 's%d' % v, rg, q)
            for mk in (pr['complex'], pr['simple']):
                if mk in suspects:
                    searched[mk] = searched.get(mk, 0) + 1
    for sm in search_syms:
        names = names_of(sm['model'])
        if names is None:
            continue
        d = guess_dims(sm['model'])
        try:
            [parse_point_value(sm['exchange'][n], names) for n in names]
        except (KeyError, ValueError):
            continue
        for v in range(nsearch):
            rg = random.Random('C15-search-%d-%s-%d' % (ctx.seed, sm['model'], v))
            add_sym_job(sm, names, d, '|s%d' % v, gen_generic(rg, names, 300 if d < 3 else 150, v))
            searched[sm['model']] = searched.get(sm['model'], 0) + 1
    if suspects:
        ctx.count('search: models with a broken translation or obligation', len(suspects))
        ctx.count('search: nesting pairs re-run at generic vectors', len(search_pairs) * nsearch)
        ctx.count('search: symmetries re-run at generic vectors', len(search_syms) * nsearch)
        ctx.notes.append('search after broken translation / obligations: %d model(s) (%s); %d committed nestings and %d symmetries of them at %d generic vectors each' % (
            len(suspects), '; '.join('%s: %s' % (k.split(':')[-1], w[:60]) for k, w in sorted(suspects.items())[:6]), len(search_pairs), len(search_syms), nsearch))

    if ctx.replay:
        rp = json.load(open(ctx.replay))
        inp = rp.get('input') or {}
        if isinstance(inp, dict) and inp.get('job') and inp['job'].get('kind') == 'concrete':
            # replay of a concrete-semantics case (already re-run above): of the numerical plan keep only the pairs committed as
            # findings, so that the obligations they explain are reported as known findings
            jobs = [jb for jb in jobs if jb['kind'] == 'pair' and meta[jb['id']][0].get('expect') == 'finding']
            meta = {jb['id']: meta[jb['id']] for jb in jobs}
        elif isinstance(inp, dict) and inp.get('job'):
            j = dict(inp['job'])
            # the replayed job (its meta entry is re-used if it is part of this run's plan, else minimal), and the pairs committed
            # as findings, so that the obligations they explain are reported as known findings
            keep = [jb for jb in jobs if jb['kind'] == 'pair' and jb['id'] != j['id'] and meta[jb['id']][0].get('expect') == 'finding']
            meta = dict({jb['id']: meta[jb['id']] for jb in keep}, **{j['id']: meta.get(j['id'])})
            jobs = keep + [j]
    t_num = time.time()
    res = run_jobs(jobs)
    ctx.notes.append('numerical jobs: %d in %.1fs' % (len(jobs), time.time() - t_num))
    jobs_by_id = {j['id']: {k: v for k, v in j.items() if not k.startswith('_')} for j in jobs}

    worst_neg = 0.0; coarse_neg = 0; worst_pair = 0.0
    models_with_input = set()       # models involved in a nesting violation that carries a failing input
    for jid, r in sorted(res.items()):
        kind = jid.split('|')[0]
        m = meta.get(jid)
        job = jobs_by_id[jid]
        if m is None:      # replay of a job that is not part of the plan: judge it by kind only
            m = (None,) * 5
        if kind == 'model':
            key, rr, p, ns, pts = m if m[0] is not None else (jid.split('|')[1], {'name': job['name'], 'param_names': []}, job['params'], job['ns'], job['pts'])
            name = rr['name']
            ctx.count('model_runs'); ctx.count('dim=%d' % len(ns))
            ctx.case(signature=(key, tuple(p)), sample={'model': key, 'params': p, 'ns': ns, 'pts': pts, 'result': {k: v for k, v in r.items() if k != 'tries'} | {'tries': r.get('tries', [])[:1]}})
            if 'error' in r:
                k2 = 'model-raises:%s' % name
                ok = False
                ctx.obligation('run %s' % jid, False, 'predicate', r['error'])
                ctx.violation('%s(%d parameters = len(__param_names__)=%s, ns=%s, pts=%d) raised %s' % (name, len(p), r.get('names_len'), ns, pts, r['error']),
                              data={'job': job, 'result': r}, key=k2)
                continue
            tries = r['tries']; last = tries[-1]; first = tries[0]
            bad = []
            if not first['is_spectrum']: bad.append('result is %s, not a Spectrum' % first['type'])
            if not first['shape_ok']: bad.append('shape %s for ns=%s' % (first['shape'], ns))
            if not last['finite']: bad.append('non-finite entries')
            if first['extrap_x'] is None: bad.append('extrap_x not set')
            elif not first.get('extrap_x_is_grid_spacing', True): bad.append('extrap_x is not the first grid spacing')
            if not first['mask_is_corners']: bad.append('mask is not exactly the two corners')
            if first.get('folded'): bad.append('folded')
            if r.get('names_len') != len(p): bad.append('len(__param_names__)=%s' % r.get('names_len'))
            if last['finite'] and first['min'] is not None and first['min'] < -NEG_TOL * first['max']:
                coarse_neg += 1
                ctx.count('coarse_grid_negative_entries')
            if last['finite'] and last['min'] is not None:
                negs = [max(0.0, -t['min'] / t['max']) if t['max'] else 0.0 for t in tries]
                worst_neg = max(worst_neg, negs[-1])
                if negs[-1] > NEG_TOL:
                    # still negative on the finest grid: discretisation error shrinks under refinement (observed factor
                    # 0.25-0.5 per doubling of the grid); anything that does not shrink, or is gross, is a violation
                    shrinking = len(negs) >= 2 and all(b <= 0.6 * a for a, b in zip(negs[:-1], negs[1:])) and negs[-1] < 1e-3
                    if shrinking:
                        ctx.count('negative entries shrinking under grid refinement (discretisation error)')
                    else:
                        bad.append('negative entry %.3g (max %.3g) on the finest grid pts=%d, not shrinking under refinement: %s' % (
                            last['min'], last['max'], last['pts'], ['%.2e' % x for x in negs]))
            ok = not bad
            ctx.obligation('run %s: Spectrum of shape ns+1, finite, non-negative, extrap_x set, corners masked' % jid, ok, 'predicate', '; '.join(bad))
            if not ok:
                what = 'spectrum:%s:%s' % (name, 'negative' if any('negative' in b for b in bad) else 'nonfinite' if any('finite' in b for b in bad) else 'malformed')
                ctx.violation('%s%r ns=%s pts=%d: %s' % (name, tuple(p), ns, pts, '; '.join(bad)), data={'job': job, 'result': r}, key=what)
        elif kind == 'arity':
            key, rr, p, ns, pts = m if m[0] is not None else (jid.split('|')[1], {'name': job['name'], 'param_names': job['params'], 'index_style': False}, job['params'], None, None)
            name = rr['name']
            n = len(rr['param_names'])
            exempt = rr.get('index_style') or n == 0       # params[0]-style access and the `notused` placeholder do not reject longer vectors
            bad = []
            if 'error' in r:
                bad.append(r['error'])
            else:
                if r['short'] == 'accepted': bad.append('accepts %d parameters' % (n - 1))
                if r['long'] == 'accepted' and not exempt: bad.append('accepts %d parameters' % (n + 1))
                if r['long'] == 'accepted' and exempt: ctx.count('index-style or placeholder parameter access (longer vectors not rejected)')
            ctx.obligation('arity %s: rejects %d and %d parameters' % (key, n - 1, n + 1), not bad, 'predicate', '; '.join(bad))
            ctx.case()
            if bad:
                ctx.violation('%s names %d parameters but %s' % (name, n, '; '.join(bad)), data={'job': job, 'result': r}, key='arity:%s' % name)
        elif kind == 'mscore':
            key, rr, p, _, _ = m if m[0] is not None else (jid.split('|')[1], {'name': job['name'], 'param_names': job['params']}, job['params'], None, None)
            ok = 'error' not in r and r.get('type') == 'str' and r.get('nonempty') and r.get('names_len') == len(p)
            ctx.obligation('run %s: returns a command string for len(__param_names__) parameters' % jid, ok, 'predicate', r.get('error', ''))
            ctx.case()
            if not ok:
                ctx.violation('%s(%d parameters) -> %s' % (rr['name'], len(p), r.get('error') or r), data={'job': job, 'result': r}, key='model-raises:%s' % rr['name'])
        elif kind == 'pair':
            pr, ps, pc, ns, pts = m if m[0] is not None else ({'id': jid.split('|')[1], 'complex': job['cname'], 'simple': job['sname']}, job['sparams'], job['cparams'], job['ns'], job['pts'])
            ctx.count('pair_runs')
            ctx.case(signature=(pr['id'], tuple(ps)))
            fnd = pr.get('expect') == 'finding'
            if 'error' in r:
                ctx.obligation('numeric %s' % jid, False, 'predicate', r['error'])
                ctx.violation('nesting pair %s: %s' % (pr['id'], r['error']), data={'job': job, 'result': r}, key=pr.get('key') if fnd else 'nesting:%s' % pr['id'])
                continue
            rel = r['rel']
            ok = rel <= PAIR_TOL and r.get('mask_equal', True)
            if not fnd:
                worst_pair = max(worst_pair, rel)
            o = ctx.obligation('numeric %s: complex at the nesting point == simple (1e-10 rel.)' % jid, ok, 'predicate', '' if ok else 'rel. difference %.3g' % rel)
            if fnd:
                ctx.obligations[-1]['known_key'] = pr.get('key')
            if not ok:
                cn = pr['complex'].split(':')[-1]; sn = pr['simple'].split(':')[-1]
                at = '%s' % {k: v for k, v in pr.get('point', {}).items() if k != v}
                if pr.get('simple_point'):
                    at += ' with %s at %s' % (sn, {k: v for k, v in pr['simple_point'].items() if k != v})
                byname = {}
                for side, mk, vec in (('complex', pr['complex'], pc), ('simple', pr['simple'], ps)):
                    nm_ = names_of(mk)
                    if nm_ is not None and len(nm_) == len(vec):
                        byname[side] = dict(zip(nm_, vec))
                sem = '; '.join('%s: %s' % (mk.split(':')[-1], names_failed[mk]['msg']) for mk in dict.fromkeys((pr['complex'], pr['simple'])) if mk in names_failed)
                vkey = pr.get('key') if fnd else 'nesting:%s' % pr['id']
                for mk in (pr['complex'], pr['simple']):
                    if not fnd:
                        models_with_input.add(mk)
                if jid.split('|')[-1].startswith('s') and any(v['key'] == vkey and not v['no_input'] for v in ctx.violations):
                    ctx.count('search: further failing vectors of a nesting already reported')
                    continue
                ctx.violation('%s%r differs from %s%r by %.3g of the largest entry (ns=%s, pts=%d): %s is not nested at %s%s%s' % (
                              cn, tuple(pc), sn, tuple(ps), rel, ns, pts, sn, at,
                              ' [parameters by name: %s(%s) vs %s(%s)]' % (cn, ', '.join('%s=%r' % kv for kv in byname['complex'].items()),
                                                                           sn, ', '.join('%s=%r' % kv for kv in byname['simple'].items())) if len(byname) == 2 else '',
                              ' [name semantics changed: %s]' % sem if sem else ''),
                              data={'job': job, 'result': r, 'pair': pr, 'params_by_name': byname}, key=vkey)
        elif kind == 'probe':
            key, nme, p, q, _ = m if m[0] is not None else (jid.split('|')[1], jid.split('|')[2], job['sparams'], job['cparams'], None)
            name = key.split(':')[-1]
            ctx.case()
            same = 'error' not in r and r.get('rel') == 0.0
            ctx.obligation('probe %s: changing %s changes the spectrum' % (key, nme), not same, 'predicate')
            if same:
                ctx.violation('%s: parameter %s has no effect: %r and %r give the identical spectrum' % (name, nme, tuple(p), tuple(q)),
                              data={'job': job, 'result': r}, key='ineffective-param:%s:%s' % (name, nme))
        elif kind == 'sym':
            sm, p, p2, ns, perm = m if m[0] is not None else ({'model': jid.split('|')[1]}, job['params'], job['params2'], job['ns'], job['perm'])
            ctx.count('symmetry_runs')
            ctx.case(signature=(sm['model'], tuple(p)))
            if 'error' in r or len(r.get('rel', [])) != 2:
                ctx.obligation('numeric %s' % jid, False, 'predicate', r.get('error', 'incomplete'))
                ctx.violation('symmetric model %s under label exchange: %s' % (sm['model'], r.get('error')), data={'job': job, 'result': r}, key='symmetry:%s' % sm['model'].split(':')[-1])
                continue
            e1, e2 = r['rel']
            ok = e2 < 1e-9 or (e2 <= 0.35 * e1 and e1 < 0.05)
            ctx.count('symmetry exact (<1e-9)' if e1 < 1e-9 else 'symmetry up to splitting error')
            if e1 > 0:
                ctx.stats['worst_symmetry_error_ratio'] = max(ctx.stats.get('worst_symmetry_error_ratio', 0.0), e2 / e1)
            ctx.obligation('numeric %s: label exchange = transposed spectrum up to a splitting error that shrinks with the time step' % jid, ok, 'predicate',
                           'errors %.3g (timescale_factor 1e-3), %.3g (1.5625e-5)' % (e1, e2))
            if not ok:
                models_with_input.add(sm['model'])
                if jid.split('|')[-1].startswith('s') and any(v['key'] == 'symmetry:%s' % sm['model'].split(':')[-1] and not v['no_input'] for v in ctx.violations):
                    ctx.count('search: further failing vectors of a symmetry already reported')
                    continue
                ctx.violation('%s%r with labels exchanged (%r, ns permuted by %s) differs from the transposed spectrum by %.3g at timescale_factor=1e-3 and %.3g at 1.5625e-5: not a splitting error' % (
                              sm['model'].split(':')[-1], tuple(p), tuple(p2), perm, e1, e2), data={'job': job, 'result': r}, key='symmetry:%s' % sm['model'].split(':')[-1])
    ctx.stats['worst_negative_over_max_on_finest_grid'] = worst_neg
    ctx.stats['coarse_grid_negative_runs'] = coarse_neg
    ctx.stats['worst_nesting_pair_rel_difference'] = worst_pair
    if worst_pair > 0:
        ctx.err('nesting pair', int(math.floor(math.log2(worst_pair))), 'tol 1e-10 relative to the largest entry')

    # ---- broken obligations without a numerical counterpart -------------------------------------------
    viol_keys = {v['key'] for v in ctx.violations if not v['no_input']}
    def searched_note(key):
        n = searched.get(key, 0)
        return (' (searched: %d runs of its committed nestings / symmetry at generic parameter vectors, sizes away from 1 - none fails)' % n) if n else \
               ' (no committed nesting or symmetry involves this model)'
    for key, why in broken_models.items():
        name = key.split(':')[-1]
        if key not in models_with_input and not any(k and re.search(r'(^|[:>~])%s([#:>~]|$)' % re.escape(name), k) for k in viol_keys):
            ctx.violation('model %s: %s%s' % (key, why, searched_note(key)), data={'model': key, 'reason': why}, key=None, no_input=True, broken='translate %s' % key)
    for key, why in wf_failed.items():
        name = key.split(':')[-1]
        viol_keys = {v['key'] for v in ctx.violations}
        if not any(k and k.endswith(':' + name) or (k and (':' + name + ':') in k) for k in viol_keys):
            # well-formedness broken although every numerical predicate passed: search result is negative
            ctx.violation('model %s is not well-formed: %s' % (key, why), data={'model': key, 'reason': why}, key='wf:%s' % name,
                          no_input=True, broken='wf:%s' % key)
    for pr in data['pairs']:
        if pr['id'] in nest_ok and not nest_ok[pr['id']] and pr.get('expect') != 'finding':
            if not any(v['key'] == 'nesting:%s' % pr['id'] for v in ctx.violations):
                ctx.violation('nesting obligation %s no longer checks: %s' % (pr['id'], diagnose_pair(pr, progs, pair_sg[pr['id']])),
                              data={'pair': pr}, key=None, no_input=True, broken='nest:%s' % pr['id'])
    for sm in data['symmetric']:
        if sm['model'] in sym_ok and not sym_ok[sm['model']]:
            if not any(v['key'] == 'symmetry:%s' % sm['model'].split(':')[-1] for v in ctx.violations):
                ctx.violation('program of %s is no longer invariant under the committed label exchange' % sm['model'], data={'symmetric': sm},
                              key=None, no_input=True, broken='equiv:%s' % sm['model'])
    for key, nf in sorted(names_failed.items()):
        name = key.split(':')[-1]; why = nf['msg']
        if key not in models_with_input and not any(v['key'] and name in v['key'] and not v['no_input'] for v in ctx.violations):
            # the search (every committed nesting of the model, run at the extra vectors too) found no failing input
            ctx.violation('name semantics of %s changed: %s' % (key, why), data={'model': key, 'difference': why}, key='names:%s' % name,
                          no_input=True, broken='names:%s' % key)

# ------------------------------------------------------------------------------------------------
# (6) name semantics
def name_semantics(ctx, data, progs):
    """-> {model key: {'msg': description of the difference, 'params': names of the parameters concerned}}.  One obligation per function: the keyword every declared parameter is handed
    to is the committed one (functions outside the table: the naming conventions themselves)"""
    try:
        nd = json.load(open(NAMES))
        table = nd['table']; cexc = nd.get('convention_exceptions', {}); uexc = nd.get('unpack_exceptions', {})
    except (OSError, ValueError, KeyError) as e:
        ctx.obligation('name-semantics table harness/props/c15_names.json readable', False, 'translator', repr(e))
        ctx.violation('the committed name-semantics table cannot be read: %r' % (e,), no_input=True, broken='c15_names.json')
        return {}
    failed = {}
    committed = {'%s:%s' % (f['file'], f['name']) for f in data['functions']}
    missing = sorted(k for k in committed if k not in table)
    ctx.obligation('name-semantics table covers the %d committed functions' % len(committed), not missing, 'translator', '; '.join(missing[:6]))
    nconv = 0
    for key, r in sorted(progs.items()):
        cur = K.name_table(r)
        msgs = []; conc = []
        um = [list(x) for x in K.unpack_mismatch(r)]
        if um != uexc.get(key, []):
            conc += [b for k, a, b in um if b is not None]
            msgs.append('the unpacking binds %s where __param_names__ says %s' % (
                ', '.join('%s (position %d)' % (a, k) for k, a, b in um) or 'nothing unusual', ', '.join('%s' % b for k, a, b in um) or 'the same'))
        if key in table:
            com = table[key]
            for nme in sorted(set(cur) | set(com), key=lambda x: (r['param_names'].index(x) if x in r['param_names'] else 99)):
                a, b = cur.get(nme), com.get(nme)
                if a != b:
                    conc.append(nme)
                    msgs.append('%s is handed to %s (committed: %s)' % (nme, ', '.join(a) if a else ('nothing' if a is not None else 'absent'),
                                                                     ', '.join(b) if b else ('nothing' if b is not None else 'absent')))
        else:
            for nme, bad in K.convention_breaches(r, cur):
                bad = [u for u in bad if u not in cexc.get(key, {}).get(nme, [])]
                if bad or not cur[nme]:
                    conc.append(nme)
                    msgs.append('new function: %s is handed to %s, not to keyword %s' % (nme, ', '.join(bad) or 'nothing', '/'.join(sorted(K.conventional_keywords(nme)))))
        nconv += sum(1 for n in cur if K.conventional_keywords(n) is not None)
        ok = not msgs
        ctx.obligation('names:%s every declared parameter is handed to the committed keyword of the committed call' % key, ok, 'translator', '; '.join(msgs))
        if not ok:
            failed[key] = {'msg': '; '.join(msgs), 'params': list(dict.fromkeys(conc))}
    ctx.count('name_semantics_functions', len(progs)); ctx.count('name_semantics_conventionally_named_parameters', nconv)
    return failed

SPREAD = {'m': [0.5, 4.0, 2.0, 8.0, 1.0, 6.0], 'nu': [0.3, 3.0, 1.0, 8.0, 0.1, 2.0], 'gamma': [-4.0, 1.0, -1.0, -7.0], 'frac': [0.2, 0.7, 0.45, 0.9]}

def concerned_commons(su, c, s, pr, names_failed):
    """indices of the common parameters of a pair that feed a parameter whose name semantics changed (None: neither model concerned)"""
    if pr['complex'] not in names_failed and pr['simple'] not in names_failed:
        return None
    out = set()
    for mk, r, sg in ((pr['complex'], c, su['sgc']), (pr['simple'], s, su['sgs'])):
        if mk not in names_failed:
            continue
        for i, nme in enumerate(r['param_names']):
            if nme in names_failed[mk]['params'] and i < len(sg):
                out |= M.expr_vars(sg[i])
    return sorted(out)

def spread_apart(q, common, concerned, variant):
    """distinct, well separated values for the concerned common parameters of the same class (times are left as drawn)"""
    seen = {}
    for i in concerned:
        cls = K.var_class(common[i])
        if cls in SPREAD and i < len(q):
            k = seen.get(cls, 0); seen[cls] = k + 1
            vals = SPREAD[cls]
            q[i] = vals[(k + variant) % len(vals)] if variant == 0 else vals[(len(vals) - 1 - k - variant) % len(vals)]

# ------------------------------------------------------------------------------------------------
# (5) concrete semantics of the programs: Model/ProgSem.run_prog against the real library function
CONC_HEADER = '\n'.join(['From Coq Require Import QArith ZArith List Bool.',
                         'From Dadi Require Import Model.DSL Model.ProgSem Model.ProgSemCheck.',
                         'Import ListNotations.', 'Open Scope nat_scope.'])
CONC_TOL = 1e-7
CONC_TF = 0.125          # Integration.timescale_factor of the concrete-semantics runs (dyadic; few time steps per epoch)
CONC_SHARDS = 16

def gen_concrete_params(rng, names, tf, steps):
    """in-bounds parameter vector with dyadic entries (exact in float64 and in the model): nu in [1/4,4], m in [0,4], gamma in [-4,2],
    fractions in [1/8,7/8]; every time <= 1 and short enough that the whole model takes about `steps` time steps at timescale_factor tf"""
    vals = {}
    for n in names:
        k = M.kind_of(n)
        if k == 'pos':
            vals[n] = max(0.25, round(2 ** rng.uniform(-2, 2) * 64) / 64.0)
        elif k == 'frac':
            vals[n] = rng.randint(8, 56) / 64.0
        elif n.startswith('gamma'):
            vals[n] = rng.randint(-64, 32) / 16.0
        elif k == 'nonneg' and not n.startswith('T'):
            vals[n] = rng.randint(0, 64) / 16.0
    nus = [v for n, v in vals.items() if M.kind_of(n) == 'pos'] + [1.0]
    fr = [v for n, v in vals.items() if M.kind_of(n) == 'frac' and n != 'F']
    shrink = min([min(v, 1 - v) for v in fr] + [1.0])       # s and 1-s scale population sizes
    ms = sum(v for n, v in vals.items() if M.kind_of(n) == 'nonneg' and not n.startswith('T'))
    gs = max([abs(v) for n, v in vals.items() if n.startswith('gamma')] + [0.0])
    rate = max(0.25 / (min(nus) * shrink), ms, 0.25 * gs)
    nT = max(1, sum(1 for n in names if n.startswith('T')))
    cap = min(1.0, steps * tf / rate / nT)
    for n in names:
        if n.startswith('T'):
            vals[n] = rng.randint(0, max(1, int(cap * 1024))) / 1024.0
        if n not in vals:
            vals[n] = rng.randint(8, 56) / 64.0
    return [vals[n] for n in names]

def concrete_case_text(r, job, res):
    return ('{| mc_prog := %s; mc_params := %s; mc_pts := %d; mc_grid := %s; mc_ns := %s; mc_tf := %s; mc_mask := %s; mc_impl := %s |}' % (
        M.coq_prog(r['prog']), lib.ql(job['params']), job['pts'], lib.zzl(res['grid']), lib.natl(job['ns']), lib.q(job['tf']),
        lib.bl(res['mask']), lib.zzl(res['data'])))

def concrete(ctx, progs, total_models):
    """every library model with a spectrum: the REAL function and run_prog (NumD, inside Coq) on the program translated from the
    current source, same parameter vector / grid / sample sizes / timescale_factor; all unmasked entries at 1e-7 of the largest"""
    t0 = time.time()
    rng = random.Random('C15-concrete-%d' % ctx.seed)      # own stream: the other parts of the check keep their inputs
    nvec = ctx.pick(1, 3)
    jobs, meta, skipped = [], {}, {}
    for key, r in sorted(progs.items()):
        if r['kind'] != 'sfs':
            skipped[key] = 'returns an ms command string, not a spectrum'
            continue
        d = dims_of(r['prog'])
        for v in range(nvec):
            p = gen_concrete_params(rng, r['param_names'], CONC_TF, 20 if d < 3 else 12)
            if uses_inbreeding(r['prog']):
                ns = [rng.choice([2, 4]) for _ in range(d)]
            else:
                ns = [rng.choice([2, 3, 4]) for _ in range(d)]
            pts = 6 if d >= 3 else rng.choice([6, 7, 8, 9, 10])
            if d >= 3 and not ctx.quick and v == 2:
                pts = 7
            jid = 'concrete|%s|%d' % (key, v)
            jobs.append({'id': jid, 'kind': 'concrete', 'file': r['file'], 'name': r['name'], 'params': p, 'ns': ns, 'pts': pts,
                         'tf': CONC_TF, '_cost': (pts ** d) * 30 + 50})
            meta[jid] = (key, r)
    if ctx.replay:
        rp = json.load(open(ctx.replay))
        inp = rp.get('input') or {}
        j = inp.get('job') if isinstance(inp, dict) else None
        if not (j and j.get('kind') == 'concrete'):
            return
        key = '%s:%s' % (j['file'], j['name'])
        if key not in progs:
            ctx.obligation('concrete %s' % j['id'], False, 'correspondence', 'model cannot be translated')
            return
        jobs = [dict(j)]; meta = {j['id']: (key, progs[key])}
    res = run_jobs(jobs, nproc=6)
    t_impl = time.time() - t0
    cases, cmeta = [], {}
    order = sorted(range(len(jobs)), key=lambda k: -jobs[k]['_cost'] if '_cost' in jobs[k] else 0)
    nsh = min(CONC_SHARDS, max(1, len(order)))
    arranged = [order[i] for s_ in range(nsh) for i in range(s_, len(order), nsh)]
    for cid, k in enumerate(arranged):
        job = {a: b for a, b in jobs[k].items() if not a.startswith('_')}
        r_ = res.get(job['id'], {'error': 'no result'})
        key, r = meta[job['id']]
        ctx.case(signature=('concrete', key, tuple(job['params'])))
        if 'error' in r_ or not r_.get('finite'):
            why = r_.get('error', 'non-finite entries')
            ctx.obligation('concrete %s: real function returns a finite spectrum' % job['id'], False, 'correspondence', why)
            ctx.violation('%s%r ns=%s pts=%d timescale_factor=%g: %s' % (r['name'], tuple(job['params']), job['ns'], job['pts'], job['tf'], why),
                          data={'job': job, 'result': {k2: v2 for k2, v2 in r_.items() if k2 not in ('data', 'mask', 'grid')}}, key='model-raises:%s' % r['name'])
            continue
        if r_.get('use_delj_trick') or r_.get('use_old_timestep') or r_.get('cuda'):
            ctx.obligation('concrete %s: Integration defaults (use_delj_trick=False, use_old_timestep=False, no CUDA)' % job['id'], False, 'correspondence',
                           'the library default changed: %r' % {k2: r_.get(k2) for k2 in ('use_delj_trick', 'use_old_timestep', 'cuda')})
            continue
        cases.append((cid, concrete_case_text(r, job, r_)))
        cmeta[cid] = (job, r_, key, r)
    shard = max(1, -(-len(arranged) // nsh))
    t1 = time.time()
    cres = ctx.coq_cases('concrete', CONC_HEADER, cases, '(mcheck %s)' % lib.q(Fraction(1, 10 ** 7)), '1e-7 of the largest entry',
                         shard=shard, timeout=900, kind='concrete semantics') if cases else {}
    t_coq = time.time() - t1
    worst = None; covered = set(); failed = []
    for cid, (job, r_, key, r) in sorted(cmeta.items()):
        ok, e = cres.get(cid, (False, 99))
        name = r['name']
        codes = {1: 'run_prog returns None (the model refuses / out of fuel)', 2: 'result length differs', 3: 'the program fails the static check prog_ok',
                 99: 'the Coq case file did not evaluate'}
        detail = '' if ok else (codes.get(e) if e in codes else 'relative difference 2^%d' % e)
        ctx.obligation('concrete %s: run_prog (Model/ProgSem.v, NumD) == %s%r ns=%s pts=%d' % (job['id'], name, tuple(job['params']), job['ns'], job['pts']),
                       ok, 'correspondence', detail)
        if ok:
            covered.add(key)
            if e > -9000:
                worst = e if worst is None else max(worst, e)
        else:
            failed.append(key)
            ctx.violation('concrete semantics: %s%r (ns=%s, pts=%d, timescale_factor=%g) returns a spectrum that differs from the composition of the '
                          'verified building-block models run on its translated program: %s' % (name, tuple(job['params']), job['ns'], job['pts'], job['tf'], detail),
                          data={'job': job, 'shape': r_.get('shape')}, key='concrete:%s' % name)
    covered -= set(failed)
    if not ctx.replay:
        ctx.stats['concrete_semantics'] = {
            'models_covered': len(covered), 'of_library_functions': total_models,
            'not_covered': dict(sorted(skipped.items())) | {k: 'disagreement or evaluation failure' for k in sorted(set(failed))},
            'cases': len(cmeta), 'timescale_factor': CONC_TF, 'tolerance': CONC_TOL,
            'max_observed_rel_error': None if worst is None else 2.0 ** (worst + 1),
            'seconds_real_code': round(t_impl, 1), 'seconds_coq': round(t_coq, 1)}
        ctx.notes.append('concrete semantics (Model/ProgSem.v) covers %d of %d library functions; %d cases, max observed relative error %s; not covered: %s' % (
            len(covered), total_models, len(cmeta), 'n/a' if worst is None else '< 2^%d' % (worst + 1),
            '; '.join('%s (%s)' % (k.split(':')[-1], w) for k, w in sorted(skipped.items())) or 'none'))
        ctx.obligation('concrete semantics covers every library function that returns a spectrum (%d of %d; the others return ms command strings)' % (
            len(covered), total_models), len(covered) + len(skipped) >= len(progs) and not failed, 'correspondence',
            '; '.join(sorted(set(failed))[:6]))

def adequacy(ctx, data, progs, broken_models, wf_res, wf_meta, nest_ok, sym_ok):
    """every single-occurrence mutant of the current programs must be killed by a committed obligation or be committed as unkillable"""
    t0 = time.time()
    com = data.get('adequacy', {})
    unk = com.get('unkillable', {})
    committed = {'%s:%s' % (f['file'], f['name']) for f in data['functions']}
    cur = {k: r for k, r in progs.items() if k in committed}
    if broken_models:
        ctx.obligation('adequacy of the nesting list evaluated', False, 'translator',
                       'not evaluated: %d committed model(s) could not be translated' % len(broken_models))
        return
    rows, ob, un = K.adequacy_table(data, cur)
    # (a) the mirror must agree with Coq on every obligation of this run
    coq = {}
    for k, key in wf_meta.items():
        if key in cur:
            coq['wf:%s' % key] = wf_res.get(k, (False, 0))[0]
    for pid, ok in nest_ok.items():
        coq['nest:%s' % pid] = ok
    for mk, ok in sym_ok.items():
        coq['equiv:%s' % mk] = ok
    dis = sorted(o for o, v in ob.base.items() if o in coq and bool(coq[o]) != bool(v))
    ctx.obligation('Python mirror of the normaliser agrees with Coq on the %d obligations of this run' % len([o for o in ob.base if o in coq]),
                   not dis, 'translator', '; '.join(dis[:6]))
    if dis:
        ctx.violation('the Python mirror of norm/nests/equivariant disagrees with Coq on %s' % ', '.join(dis[:6]), data={'obligations': dis},
                      key=None, no_input=True, broken='mirror-agrees-with-coq')
    # (b) wrapper provenance: the program of a wrapper is its callee's program at the call tuple
    ctx.obligation('wrapper models reconstruct from their callee (%d wrappers)' % len(un.callee), not un.bad, 'translator', '; '.join(un.bad[:6]))
    # (c) the table
    failing_base = {o for o, v in ob.base.items() if not v}
    hit = {}                   # unit -> failing base obligation touching one of its affected models
    for o, models, _ in ob.items:
        if o in failing_base:
            for m in models:
                hit.setdefault(m, o)
    surv, skipped = [], 0
    for r in rows:
        if r['killed_by']:
            continue
        aff = un.affected(r['model'])
        if any(m in hit for m in aff):
            skipped += 1            # an obligation of this model fails on the current source: that failure is reported on its own
            continue
        surv.append(r)
    sm = K.summarize(rows)
    holes = [r for r in surv if r['key'] not in unk]
    stale = sorted(k for k in unk if k not in {r['key'] for r in surv})
    ctx.stats['adequacy'] = {'mutants': sm['mutants'], 'mutants_killed': sm['mutants_killed'], 'occurrences': sm['occurrences'],
                             'occurrences_killed': sm['occurrences_killed'], 'surviving_mutants_committed_unkillable': len(surv) - len(holes),
                             'holes': len(holes), 'not_evaluated_because_an_obligation_of_the_model_fails': skipped,
                             'committed': {k: com.get(k) for k in ('mutants', 'mutants_killed', 'occurrences', 'occurrences_killed', 'occurrences_unkillable')},
                             'unkillable (listed with reasons in c15_nesting.json "adequacy")': sorted(r['key'] for r in surv if r['key'] in unk),
                             'seconds': round(time.time() - t0, 2)}
    ctx.count('adequacy_mutants', sm['mutants']); ctx.count('adequacy_mutants_killed', sm['mutants_killed'])
    ctx.notes.append('adequacy: %d occurrences (%d single-occurrence mutants), %d occurrences killed, %d mutants unkillable (listed), %d holes%s' % (
        sm['occurrences'], sm['mutants'], sm['occurrences_killed'], len(surv) - len(holes), len(holes),
        ', %d not evaluated (an obligation of the model fails)' % skipped if skipped else ''))
    if stale:
        ctx.notes.append('adequacy: %d committed unkillable mutants are now killed or gone: %s' % (len(stale), '; '.join(stale[:4])))
    if (sm['mutants'], sm['occurrences']) != (com.get('mutants'), com.get('occurrences')):
        ctx.notes.append('adequacy: the current translation has %d occurrences / %d mutants, the committed table %s / %s (source changed)' % (
            sm['occurrences'], sm['mutants'], com.get('occurrences'), com.get('mutants')))
    by_unit = {}
    for r in holes:
        by_unit.setdefault(r['model'], []).append(r)
    ctx.obligation('adequacy: every single-occurrence mutant of the %d model programs is killed by a committed obligation or committed as unkillable' % len(cur),
                   not holes, 'translator', '; '.join(r['key'] for r in holes[:8]))
    for unit, rs in sorted(by_unit.items()):
        ctx.violation('hole in the nesting list opened by a source change: %d single-occurrence mutant(s) of %s survive every committed obligation, e.g. %s' % (
                      len(rs), unit, '; '.join(r['key'].split('|', 1)[1] for r in rs[:4])),
                      data={'unit': unit, 'mutants': [r['key'] for r in rs]}, key=None, no_input=True, broken='adequacy:%s' % unit)
    # (d) second mutant class: two same-kind parameters exchanged in all their occurrences (= the names list transposed)
    t1 = time.time()
    xcom = com.get('exchange', {})
    xunk = xcom.get('unkillable', {})
    xrows, _, _ = K.exchange_table(data, cur, ob=ob, un=un)
    xs = K.summarize_exchange(xrows)
    xsurv, xskipped = [], 0
    for r in xrows:
        if r['identical'] or r['killed_by']:
            continue
        if any(m in hit for m in un.affected(r['model'])):
            xskipped += 1
            continue
        xsurv.append(r)
    xholes = [r for r in xsurv if r['key'] not in xunk]
    xstale = sorted(k for k in xunk if k not in {r['key'] for r in xsurv})
    ctx.stats['adequacy_exchange'] = {'mutants': xs['mutants'], 'provable_symmetries': xs['identical'], 'killed': xs['killed'],
                                      'surviving_committed_unkillable': len(xsurv) - len(xholes), 'holes': len(xholes),
                                      'not_evaluated_because_an_obligation_of_the_model_fails': xskipped,
                                      'committed': {k: xcom.get(k) for k in ('mutants', 'identical', 'killed', 'unkillable_count')},
                                      'unkillable (listed with reasons in c15_nesting.json "adequacy"."exchange")': sorted(r['key'] for r in xsurv if r['key'] in xunk),
                                      'provable symmetries': sorted(r['key'] for r in xrows if r['identical']),
                                      'seconds': round(time.time() - t1, 2)}
    ctx.count('adequacy_exchange_mutants', xs['mutants']); ctx.count('adequacy_exchange_mutants_killed', xs['killed'])
    ctx.notes.append('adequacy, exchange class: %d mutants (pairs of same-kind parameters exchanged in all occurrences), %d killed, %d provable symmetries, '
                     '%d unkillable (listed), %d holes%s' % (xs['mutants'], xs['killed'], xs['identical'], len(xsurv) - len(xholes), len(xholes),
                                                            ', %d not evaluated (an obligation of the model fails)' % xskipped if xskipped else ''))
    if xstale:
        ctx.notes.append('adequacy: %d committed unkillable exchange mutants are now killed or gone: %s' % (len(xstale), '; '.join(xstale[:4])))
    ctx.obligation('adequacy: every exchange of two same-kind parameters in all their occurrences, in each of the %d model programs, is killed by a committed '
                   'obligation, is a provable symmetry, or is committed as unkillable' % len(cur), not xholes, 'translator', '; '.join(r['key'] for r in xholes[:8]))
    xby = {}
    for r in xholes:
        xby.setdefault(r['model'], []).append(r)
    for unit, rs in sorted(xby.items()):
        ctx.violation('hole in the nesting list opened by a source change: exchanging %s in all their occurrences in %s (= transposing its __param_names__) '
                      'survives every committed obligation' % (', '.join('%s<->%s' % (r['a'], r['b']) for r in rs[:4]), unit),
                      data={'unit': unit, 'mutants': [r['key'] for r in rs]}, key=None, no_input=True, broken='adequacy-exchange:%s' % unit)

def diagnose_wf(r, data):
    names = r['param_names']; unp = r['unpacked']
    used = M.prog_vars(r['prog'])
    msgs = []
    if len(unp) != len(names):
        msgs.append('unpacks %d parameters (%s) but names %d (%s)' % (len(unp), ', '.join(r['unpack_names']), len(names), ', '.join(names)))
    unused = [r['unpack_names'][i] if i < len(r['unpack_names']) else 'p%d' % i for i in range(len(unp)) if i not in used]
    if unused:
        msgs.append('unpacked but never used: %s' % ', '.join(unused))
    A = M.assum_of(names)
    nv = M.prog_vars(N.norm(A, r['prog']))
    ineff = [names[i] for i in range(min(len(names), len(unp))) if i not in nv]
    exp = data.get('ineffective_params', {}).get(r['name'], [])
    if sorted(ineff) != sorted(exp):
        msgs.append('parameters without effect on the normalised program: %s (committed expectation: %s)' % (ineff or 'none', exp or 'none'))
    return '; '.join(msgs) or 'see Coq output'

def diagnose_pair(pr, progs, su):
    c, s = progs[pr['complex']], progs[pr['simple']]
    a = K.side_norm(su['A'], su['sgc'], c['prog'])
    b = K.side_norm(su['A'], su['sgs'], s['prog'])
    d = N.first_difference(a, b)
    if d is None:
        return 'Python mirror of the normaliser sees no difference (Coq decides)'
    k, i, j = d
    sn = su['common']
    return 'first difference at instruction %d: complex at the point = %s ; simple%s = %s' % (
        k, N.show_instr(i, sn) if i else 'end', ' at its point' if su['two_sided'] else '', N.show_instr(j, sn) if j else 'end')
