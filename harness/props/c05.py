"""C05 — sampling a spectrum from phi is exact binomial integration on every code path.

Static theorems: coq/theories/Props/C05.v (model: Model/FromPhi.v).
Per run:
  (1) correspondence: Spectrum.from_phi (every dispatch branch, d = 1..5), the private direct / linalg / admix_props
      functions the dispatcher cannot reach (het_ascertained='aa'), Spectrum.from_phi_inbreeding (d = 1..3, ploidy 2..8)
      and Numerics.BetaBinomConvolution against the Coq model, compared inside Coq (tolerance 1e-10 x largest entry);
      refusals (ValueError / NotImplementedError) must coincide with the model's dispatch;
  (2) the property predicates evaluated on the real code: linearity, total = trapezoid mass, sample n+2 then
      project = sample n, marginalise before/after, direct -> analytic under grid refinement, admix_props = identity
      equals direct, inbreeding F = 1e-9 ~ no inbreeding, sampling probabilities sum to one, bookkeeping
      (extrap_x, pop_ids, corner mask, inputs untouched);
  (3) c05_seq.py: SEQUENCES of calls in one process that collide on every memo key behind these paths (and non-contiguous
      array layouts): every call against the Coq model, the predicates of (2) on the later calls; replay = call + predecessors.
"""
import json, math, os
from concurrent.futures import ThreadPoolExecutor
from fractions import Fraction
from harness import lib
from harness.lib import zzl, natl, b, q, ql

TOL = Fraction(1, 10 ** 10)
HETS = ['xx', 'yy', 'zz', 'aa']
HEADER = ('From Coq Require Import ZArith QArith List.\n'
          'From Dadi Require Import Base.Num Base.NumQ Base.NumD Model.FromPhi Model.FromPhiCheck.\n'
          'Import ListNotations.\nOpen Scope Q_scope.')

def zzll(xss):
    return '[' + '; '.join(zzl(x) for x in xss) + ']'

def opt(s):
    return 'None' if s is None else '(Some %s)' % s

def hetidx(h):
    if h is None:
        return None
    return HETS.index(h) if h in HETS else 7

# ------------------------------------------------------------------------------------------------
# generators

LO = {'lo-': -1e-16, 'lo+': 1e-16}
HI = {'hi+': math.nextafter(1.0, 2.0), 'hi-': math.nextafter(1.0, 0.0)}

def mk_grid(rng, L, kind=None, ends=None):
    kind = kind or rng.choice(['uniform', 'dadi', 'quad', 'random'])
    if kind == 'uniform':
        g = [i / (L - 1) for i in range(L)]
    elif kind == 'dadi':
        crwd = 8.0
        g = [0.5 * (1 + math.tanh(crwd / 2 * (-1 + 2 * i / (L - 1))) / math.tanh(crwd / 2)) for i in range(L)]
    elif kind == 'quad':
        g = [(i / (L - 1)) ** 2 for i in range(L)]
    else:
        pts = sorted(rng.sample(range(1, 1023), L - 2))
        g = [0.0] + [p / 1024 for p in pts] + [1.0]
    g[0] = 0.0; g[-1] = 1.0
    for i in range(1, L - 1):                      # strictly increasing, interior points away from the ends
        g[i] = min(max(g[i], g[i - 1] + 1 / 4096), 1 - (L - 1 - i) / 4096)
    ends = ends if ends is not None else rng.choice(['exact'] * 4 + ['lo-', 'lo+', 'hi+', 'hi-', 'out', 'in'])
    if ends in LO:
        g[0] = LO[ends]
    if ends in HI:
        g[-1] = HI[ends]
    if ends == 'out':
        g[0] = LO['lo-']; g[-1] = HI['hi+']
    if ends == 'in':
        g[0] = LO['lo+']; g[-1] = HI['hi-']
    return g, ends

def perturb_like(rng, g):
    """same interior grid, end points possibly perturbed differently (still numpy.allclose)"""
    h = list(g)
    h[0] = rng.choice([0.0, -1e-16, 1e-16]); h[-1] = rng.choice([1.0, HI['hi+'], HI['hi-']])
    return h

def mk_phi(rng, size, kind=None):
    kind = kind or rng.choice(['random', 'random', 'spike', 'smooth', 'edges', 'signed'])
    if kind == 'random':
        return [lib.dyadic(rng, 0, 8, 8) for _ in range(size)]
    if kind == 'signed':     # sign-changing density with exact zeros (from_phi is linear; densities go negative in real use)
        return [rng.choice([0.0, lib.dyadic(rng, -8, 8, 8), lib.dyadic(rng, -8, 8, 8)]) for _ in range(size)]
    if kind == 'spike':
        v = [0.0] * size
        for _ in range(max(1, size // 5)):
            v[rng.randrange(size)] = lib.dyadic(rng, 0.5, 16, 6)
        return v
    if kind == 'edges':
        v = [lib.dyadic(rng, 0, 2, 8) for _ in range(size)]
        v[0] = lib.dyadic(rng, 8, 64, 4); v[-1] = lib.dyadic(rng, 0, 4, 4)
        return v
    return [round((1 + (i % 7)) * 64 / (1 + i % 5)) / 64 for i in range(size)]

def mk_admix(rng, d, kind=None):
    kind = kind or rng.choice(['identity', 'random', 'random', 'one-row'])
    A = [[1.0 if i == j else 0.0 for j in range(d)] for i in range(d)]
    if kind == 'identity':
        return A, kind
    rows = range(d) if kind == 'random' else [rng.randrange(d)]
    for i in rows:
        w = [rng.randint(0, 8) for _ in range(d)]
        if sum(w) == 0:
            w[i] = 1
        tot = 16
        # dyadic weights summing to exactly 1
        parts = [0] * d
        for _ in range(tot):
            parts[rng.choices(range(d), weights=[x + 0.01 for x in w])[0]] += 1
        A[i] = [p / tot for p in parts]
    return A, kind

def prod(l):
    r = 1
    for x in l:
        r *= x
    return r

SIZES_Q = {1: (4, 24, 12), 2: (3, 10, 12), 3: (3, 6, 6), 4: (3, 4, 3), 5: (3, 3, 3)}      # (Lmin, Lmax, nmax)
SIZES_T = {1: (3, 48, 40), 2: (3, 16, 40), 3: (3, 8, 14), 4: (3, 5, 5), 5: (3, 4, 3)}

def mk_ns(rng, d, nmax, big=False):
    if big:
        return [rng.randint(max(1, nmax - 4), nmax) for _ in range(d)]
    return [rng.randint(1, nmax) for _ in range(d)]

def gen_from_phi(ctx):
    """one call spec per dispatch branch x dimension x repetition"""
    rng = ctx.rng
    sizes = SIZES_Q if ctx.quick else SIZES_T
    out = []
    reps = ctx.pick(5, 30)
    for d in range(1, 6):
        Lmin, Lmax, nmax = sizes[d]
        branches = ['analytic', 'force']
        branches += ['het:' + h for h in HETS[:min(d, 3)]]
        if d == 1:
            branches += ['het:yy']                       # accepted, forces the direct path, no factor
        if d >= 2:
            branches += ['admix']
        for br in branches:
            for rep in range(reps if br != 'analytic' else reps + 2):
                if d == 5 and br != 'analytic' and rep >= 1:
                    continue                              # no such branch in the code: one probe each
                big = (rep % 3 == 0)
                nm = nmax
                if br == 'admix' and not ctx.quick:
                    nm = {2: 16, 3: 6, 4: 3}.get(d, nmax)
                if br == 'admix' and ctx.quick:
                    nm = {2: 8, 3: 4, 4: 2}.get(d, nmax)
                ns = mk_ns(rng, d, nm, big)
                Ls = [rng.randint(Lmin, Lmax) for _ in range(d)]
                if br == 'admix':
                    Ls = [min(L, {2: 10, 3: 5, 4: 4}.get(d, L)) for L in Ls]
                if d >= 3 and big:
                    Ls = [min(L, Lmin + 2) for L in Ls]
                grids = []
                for k in range(d):
                    g, e = mk_grid(rng, Ls[k]); ctx.count('grid_ends=' + e)
                    grids.append(g)
                if d >= 2 and (br == 'analytic' or rng.random() < 0.5):
                    grids[1] = perturb_like(rng, grids[0]); Ls[1] = Ls[0]      # linalg needs xx == yy
                    if rng.random() < 0.5:
                        for k in range(2, d):
                            grids[k] = perturb_like(rng, grids[0]); Ls[k] = Ls[0]
                c = {'fn': 'from_phi', 'shape': Ls, 'phi': mk_phi(rng, prod(Ls)), 'ns': ns, 'xxs': grids,
                     'admix': None, 'het': None, 'force': False, 'mask_corners': rng.random() < 0.5,
                     'pop_ids': rng.choice([None, ['p%d' % k for k in range(d)]]), 'branch': br, 'd': d}
                if br == 'force':
                    c['force'] = True
                elif br.startswith('het:'):
                    c['het'] = br[4:]; c['force'] = rng.random() < 0.3
                elif br == 'admix':
                    c['admix'], kind = mk_admix(rng, d); ctx.count('admix=' + kind)
                    c['force'] = rng.random() < 0.3
                out.append(c)
    # refusals that model and code must share
    g4, _ = mk_grid(rng, 4, 'uniform', 'exact')
    g5 = [0.0, 0.125, 0.5, 0.75, 1.0]
    ph = lambda L, d: mk_phi(rng, L ** d, 'random')
    base = lambda d, L, g: {'fn': 'from_phi', 'shape': [L] * d, 'phi': ph(L, d), 'ns': [2] * d, 'xxs': [g] * d, 'admix': None,
                            'het': None, 'force': False, 'mask_corners': True, 'pop_ids': None, 'd': d}
    r = base(4, 4, g4); r.update(het='aa', branch='refuse:het-aa'); out.append(r)
    r = base(2, 4, g4); r.update(het='bb', branch='refuse:het-bb'); out.append(r)
    r = base(2, 4, g4); r.update(admix=[[0.5, 0.75], [0.0, 1.0]], branch='refuse:admix-rowsum'); out.append(r)
    r = base(2, 4, g4); r.update(admix=[[0.5, 0.5], [0.0, 1.0]], het='xx', branch='refuse:admix+het'); out.append(r)
    r = base(2, 4, g4); r.update(ns=[2, 2, 2], branch='refuse:ndim'); out.append(r)
    r = base(2, 4, g4); r.update(xxs=[g4, [0.0, 0.25, 0.5, 1.0]], branch='refuse:xx!=yy'); out.append(r)
    r = base(3, 4, g4); r.update(xxs=[g4, [0.0, 0.25, 0.5, 1.0], g4], branch='refuse:xx!=yy'); out.append(r)
    r = base(2, 4, g4); r.update(xxs=[g4, [0.0, 0.25, 0.5, 1.0]], force=True, branch='force'); out.append(r)      # fine when direct
    r = base(1, 5, g5); r.update(admix=[[1.0]], branch='analytic'); out.append(r)         # 1-D: admix_props is ignored
    r = base(3, 4, g4); r.update(xxs=[g4, g4, g5], shape=[4, 4, 5], phi=mk_phi(rng, 80), branch='analytic'); out.append(r)
    if not ctx.quick:
        r = base(6, 2, [0.0, 1.0]); r.update(branch='refuse:6D'); out.append(r)
    return out

def gen_private(ctx):
    """paths only reachable by calling the private functions"""
    rng = ctx.rng
    out = []
    for rep in range(ctx.pick(2, 10)):
        L = rng.choice([3, 4]); ns = mk_ns(rng, 4, 3)
        gs = [mk_grid(rng, L)[0] for _ in range(4)]
        out.append({'fn': 'private', 'name': '_from_phi_4D_direct', 'kind': 0, 'shape': [L] * 4, 'phi': mk_phi(rng, L ** 4), 'ns': ns,
                    'xxs': gs, 'het': 'aa', 'admix': None, 'mask_corners': rng.random() < 0.5, 'branch': 'private:4D-het-aa', 'd': 4})
    for d in (3, 4):
        for rep in range(ctx.pick(1, 4)):
            L = 3; ns = mk_ns(rng, d, 2)
            gs = [mk_grid(rng, L)[0] for _ in range(d)]
            out.append({'fn': 'private', 'name': '_from_phi_%dD_admix_props' % d, 'kind': 2, 'shape': [L] * d, 'phi': mk_phi(rng, L ** d),
                        'ns': ns, 'xxs': gs, 'het': None, 'admix': None, 'admix_model': mk_admix(rng, d, 'identity')[0],
                        'mask_corners': False, 'branch': 'private:%dD-admix-default' % d, 'd': d})
    return out

def gen_inbreeding(ctx):
    rng = ctx.rng
    out = []
    reps = ctx.pick(5, 30)
    nmax = {1: ctx.pick(12, 40), 2: ctx.pick(8, 24), 3: ctx.pick(6, 10)}
    Lmax = {1: ctx.pick(12, 30), 2: ctx.pick(7, 10), 3: ctx.pick(4, 6)}
    for d in (1, 2, 3):
        for rep in range(reps):
            pls = [rng.randint(2, 8) for _ in range(d)]
            if rep % 4 == 0:
                pls = [2] * d
            ns = []
            for p in pls:
                kmax = max(1, nmax[d] // p)
                ns.append(p * rng.randint(1, kmax))
            Ls = [rng.randint(3, Lmax[d]) for _ in range(d)]
            gs = [mk_grid(rng, L)[0] for L in Ls]
            Fs = [rng.choice([1 / 64, 1 / 16, 0.125, 0.25, 0.375, 0.5, 0.75, 0.875, 63 / 64, lib.dyadic(rng, 0.05, 0.95, 7)]) for _ in range(d)]
            het = rng.choice([None, None] + HETS[:min(d, 3)])
            c = {'fn': 'from_phi_inbreeding', 'shape': Ls, 'phi': mk_phi(rng, prod(Ls)), 'ns': ns, 'xxs': gs, 'Fs': Fs, 'ploidys': pls,
                 'admix': None, 'het': het, 'force': None, 'mask_corners': rng.random() < 0.5, 'pop_ids': None,
                 'branch': 'inbreeding%s' % (':het' if het else ''), 'd': d}
            for p in pls:
                ctx.count('ploidy=%d' % p)
            out.append(c)
    # all F = 0 -> from_phi (force_direct defaults to True here); force_direct=False -> analytic
    g, _ = mk_grid(rng, 6, 'dadi', 'exact')
    for d, force in ((1, None), (2, None), (2, False), (1, False)):
        out.append({'fn': 'from_phi_inbreeding', 'shape': [6] * d, 'phi': mk_phi(rng, 6 ** d), 'ns': [4] * d, 'xxs': [g] * d, 'Fs': [0.0] * d,
                    'ploidys': [2] * d, 'admix': None, 'het': None, 'force': force, 'mask_corners': True, 'pop_ids': None,
                    'branch': 'inbreeding:F=0', 'd': d})
    # refusals: n not a multiple of the ploidy; 4-D; length mismatch
    out.append({'fn': 'from_phi_inbreeding', 'shape': [6], 'phi': mk_phi(rng, 6), 'ns': [5], 'xxs': [g], 'Fs': [0.25], 'ploidys': [2],
                'admix': None, 'het': None, 'force': None, 'mask_corners': True, 'pop_ids': None, 'branch': 'refuse:ploidy', 'd': 1})
    out.append({'fn': 'from_phi_inbreeding', 'shape': [3] * 4, 'phi': mk_phi(rng, 81), 'ns': [2] * 4, 'xxs': [[0.0, 0.5, 1.0]] * 4, 'Fs': [0.25] * 4,
                'ploidys': [2] * 4, 'admix': None, 'het': None, 'force': None, 'mask_corners': True, 'pop_ids': None, 'branch': 'refuse:4D', 'd': 4})
    out.append({'fn': 'from_phi_inbreeding', 'shape': [6, 6], 'phi': mk_phi(rng, 36), 'ns': [4, 4], 'xxs': [g, g], 'Fs': [0.25], 'ploidys': [2, 2],
                'admix': None, 'het': None, 'force': None, 'mask_corners': True, 'pop_ids': None, 'branch': 'refuse:len', 'd': 2})
    # F = 0 in some but not all populations: (1-F)/F
    out.append({'fn': 'from_phi_inbreeding', 'shape': [6, 6], 'phi': mk_phi(rng, 36), 'ns': [4, 4], 'xxs': [g, g], 'Fs': [0.25, 0.0], 'ploidys': [2, 2],
                'admix': None, 'het': None, 'force': None, 'mask_corners': True, 'pop_ids': None, 'branch': 'inbreeding:mixed-zero-F', 'd': 2})
    return out

def gen_bbconv(ctx):
    """small cases over exact rationals (partition form == power form exactly) and large ones in software floats"""
    rng = ctx.rng
    out = []
    for rep in range(ctx.pick(8, 48)):
        p = rng.randint(2, 8)
        n = rng.randint(1, 4 if p <= 4 else 3)
        a = lib.dyadic(rng, 1 / 8, rng.choice([4, 32]), 3)
        bb = lib.dyadic(rng, 1 / 8, rng.choice([4, 32]), 3)
        out.append({'fn': 'bbconv', 'n': n, 'p': p, 'a': max(a, 1 / 8), 'b': max(bb, 1 / 8), 'n_float': rng.random() < 0.7, 'exact': True})
    for rep in range(ctx.pick(6, 60)):
        p = rng.randint(2, 8)
        n = rng.randint(1, max(1, ctx.pick(12, 40) // p))
        F = rng.choice([1 / 64, 1 / 8, 0.25, 0.5, 0.875, lib.dyadic(rng, 0.05, 0.95, 7)])
        x = rng.choice([lib.dyadic(rng, 0.001, 0.999, 12), 1e-20, 0.5])
        c = (1 - F) / F
        out.append({'fn': 'bbconv', 'n': n, 'p': p, 'a': x * c, 'b': (1 - x) * c, 'n_float': True, 'exact': False})
    return out

# ------------------------------------------------------------------------------------------------
# running the implementation

def run_calls(ctx, calls, par=4):
    if not calls:
        return []
    par = min(par, max(1, len(calls) // 8))
    chunks = [calls[i::par] for i in range(par)]
    strip = lambda c: {k: v for k, v in c.items() if k not in ('branch', 'd', 'kind', 'admix_model', 'exact')}
    with ThreadPoolExecutor(max_workers=par) as ex:
        futs = [ex.submit(lib.run_impl, 'c05_impl.py', [strip(c) for c in ch], 1800) for ch in chunks]
        res = [f.result() for f in futs]
    out = [None] * len(calls)
    for i in range(par):
        for j, r in enumerate(res[i]):
            out[i + j * par] = r
    return out

SEEN = set()

def finite(xs):
    return all(isinstance(x, (int, float)) and x == x and abs(x) != float('inf') for x in xs)

def impl_text(r):
    if 'refused' in r:
        return 'None'
    return '(Some %s)' % zzl(r['data'])

def describe(c):
    return {k: c.get(k) for k in ('fn', 'name', 'branch', 'shape', 'ns', 'het', 'force', 'admix', 'Fs', 'ploidys') if c.get(k) is not None}

def classify(ctx, c, r):
    """returns True when the result can be sent to the model comparison"""
    if 'error' in r:
        ctx.count('impl_crash')
        key = None
        if c['fn'] == 'from_phi' and c['d'] == 5 and 'UnboundLocalError' in r['error']:
            key = 'from_phi-5D-non-analytic-fs-unbound'
        if key is None or key not in SEEN:
            ctx.violation('%s raised %s (%s): not a spectrum and not a documented refusal' % (c['fn'], r['error'], json.dumps(describe(c))[:200]),
                          data={'call': c, 'impl': r}, key=key)
        if key is not None:
            SEEN.add(key); ctx.count('crash:' + key)
        return False
    if 'refused' in r:
        ctx.count('impl_refused')
        return True
    if not finite(r['data']):
        ctx.count('impl_nonfinite')
        key = None
        if c['fn'] == 'from_phi_inbreeding' and any(f == 0 for f in c['Fs']) and any(f != 0 for f in c['Fs']):
            key = 'from_phi_inbreeding-some-F-zero-nan'
        ctx.violation('%s returned non-finite entries for finite in-domain input (%s)' % (c['fn'], json.dumps(describe(c))[:200]),
                      data={'call': c, 'impl': {k: r[k] for k in r if k != 'data'}, 'first_entries': [repr(x) for x in r['data'][:6]]}, key=key)
        return False
    return True

def bookkeeping(ctx, c, r):
    if 'data' not in r or c['fn'] not in ('from_phi', 'from_phi_inbreeding'):
        return
    d = len(c['shape'])
    bad = []
    if r['shape'] != [n + 1 for n in c['ns']]:
        bad.append('shape %r' % r['shape'])
    if r['extrap_x'] != c['xxs'][0][1]:
        bad.append('extrap_x %r != xxs[0][1]' % r['extrap_x'])
    if r['pop_ids'] != c.get('pop_ids'):
        bad.append('pop_ids %r' % r['pop_ids'])
    want = [False] * len(r['mask'])
    if c.get('mask_corners', True):
        want[0] = want[-1] = True
    if r['mask'] != want:
        bad.append('mask')
    differ = any(x[1] != c['xxs'][0][1] for x in c['xxs'][1:])
    if differ != bool(r.get('warn')):
        bad.append('grid-mismatch warning %r' % r.get('warn'))
    if not r.get('inputs_untouched', True):
        bad.append('inputs modified')
    if not r.get('is_spectrum'):
        bad.append('not a Spectrum')
    ctx.obligation('bookkeeping %s d=%d' % (c['branch'], d), not bad, 'predicate', '; '.join(bad))
    if bad:
        ctx.violation('from_phi bookkeeping wrong (%s): %s' % ('; '.join(bad), json.dumps(describe(c))[:160]), data={'call': c, 'impl': {k: r[k] for k in r if k != 'data'}})

def coq_case(c, r):
    mask = r.get('mask') or []
    if c['fn'] == 'from_phi':
        adm = opt(zzll(c['admix'])) if c.get('admix') is not None else 'None'
        h = hetidx(c.get('het'))
        return ('{| fc_shape := %s; fc_ns := %s; fc_xxs := %s; fc_admix := %s; fc_het := %s; fc_force := %s; fc_phi := %s; fc_mask := %s; fc_impl := %s |}'
                % (natl(c['shape']), natl(c['ns']), zzll(c['xxs']), adm, opt('%d%%nat' % h) if h is not None else 'None', b(c.get('force')),
                   zzl(c['phi']), lib.bl(mask), impl_text(r)))
    if c['fn'] == 'private':
        h = hetidx(c.get('het'))
        adm = c.get('admix_model') or c.get('admix') or []
        return ('{| pc_kind := %d%%nat; pc_shape := %s; pc_ns := %s; pc_xxs := %s; pc_admix := %s; pc_het := %s; pc_phi := %s; pc_mask := %s; pc_impl := %s |}'
                % (c['kind'], natl(c['shape']), natl(c['ns']), zzll(c['xxs']), zzll(adm), opt('%d%%nat' % h) if h is not None else 'None',
                   zzl(c['phi']), lib.bl(mask), impl_text(r)))
    if c['fn'] == 'from_phi_inbreeding':
        h = hetidx(c.get('het'))
        adm = opt(zzll(c['admix'])) if c.get('admix') is not None else 'None'
        force = True if c.get('force') is None else c['force']
        return ('{| ic_shape := %s; ic_ns := %s; ic_xxs := %s; ic_admix := %s; ic_het := %s; ic_force := %s; ic_Fs := %s; ic_ploidys := %s; ic_phi := %s; ic_mask := %s; ic_impl := %s |}'
                % (natl(c['shape']), natl(c['ns']), zzll(c['xxs']), adm, opt('%d%%nat' % h) if h is not None else 'None', b(force),
                   zzl(c['Fs']), natl(c['ploidys']), zzl(c['phi']), lib.bl(mask), impl_text(r)))
    raise KeyError(c['fn'])

def weight(c):
    """rough cost of the model evaluation, for sharding"""
    if c['fn'] == 'bbconv':
        return max(1, (c['n'] * c['p']) ** 2 // (4 if c.get('exact', True) else 40))
    w = prod(c['shape']) * prod([n + 1 for n in c['ns']]) if c.get('admix') or c.get('kind') == 2 else 0
    w += sum(c['ns']) * sum(c['shape']) * 40 * max(1, prod([n + 1 for n in c['ns']]) // (min(c['ns']) + 1))
    return max(1, w // 20000)

def correspondence(ctx, groups):
    """groups: list of (tag, check_fn, [(call, result)]) -> obligations + violations"""
    for tag, fn, pairs in groups:
        exprs, meta = [], {}
        for c, r in pairs:
            n = len(exprs)
            if c['fn'] == 'bbconv' and c.get('exact', True):
                ex = '{| bc_n := %d%%nat; bc_p := %d%%nat; bc_a := %s; bc_b := %s; bc_impl := %s |}' % (c['n'], c['p'], q(c['a']), q(c['b']), ql(r['data']))
            elif c['fn'] == 'bbconv':
                ex = '{| bd_n := %d%%nat; bd_p := %d%%nat; bd_a := %s; bd_b := %s; bd_impl := %s |}' % (c['n'], c['p'], lib.zz(c['a']), lib.zz(c['b']), zzl(r['data']))
            else:
                ex = coq_case(c, r)
            exprs.append((n, ex)); meta[n] = (c, r)
        if not exprs:
            continue
        # bins of roughly equal model-evaluation cost, one generated file per bin, run in parallel
        tot = sum(weight(meta[n][0]) for n, _ in exprs)
        nsh = max(1, min(16, len(exprs), tot // 40 + 1))
        order = sorted(range(len(exprs)), key=lambda n: -weight(meta[n][0]))
        bins = [[] for _ in range(nsh)]; load = [0] * nsh
        for n in order:
            k = load.index(min(load)); bins[k].append(exprs[n]); load[k] += weight(meta[n][0])
        results = {}
        with ThreadPoolExecutor(max_workers=nsh) as ex:
            futs = [ex.submit(ctx.coq_cases, '%s%d' % (tag, k), HEADER, bn, '(%s %s)' % (fn, q(TOL)), 'tol 1e-10 x largest entry',
                              max(1, len(bn)), 1500, tag) for k, bn in enumerate(bins) if bn]
            for f in futs:
                results.update(f.result())
        nbad = 0
        for n, (c, r) in meta.items():
            rr = results.get(n)
            ok = rr is not None and rr[0]
            name = 'corr %s #%d %s' % (tag, n, c.get('branch', 'bbconv'))
            ctx.obligation(name, ok, 'correspondence', '' if ok else 'model vs impl: %r' % (rr,))
            if not ok:
                nbad += 1
                if nbad <= 3:
                    what = ('%s disagrees with the binomial-integration model (%s): coq result %r'
                            % (c.get('name') or c['fn'], json.dumps(describe(c))[:220], rr))
                    data = None
                    if c.get('_sid') is not None:          # a call of a session: the replay is the call with its predecessors
                        from harness.props import c05_seq
                        data = c05_seq.seq_data(c, r, rr, c05_seq.SESSIONS)
                        if data is not None:
                            what += ' -- call #%d (%s) of session %s, after [%s]' % (
                                c['_pos'], c['branch'], c['_sid'], ', '.join(x['branch'].split(':', 2)[-1] for x in data['sequence'][:-1])[:200])
                    ctx.violation(what, data=data or {'call': c, 'impl': r, 'coq': rr})

# ------------------------------------------------------------------------------------------------
# property predicates on the implementation

def ftrapz(xs, ys):
    s = Fraction(0)
    for i in range(len(xs) - 1):
        s += (Fraction(xs[i + 1]) - Fraction(xs[i])) * (Fraction(ys[i + 1]) + Fraction(ys[i])) / 2
    return s

def fmass(xxs, shape, phi):
    if not shape:
        return Fraction(phi[0])
    m = prod(shape[1:])
    return ftrapz(xxs[0], [fmass(xxs[1:], shape[1:], phi[i * m:(i + 1) * m]) for i in range(shape[0])])

def maxabs(v):
    return max([abs(x) for x in v] + [0.0])

def close(ctx, name, a, b_, tol, data, kind='predicate', scale=None):
    if a is None or b_ is None or len(a) != len(b_):
        ok = False; err = float('inf')
    else:
        s = scale if scale is not None else max(maxabs(a), maxabs(b_), 1e-300)
        err = max([abs(x - y) for x, y in zip(a, b_)] + [0.0]) / s
        ok = err <= tol
    ctx.obligation(name, ok, kind, '' if ok else 'relative difference %.3g > %.1g' % (err, tol))
    ctx.case()
    if ok and err > 0:
        ctx.err('predicate:' + name.split(' ')[0], int(math.floor(math.log2(err))) if err > 0 else -10000, 'tol %.0e' % tol)
    if not ok:
        ctx.violation('%s fails on the implementation: relative difference %.3g (tolerance %.1g)' % (name, err, tol), data=data)
    return ok

def variant_specs(ctx, d, n_hint=None):
    """(label, extra-args) for every sampling path available in dimension d"""
    v = [('analytic', {}), ('direct', {'force': True})]
    v += [('het-' + h, {'het': h}) for h in HETS[:min(d, 3)]]
    if d >= 2:
        v.append(('admix', 'admix'))
    return v

def predicates(ctx):
    rng = ctx.rng
    calls, evals = [], []          # evals: (fn(results), [indices])

    def add(c):
        calls.append(c); return len(calls) - 1

    def base(d, L, ns, same=True, mask=False):
        g = mk_grid(rng, L)[0]
        gs = [list(g) for _ in range(d)] if same else [mk_grid(rng, L)[0] for _ in range(d)]
        return {'fn': 'from_phi', 'shape': [L] * d, 'phi': mk_phi(rng, L ** d, 'random'), 'ns': list(ns), 'xxs': gs, 'admix': None, 'het': None,
                'force': False, 'mask_corners': mask, 'pop_ids': None, 'd': d}

    dims = {1: (ctx.pick(12, 30), ctx.pick(12, 40)), 2: (ctx.pick(7, 12), ctx.pick(8, 30)), 3: (ctx.pick(4, 6), ctx.pick(4, 8)),
            4: (3, ctx.pick(2, 3)), 5: (3, 2)}
    reps = ctx.pick(2, 8)
    for rep in range(reps):
        for d in range(1, 6):
            L, nmax = dims[d]
            for label, extra in variant_specs(ctx, d):
                if d == 5 and label != 'analytic':
                    continue
                nm = nmax if label != 'admix' else min(nmax, {2: 10, 3: 4, 4: 2}[d])
                ns = mk_ns(rng, d, nm, big=True)
                c0 = base(d, L, ns)
                if extra == 'admix':
                    c0['admix'] = mk_admix(rng, d, 'random')[0]
                else:
                    c0.update(extra)
                # ---- linearity
                psi = mk_phi(rng, L ** d, 'random')
                a, bq = lib.dyadic(rng, -2, 2, 3), lib.dyadic(rng, 0.25, 3, 3)
                mix = [a * x + bq * y for x, y in zip(c0['phi'], psi)]
                i0 = add(dict(c0)); i1 = add(dict(c0, phi=psi)); i2 = add(dict(c0, phi=mix))
                def ev_lin(res, i0=i0, i1=i1, i2=i2, a=a, bq=bq, c0=c0, label=label, d=d):
                    r0, r1, r2 = res[i0], res[i1], res[i2]
                    if not all('data' in r for r in (r0, r1, r2)):
                        return
                    comb = [a * x + bq * y for x, y in zip(r0['data'], r1['data'])]
                    sc = max(abs(a) * maxabs(r0['data']), abs(bq) * maxabs(r1['data']))
                    close(ctx, 'linearity %s d=%d' % (label, d), r2['data'], comb, 1e-11, {'call': c0, 'a': a, 'b': bq}, scale=sc)
                evals.append(ev_lin)
                # ---- total = trapezoid mass (not for ascertainment: x(1-x) weights do not sum to one)
                if not label.startswith('het'):
                    def ev_mass(res, i0=i0, c0=c0, label=label, d=d):
                        r0 = res[i0]
                        if 'data' not in r0:
                            return
                        m = float(fmass(c0['xxs'], c0['shape'], c0['phi']))
                        close(ctx, 'total=trapz-mass %s d=%d' % (label, d), [math.fsum(r0['data'])], [m], 1e-12, {'call': c0, 'mass': m})
                    evals.append(ev_mass)
                # ---- sample n+2 then project to n
                ip = add(dict(c0, ns=[n + 2 for n in ns], post=[['project', list(ns)]]))
                def ev_proj(res, i0=i0, ip=ip, c0=c0, label=label, d=d):
                    r0, rp = res[i0], res[ip]
                    if 'data' not in r0 or 'data' not in rp:
                        ctx.obligation('project-of-sample %s d=%d ran' % (label, d), 'data' in r0 and 'data' in rp, 'predicate', repr(rp)[:200])
                        return
                    close(ctx, 'project-of-sample %s d=%d' % (label, d), rp['data'], r0['data'], 1e-10, {'call': c0})
                evals.append(ev_proj)
                # ---- marginalise before / after (separable paths only)
                if d >= 2 and label != 'admix' and d <= 4:
                    k = rng.randrange(d)
                    if label.startswith('het-') and HETS.index(label[4:]) == k:
                        k = (k + 1) % d
                    het2 = None
                    if label.startswith('het-'):
                        hk = HETS.index(label[4:]); het2 = HETS[hk - 1 if hk > k else hk]
                    im = add(dict(c0, post=[['marginalize', [k]]]))
                    ir = add(dict(c0, pre=[['remove_pop', k + 1]], ns=[n for j, n in enumerate(ns) if j != k], het=het2))
                    def ev_marg(res, im=im, ir=ir, c0=c0, label=label, d=d, k=k):
                        rm, rr = res[im], res[ir]
                        if 'data' not in rm or 'data' not in rr:
                            ctx.obligation('marginalise %s d=%d ran' % (label, d), False, 'predicate', (repr(rm)[:100] + repr(rr)[:100]))
                            return
                        close(ctx, 'marginalise-commutes %s d=%d axis=%d' % (label, d, k), rm['data'], rr['data'], 1e-11, {'call': c0, 'axis': k})
                    evals.append(ev_marg)
            # ---- admix_props = identity equals direct
            if 2 <= d <= 4:
                L2 = min(L, {2: 10, 3: 5, 4: 3}[d])
                cA = base(d, L2, mk_ns(rng, d, {2: 10, 3: 4, 4: 2}[d], big=True), same=False)
                ia = add(dict(cA, admix=mk_admix(rng, d, 'identity')[0])); idr = add(dict(cA, force=True))
                def ev_adm(res, ia=ia, idr=idr, cA=cA, d=d):
                    ra, rd = res[ia], res[idr]
                    if 'data' in ra and 'data' in rd:
                        close(ctx, 'admix-identity=direct d=%d' % d, ra['data'], rd['data'], 1e-11, {'call': cA})
                evals.append(ev_adm)
        # ---- inbreeding: linearity, mass, F -> 0, marginalise
        for d in (1, 2, 3):
            L = {1: ctx.pick(10, 20), 2: ctx.pick(6, 8), 3: 4}[d]
            pls = [rng.randint(2, 8) for _ in range(d)]
            ns = [p * rng.randint(1, max(1, {1: ctx.pick(12, 32), 2: 8, 3: 6}[d] // p)) for p in pls]
            g = mk_grid(rng, L)[0]
            cI = {'fn': 'from_phi_inbreeding', 'shape': [L] * d, 'phi': mk_phi(rng, L ** d, 'random'), 'ns': ns, 'xxs': [list(g)] * d,
                  'Fs': [lib.dyadic(rng, 0.05, 0.9, 6) for _ in range(d)], 'ploidys': pls, 'admix': None, 'het': None, 'force': None,
                  'mask_corners': False, 'pop_ids': None, 'd': d}
            psi = mk_phi(rng, L ** d, 'random'); a, bq = lib.dyadic(rng, -2, 2, 3), lib.dyadic(rng, 0.25, 3, 3)
            mix = [a * x + bq * y for x, y in zip(cI['phi'], psi)]
            j0 = add(dict(cI)); j1 = add(dict(cI, phi=psi)); j2 = add(dict(cI, phi=mix))
            jz = add(dict(cI, Fs=[1e-9] * d)); jd = add(dict(cI, fn='from_phi', force=True))
            def ev_inb(res, j0=j0, j1=j1, j2=j2, jz=jz, jd=jd, a=a, bq=bq, cI=cI, d=d):
                r0, r1, r2, rz, rd = (res[j] for j in (j0, j1, j2, jz, jd))
                if all('data' in r and finite(r['data']) for r in (r0, r1, r2)):
                    comb = [a * x + bq * y for x, y in zip(r0['data'], r1['data'])]
                    sc = max(abs(a) * maxabs(r0['data']), abs(bq) * maxabs(r1['data']))
                    close(ctx, 'linearity inbreeding d=%d' % d, r2['data'], comb, 1e-11, {'call': cI, 'a': a, 'b': bq}, scale=sc)
                    m = float(fmass(cI['xxs'], cI['shape'], cI['phi']))
                    close(ctx, 'total=trapz-mass inbreeding d=%d' % d, [math.fsum(r0['data'])], [m], 1e-11, {'call': cI, 'mass': m})
                if 'data' in rz and 'data' in rd and finite(rz['data']):
                    close(ctx, 'inbreeding(F=1e-9)~direct d=%d' % d, rz['data'], rd['data'], 1e-3, {'call': cI})
            evals.append(ev_inb)
            if d >= 2:
                k = rng.randrange(d)
                km = add(dict(cI, post=[['marginalize', [k]]]))
                kr = add(dict(cI, pre=[['remove_pop', k + 1]], ns=[n for j, n in enumerate(ns) if j != k],
                              Fs=[f for j, f in enumerate(cI['Fs']) if j != k], ploidys=[p for j, p in enumerate(pls) if j != k]))
                def ev_im(res, km=km, kr=kr, cI=cI, d=d, k=k):
                    rm, rr = res[km], res[kr]
                    if 'data' in rm and 'data' in rr:
                        close(ctx, 'marginalise-commutes inbreeding d=%d axis=%d' % (d, k), rm['data'], rr['data'], 1e-11, {'call': cI, 'axis': k})
                evals.append(ev_im)
    # ---- direct -> analytic under grid refinement (smooth density, nested uniform grids)
    for d in (1, 2):
        n = [6] * d if ctx.quick else [rng.randint(3, 10) for _ in range(d)]
        errs_idx = []
        for L in ([9, 17, 33, 65] if d == 1 else [9, 17, 33]):
            g = [i / (L - 1) for i in range(L)]
            f = lambda x: 1.0 + 3.0 * x * (1 - x) + x * x
            phi = [f(x) for x in g] if d == 1 else [f(x) * (2.0 - y + y * y * y) for x in g for y in g]
            c = {'fn': 'from_phi', 'shape': [L] * d, 'phi': phi, 'ns': n, 'xxs': [g] * d, 'admix': None, 'het': None, 'force': False,
                 'mask_corners': False, 'pop_ids': None, 'd': d}
            errs_idx.append((L, add(dict(c)), add(dict(c, force=True))))
        def ev_ref(res, errs_idx=errs_idx, d=d, n=n):
            es = []
            for L, ia, idr in errs_idx:
                if 'data' not in res[ia] or 'data' not in res[idr]:
                    return
                es.append(max(abs(x - y) for x, y in zip(res[ia]['data'], res[idr]['data'])) / maxabs(res[ia]['data']))
            ok = all(es[i + 1] < es[i] / 3 for i in range(len(es) - 1)) and es[-1] < es[0] / 9
            ctx.obligation('direct->analytic under refinement d=%d (diffs %s)' % (d, ', '.join('%.2e' % e for e in es)), ok, 'predicate')
            ctx.case()
            if not ok:
                ctx.violation('direct and analytic sampling do not converge under grid refinement (d=%d, ns=%r): %r' % (d, n, es),
                              data={'ns': n, 'diffs': es, 'd': d})
        evals.append(ev_ref)
    res = run_calls(ctx, calls)
    for ev in evals:
        ev(res)
    ctx.count('predicate_calls', len(calls))

# ------------------------------------------------------------------------------------------------

def run(ctx):
    ctx.rule = ('correspondence cases = (entry point, dispatch branch, dimension 1..5, per-axis grid length, grid family and +-1e-16 end-point '
                'perturbation, sample sizes, density family, admixture matrix kind, ascertained axis, F, ploidy, mask_corners) from one PRNG; '
                'every case is a distinct non-trivial input; predicate evaluations are counted separately; plus, on every run, the systematic '
                'call SEQUENCES of c05_seq.py (one fresh process per session, list order recorded and checked): per memoised path (semi-analytic '
                'd=1..5, direct/het/admix d=1..4, inbreeding d=1..3, BetaBinomConvolution, Spectrum.project) calls that share (n, grid | grid length, '
                'ploidy, F, position) and differ in phi / het_ascertained / mask_corners / admix_props / population order / dimension, single calls '
                'with two or three identical populations per het choice, and non-C-contiguous phi / grid views in every dimension')
    ctx.assumptions += ['scipy.special.betainc(a, b, x) for positive integers a, b is the binomial tail polynomial (oracle slot; compared at 1e-10)',
                        'exp(betaln(i+a, n-i+b) - betaln(a, b)) is the ratio of rising factorials a^(i) b^(n-i) / (a+b)^(n) (compared at 1e-10)',
                        'float64 evaluation is compared with 128-bit software floats (NumD) / exact rationals at 1e-10 x largest entry',
                        'numpy vectorisation of the 1-D formula over the other axes is modelled as mapping the 1-D function over those axes']
    ctx.trusted += ['scipy.special.betainc, scipy.special.betaln/gammaln, scipy.special.comb as oracles for the exact polynomial / rational values']
    from harness.props import c05_seq
    replay_sessions = None
    if ctx.replay:
        rp = json.load(open(ctx.replay))
        inp = rp.get('input') or {}
        if 'sequence' in inp:                   # a call with its predecessors: the whole sequence again, in one fresh process
            replay_sessions = [c05_seq.session_from_replay(inp)]
        calls = [inp['call']] if 'call' in inp else []
        fp = [c for c in calls if c['fn'] == 'from_phi']; pv = [c for c in calls if c['fn'] == 'private']
        ib = [c for c in calls if c['fn'] == 'from_phi_inbreeding']; bc = [c for c in calls if c['fn'] == 'bbconv']
        for c in calls:
            c.setdefault('branch', 'replay'); c.setdefault('d', len(c.get('shape', [])))
            c.pop('pre', None); c.pop('post', None)
    else:
        fp, pv, ib, bc = gen_from_phi(ctx), gen_private(ctx), gen_inbreeding(ctx), gen_bbconv(ctx)
    allc = fp + pv + ib + bc
    res = run_calls(ctx, allc)
    groups = {'fp': ('fcheck', []), 'pv': ('pcheck', []), 'ib': ('icheck', []), 'bb': ('bcheck', []), 'bd': ('bdcheck', [])}
    for c, r in zip(allc, res):
        tag = {'from_phi': 'fp', 'private': 'pv', 'from_phi_inbreeding': 'ib', 'bbconv': 'bb'}[c['fn']]
        if c['fn'] == 'bbconv':
            ctx.count('bbconv ploidy=%d' % c['p'])
            ok = 'data' in r and finite(r['data'])
            if not ok:
                ctx.violation('BetaBinomConvolution failed: %r' % (r,), data={'call': c, 'impl': r}); continue
            ctx.case(signature=('bb', c['n'], c['p'], c['a'], c['b']), sample={'call': c, 'impl': r['data'][:4]})
            s = math.fsum(r['data'])
            close(ctx, 'betabinom-convolution-sums-to-one n=%d ploidy=%d' % (c['n'], c['p']), [s], [1.0], 1e-11, {'call': c, 'sum': s})
            groups[tag if c.get('exact', True) else 'bd'][1].append((c, r))
            continue
        ctx.count('%s d=%d' % (c['branch'], c['d']))
        if not classify(ctx, c, r):
            continue
        ctx.case(signature=(c['fn'], c.get('name'), c['branch'], c['shape'], c['ns'], c['xxs'], c['phi'][:8], c.get('admix'), c.get('het'),
                            c.get('force'), c.get('Fs'), c.get('ploidys')),
                 sample={'call': describe(c), 'impl': (r.get('data') or [r.get('refused')])[:4]})
        bookkeeping(ctx, c, r)
        groups[tag][1].append((c, r))
    # sequences of calls in one process colliding on the memo keys (c05_seq.py); their calls join the model comparison below
    if replay_sessions is not None or not ctx.replay:
        c05_seq.run(ctx, groups, replay_sessions)
    correspondence(ctx, [(t, fn, pairs) for t, (fn, pairs) in groups.items()])
    if not ctx.replay:
        predicates(ctx)
