"""C14 — spectra survive file and pickle round trips with data, mask, folding and labels.

Static theorems: coq/theories/Props/C14.v (model: Model/FileFormat.v, proofs: Proofs/FileFormat*.v).
Per run, for every generated spectrum (d=1..5 incl. singleton axes, values 1e-300..1e300, +-inf, nan, arbitrary mask,
folded or not, labels with blanks, 0-5 comments, precision 16..20, plain / .gz name, mask_corners on/off):
  (i)   correspondence on text: Model.to_file (Python's '%.<p>g' tokens plugged in as [fmt]) == the file the
        implementation wrote, byte for byte (compared inside Coq); same for Numerics.array_to_file;
  (ii)  the model parser on implementation-written files == what Spectrum.from_file returned;
        the implementation reader on the model-written file (a text Coq certified to be Model.to_file's output)
        == what the model parser returns; hand-written pre-1.3 files through both readers;
        the copyreg reduce tuple and the unpickler's result against the model;
        the conclusion of C14_roundtrip / C14_roundtrip_old_format / C14_array_roundtrip evaluated on the input;
  (iii) the property predicate directly on the implementation: write/read and pickle/unpickle (every protocol)
        return the same shape, values to the written precision (exact for p >= 17; non-finite values come back
        as themselves), mask (corners forced when mask_corners=True, the documented reader option), folding
        status, pop_ids and the comments (as the writer stores them: stripped); array_to_file/array_from_file
        and Spectrum.from_file on the generic file agree.
  (iv)  memory layouts (c14_layouts.py): every generated spectrum is ALSO rebuilt, with the same logical content, as the
        result of reorder_pops / .transpose(perm) / .T / .swapaxes (d >= 2), from Fortran-ordered and axis-permuted input
        (d >= 2), as a stepped slice and as a reversed slice of a larger Spectrum, with copy=False on stepped/reversed
        views (mask in a Fortran-ordered block), with a stride-0 broadcast mask / a bool mask (constant masks) and with
        numpy.ma.nomask (no masked entry).  Each of these goes through to_file/from_file under two configurations
        (the case's own and the opposite: other precision class, other format, other transport, other mask_corners),
        Numerics.array_to_file/array_from_file (masked object and bare data view) and the pickler / every protocol.
        Correspondence inside Coq: the memory block, offset and strides of data and mask are handed to the model, which
        computes the logical content itself ([v_ravel]) and whose to_file of it must be the text the implementation
        wrote (item IWriteV); every text written must equal the Coq-certified reference text of the logical content;
        the round-trip predicate is evaluated on the real code (failing input = case + layout as replay).
  (v)   source-shape obligations (fail closed): statements of to_file / from_file / array_to_file / array_from_file /
        pickler / unpickler are the ones the model was written against; data and mask lines come from the C-order ravel
        of the logical array; the readers reshape in C order.
  (vi)  argument / attribute types (c14_types.py): every generated spectrum is ALSO built, and every call made, with the other
        Python / numpy types the API accepts - data_folded as numpy.bool_ (array element, numpy.all result, comparison) / int /
        numpy integer / float / 0-d array; mask as int / uint8 / float array, nested list / tuple, numpy.ma.nomask / None / False;
        data as nested list / tuple, masked array, longdouble, big-endian, object array and - on a derived content that the type
        holds exactly - uint8 .. int64, float16, float32, int list; pop_ids and comment_lines as tuple / numpy str / object array /
        list of numpy.str_ / generator; precision as numpy integer / float / 0-d array; foldmaskinfo / mask_corners /
        return_comments as numpy.bool_ / int / 0-d array; file names as numpy.str_ / pathlib.Path / bytes / open file object -
        one factor at a time and combined, through to_file/from_file (own and opposite configuration: .gz, foldmaskinfo=False),
        array_to_file/array_from_file, the pickler, pickle protocols and deepcopy.  Every accepted spelling must build the
        canonical object, write the Coq-certified reference text, and read back the canonical-form result; for flag / label
        container variants the model's to_file of the OBJECT (Model.to_file_obj with the [pyflag] / [seqkind] the implementation
        reports) and its reduce tuple are compared inside Coq (items IWriteF / IPickleF).  What the unchanged library rejects
        (reviewed table c14_types.REJECTED) is counted, not compared.
  (vii) when a source-shape obligation or the correspondence breaks and no round trip failed: targeted search over fresh spectra
        with every PAIR of argument / attribute dimensions in a non-canonical type, before no-failing-input-found is reported.
Kept out of the generator because the format cannot carry them and the property does not promise them
(C14_label_with_quote_refuted, hypotheses of C14_roundtrip): labels containing a double quote, labels or
comments with an embedded line terminator, non-ASCII text, axes of length 0.
"""
import json, math, os
from harness import lib
from harness.lib import b
from harness.props import c14_layouts as LY
from harness.props import c14_types as TY

INF = float('inf')

# ----------------------------------------------------------------------------------------------
# Coq literals

def cs(s):
    """a Python str (ASCII) as a Coq string expression"""
    if any(ord(ch) > 127 for ch in s):
        raise ValueError('non-ASCII text cannot be sent to the model: %r' % s)
    if all(32 <= ord(ch) <= 126 for ch in s):
        return '"' + s.replace('"', '""') + '"'
    parts, run, kind = [], '', None
    for ch in s:
        k = 32 <= ord(ch) <= 126
        if kind is not None and k != kind:
            parts.append((kind, run)); run = ''
        kind = k; run += ch
    parts.append((kind, run))
    out = []
    for k, r in parts:
        if k:
            out.append('"' + r.replace('"', '""') + '"')
        else:
            out.append('(sb [' + '; '.join(str(ord(ch)) for ch in r) + ']%N)')
    return '(sconcat [' + '; '.join(out) + '])'

def csl(xs):
    return '[' + '; '.join(cs(x) for x in xs) + ']'

def cnl(xs):
    return '[' + '; '.join('%d' % int(x) for x in xs) + ']'

def cbl(xs):
    return '[' + '; '.join(b(x) for x in xs) + ']'

def copt(x, f):
    return 'None' if x is None else '(Some %s)' % f(x)

def cspec(shape, toks, mask, folded, labels, extrap):
    return '(mkSpec %s %s %s %s %s %s)' % (cnl(shape), pcsl(toks), _POOL[0].share(cbl(mask)), b(folded), copt(labels, csl), copt(extrap, cs))

def czl(xs):
    return '[' + '; '.join('(%d)%%Z' % int(x) for x in xs) + ']'

def cview(block, off, shape, strides):
    return '(mkView %s (%d)%%Z %s %s)' % (block, int(off), cnl(shape), czl(strides))

def carr(shape, xs, f):
    return '(mkArray %s %s)' % (cnl(shape), f(xs))

# ----------------------------------------------------------------------------------------------
# numbers <-> tokens (the oracle [fmt] / [parse] of the model = Python's % formatting / float())

def tok(x, p):
    return '%.*g' % (p, x)

def same(a, bb):
    return (a != a and bb != bb) or a == bb

def num_of(t):
    try:
        return float(t)
    except ValueError:
        return None

def canon(vals, file_toks, p):
    """values the implementation read, as tokens: the file token when numerically equal to it"""
    out = []
    for i, v in enumerate(vals):
        t = file_toks[i] if i < len(file_toks) else None
        n = num_of(t) if t is not None else None
        out.append(t if (n is not None and same(n, v)) else tok(v, p))
    return out

def data_tokens(text):
    """tokens of the first line after the comment block and the shape line (as the readers locate it)"""
    lines = text.replace('\r\n', '\n').replace('\r', '\n').split('\n')
    k = 0
    while k < len(lines) and lines[k].startswith('#'):
        k += 1
    return ' '.join(lines[k + 1:k + 2]).split(), ' '.join(lines[k + 1:]).split()

def within_precision(read, x, p):
    """read back value vs. original to p significant digits (exact from 17 digits on)"""
    if x != x or read != read:
        return x != x and read != read
    if x in (INF, -INF) or read in (INF, -INF):
        return read == x
    if p >= 17:
        return read == x
    # |decimal - x| <= half a unit of the p-th digit <= 0.5e(1-p)|x| ; reading the decimal rounds once more (<= 2^-53 relative)
    return abs(read - x) <= (0.5 * 10.0 ** (1 - p) + 2.0 ** -52) * abs(x)

# ----------------------------------------------------------------------------------------------
# reference writer (the "model-written file": Coq certifies  Model.to_file s = this text  before it counts)

def mirror_text(comments, shape, toks, mask, folded, labels, fmi):
    s = ''.join('# ' + c.strip() + '\n' for c in comments)
    s += ''.join('%d ' % n for n in shape)
    if fmi:
        s += 'folded' if folded else 'unfolded'
        if labels is not None:
            s += ''.join(' "%s"' % l for l in labels)
    s += '\n' + ' '.join(toks) + '\n'
    if fmi:
        s += ' '.join('1' if m else '0' for m in mask) + '\n'
    return s

def array_mirror_text(comments, shape, toks):
    return ''.join('# ' + c.strip() + '\n' for c in comments) + ''.join('%d ' % n for n in shape) + '\n' + ' '.join(toks) + '\n'

def corners(mask):
    m = list(mask)
    if m:
        m[0] = True; m[-1] = True
    return m

# ----------------------------------------------------------------------------------------------
# generator

LABELS = ['YRI', 'CEU', 'pop 1', 'pop two', ' lead', 'trail ', '  ', '', 'a  b', 'my folded pop', 'unfolded', 'folded',
          '3 4', "it's", 'x#y', '#', 'tab\there', 'a\\b', '5', 'A.B-c_d', 'East Asia (CHB+JPT)', 'f\x0cf', '{}%s%d']
COMMENTS = ['simulated data', '  padded  ', '\tpadded with tabs\t', '#double hash', '', '   ', 'has "quotes" inside', '3 4 folded',
            'unfolded "a" "b"', 'trailing newline\n', 'x' * 90, 'dadi 1.2 file', 'a\tb', "params = [1.0, 2.5e-3]", '%d %s %%',
            '\r\n', 'ends with CR\r']
SPECIALS = [1e-300, 1e300, -1e300, -1e-300, 1.5, 0.1, 1.0 / 3, 2.0 / 3, 1e16, 123456789012345678.0, 9007199254740992.0,
            0.30000000000000004, 1.7976931348623157e+300, 2.2250738585072014e-300, 1e22, 1e23, 5e-1, 4.35, 1e15 + 0.3,
            8.41e21, 9.999999999999999e22]

def gen_value(rng, nonfinite):
    r = rng.random()
    if nonfinite:
        if r < 0.10: return INF
        if r < 0.18: return -INF
        if r < 0.28: return float('nan')
    r = rng.random()
    if r < 0.15: return float(rng.randint(0, 5000))
    if r < 0.20: return rng.choice([0.0, -0.0])
    if r < 0.32: return rng.choice(SPECIALS)
    x = rng.uniform(1, 10) * 10.0 ** rng.randint(-300, 299)
    x = min(max(x, 1e-300), 1e300)
    return -x if rng.random() < 0.3 else x

def gen_shape(rng, d, cap):
    while True:
        style = rng.random()
        if style < 0.12:
            sh = [1] * d
        else:
            sh = [rng.choice([1, 1, 2, 2, 3, 3, 4, 5, 6, 9]) for _ in range(d)]
        n = 1
        for k in sh:
            n *= k
        if n <= cap:
            return sh

def gen_case(rng, cid, d, cap):
    shape = gen_shape(rng, d, cap)
    n = 1
    for k in shape:
        n *= k
    nonfinite = rng.random() < 0.5
    data = [gen_value(rng, nonfinite) for _ in range(n)]
    dens = rng.choice([0.0, 0.15, 0.5, 1.0, 0.3])
    mask = [rng.random() < dens for _ in range(n)]
    if rng.random() < 0.3:
        mask = corners(mask)
    folded = rng.random() < 0.4
    via_fold = (not folded) and rng.random() < 0.15
    labels = None if rng.random() < 0.3 else [rng.choice(LABELS) for _ in range(d)]
    comments = [rng.choice(COMMENTS) for _ in range(rng.choice([0, 0, 1, 2, 3, 4, 5]))]
    c = {'id': cid, 'shape': shape, 'data': data, 'mask': mask, 'folded': folded, 'via_fold': via_fold,
         'pop_ids': labels, 'extrap_x': rng.choice([None, None, 0.015625, 1e-3]),
         'precision': rng.choice([16, 16, 17, 18, 19, 20]), 'comments': comments,
         'fmi': rng.random() < 0.8, 'gz': rng.random() < 0.3, 'mc': rng.random() < 0.5,
         'alias': rng.random() < 0.2, 'defaults': False,
         'array_masked': rng.random() < 0.4, 'array_fid': rng.random() < 0.4,
         'old_kinds': [rng.choice(['legacy', 'tight', 'loose', 'crlf', 'bare_comments']) for _ in range(rng.choice([0, 1, 1, 2]))],
         'old_mc': rng.random() < 0.5}
    if rng.random() < 0.08:
        c.update({'defaults': True, 'precision': 16, 'comments': [], 'fmi': True})
    return c

def old_file_text(kind, comments, shape, toks):
    if kind == 'legacy':        # what dadi < 1.3 wrote (= array_to_file today)
        return array_mirror_text(comments, shape, toks)
    if kind == 'tight':         # no trailing blank on the shape line, no final newline
        return ''.join('#' + c.strip() + '\n' for c in comments) + ' '.join('%d' % n for n in shape) + '\n' + ' '.join(toks)
    if kind == 'loose':         # generous white space, a blank third line
        return ''.join('#   ' + c.strip() + ' \n' for c in comments) + '  '.join('%d' % n for n in shape) + ' \n' + ' \t'.join(toks) + '  \n\n'
    if kind == 'crlf':          # written on Windows
        return array_mirror_text(comments, shape, toks).replace('\n', '\r\n')
    if kind == 'bare_comments':
        return '#\n' + array_mirror_text(comments, shape, toks)
    raise ValueError(kind)

# ----------------------------------------------------------------------------------------------

class Items:
    """tagged Coq items of one case.  Large literals (file texts, token lists) are defined once per case
    (Coq spends its time elaborating literals, ~15 KB/s) as top-level definitions and referenced wherever the same Python value recurs."""
    def __init__(self, cid=0):
        self.cid = cid
        self.items = []          # (tag, name, coq text)
        self.pool = {}           # coq literal -> variable
    def add(self, name, text):
        self.items.append((len(self.items), name, text))
    def share(self, lit):
        if len(lit) < 40:
            return lit
        v = self.pool.get(lit)
        if v is None:
            v = self.pool[lit] = 'c%d_v%d' % (self.cid, len(self.pool))
        return v
    def defs(self):
        """top-level definitions of the shared literals (nested `let` makes Coq's elaboration blow up)"""
        return ''.join('Definition %s := %s.\n' % (v, lit) for lit, v in self.pool.items())
    def coq(self):
        return '[' + '; '.join('(%d%%Z, %s)' % (t, x) for t, _, x in self.items) + ']'

_POOL = [None]      # the Items of the case being encoded (cs / csl of long values go through its pool)

def pcs(s):
    return _POOL[0].share(cs(s))

def pcsl(xs):
    return _POOL[0].share(csl(xs))

def read_result_coq(r, file_toks, p):
    """what a reader of the implementation returned, as the model's result type; None when not encodable"""
    if 'error' in r:
        return 'None'
    if not isinstance(r['folded'], bool):
        return None
    toks = canon(r['data'], file_toks, p)
    return '(Some (%s, %s))' % (csl(r['comments']), cspec(r['shape'], toks, r['mask'], r['folded'], r['pop_ids'],
                                                          None if r['extrap_x'] is None else repr(r['extrap_x'])))

def aread_result_coq(r, file_toks, p):
    if 'error' in r:
        return 'None'
    return '(Some (%s, %s))' % (csl(r['comments']), carr(r['shape'], canon(r['data'], file_toks, p), pcsl))

def diff_read(r, want, p, what):
    """property predicate on one reader result; returns a list of discrepancies (empty = holds)"""
    if 'error' in r:
        return ['%s raised %s' % (what, r['error'])]
    bad = []
    if r['shape'] != want['shape']:
        return ['%s: shape %r, expected %r' % (what, r['shape'], want['shape'])]
    if r['mask'] != want['mask']:
        bad.append('%s: mask differs (got %r, expected %r)' % (what, r['mask'][:12], want['mask'][:12]))
    else:
        for i, (v, x) in enumerate(zip(r['data'], want['data'])):
            if want['mask'][i]:
                continue
            t = want['toks'][i] if want.get('toks') else None
            if t is not None and not same(v, float(t)):
                bad.append('%s: entry %d read as %r, expected float(%r) (the original printed with %d digits)' % (what, i, v, t, p)); break
            if not within_precision(v, x, p):
                bad.append('%s: entry %d is %r, written from %r with %d digits' % (what, i, v, x, p)); break
    if r.get('folded') != want['folded']:
        bad.append('%s: folded=%r, expected %r' % (what, r.get('folded'), want['folded']))
    if r.get('pop_ids') != want['pop_ids']:
        bad.append('%s: pop_ids=%r, expected %r' % (what, r.get('pop_ids'), want['pop_ids']))
    if 'comments' in want and r.get('comments') != want['comments']:
        bad.append('%s: comments=%r, expected %r' % (what, r.get('comments'), want['comments']))
    if r.get('is_spectrum') is False:
        bad.append('%s: result is not a Spectrum' % what)
    if r.get('bare_ok') is False:
        bad.append('%s: return_comments=False did not return the bare object' % what)
    return bad

def cls_of(msg):
    for k in ('raised', 'shape', 'mask', 'entry', 'folded', 'pop_ids', 'comments', 'not a Spectrum', 'bare object', 'plain ndarray'):
        if k in msg:
            return k
    return 'other'

NOMASK_KEY = 'to_file-nomask-mask-line'
NOMASK_WHAT = ('Spectrum.to_file of a spectrum whose mask is numpy.ma.nomask (no masked entry, e.g. after shrink_mask()) writes a mask line with '
               'ONE flag for all entries (numpy.asarray(self.mask, int).ravel() of the scalar nomask); from_file then fills the mask from '
               'uninitialised memory - Spectrum_mod.py to_file')

GZ_KEYS = {'write': ('to_file-gz-TypeError',
                     'Spectrum.to_file with a file name ending in .gz raises TypeError (gzip stream opened with mode "wb", str written) - Spectrum_mod.py:319'),
           'read': ('from_file-gz-TypeError',
                    'Spectrum.from_file with a file name ending in .gz raises TypeError (gzip stream opened with mode "rb", compared/split as str) - Spectrum_mod.py:224')}

import sys
H = sys.modules[__name__]      # handed to c14_types (tok / mirror_text / diff_read / Coq literal helpers)

def run(ctx):
    ctx.rule = ('cases = (d in 1..5, shape with singleton axes, values: counts / +-0 / landmark doubles / mantissa x 10^[-300,299] / +-inf / nan, '
                'mask density in {0,.15,.3,.5,1} (+corners), folded (declared or via fold()), labels from a pool with blanks/tabs/#/flag words or None, '
                '0-5 comments from a pool with padding/#/quotes/CR-LF tails, precision 16..20, foldmaskinfo, .gz, mask_corners, alias, '
                'array writer on ndarray / masked Spectrum / open file, hand-written pre-1.3 layouts) from one PRNG; '
                'each case x memory layouts {reorder_pops, transpose, T, swapaxes, fortran, ctor_permuted (d>=2, permutation moving the non-singleton axes), '
                'step, neg, nocopy_view (all d), mask_broadcast, mask_scalar (constant mask), nomask (no masked entry)} x 2 writer configurations; '
                'each case x argument / attribute types {data_folded: 9 non-bool types, mask: 6 (+4 when nothing is masked), data: 6 containers / dtypes '
                '+ a derived content (8-bit counts / 24-bit ints / float16- / float32-exact by case id) in every dtype holding it exactly, pop_ids: 4, '
                'comment_lines: 5, precision: 6, foldmaskinfo / mask_corners / return_comments: 3 each, file name: 4} one factor at a time + 3 all-factor '
                'combinations x {to_file/from_file in 2 configurations, array_to_file/array_from_file, pickler, 3 pickle protocols, deepcopy}; '
                'distinct = distinct (shape, values, mask, flags, labels, comments, precision); non-trivial = more than one entry or labels or comments')
    ctx.assumptions += [
        "oracle of the model: '%.<p>g' % x is a non-empty token without white space and numpy reads it back as x rounded to p significant digits "
        "(checked here on every value: float(token) == value read, |read - x| <= 0.5e(1-p)|x|, equality for p >= 17)",
        'text is ASCII; gzip / text-mode transport is the identity on the text (exercised at run time, not modelled)',
        'comments are promised as the writer stores them: c.strip(); unchanged exactly when they carry no leading/trailing white space',
        'Spectrum.from_file(mask_corners=True) forces the two corner entries masked (documented reader option); the mask is compared up to that',
        'not generated (format cannot carry them, see C14_label_with_quote_refuted and the hypotheses of C14_roundtrip): labels containing a double '
        'quote, labels/comments with an embedded line terminator, non-ASCII text, zero-length axes']
    ctx.assumptions += ['memory layouts: the block / offset / strides of data and mask are read off the numpy objects by the driver (rebuilt from '
                        'exactly these and compared bit for bit before they count); the logical content is computed from them by the model inside Coq']
    ctx.assumptions += ['argument / attribute types: which spellings the library accepts was established on the unchanged tree (table '
                        'c14_types.REJECTED: Spectrum.to_file / from_file take str-like names only - pathlib.Path, bytes and open file objects raise); '
                        'an accepted spelling must give the canonical-form result (bool(flag), list of label items, float64 entries, bool mask); '
                        'dtype variants use a derived content the dtype holds exactly (the conversion itself is numpy\'s)']
    src_broken = LY.source_obligations(ctx)
    ctx.trusted += ['Section variables of Proofs/FileFormatProofs.v: fmt, parse, round with parse (fmt p x) = round p x and tok_ok (fmt p x) '
                    '(instance tnum proves them satisfiable); the pickle protocol itself (bytes <-> reduce tuple) and gzip are trusted']
    rng = ctx.rng
    ncases = ctx.pick(150, 4000)
    cap = ctx.pick(120, 300)
    cases = []
    for cid in range(ncases):
        d = 1 + cid % 5
        cases.append(gen_case(rng, cid, d, cap))
    if ctx.replay:
        rp = json.load(open(ctx.replay))
        if rp.get('input') and 'case' in rp['input']:
            c = rp['input']['case']; c['id'] = 0
            cases = [c]
    # texts the harness supplies: they depend on the spectrum as constructed (fold() changes data/mask), so a first
    # pass asks the implementation only for the constructed contents when via_fold is set; otherwise computed here.
    pre = [c for c in cases if c.get('via_fold')]
    if pre:
        res0 = lib.run_impl('c14_impl.py', [dict(c, mirror_text='1 \n0\n', array_mirror_text='1 \n0\n', old_files=[]) for c in pre], timeout=1800)
        o0 = {r['id']: r for r in res0}
    for c in cases:
        if c.get('via_fold'):
            r0 = o0[c['id']]
            if 'orig' not in r0:
                raise RuntimeError('driver failed on case %d: %r' % (c['id'], r0))
            o = r0['orig']
            c['_data'], c['_mask'], c['_folded'] = o['data'], o['mask'], o['folded']
        else:
            c['_data'], c['_mask'], c['_folded'] = c['data'], c['mask'], c['folded']
        p = c['precision']
        toks = [tok(x, p) for x in c['_data']]
        c['_toks'] = toks
        c['mirror_text'] = mirror_text(c['comments'], c['shape'], toks, c['_mask'], c['_folded'], c['pop_ids'], c['fmi'])
        atoks = ['nan' if (c['array_masked'] and m) else t for t, m in zip(toks, c['_mask'])]
        c['_atoks'] = atoks
        c['array_mirror_text'] = array_mirror_text(c['comments'], c['shape'], atoks)
        c['old_files'] = [{'kind': k, 'mc': c['old_mc'], 'text': old_file_text(k, c['comments'], c['shape'], atoks)} for k in c['old_kinds']]
        if 'layouts' not in c:
            # quick: every case; thorough: every second case (2000 spectra x ~10 layouts) to stay inside the time budget
            c['layouts'] = LY.gen_layouts(c, ctx.seed, c['_mask']) if (ctx.quick or c['id'] % 2 == 0) else []
        if 'types' not in c:
            # quick: every case; thorough: every fourth case (1000 spectra x ~60 spellings)
            c['types'] = TY.gen_types(H, c, ctx.seed, c['_data'], c['_mask'], c['_folded']) if (ctx.quick or c['id'] % 4 == 0) else None
    payload = [{k: v for k, v in c.items() if not k.startswith('_')} for c in cases]
    # the driver is run on 4 slices of the cases side by side (fresh interpreter each)
    from concurrent.futures import ThreadPoolExecutor
    nproc = 1 if len(payload) < 8 else 4
    slices = [payload[k::nproc] for k in range(nproc)]
    with ThreadPoolExecutor(nproc) as ex:
        parts = list(ex.map(lambda sl: lib.run_impl('c14_impl.py', sl, timeout=3000), slices))
    byid = {r['id']: r for part in parts for r in part}

    exprs, meta = [], {}
    seen_keys = set()
    viol_classes = {}
    calls = {}
    def called(k):
        calls[k] = calls.get(k, 0) + 1
    def violation(cls, what, c, r, key=None, layout=None, types=None):
        if key is not None:
            if key in seen_keys:
                return
            seen_keys.add(key)
        else:
            viol_classes[cls] = viol_classes.get(cls, 0) + 1
            if viol_classes[cls] > 1 or len(viol_classes) > 6:
                return
        data = {'case': {k: v for k, v in c.items() if not k.startswith('_')}, 'impl': r}
        if layout is not None:
            data['layout'] = layout
        if types is not None:
            data['types'] = types
        ctx.violation(what, data=data, key=key)
    pred_failed = set()
    corr_layout_bad = []
    lay_stats = {}           # layout kind -> counters (regime really exercised)
    type_stats = {}          # (dimension, kind, counter) of the typed variants
    def tstat(dim, kind, k):
        type_stats[(dim, kind, k)] = type_stats.get((dim, kind, k), 0) + 1
    def lstat(kind, k, n=1):
        d0 = lay_stats.setdefault(kind, {})
        d0[k] = d0.get(k, 0) + n

    for c in cases:
        r = byid[c['id']]
        if r.get('driver_failed'):
            ctx.obligation('impl driver case %d' % c['id'], False, 'harness', r.get('error', ''))
            continue
        p = c['precision']; shape = c['shape']; n = len(c['_data'])
        o = r['orig']
        ctx.count('d=%d' % len(shape)); ctx.count('precision=%d' % p); ctx.count('comments=%d' % len(c['comments']))
        ctx.count('gz' if c['gz'] else 'plain'); ctx.count('folded' if o['folded'] else 'unfolded')
        ctx.count('labels' if c['pop_ids'] is not None else 'no_labels')
        if any(k == 1 for k in shape): ctx.count('has_singleton_axis')
        if any(x != x or x in (INF, -INF) for x in c['_data']): ctx.count('has_nonfinite')
        if c['pop_ids'] and any(' ' in l for l in c['pop_ids']): ctx.count('label_with_blank')
        ctx.count('foldmaskinfo' if c['fmi'] else 'foldmaskinfo=False'); ctx.count('mask_corners' if c['mc'] else 'mask_corners=False')
        nontriv = n > 1 or c['pop_ids'] is not None or bool(c['comments'])
        ctx.case(signature=(shape, [repr(x) for x in c['_data']], c['_mask'], o['folded'], c['pop_ids'], c['comments'], p, c['fmi'], c['gz'], c['mc']) if nontriv else None,
                 sample={'shape': shape, 'data': [repr(x) for x in c['_data'][:6]], 'mask': c['_mask'][:6], 'folded': o['folded'], 'pop_ids': c['pop_ids'],
                         'comments': c['comments'], 'precision': p, 'gz': c['gz'], 'file': (r['write'].get('text') or '')[:200]})
        # the constructed spectrum is what the generator asked for
        if (o['shape'] != shape or o['mask'] != c['_mask'] or o['folded'] != c['_folded'] or o['pop_ids'] != c['pop_ids']
                or not all(same(a, bb) for a, bb in zip(o['data'], c['_data']))):
            ctx.obligation('constructed spectrum of case %d is the generated one' % c['id'], False, 'harness', repr(o)[:300])
            continue
        toks = c['_toks']; atoks = c['_atoks']
        its = Items(c['id']); _POOL[0] = its
        spec = its.share(cspec(shape, toks, o['mask'], o['folded'], o['pop_ids'], None if o['extrap_x'] is None else repr(o['extrap_x'])))
        ccom = its.share(csl(c['comments']))
        comments_kept = [x.strip() for x in c['comments']]
        if c['fmi']:
            want = {'shape': shape, 'data': c['_data'], 'toks': toks, 'mask': corners(o['mask']) if c['mc'] else o['mask'],
                    'folded': o['folded'], 'pop_ids': o['pop_ids'], 'comments': comments_kept}
        else:
            m0 = [False] * n
            want = {'shape': shape, 'data': c['_data'], 'toks': toks, 'mask': corners(m0) if c['mc'] else m0,
                    'folded': False, 'pop_ids': None, 'comments': comments_kept}
        # ---------------- theorem instance on this input
        its.add('C14_roundtrip%s evaluated on the input' % ('' if c['fmi'] else '_old_format'),
                '(IRound %s %s %s %s)' % (ccom, b(c['mc']), b(c['fmi']), spec))
        # ---------------- (i) the file the implementation wrote
        w = r['write']
        if 'text' in w:
            called('to_file')
            its.add('Model.to_file = file written by Spectrum.to_file', '(IWrite %s %s %s %s)' % (ccom, b(c['fmi']), spec, pcs(w['text'])))
        elif c['gz'] and w.get('etype') == 'TypeError' and 'bytes' in w['error']:
            ctx.count('gz_write_TypeError')
            violation('gzw', GZ_KEYS['write'][1] + ': ' + w['error'], c, w, key=GZ_KEYS['write'][0])
        else:
            pred_failed.add(c['id'])
            violation('write', 'Spectrum.to_file raised %s (shape %r, precision %d, gz=%s)' % (w['error'], shape, p, c['gz']), c, w)
        its.add('Model.to_file = model-written file handed to the implementation', '(IWrite %s %s %s %s)' % (ccom, b(c['fmi']), spec, pcs(c['mirror_text'])))
        # ---------------- (ii)+(iii) readers
        for name, text in (('read_own', w.get('text')), ('read_model', c['mirror_text'])):
            rr = r.get(name)
            if rr is None or text is None:
                continue
            if 'error' in rr and c['gz'] and rr.get('etype') == 'TypeError' and 'bytes' in rr['error']:
                ctx.count('gz_read_TypeError')
                violation('gzr', GZ_KEYS['read'][1] + ': ' + rr['error'], c, rr, key=GZ_KEYS['read'][0])
                continue
            called('from_file')
            ftoks = data_tokens(text)[0]
            enc = read_result_coq(rr, ftoks, p)
            label = 'Model.from_file = Spectrum.from_file on the %s file' % ('implementation-written' if name == 'read_own' else 'model-written')
            if enc is None:
                ctx.obligation('corr case %d: %s' % (c['id'], label), False, 'correspondence', 'result not encodable: %r' % (rr,))
            else:
                its.add(label, '(IRead %s %s %s)' % (b(c['mc']), pcs(text), enc))
            bad = diff_read(rr, want, p, 'to_file/from_file round trip' if name == 'read_own' else 'from_file on a well-formed file')
            ctx.obligation('predicate case %d: %s' % (c['id'], name), not bad, 'predicate', '; '.join(bad))
            if bad:
                pred_failed.add(c['id'])
                violation(name + ':' + cls_of(bad[0]), bad[0][:250], c, rr)
        # ---------------- hand-written pre-1.3 files
        for of, rr in zip(c['old_files'], r.get('read_old', [])):
            called('from_file(pre-1.3)')
            ctx.count('old_' + of['kind'])
            m0 = [False] * n
            wold = {'shape': shape, 'data': [float(t) for t in atoks], 'toks': atoks, 'mask': corners(m0) if of['mc'] else m0, 'folded': False,
                    'pop_ids': None, 'comments': comments_kept if of['kind'] != 'bare_comments' else [''] + comments_kept}
            enc = read_result_coq(rr, atoks, p)
            if enc is not None:
                its.add('Model.from_file = Spectrum.from_file on a hand-written pre-1.3 file (%s)' % of['kind'], '(IRead %s %s %s)' % (b(of['mc']), pcs(of['text']), enc))
            bad = diff_read(rr, wold, 17, 'pre-1.3 file (%s)' % of['kind'])
            ctx.obligation('predicate case %d: pre-1.3 file %s' % (c['id'], of['kind']), not bad, 'predicate', '; '.join(bad))
            if bad:
                pred_failed.add(c['id'])
                violation('old:' + cls_of(bad[0]), bad[0][:250], c, rr)
        # ---------------- pickle
        pk = r['pickle']
        if 'reduce_error' in pk:
            pred_failed.add(c['id'])
            violation('reduce', 'the copyreg pickler of Spectrum raised %s' % pk['reduce_error']['error'], c, pk)
        else:
            called('copyreg pickler')
            a = pk['args']; u = pk['unpickled_args']
            ex = lambda v: None if v is None else repr(v)
            if isinstance(a['folded'], bool) and isinstance(u['folded'], bool):
                rtoks = [repr(x) for x in o['data']]
                spec_exact = cspec(shape, rtoks, o['mask'], o['folded'], o['pop_ids'], ex(o['extrap_x']))
                args = '(%s, %s, %s, %s, %s)' % (carr(a['data_shape'], [repr(x) for x in a['data']], pcsl), carr(a['mask_shape'], a['mask'], lambda m: _POOL[0].share(cbl(m))),
                                                 b(a['folded']), copt(a['pop_ids'], csl), copt(ex(a['extrap_x']), cs))
                ures = '(Some %s)' % cspec(u['shape'], [repr(x) for x in u['data']], u['mask'], u['folded'], u['pop_ids'], ex(u['extrap_x']))
                its.add('Model pickler/unpickler = Spectrum_pickler/Spectrum_unpickler (%s)' % pk.get('reduce_func'), '(IPickle %s %s %s)' % (spec_exact, args, ures))
            else:
                ctx.obligation('corr case %d: reduce tuple encodable' % c['id'], False, 'correspondence', repr(a)[:200])
        wantp = {'shape': shape, 'data': o['data'], 'mask': o['mask'], 'folded': o['folded'], 'pop_ids': o['pop_ids']}
        for proto, rr in sorted(pk['protocols'].items()):
            called('pickle')
            bad = diff_read(rr, wantp, 17, 'pickle protocol %s round trip' % proto)
            ctx.obligation('predicate case %d: pickle protocol %s' % (c['id'], proto), not bad, 'predicate', '; '.join(bad))
            if bad:
                pred_failed.add(c['id'])
                violation('pickle:' + cls_of(bad[0]), bad[0][:250], c, rr)
        # ---------------- generic array writer / reader
        ar = r['array']
        adata = [float('nan') if (c['array_masked'] and m) else x for x, m in zip(c['_data'], o['mask'])]
        awant = {'shape': shape, 'data': adata, 'toks': atoks, 'mask': [False] * n, 'folded': None, 'pop_ids': None, 'comments': comments_kept}
        arr = carr(shape, atoks, pcsl)
        its.add('C14_array_roundtrip evaluated on the input', '(IARound %s %s)' % (ccom, arr))
        aw = ar['write']
        if 'text' in aw:
            called('array_to_file')
            its.add('Model.array_to_file = file written by Numerics.array_to_file', '(IAWrite %s %s %s)' % (ccom, arr, pcs(aw['text'])))
        else:
            pred_failed.add(c['id'])
            violation('awrite', 'Numerics.array_to_file raised %s' % aw['error'], c, aw)
        its.add('Model.array_to_file = model-written array file', '(IAWrite %s %s %s)' % (ccom, arr, pcs(c['array_mirror_text'])))
        for name, text in (('read_own', aw.get('text')), ('read_model', c['array_mirror_text'])):
            rr = ar.get(name)
            if rr is None or text is None:
                continue
            called('array_from_file')
            its.add('Model.array_from_file = Numerics.array_from_file on the %s file' % ('implementation-written' if name == 'read_own' else 'model-written'),
                    '(IARead %s %s)' % (pcs(text), aread_result_coq(rr, data_tokens(text)[1], p)))
            rr2 = dict(rr); rr2.setdefault('folded', None); rr2.setdefault('pop_ids', None); rr2['mask'] = [False] * len(rr.get('data', []))
            bad = diff_read(rr2, awant, p, 'array_to_file/array_from_file round trip' if name == 'read_own' else 'array_from_file on a well-formed file')
            if 'error' not in rr and rr.get('is_plain') is False:
                bad.append('array_from_file did not return a plain ndarray')
            ctx.obligation('predicate case %d: array %s' % (c['id'], name), not bad, 'predicate', '; '.join(bad))
            if bad:
                pred_failed.add(c['id'])
                violation('array:' + cls_of(bad[0]), bad[0][:250], c, rr)
        sr = ar.get('spectrum_read')
        if sr is not None and 'text' in aw:
            called('from_file(array file)')
            m0 = [False] * n
            swant = dict(awant, mask=corners(m0) if c['mc'] else m0, folded=False)
            enc = read_result_coq(sr, data_tokens(aw['text'])[0], p)
            if enc is not None:
                its.add('Model.from_file = Spectrum.from_file on the array_to_file file', '(IRead %s %s %s)' % (b(c['mc']), pcs(aw['text']), enc))
            bad = diff_read(sr, swant, p, 'Spectrum.from_file on an array_to_file file')
            ctx.obligation('predicate case %d: spectrum reader on array file' % c['id'], not bad, 'predicate', '; '.join(bad))
            if bad:
                pred_failed.add(c['id'])
                violation('array:spectrum_read', bad[0][:250], c, sr)
        # ---------------- (iv) the same spectrum in other memory layouts
        cfgs = [LY.own_config(c), LY.alt_config(c)]
        p2 = cfgs[1]['precision']
        toks2 = [tok(x, p2) for x in c['_data']]
        refs = [(p, toks, c['mirror_text']),
                (p2, toks2, mirror_text(c['comments'], shape, toks2, c['_mask'], c['_folded'], c['pop_ids'], cfgs[1]['fmi']))]
        amask_toks = ['nan' if m else t for t, m in zip(toks, o['mask'])]
        arefs = {'masked': (amask_toks, array_mirror_text(c['comments'], shape, amask_toks)),
                 'plain': (toks, array_mirror_text(c['comments'], shape, toks))}
        lays = r.get('layouts', [])
        if lays or c.get('types'):
            its.add('Model.to_file = reference text of the second writer configuration (precision %d, foldmaskinfo=%s)' % (p2, cfgs[1]['fmi']),
                    '(IWrite %s %s %s %s)' % (ccom, b(cfgs[1]['fmi']),
                                              cspec(shape, toks2, o['mask'], o['folded'], o['pop_ids'], None if o['extrap_x'] is None else repr(o['extrap_x'])),
                                              pcs(refs[1][2])))
            for nm, (tk, txt) in arefs.items():
                its.add('Model.array_to_file = reference text of the %s array' % nm, '(IAWrite %s %s %s)' % (ccom, carr(shape, tk, pcsl), pcs(txt)))
        def want_for(cfg, tk):
            if cfg['fmi']:
                return {'shape': shape, 'data': c['_data'], 'toks': tk, 'mask': corners(o['mask']) if cfg['mc'] else o['mask'],
                        'folded': o['folded'], 'pop_ids': o['pop_ids'], 'comments': comments_kept}
            m0 = [False] * n
            return {'shape': shape, 'data': c['_data'], 'toks': tk, 'mask': corners(m0) if cfg['mc'] else m0,
                    'folded': False, 'pop_ids': None, 'comments': comments_kept}
        tokidx = {}
        for i, t in enumerate(toks):
            tokidx.setdefault(t, i)
        for lr in lays:
            kind = lr['kind']; linfo = {'kind': kind, 'prm': lr.get('prm')}
            L = 'case %d layout %s' % (c['id'], kind)
            lstat(kind, 'built')
            if lr.get('layout_driver_failed') or 'build_error' in lr:
                e = lr.get('error') or lr['build_error']['error']
                ctx.obligation('%s: the layout could be built' % L, False, 'harness', e)
                pred_failed.add(c['id'])
                violation('layout:%s:build' % kind, 'a spectrum with the content of case %d could not be put in memory layout %s (%r): %s'
                          % (c['id'], kind, lr.get('prm'), e), c, lr, layout=linfo)
                continue
            bt = lr['built']
            if (bt['shape'] != shape or bt['mask'] != o['mask'] or bt['folded'] != o['folded'] or bt['pop_ids'] != o['pop_ids']
                    or bt['extrap_x'] != o['extrap_x'] or not bt['is_spectrum'] or len(bt['data']) != n
                    or not all(same(a, bb) for a, bb in zip(bt['data'], o['data']))):
                ctx.obligation('%s: the rebuilt spectrum has the logical content of the case' % L, False, 'harness', repr(bt)[:300])
                continue
            ctx.case(signature=(shape, [repr(x) for x in c['_data']], c['_mask'], o['folded'], c['pop_ids'], c['comments'], p, kind, lr.get('prm')) if n > 1 else None)
            if 'view_error' in lr:
                ctx.obligation('%s: block / offset / strides of data and mask extracted' % L, False, 'harness', lr['view_error']['error'])
                dv = mv = None
            else:
                vd, vm = lr['data_view'], lr['mask_view']
                md = lr['memory_order_differs']
                if md['data']: lstat(kind, 'data_memory_order_differs')
                if md['mask']: lstat(kind, 'mask_memory_order_differs')
                if not vd['c_contiguous']: lstat(kind, 'data_not_c_contiguous')
                if vm['shape'] == shape and not vm['c_contiguous']: lstat(kind, 'mask_not_c_contiguous')
                if vm['shape'] == shape and n > 1 and all(st == 0 for st in vm['strides']): lstat(kind, 'mask_stride0')
                if any(st < 0 for st in vd['strides']): lstat(kind, 'data_negative_stride')
                if lr['mask_is_nomask']: lstat(kind, 'mask_is_nomask')
                dv = cview('(sel %s %s%%N)' % (pcsl(toks), cnl([tokidx.get(tok(x, p), n) for x in vd['block']])), vd['off'], vd['shape'], vd['strides'])
                if lr['mask_is_nomask']:      # numpy.ma.nomask read as an array: False broadcast over the shape (numpy.ma.getmaskarray)
                    mv = cview('[false]', 0, shape, [0] * len(shape))
                else:
                    mv = cview(_POOL[0].share(cbl(vm['block'])), vm['off'], vm['shape'], vm['strides'])
            for k, w in enumerate(lr['writes']):
                cfg = w['cfg']; pk_, tk_, ref = refs[k]
                W = '%s to_file(precision=%d, foldmaskinfo=%s, %s)' % (L, cfg['precision'], cfg['fmi'], 'gz' if cfg['gz'] else 'plain')
                if cfg != cfgs[k]:
                    ctx.obligation('%s: configuration is the requested one' % W, False, 'harness', repr(cfg)); continue
                if 'text' not in w:
                    pred_failed.add(c['id'])
                    ctx.obligation('predicate %s' % W, False, 'predicate', w.get('error', ''))
                    violation('layout:%s:write' % kind, 'Spectrum.to_file raised %s on a spectrum in memory layout %s (shape %r, precision %d, gz=%s)'
                              % (w.get('error'), kind, shape, cfg['precision'], cfg['gz']), c, lr, layout=linfo)
                    continue
                called('to_file(layout)')
                lines = w['text'].split('\n')
                defect = (lr.get('mask_is_nomask') and cfg['fmi'] and n > 1 and len(lines) >= 2 and lines[-2].split() == ['0']
                          and w['text'] == ref[:len(ref) - len(' '.join(['0'] * n)) - 1] + '0\n')
                if defect:
                    ctx.count('nomask_one_flag_mask_line')
                    ctx.obligation('%s: file written = Model.to_file of the logical content' % W, False, 'correspondence',
                                   'mask line carries 1 flag for %d entries' % n)
                    ctx.obligations[-1]['known_key'] = NOMASK_KEY
                    violation('nomask', NOMASK_WHAT + ': shape %r -> mask line "0"' % (shape,), c, lr, key=NOMASK_KEY, layout=linfo)
                    continue
                if k == 0 and dv is not None:
                    its.add('memory layout %s: Model.to_file of the logical content the model computes from block, offset and strides = file written by Spectrum.to_file' % kind,
                            '(IWriteV %s %s %s %s %s %s)' % (ccom, b(cfg['fmi']), dv, mv, spec, pcs(w['text'])))
                same_text = w['text'] == ref
                ctx.obligation('%s: file written = Model.to_file of the logical content (Coq-certified reference text)' % W, same_text, 'correspondence',
                               '' if same_text else 'first difference at byte %d' % next((i for i, (x, y) in enumerate(zip(w['text'], ref)) if x != y), min(len(ref), len(w['text']))))
                if not same_text:
                    corr_layout_bad.append((c['id'], W))
                rr = w.get('read')
                called('from_file(layout)')
                bad = diff_read(rr, want_for(cfg, tk_), pk_, 'to_file/from_file round trip of a spectrum in memory layout %s (%s)' % (kind, json.dumps(lr.get('prm'))))
                ctx.obligation('predicate %s / from_file' % W, not bad, 'predicate', '; '.join(bad))
                if bad:
                    pred_failed.add(c['id'])
                    violation('layout:%s:read:%s' % (kind, cls_of(bad[0])), bad[0][:280], c, lr, layout=linfo)
            un = lr.get('unchanged', {})
            okun = all(un.get(st) for st in ('to_file', 'array_to_file', 'pickle'))
            ctx.obligation('predicate %s: writing / pickling leaves the spectrum itself unchanged' % L, okun, 'predicate', repr(un))
            if not okun:
                pred_failed.add(c['id'])
                violation('layout:%s:mutated' % kind, 'writing or pickling a spectrum in memory layout %s changed the spectrum itself (%r)' % (kind, un), c, lr, layout=linfo)
            # generic array writer on the masked object and on the bare data view
            for nm, (tk, txt) in arefs.items():
                a = lr['array'][nm]
                A = '%s array_to_file(%s)' % (L, nm)
                if 'text' not in a:
                    pred_failed.add(c['id'])
                    ctx.obligation('predicate %s' % A, False, 'predicate', a.get('error', ''))
                    violation('layout:%s:awrite' % kind, 'Numerics.array_to_file raised %s on the %s array of a spectrum in memory layout %s' % (a.get('error'), nm, kind), c, lr, layout=linfo)
                    continue
                called('array_to_file(layout)')
                same_text = a['text'] == txt
                ctx.obligation('%s: file written = Model.array_to_file of the logical content (Coq-certified reference text)' % A, same_text, 'correspondence')
                if not same_text:
                    corr_layout_bad.append((c['id'], A))
                rr = a.get('read', {'error': 'not read'})
                rr2 = dict(rr); rr2.setdefault('folded', None); rr2.setdefault('pop_ids', None); rr2['mask'] = [False] * len(rr.get('data', []))
                aw_ = {'shape': shape, 'data': [float(t) for t in tk] if nm == 'masked' else c['_data'], 'toks': tk, 'mask': [False] * n,
                       'folded': None, 'pop_ids': None, 'comments': comments_kept}
                bad = diff_read(rr2, aw_, p, 'array_to_file/array_from_file round trip of the %s array of a spectrum in memory layout %s' % (nm, kind))
                ctx.obligation('predicate %s / array_from_file' % A, not bad, 'predicate', '; '.join(bad))
                if bad:
                    pred_failed.add(c['id'])
                    violation('layout:%s:array:%s' % (kind, cls_of(bad[0])), bad[0][:280], c, lr, layout=linfo)
            # pickle
            pkl = lr['pickle']
            if 'reduce_error' in pkl:
                pred_failed.add(c['id'])
                ctx.obligation('predicate %s: copyreg pickler' % L, False, 'predicate', pkl['reduce_error']['error'])
                violation('layout:%s:reduce' % kind, 'the copyreg pickler of Spectrum raised %s on a spectrum in memory layout %s' % (pkl['reduce_error']['error'], kind), c, lr, layout=linfo)
            else:
                called('copyreg pickler(layout)')
                a = pkl['args']
                mask_ok = ((a['mask_shape'] == shape and a['mask'] == o['mask']) or
                           (lr.get('mask_is_nomask') and a['mask_shape'] == [] and a['mask'] == [False]))
                args_ok = (a['data_shape'] == shape and len(a['data']) == n and all(same(x, y) for x, y in zip(a['data'], o['data'])) and mask_ok
                           and a['folded'] == o['folded'] and a['pop_ids'] == o['pop_ids'] and a['extrap_x'] == o['extrap_x'])
                ctx.obligation('%s: reduce tuple = Model.spectrum_pickler of the logical content (the tuple checked in Coq for the base layout)' % L, args_ok, 'correspondence',
                               '' if args_ok else repr(a)[:300])
                if not args_ok:
                    corr_layout_bad.append((c['id'], L + ' reduce tuple'))
                bad = diff_read(pkl['unpickled_args'], wantp, 17, 'Spectrum_unpickler on the reduce tuple of a spectrum in memory layout %s' % kind)
                ctx.obligation('predicate %s: unpickler on the reduce tuple' % L, not bad, 'predicate', '; '.join(bad))
                if bad:
                    pred_failed.add(c['id'])
                    violation('layout:%s:unpickle:%s' % (kind, cls_of(bad[0])), bad[0][:280], c, lr, layout=linfo)
            for proto, rr in sorted(pkl['protocols'].items()):
                called('pickle(layout)')
                bad = diff_read(rr, wantp, 17, 'pickle protocol %s round trip of a spectrum in memory layout %s' % (proto, kind))
                if rr.get('extrap_x', o['extrap_x']) != o['extrap_x']:
                    bad.append('extrap_x=%r, expected %r' % (rr.get('extrap_x'), o['extrap_x']))
                ctx.obligation('predicate %s: pickle protocol %s' % (L, proto), not bad, 'predicate', '; '.join(bad))
                if bad:
                    pred_failed.add(c['id'])
                    violation('layout:%s:pickle:%s' % (kind, cls_of(bad[0])), bad[0][:280], c, lr, layout=linfo)
        # ---------------- (vi) the same spectrum and the same calls spelled with other argument / attribute types
        TY.evaluate(ctx, H, c, r, {'violation': violation, 'pred_failed': pred_failed, 'called': called, 'corr_bad': corr_layout_bad,
                                   'its': its, 'spec': spec, 'ccom': ccom, 'stat': tstat})
        exprs.append((c['id'], its.coq()))
        meta[c['id']] = (c, its)

    header = ('From Coq Require Import String Ascii List Bool NArith ZArith.\nFrom Dadi Require Import Model.FileFormat Model.FileFormatCheck.\n'
              'Import ListNotations.\nOpen Scope list_scope.\nOpen Scope string_scope.')
    # own sharding (ctx.coq_cases cannot emit the per-case shared definitions)
    shard = ctx.pick(10, 40)
    files = []
    for k in range(0, len(exprs), shard):
        chunk = exprs[k:k + shard]
        body = [header, '']
        for cid, ex in chunk:
            body.append(meta[cid][1].defs() + 'Definition case_%d := %s.' % (cid, ex))
        body.append('Definition results := map (fun p => (fst p, ff_check (snd p))) [%s].' % '; '.join('(%d%%Z, case_%d)' % (cid, cid) for cid, _ in chunk))
        body.append('Eval vm_compute in results.')
        files.append(('C14_corr_%d' % (k // shard), '\n'.join(body) + '\n'))
    results = {}
    for nme, (rc, so, se, secs) in lib.run_case_files(files, timeout=1800).items():
        if rc != 0:
            ctx.obligation('coqc %s' % nme, False, 'correspondence', se[-600:])
            continue
        for cid, ok, e in lib.parse_results(so):
            results[cid] = (ok, e)
    ctx.checker_cmds.append('coqc -Q coq/theories Dadi build/cases/C14_corr_*.v  (%d cases, vm_compute, exact string / structural equality inside Coq)' % len(exprs))
    corr_bad = []
    for cid, (c, its) in meta.items():
        rr = results.get(cid)
        mask_bits = None if rr is None else rr[1]
        for t, name, _ in its.items:
            ok = rr is not None and not (mask_bits >> t) & 1
            ctx.obligation('corr case %d: %s' % (cid, name), ok, 'correspondence', '' if ok else ('not evaluated' if rr is None else 'model != implementation'))
            if not ok:
                corr_bad.append((cid, name))
    # entry points must have been exercised (fail closed)
    need = ['to_file', 'from_file', 'from_file(pre-1.3)', 'copyreg pickler', 'pickle', 'array_to_file', 'array_from_file', 'from_file(array file)',
            'to_file(layout)', 'from_file(layout)', 'array_to_file(layout)', 'copyreg pickler(layout)', 'pickle(layout)',
            'to_file(types)', 'from_file(types)', 'array_to_file(types)', 'array_from_file(types)', 'copyreg pickler(types)', 'pickle(types)']
    for k in ([] if ctx.replay else need):
        ctx.obligation('entry point exercised: %s (%d calls)' % (k, calls.get(k, 0)), calls.get(k, 0) > 0, 'harness')
    ctx.stats.update({'calls_' + k.replace(' ', '_'): v for k, v in calls.items()})
    # every memory layout must really have been exercised in the regime where memory order and logical order differ (fail closed)
    if not ctx.replay:
        big = ctx.pick(20, 400); small = ctx.pick(3, 40)
        need_l = [(k, 'data_memory_order_differs', big) for k in ('reorder_pops', 'transpose', 'T', 'swapaxes', 'fortran', 'ctor_permuted', 'neg', 'nocopy_view')]
        need_l += [(k, 'mask_memory_order_differs', small) for k in ('reorder_pops', 'transpose', 'T', 'swapaxes', 'fortran', 'ctor_permuted', 'neg', 'nocopy_view')]
        need_l += [('step', 'data_not_c_contiguous', big), ('step', 'mask_not_c_contiguous', big), ('nocopy_view', 'data_negative_stride', big),
                   ('mask_broadcast', 'mask_stride0', small), ('mask_scalar', 'built', small), ('nomask', 'mask_is_nomask', small)]
        for kind, k, nmin in need_l:
            have = lay_stats.get(kind, {}).get(k, 0)
            ctx.obligation('memory layout exercised: %s - %d spectra, %d with %s (at least %d wanted)' % (kind, lay_stats.get(kind, {}).get('built', 0), have, k, nmin),
                           have >= nmin, 'harness')
    for kind, d0 in lay_stats.items():
        for k, v in d0.items():
            ctx.stats['layout_%s_%s' % (kind, k)] = v
    # every argument / attribute type must really have gone through the entry points (fail closed)
    if not ctx.replay:
        TY.exercised(ctx, type_stats, ctx.pick(20, 150), ctx.pick(3, 30))
    # correspondence / source obligations broken without any failing input of the property itself
    if (corr_bad or corr_layout_bad or src_broken) and not [v for v in ctx.violations if v['key'] is None]:
        # targeted search before giving up: fresh spectra, every PAIR of argument / attribute dimensions in a non-canonical type
        nsearch = [0, 0]
        if not ctx.replay:
            srng = __import__('random').Random('C14-targeted-search-%d' % ctx.seed)
            extra = []
            for k in range(ctx.pick(60, 240)):
                c = gen_case(srng, 100000 + k, 1 + k % 5, ctx.pick(60, 120))
                c['via_fold'] = False; c['old_kinds'] = []
                c['_data'], c['_mask'], c['_folded'] = c['data'], c['mask'], c['folded']
                c['_toks'] = [tok(x, c['precision']) for x in c['data']]
                c['mirror_text'] = mirror_text(c['comments'], c['shape'], c['_toks'], c['mask'], c['folded'], c['pop_ids'], c['fmi'])
                c['_atoks'] = ['nan' if (c['array_masked'] and m) else t for t, m in zip(c['_toks'], c['mask'])]
                c['array_mirror_text'] = array_mirror_text(c['comments'], c['shape'], c['_atoks'])
                c['old_files'] = []; c['layouts'] = []
                c['types'] = TY.gen_types(H, c, ctx.seed, c['data'], c['mask'], c['folded'], pairs=True)
                extra.append(c)
            pl = [{k: v for k, v in c.items() if not k.startswith('_')} for c in extra]
            with ThreadPoolExecutor(4) as ex:
                parts = list(ex.map(lambda sl: lib.run_impl('c14_impl.py', sl, timeout=3000), [pl[k::4] for k in range(4)]))
            xid = {r['id']: r for part in parts for r in part}
            more_bad = []
            for c in extra:
                r = xid[c['id']]
                if r.get('driver_failed') or 'orig' not in r:
                    continue
                nsearch[0] += 1
                nsearch[1] += sum(1 + len(g['variants']) for g in c['types']['groups'])
                TY.evaluate(ctx, H, c, r, {'violation': violation, 'pred_failed': pred_failed, 'called': called, 'corr_bad': more_bad,
                                           'its': None, 'spec': None, 'ccom': None, 'stat': lambda *a: None})
    if (corr_bad or corr_layout_bad or src_broken) and not [v for v in ctx.violations if v['key'] is None]:
        searched = ('searched %d spectra x %d memory-layout variants and x %d argument / attribute type variants (flag / mask / data / labels / comments / '
                    'precision / file name / keyword types, one factor at a time and combined) through to_file/from_file (2 configurations each), '
                    'array_to_file/array_from_file and the pickler, then %d further spectra x %d pairwise type variants: every round trip '
                    'evaluated on the implementation still holds'
                    % (len(meta), sum(d0.get('built', 0) for d0 in lay_stats.values()),
                       sum(v for (dim, kind, k), v in type_stats.items() if k == 'variants'), nsearch[0], nsearch[1]))
        if corr_bad or corr_layout_bad:
            allbad = corr_bad + corr_layout_bad
            cid, name = allbad[0]
            c = meta[cid][0]
            ctx.violation('model and implementation disagree on text (%d items, first: case %d, %s); %s' % (len(allbad), cid, name, searched),
                          data={'case': {k: v for k, v in c.items() if not k.startswith('_')}, 'impl': byid[cid], 'items': allbad[:20]},
                          no_input=True, broken='correspondence: ' + name)
        else:
            ctx.violation('the source is no longer the code the model was written against (%d obligations, first: %s); %s' % (len(src_broken), src_broken[0][:300], searched),
                          data={'obligations': src_broken[:20]}, no_input=True, broken='source shape: ' + src_broken[0][:200])
