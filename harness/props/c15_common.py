"""C15 — shared between harness/props/c15.py (the check) and harness/tools/c15_adequacy.py (offline tool):

 (a) reading the committed nesting data (harness/props/c15_nesting.json): one- and TWO-SIDED nesting points.
     A pair says   complex(point(q)) == simple(simple_point(q))   for every admissible vector q of the COMMON parameters.
       "point"         complex parameter -> value written over the common names (a name, a number, 1-name, or name+name)
       "simple_point"  simple parameter  -> value over the common names      (absent: the common names ARE the simple
                                                                             model's names and the simple side is not instantiated)
       "common"        the common parameter names (required with "simple_point"); their kinds (documented bounds) are read
                       off the names exactly like those of a model (nu*: >0, T*/m*: >=0, s/f/F: in (0,1), gamma*: free)
       "assume"        optional {name: "pos"}: the nesting is stated for a strictly positive value of a T*/m* parameter
                       (needed where a branch `if T >= Ts` must be decided: 0 >= Ts is false only for Ts > 0)
 (b) the Python mirror of the three per-run obligations (nests / nests2 / equivariant / well-formedness).  The mirror
     decides NOTHING about the source: every obligation is decided inside Coq.  It is used for the diagnosis of a failed
     obligation and for
 (c) the MUTATION-ADEQUACY analysis of the committed list: every occurrence of a parameter variable inside an
     Integrate / Phi1D / Pulse / AdmixNew / FromPhiInb instruction or an `if` test of every model program is replaced,
     one occurrence at a time, by another parameter of the same class (nu / T / m / gamma / fraction), or by a constant
     where the model has no such parameter; the mutant is KILLED if at least one committed obligation of that model
     (nesting pair with the model on either side, label-exchange symmetry, well-formedness) that holds for the program
     no longer holds for the mutant.  Surviving mutants are the holes of the list.
     SECOND CLASS (exchange_table): two distinct parameters of the same class exchanged in ALL their occurrences (= the names
     list transposed relative to the body); killed like the first class, or shown to be a symmetry (same normal form).
 (d) NAME SEMANTICS (name_table / convention_breaches / unpack_mismatch): the keyword of the library call every declared
     parameter is handed to, compared per run with the committed table harness/props/c15_names.json.
"""
import re, json
from harness.translate import models_dsl as M, models_dsl_norm as N

# ------------------------------------------------------------------------------------------------
# nesting points
def parse_point_value(v, names):
    v = str(v).strip()
    if re.fullmatch(r'-?\d+(\.\d+)?', v):
        return N.C(v)
    m = re.fullmatch(r'1\s*-\s*(\w+)', v)
    if m and m.group(1) in names:
        return ['sub', N.C(1), ['var', names.index(m.group(1))]]
    if v in names:
        return ['var', names.index(v)]
    m = re.fullmatch(r'(\w+)\s*\+\s*(\w+)', v)
    if m and m.group(1) in names and m.group(2) in names:
        return ['add', ['var', names.index(m.group(1))], ['var', names.index(m.group(2))]]
    raise ValueError('nesting point value %r is not a number / a common parameter / 1-parameter / parameter+parameter' % v)

def assum_of_common(names, assume=None):
    A = M.assum_of(names)
    A = {k: list(v) for k, v in A.items()}
    for n, kind in (assume or {}).items():
        if kind != 'pos' or n not in names or M.kind_of(n) != 'nonneg':
            raise ValueError('"assume" supports only {T*/m* name: "pos"} on common parameters, got %r: %r' % (n, kind))
        i = names.index(n)
        A['nonneg'] = [x for x in A['nonneg'] if x != i]
        A['pos'] = sorted(A['pos'] + [i])
    return A

def pair_setup(pr, cnames, snames):
    """-> dict(two_sided, common, A, sgc, sgs); raises KeyError / ValueError when the point does not fit the current names"""
    two = 'simple_point' in pr
    if two:
        common = list(pr['common'])
        if len(set(common)) != len(common):
            raise ValueError('common parameter named twice')
        sgs = [parse_point_value(pr['simple_point'][n], common) for n in snames]
        if set(pr['simple_point']) != set(snames):
            raise KeyError('simple_point names %r != parameters of the simple model %r' % (sorted(pr['simple_point']), snames))
    else:
        if 'common' in pr or 'assume' in pr:
            raise ValueError('"common"/"assume" without "simple_point"')
        common = list(snames)
        sgs = [['var', i] for i in range(len(snames))]
    sgc = [parse_point_value(pr['point'][n], common) for n in cnames]
    A = assum_of_common(common, pr.get('assume'))
    return {'two_sided': two, 'common': common, 'A': A, 'sgc': sgc, 'sgs': sgs}

def sym_setup(sm, names):
    sg = [parse_point_value(sm['exchange'][n], names) for n in names]
    pm = {d: sm['perm'].get(str(d), list(range(d))) for d in range(1, 4)}
    return {'A': M.assum_of(names), 'sg': sg, 'pm': pm}

# ------------------------------------------------------------------------------------------------
# mirror of the boolean obligations
def tfree(e):
    return not M.has_t(e)

def scalar_exprs(i):
    if i['op'] == 'integrate':
        return [i['T']]
    out = []
    for k in N.EXPR_FIELDS:
        if k in i: out.append(i[k])
    for k in N.LIST_FIELDS:
        if k in i: out += list(i[k])
    return out

def scalars_tfree(p):
    for i in p:
        if i['op'] == 'if':
            if not (tfree(i['a']) and tfree(i['b']) and scalars_tfree(i['then']) and scalars_tfree(i['else'])):
                return False
        elif not all(tfree(e) for e in scalar_exprs(i)):
            return False
    return True

def subst_prog(sg, p):
    return N.map_prog(lambda e: N.subst(sg, e), p)

def side_norm(A, sg, p):
    return N.norm(A, subst_prog(sg, p))

def nests_mirror(su, cprog, sprog):
    return (all(tfree(e) for e in su['sgc'] + su['sgs']) and scalars_tfree(cprog) and scalars_tfree(sprog)
            and N.prog_eq(side_norm(su['A'], su['sgc'], cprog), side_norm(su['A'], su['sgs'], sprog)))

def relabel_ok(pm, p):
    def perm_ok(d):
        return d in pm and sorted(pm[d]) == list(range(d))
    for i in p:
        o = i['op']
        if o == 'if':
            if not (relabel_ok(pm, i['then']) and relabel_ok(pm, i['else'])):
                return False
        elif o in ('grid', 'phi1d', 'fromphi', 'mscmd'):
            continue
        elif o == 'split':
            d, par = i['d'], i['parent']
            if not (perm_ok(d) and perm_ok(d + 1)):
                return False
            ext = list(pm[d]) + [d]
            sw = [d if k == par else par if k == d else k for k in ext]
            if list(pm[d + 1]) != ext and list(pm[d + 1]) != sw:
                return False
        elif o == 'pulse':
            if not perm_ok(i['d']):
                return False
        elif o == 'integrate':
            if not perm_ok(len(i['nus'])):
                return False
        else:
            return False
    return True

def equivariant_mirror(su, prog):
    try:
        return (all(tfree(e) for e in su['sg']) and scalars_tfree(prog) and relabel_ok(su['pm'], prog)
                and N.prog_eq(N.norm(su['A'], N.relabel(su['pm'], subst_prog(su['sg'], prog))), N.norm(su['A'], prog)))
    except (KeyError, ValueError, IndexError):
        return False

def wf_mirror(names, unpacked, prog, expected_ineffective):
    n = len(names)
    if list(unpacked) != list(range(n)):
        return False
    used = M.prog_vars(prog)
    if used != set(range(n)):
        return False
    if not scalars_tfree(prog):
        return False
    nv = M.prog_vars(N.norm(M.assum_of(names), prog))
    ineff = [i for i in range(n) if i not in nv]
    return ineff == sorted(names.index(x) for x in expected_ineffective if x in names)

# ------------------------------------------------------------------------------------------------
# occurrences of parameter variables and single-occurrence mutants
MUT_FIELDS = {'integrate': ('T', 'nus', 'ms', 'gammas', 'hs', 'theta0', 'beta'),
              'phi1d': ('nu', 'theta0', 'gamma', 'h', 'beta'),
              'pulse': ('fs',), 'admixnew': ('fs',), 'fromphi_inb': ('Fs', 'ploidy')}

def var_class(name):
    k = M.kind_of(name)
    if k == 'pos': return 'nu'
    if k == 'nonneg': return 'T' if name.startswith('T') else 'm'
    if k == 'free': return 'gamma'
    if k == 'frac': return 'frac'
    return 'other'

def _map_expr_leaves(e, f):
    """f(var_index) -> replacement expression or None (keep); leaves visited in pre-order"""
    k = e[0]
    if k == 'var':
        r = f(e[1])
        return e if r is None else r
    if k in ('t', 'const'):
        return e
    return [k] + [_map_expr_leaves(x, f) for x in e[1:]]

def map_var_leaves(prog, f, prefix=''):
    """rebuilds the program; f(info) -> replacement or None, info = dict(where, var) for every variable leaf of a mutable position,
    visited in one fixed order (the same for enumeration and for rewriting)"""
    out = []
    for k, i in enumerate(prog):
        o = i['op']
        if o == 'if':
            j = dict(i)
            for side in ('a', 'b'):
                cnt = [0]
                def g(v, side=side, cnt=cnt):
                    w = '%s%d:if.%s@%d' % (prefix, k, side, cnt[0]); cnt[0] += 1
                    return f({'where': w, 'var': v, 'op': 'if', 'field': side})
                j[side] = _map_expr_leaves(i[side], g)
            j['then'] = map_var_leaves(i['then'], f, '%s%d.then/' % (prefix, k))
            j['else'] = map_var_leaves(i['else'], f, '%s%d.else/' % (prefix, k))
            out.append(j)
            continue
        if o not in MUT_FIELDS:
            out.append(i)
            continue
        j = dict(i)
        for fld in MUT_FIELDS[o]:
            if fld not in i:
                continue
            def one(e, tag):
                cnt = [0]
                def g(v):
                    w = '%s%d:%s.%s@%d' % (prefix, k, o, tag, cnt[0]); cnt[0] += 1
                    return f({'where': w, 'var': v, 'op': o, 'field': fld})
                return _map_expr_leaves(e, g)
            if fld == 'ms':
                j[fld] = [[one(e, 'ms[%d][%d]' % (a, b)) for b, e in enumerate(r)] for a, r in enumerate(i[fld])]
            elif fld in N.LIST_FIELDS:
                j[fld] = [one(e, '%s[%d]' % (fld, a)) for a, e in enumerate(i[fld])]
            else:
                j[fld] = one(i[fld], fld)
        out.append(j)
    return out

def occurrences(prog):
    occ = []
    def f(info):
        occ.append(info); return None
    map_var_leaves(prog, f)
    return occ

def replacements(names, v):
    """replacement candidates of one occurrence of parameter v: the other parameters of the same class; constants where there is none"""
    if v >= len(names):
        return []
    cls = var_class(names[v])
    others = [j for j, n in enumerate(names) if j != v and var_class(n) == cls]
    if others:
        return [('var', j) for j in others]
    return [('const', '1')] if cls == 'nu' else [('const', '0'), ('const', '1')]

def mutate(prog, where, repl):
    e = ['var', repl[1]] if repl[0] == 'var' else N.C(repl[1])
    hit = []
    def f(info):
        if info['where'] == where:
            hit.append(1); return e
        return None
    q = map_var_leaves(prog, f)
    assert len(hit) == 1, (where, len(hit))
    return q

def mutant_key(model_key, names, info, repl):
    return '%s|%s|%s->%s' % (model_key, info['where'], names[info['var']] if info['var'] < len(names) else 'p%d' % info['var'],
                             names[repl[1]] if repl[0] == 'var' else repl[1])

# ------------------------------------------------------------------------------------------------
class Units:
    """source units.  A model function is either a BODY (its own instructions) or a WRAPPER `return callee((e1..en), ns, pts)`:
    the translator inlines the callee, so the program of a wrapper is the callee's program with the callee's parameters
    replaced by the call tuple.  A change of the callee's source changes every wrapper with it, so a mutant of a body is
    applied to all of its (transitive) wrappers at once; the call tuple of a wrapper has occurrences of its own."""
    def __init__(self, progs):
        self.progs = progs
        self.callee = {}
        for key, r in progs.items():
            c = r.get('calls')
            if c:
                ck = '%s:%s' % (c['file'], c['name'])
                if not c.get('multi') and ck in progs and len(c['vals']) == len(progs[ck]['param_names']):
                    self.callee[key] = (ck, c['vals'])
        self.wrappers = {}
        for w, (ck, _) in self.callee.items():
            self.wrappers.setdefault(ck, []).append(w)
        # the reconstruction must give back the translation (else the provenance is not what this analysis assumes)
        self.bad = sorted(k for k in progs if k in self.callee and not N.prog_eq(self.derive(k, {}), progs[k]['prog']))
        self.bad += sorted(k for k, r in progs.items() if r.get('calls') and k not in self.callee)

    def derive(self, key, override):
        """program of `key` when the units in `override` ({key: ('prog', p) | ('vals', vals)}) are replaced"""
        ov = override.get(key)
        if ov is not None and ov[0] == 'prog':
            return ov[1]
        if key in self.callee:
            ck, vals = self.callee[key]
            if ov is not None:
                vals = ov[1]
            return subst_prog(vals, self.derive(ck, override))
        return self.progs[key]['prog']

    def affected(self, key):
        out, todo = [], [key]
        while todo:
            k = todo.pop()
            if k not in out:
                out.append(k); todo += self.wrappers.get(k, [])
        return out

    def unit_occurrences(self, key):
        """[(info, apply)] : apply(repl) -> override dict"""
        r = self.progs[key]
        res = []
        if key in self.callee:
            ck, vals = self.callee[key]
            cname = ck.split(':')[-1]
            for a, e in enumerate(vals):
                leaves = []
                _map_expr_leaves(e, lambda v: leaves.append(v))
                for n, v in enumerate(leaves):
                    where = 'call:%s.arg[%d]@%d' % (cname, a, n)
                    def app(repl, a=a, n=n, vals=vals):
                        new = ['var', repl[1]] if repl[0] == 'var' else N.C(repl[1])
                        cnt = [0]
                        def g(v):
                            cnt[0] += 1
                            return new if cnt[0] - 1 == n else None
                        return {key: ('vals', [(_map_expr_leaves(x, g) if b == a else x) for b, x in enumerate(vals)])}
                    res.append(({'where': where, 'var': v, 'op': 'call', 'field': 'arg'}, app))
        else:
            for info in occurrences(r['prog']):
                res.append((info, lambda repl, info=info: {key: ('prog', mutate(r['prog'], info['where'], repl))}))
        return res

class Obligations:
    """the committed obligations evaluated with the mirror; `progs`: 'file:name' -> translation record"""
    def __init__(self, data, progs):
        self.data, self.progs = data, progs
        self.items = []             # (id, [models], fn(get) -> holds?)   get(key) -> program
        self.by_model = {}
        self.errors = {}
        base = lambda k: progs[k]['prog']
        def add(oid, models, fn):
            self.items.append((oid, models, fn))
            for m in set(models):
                self.by_model.setdefault(m, []).append(len(self.items) - 1)
        for pr in data['pairs']:
            if pr.get('expect') == 'finding':
                continue
            oid = 'nest:%s' % pr['id']
            if pr['complex'] not in progs or pr['simple'] not in progs:
                self.errors[oid] = 'model missing'; continue
            c, s = progs[pr['complex']], progs[pr['simple']]
            try:
                su = pair_setup(pr, c['param_names'], s['param_names'])
            except (KeyError, ValueError) as e:
                self.errors[oid] = repr(e); continue
            pre = all(tfree(e) for e in su['sgc'] + su['sgs'])
            nc = side_norm(su['A'], su['sgc'], c['prog']); ns = side_norm(su['A'], su['sgs'], s['prog'])
            def fn(get, su=su, ck=pr['complex'], sk=pr['simple'], nc=nc, ns=ns, pre=pre, c0=c['prog'], s0=s['prog']):
                pc, ps = get(ck), get(sk)
                if not (pre and scalars_tfree(pc) and scalars_tfree(ps)):
                    return False
                a = nc if pc is c0 else side_norm(su['A'], su['sgc'], pc)
                b = ns if ps is s0 else side_norm(su['A'], su['sgs'], ps)
                return N.prog_eq(a, b)
            add(oid, [pr['complex'], pr['simple']], fn)
        for sm in data['symmetric']:
            oid = 'equiv:%s' % sm['model']
            if sm['model'] not in progs:
                self.errors[oid] = 'model missing'; continue
            r = progs[sm['model']]
            try:
                su = sym_setup(sm, r['param_names'])
            except (KeyError, ValueError) as e:
                self.errors[oid] = repr(e); continue
            add(oid, [sm['model']], lambda get, su=su, k=sm['model']: equivariant_mirror(su, get(k)))
        for key, r in progs.items():
            exp = data.get('ineffective_params', {}).get(r['name'], [])
            add('wf:%s' % key, [key], lambda get, r=r, exp=exp, key=key: wf_mirror(r['param_names'], r['unpacked'], get(key), exp))
        self.base = {oid: fn(base) for oid, _, fn in self.items}

    def killers(self, mutated, first_only=True):
        """mutated: {model key: program}; ids of the obligations that hold on the translation but fail with these programs
        (nesting / symmetry obligations are consulted before well-formedness)"""
        get = lambda k: mutated.get(k, self.progs[k]['prog'])
        idx = sorted({i for m in mutated for i in self.by_model.get(m, [])})
        idx = [i for i in idx if not self.items[i][0].startswith('wf:')] + [i for i in idx if self.items[i][0].startswith('wf:')]
        out = []
        for i in idx:
            oid, _, fn = self.items[i]
            if self.base.get(oid) and not fn(get):
                out.append(oid)
                if first_only:
                    break
        return out

def adequacy_table(data, progs, first_only=True):
    """-> (rows, obligations, units); one row per single-occurrence mutant of a source unit:
    dict(key, model, where, var, repl, affected, killed_by)"""
    ob = Obligations(data, progs)
    un = Units(progs)
    rows = []
    for key in sorted(progs):
        r = progs[key]
        if r['kind'] != 'sfs':
            continue
        names = r['param_names']
        aff = un.affected(key)
        for info, app in un.unit_occurrences(key):
            for repl in replacements(names, info['var']):
                ov = app(repl)
                mutated = {k: un.derive(k, ov) for k in aff}
                rows.append({'key': mutant_key(key, names, info, repl), 'model': key, 'where': info['where'],
                             'var': names[info['var']], 'repl': names[repl[1]] if repl[0] == 'var' else repl[1],
                             'affected': len(aff), 'killed_by': ob.killers(mutated, first_only)})
    return rows, ob, un

def summarize(rows):
    occ = {}
    for r in rows:
        occ.setdefault((r['model'], r['where']), []).append(bool(r['killed_by']))
    return {'mutants': len(rows), 'mutants_killed': sum(1 for r in rows if r['killed_by']),
            'occurrences': len(occ), 'occurrences_killed': sum(1 for v in occ.values() if all(v)),
            'occurrences_partly_killed': sum(1 for v in occ.values() if any(v) and not all(v))}

# ------------------------------------------------------------------------------------------------
# SECOND MUTANT CLASS: consistent exchange of two same-kind parameters in ALL their occurrences
# (= `__param_names__` transposed relative to the body; for a caller who builds the vector from the names the two values
# arrive exchanged).  No single-occurrence analysis sees it, and no obligation that treats the two parameters alike does.
def exchange_pairs(names):
    out = []
    for i in range(len(names)):
        for j in range(i + 1, len(names)):
            c = var_class(names[i])
            if c != 'other' and c == var_class(names[j]):
                out.append((i, j, c))
    return out

def swap_subst(n, i, j):
    return [['var', j if k == i else i if k == j else k] for k in range(n)]

def exchange_key(model_key, a, b):
    return '%s|exchange|%s<->%s' % (model_key, a, b)

def exchange_table(data, progs, first_only=True, ob=None, un=None):
    """-> (rows, obligations, units); one row per (source unit, unordered pair of distinct parameters of the same class):
    dict(key, model, a, b, cls, affected, identical, killed_by).  `identical`: the exchanged program normalises to the same program
    in every affected model (the exchange is a provable symmetry: not a mutant).  A body's exchange reaches its wrappers through the
    call tuple, as a change of the unpack line would; a wrapper's own exchange permutes the variables of its call tuple."""
    ob = ob or Obligations(data, progs)
    un = un or Units(progs)
    rows = []
    for key in sorted(progs):
        r = progs[key]
        if r['kind'] != 'sfs':
            continue
        names = r['param_names']; n = len(names)
        aff = un.affected(key)
        for i, j, cls in exchange_pairs(names):
            sw = swap_subst(n, i, j)
            if key in un.callee:
                ov = {key: ('vals', [N.subst(sw, v) for v in un.callee[key][1]])}
            else:
                ov = {key: ('prog', subst_prog(sw, r['prog']))}
            mutated = {k: un.derive(k, ov) for k in aff}
            same = all(N.prog_eq(N.norm(M.assum_of(progs[k]['param_names']), mutated[k]),
                                 N.norm(M.assum_of(progs[k]['param_names']), progs[k]['prog'])) for k in aff)
            rows.append({'key': exchange_key(key, names[i], names[j]), 'model': key, 'a': names[i], 'b': names[j], 'cls': cls,
                         'affected': len(aff), 'identical': same, 'killed_by': [] if same else ob.killers(mutated, first_only)})
    return rows, ob, un

def summarize_exchange(rows):
    return {'mutants': len(rows), 'identical': sum(1 for r in rows if r['identical']),
            'killed': sum(1 for r in rows if r['killed_by']),
            'surviving': sum(1 for r in rows if not r['identical'] and not r['killed_by'])}

# ------------------------------------------------------------------------------------------------
# NAME SEMANTICS: which keyword of which library call every declared parameter is handed to
PULSE_NAME = {(2, (0,), 1): 'phi_2D_admix_1_into_2', (2, (1,), 0): 'phi_2D_admix_2_into_1', (3, (0, 1), 2): 'phi_3D_admix_1_and_2_into_3',
              (3, (0, 2), 1): 'phi_3D_admix_1_and_3_into_2', (3, (1, 2), 0): 'phi_3D_admix_2_and_3_into_1'}
INTEGRATE_NAME = {1: 'one_pop', 2: 'two_pops', 3: 'three_pops'}

def _instr_slots(i):
    """[(function.keyword, expr)] of one instruction, keywords as in the signatures of dadi's numerical layer"""
    o = i['op']; out = []
    if o == 'integrate':
        d = len(i['nus']); fn = INTEGRATE_NAME.get(d, 'integrate%d' % d)
        suf = (lambda k: '') if d == 1 else (lambda k: str(k + 1))
        out.append((fn + '.T', i['T']))
        for k, e in enumerate(i['nus']): out.append(('%s.nu%s' % (fn, suf(k)), e))
        for a, row in enumerate(i['ms']):
            for b, e in enumerate(row):
                if a != b: out.append(('%s.m%d%d' % (fn, a + 1, b + 1), e))
        for k, e in enumerate(i['gammas']): out.append(('%s.gamma%s' % (fn, suf(k)), e))
        for k, e in enumerate(i['hs']): out.append(('%s.h%s' % (fn, suf(k)), e))
        out.append((fn + '.theta0', i['theta0'])); out.append((fn + '.beta', i['beta']))
    elif o == 'phi1d':
        for k in ('nu', 'theta0', 'gamma', 'h', 'beta'):
            out.append(('phi_1D.' + k, i[k]))
    elif o == 'pulse':
        fn = PULSE_NAME.get((i['d'], tuple(i['srcs']), i['dst']), 'pulse')
        for k, e in enumerate(i['fs']):
            out.append(('%s.%s' % (fn, 'f' if len(i['srcs']) == 1 else 'f%d' % (i['srcs'][k] + 1)), e))
    elif o == 'admixnew':
        for k, e in enumerate(i['fs']): out.append(('phi_2D_to_3D_admix.f%d' % (k + 1), e))
    elif o == 'fromphi_inb':
        for k, e in enumerate(i['Fs']): out.append(('from_phi_inbreeding.Fs[%d]' % k, e))
        for k, e in enumerate(i['ploidy']): out.append(('from_phi_inbreeding.ploidys[%d]' % k, e))
    elif o == 'mscmd':
        for k, e in enumerate(i['es']): out.append(('ms.value[%d]' % k, e))
    return out

def param_uses(prog, prefix=''):
    """{parameter index: set of 'position:function.keyword'}; position = index of the instruction in the translated program
    (`2.then/3` inside a branch)"""
    uses = {}
    def add(e, tag):
        for v in M.expr_vars(e):
            uses.setdefault(v, set()).add(tag)
    for k, i in enumerate(prog):
        if i['op'] == 'if':
            add(i['a'], '%s%d:if.lhs' % (prefix, k)); add(i['b'], '%s%d:if.rhs' % (prefix, k))
            for br in ('then', 'else'):
                for v, s in param_uses(i[br], '%s%d.%s/' % (prefix, k, br)).items():
                    uses.setdefault(v, set()).update(s)
            continue
        for kw, e in _instr_slots(i):
            add(e, '%s%d:%s' % (prefix, k, kw))
    return uses

def name_table(r):
    """{parameter name: sorted uses} of one translation record (a parameter declared twice keeps the first index)"""
    names = r['param_names']
    u = param_uses(r['prog'])
    return {nme: sorted(u.get(ix, ())) for ix, nme in enumerate(names) if names.index(nme) == ix}

def conventional_keywords(name):
    """the keywords a conventionally named parameter may be handed to (None: the name carries no convention):
    mIJ -> mIJ ; nuK, nuKa, nuKb, nuK_0.. -> nuK ; gammaK -> gammaK ; hK -> hK"""
    m = re.fullmatch(r'm([1-9])([1-9])[a-z]?', name)
    if m and m.group(1) != m.group(2):
        return {'m%s%s' % (m.group(1), m.group(2))}
    m = re.fullmatch(r'nu([1-9])(?:[a-zA-Z]|_\w+)?', name)
    if m:
        return {'nu' + m.group(1)}
    m = re.fullmatch(r'(gamma|h)([1-9])', name)
    if m:
        return {m.group(1) + m.group(2)}
    return None

def use_keyword(u):
    """'2.else/1:two_pops.gamma1' -> 'gamma1'"""
    return u.split(':', 1)[1].split('.', 1)[1]

def convention_breaches(r, table=None):
    """[(parameter name, [uses outside its conventional keyword])] for the conventionally named parameters of one model.
    A use as the duration `T`, inside an `if` test or as a proportion is never conventional for these names."""
    out = []
    for nme, uses in (table or name_table(r)).items():
        allowed = conventional_keywords(nme)
        if allowed is None:
            continue
        bad = [u for u in uses if use_keyword(u) not in allowed]
        if bad or not uses:
            out.append((nme, bad))
    return out

def unpack_mismatch(r):
    """positions where the local name bound by the unpacking differs from the declared name (tuple-style unpacking only)"""
    if r.get('index_style') or r.get('calls') is not None and not r.get('unpack_names'):
        return []
    un, names = r.get('unpack_names') or [], r['param_names']
    return [(k, un[k] if k < len(un) else None, names[k] if k < len(names) else None)
            for k in range(max(len(un), len(names))) if (un[k] if k < len(un) else None) != (names[k] if k < len(names) else None)]
