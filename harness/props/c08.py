"""C08 — projection is hypergeometric subsampling: conserving, composable, mask-monotone.

Static theorems: coq/theories/Props/C08.v (weights: sum to one, compose, support = window, reversal; arrays of any
dimension: entry = hypergeometric expectation, total conserved, axes commute, two stages = one stage, mask spreads
exactly, reversal commutes, upward refused; neutral 1/i fixed point).
Per run:  (1) source-shape obligations: the formula lines of _lncomb/_cached_projection/_project_one_axis, re-read from
              the current source, are the ones the model was written against (fail-closed);
          (2) correspondence, exact over Q inside Coq: Numerics._cached_projection against C(m,i)C(n-m,j-i)/C(n,j)
              (exhaustive for small n, random triples up to n = 200), Spectrum.project on 1-4 dimensional spectra with
              random masks, folded and unfolded, against the model (values where unmasked, masks and shapes exactly,
              ValueError <-> model refusal);
          (3) the property predicates evaluated directly on the implementation: total conserved, two-stage == one-stage,
              axis order irrelevant, 1/i fixed point, mask spreading == support of the exact weights,
              fold(project) == project(fold) and folded projection == fold(project(unfold)), upward projection raises;
          (4) large axes (gen_large): sample sizes 56 .. 200 and 1020 with SPARSE masks and data of huge dynamic range -- the regime
              where the smallest positive weight 1/C(N,N/2) is below any float tolerance (2.2e-16 from N = 56, 1e-59 at 200, 3.5e-306 at
              1020), so that code deciding "contributes" by magnitude instead of by the least/most window departs from the theorem
              only in the tails of the hypergeometric: exact mask equality against integer binomials and against the Coq model
              (mask-only evaluation, proved equal to the model's mask), data against exact rationals.  A changed formula line of the
              projection code widens this search (every masked position, more sizes) before 'no-failing-input-found' is reported.
          (5) ARGUMENT / ATTRIBUTE TYPES (gen_types, systematic in every tier): the same logical spectrum and call presented with every
              type the unchanged library accepts -- the folded flag (constructor argument or attribute) as bool / numpy.bool_ / result of
              numpy.all / int / numpy.int64 / 0-d bool array / float, both truth values; data as int64 / int32 / float32 / long double /
              big-endian arrays, nested lists, masked arrays (with and without their own mask), Fortran / transposed / strided /
              negative-stride / read-only layouts, a Spectrum; masks as bool / int / uint8 arrays, lists, layouts, nomask; sample sizes as
              list / tuple / ndarray (int64, int32) / lists of numpy integers; pop_ids list / tuple; extrap_x float / numpy floats; the
              spectrum after copy / deepcopy / pickle / arithmetic / slicing / view / re-wrapping.  One axis at a time from the canonical
              form over 1-3 dimensional folded and unfolded bases, plus flag x provenance pairs.  Every variant goes through ALL of (2)
              and (3) (model correspondence with folded = truth value of the flag; fold(project(unfold)); two-stage; axis order; mask
              spreading) and must equal the canonical form's input and projection.  _cached_projection and _from_count_dict get typed
              integer arguments on cache keys no other stream touches / that the weight stream verifies afterwards.  TYPE_KINDS is the
              reviewed table of accepted kinds (what the unchanged library rejects or computes differently is listed there and not compared).
"""
import ast, itertools, json, math, os
from fractions import Fraction
from math import comb
from harness import lib
from harness.lib import q, ql, b, bl, natl

NUMERICS = os.path.join(lib.REPO, 'dadi', 'Numerics.py')
SPECTRUM = os.path.join(lib.REPO, 'dadi', 'Spectrum_mod.py')
TOL = Fraction(1, 10 ** 11)
FTOL = 1e-11

# ----------------------------------------------------------------------------------------------
# (1) source-shape obligations

EXPECT_SRC = {
    ('Numerics', '_lncomb'): ['return gammaln(N + 1) - gammaln(k + 1) - gammaln(N - k + 1)'],
    ('Numerics', '_cached_projection'): [
        'key = (proj_to, proj_from, hits)',
        'return _projection_cache[key]',
        'contrib = numpy.zeros(proj_to + 1)',
        'proj_hits = numpy.arange(proj_to + 1)',
        'lncontrib = _lncomb(proj_to, proj_hits)',
        'lncontrib += _lncomb(proj_from - proj_to, hits - proj_hits)',
        'lncontrib -= _lncomb(proj_from, hits)',
        'contrib = numpy.exp(lncontrib)',
        '_projection_cache[key] = contrib',
        'return contrib'],
    ('Spectrum', 'project'): [
        'if len(ns) != self.Npop:',
        'if numpy.any(numpy.asarray(ns) > numpy.asarray(self.sample_sizes)):',
        'original_folded = self.folded',
        'if original_folded:',
        'output = self.unfold()',
        'output = self.copy()',
        'for axis, proj in enumerate(ns):',
        'if proj != self.sample_sizes[axis]:',
        'output = output._project_one_axis(proj, axis)',
        'output.pop_ids = self.pop_ids',
        'output.extrap_x = self.extrap_x',
        'return output.fold()',
        'return output'],
    ('Spectrum', '_project_one_axis'): [
        'proj_from = self.sample_sizes[axis]',
        'for hits in range(proj_from + 1):',
        'least, most = (max(n - (proj_from - hits), 0), min(hits, n))',
        'to_slice[axis] = slice(least, most + 1)',
        'proj = _cached_projection(n, proj_from, hits)',
        'proj_slice[axis] = slice(least, most + 1)',
        'pfs.data[tuple(to_slice)] += self.data[tuple(from_slice)] * proj[tuple(proj_slice)]',
        'pfs.mask[tuple(to_slice)] = numpy.logical_or(pfs.mask[tuple(to_slice)], self.mask[tuple(from_slice)])',
        'return pfs'],
}


def _find_func(tree, name):
    for node in ast.walk(tree):
        if isinstance(node, ast.FunctionDef) and node.name == name:
            return node
    return None


def source_obligations(ctx):
    """returns the list of functions whose formula lines changed (the search is then widened, see gen_large)"""
    broken = []
    trees = {}
    for mod, path in (('Numerics', NUMERICS), ('Spectrum', SPECTRUM)):
        try:
            trees[mod] = ast.parse(open(path).read())
        except (OSError, SyntaxError) as e:
            ctx.obligation('parse %s' % path, False, 'translator', repr(e))
            trees[mod] = None
    for (mod, fn), lines in EXPECT_SRC.items():
        name = 'source shape of %s.%s (formula lines the model was written against)' % (mod, fn)
        tree = trees.get(mod)
        node = _find_func(tree, fn) if tree is not None else None
        if node is None:
            ctx.obligation(name, False, 'translator', 'function not found'); broken.append(fn); continue
        have = set()
        for st in ast.walk(node):
            if isinstance(st, ast.stmt):
                try:
                    txt = ast.unparse(st)
                except Exception:       # noqa
                    continue
                have.add(txt.split('\n')[0].strip())
        missing = [l for l in lines if l not in have]
        ctx.obligation(name, not missing, 'translator', 'missing/changed: %r' % missing[:3] if missing else '')
        if missing:
            broken.append(fn)
    return broken


# ----------------------------------------------------------------------------------------------
# exact reference (independent of the Coq model; used only by the Python-side predicates)

def H(n, m, j, i):
    if 0 <= i <= m and 0 <= j - i <= n - m and 0 <= j <= n:
        return Fraction(comb(m, i) * comb(n - m, j - i), comb(n, j))
    return Fraction(0)


# the right-hand side of theorem C08_mask_spreads_exactly, per axis, in exact integer arithmetic only:
#   target entry i (of n) is masked  <->  exists j, source entry j (of N) masked and H(N,n,j,i) > 0,
#   H(N,n,j,i) > 0  <->  C(n,i) * C(N-n,j-i) > 0        (no window formula, no float, no library weight)
_REACH = {}


def reach(N, n, j):
    """the target entries i with C(n,i)*C(N-n,j-i) > 0, for source entry j"""
    key = (N, n, j)
    if key not in _REACH:
        _REACH[key] = [i for i in range(n + 1) if j - i >= 0 and comb(n, i) * comb(N - n, j - i) > 0]
    return _REACH[key]


def _prod(xs):
    r = 1
    for x in xs:
        r *= x
    return r


def spread_axis(mask, shape, ax, n):
    """row-major flat mask of `shape`, axis ax projected to size n: (flat mask, shape) demanded by the theorem"""
    L = shape[ax]
    inner = _prod(shape[ax + 1:]); outer = _prod(shape[:ax])
    out = [False] * (outer * (n + 1) * inner)
    for o in range(outer):
        for j in range(L):
            base = (o * L + j) * inner
            ks = [k for k in range(inner) if mask[base + k]]
            if not ks:
                continue
            for i in reach(L - 1, n, j):
                tb = (o * (n + 1) + i) * inner
                for k in ks:
                    out[tb + k] = True
    return out, list(shape[:ax]) + [n + 1] + list(shape[ax + 1:])


def _folded_out(shape):
    T = sum(s - 1 for s in shape)
    return [sum(idx) > T // 2 for idx in itertools.product(*[range(s) for s in shape])]


def ref_unfold_mask(mask, shape):
    nm = [bool(m) != f for m, f in zip(mask, _folded_out(shape))]
    out = [a or b_ for a, b_ in zip(nm, reversed(nm))]
    if out:
        out[0] = True; out[-1] = True
    return out


def ref_fold_mask(mask, shape):
    out = [a or b_ or f for a, b_, f in zip(mask, reversed(mask), _folded_out(shape))]
    if out:
        out[0] = True; out[-1] = True
    return out


def reference_mask(mask, shape, ns, folded):
    """exact mask of Spectrum.project(ns): per shrinking axis the support criterion of C08_mask_spreads_exactly;
    folded spectra: fold(project(unfold)) with the mask algebra of fold/unfold (reversal, folded-out half, corners)"""
    mk, sh = [bool(m) for m in mask], list(shape)
    if folded:
        mk = ref_unfold_mask(mk, sh)
    for ax, n in enumerate(ns):
        if n != shape[ax] - 1:
            mk, sh = spread_axis(mk, sh, ax, n)
    if folded:
        mk = ref_fold_mask(mk, sh)
    return mk


_AXIS_INTS = {}


def _axis_ints(N, n):
    """integer form of the weights of one axis: H(N,n,j,i) = num(i,j) * cof[j] / P with P = lcm_j C(N,j)"""
    if (N, n) not in _AXIS_INTS:
        P = math.lcm(*[comb(N, j) for j in range(N + 1)])
        _AXIS_INTS[(N, n)] = (P, [P // comb(N, j) for j in range(N + 1)])
    return _AXIS_INTS[(N, n)]


def exact_entries(data, shape, ns, out, ax, tol=TOL):
    """unfolded projection of `data` (row-major floats, shape) to ns against the exact hypergeometric expectation
    sum_j H(N,n,j,i) x_j per axis, in integer arithmetic (floats are dyadic rationals), on the entries of the large axis `ax`
    that sit in the tails, at the window edges of every non-negligible source entry, and a few in the bulk; every index of
    the other (small) axes.  tol (1e-11) relative per unmasked entry (data non-negative), exact zero where the expectation is 0.
    returns None or a description of the first disagreement"""
    d = len(shape)
    if 'error' in out:
        return 'raised ' + out['error']
    if out['shape'] != [m + 1 for m in ns]:
        return 'shape %r' % (out['shape'],)
    rat = [float(x).as_integer_ratio() for x in data]
    E = max(den for _, den in rat)
    X = [num * (E // den) for num, den in rat]          # data = X / E
    sh = list(shape); scale = E
    # the small axes first, in full
    for a in range(d):
        if a == ax or ns[a] == sh[a] - 1:
            continue
        N, n = sh[a] - 1, ns[a]
        P, cof = _axis_ints(N, n)
        inner = _prod(sh[a + 1:]); outer = _prod(sh[:a])
        Y = [0] * (outer * (n + 1) * inner)
        for o in range(outer):
            for j in range(N + 1):
                for i in range(max(0, j - (N - n)), min(j, n) + 1):
                    w = comb(n, i) * comb(N - n, j - i) * cof[j]
                    for k in range(inner):
                        Y[(o * (n + 1) + i) * inner + k] += w * X[(o * (N + 1) + j) * inner + k]
        X, scale = Y, scale * P
        sh[a] = n + 1
    N, n = sh[ax] - 1, ns[ax]
    inner = _prod(sh[ax + 1:]); outer = _prod(sh[:ax])
    if n == N:
        P, cof = 1, [1] * (N + 1)
    else:
        P, cof = _axis_ints(N, n)
    scale *= P
    want = set(range(0, min(n, 3) + 1)) | set(range(max(0, n - 3), n + 1)) | {n // 2, n // 3, (2 * n) // 3, n // 4}
    big = sorted(range(N + 1), key=lambda j: -max(X[(o * (N + 1) + j) * inner + k] for o in range(outer) for k in range(inner)))[:2]
    for j in big + [N // 2, N // 4]:
        lo, hi = max(0, n - (N - j)), min(j, n)
        want |= {t for t in (lo - 1, lo, lo + 1, hi - 1, hi, hi + 1) if 0 <= t <= n}
    tn, td = tol.numerator, tol.denominator
    for i in sorted(want):
        if n == N:
            ws = [(i, 1)]
        else:
            ci = comb(n, i)
            ws = [(j, ci * comb(N - n, j - i) * cof[j]) for j in range(i, min(N, i + N - n) + 1)]
        for o in range(outer):
            for k in range(inner):
                flat = (o * (n + 1) + i) * inner + k
                if out['mask'][flat]:
                    continue
                Z = sum(w * X[(o * (N + 1) + j) * inner + k] for j, w in ws)       # exact value = Z / scale
                a_, b_ = float(out['data'][flat]).as_integer_ratio()
                if abs(a_ * scale - Z * b_) * td > tn * Z * b_:
                    return 'entry %d of the large axis (flat index %d) is %r, the exact hypergeometric expectation is %r' % (
                        i, flat, out['data'][flat], float(Fraction(Z, scale)) if Z == 0 or Fraction(Z, scale) > Fraction(1, 10 ** 300) else str(Fraction(Z, scale)))
    return None


def nested(flat, shape, fmt):
    """Coq nested list literal of a row-major flat list"""
    if not shape:
        return fmt(flat[0])
    step = 1
    for s in shape[1:]:
        step *= s
    return '[' + '; '.join(nested(flat[k * step:(k + 1) * step], shape[1:], fmt) for k in range(shape[0])) + ']'


def rel_close(a, b_, tol=FTOL):
    return abs(a - b_) <= tol * max(abs(a), abs(b_))


def same_result(r1, r2, tol=FTOL):
    """two dumped spectra: shapes and masks identical, data agree where unmasked. returns None or a description"""
    if 'error' in r1 or 'error' in r2:
        return 'error: %s / %s' % (r1.get('error'), r2.get('error'))
    if r1['shape'] != r2['shape']:
        return 'shapes %r vs %r' % (r1['shape'], r2['shape'])
    if r1['mask'] != r2['mask']:
        k = [i for i, (x, y) in enumerate(zip(r1['mask'], r2['mask'])) if x != y][0]
        return 'masks differ at flat index %d (%r vs %r)' % (k, r1['mask'][k], r2['mask'][k])
    if r1['folded'] != r2['folded']:
        return 'folded flags differ'
    for k, (x, y, mk) in enumerate(zip(r1['data'], r2['data'], r1['mask'])):
        if not mk and not rel_close(x, y, tol):
            return 'data differ at flat index %d: %r vs %r' % (k, x, y)
    return None


# ----------------------------------------------------------------------------------------------
# generators

def gen_weights(ctx):
    rng = ctx.rng
    nmax = ctx.pick(14, 40)
    triples = []
    for n in range(0, nmax + 1):
        for m in range(0, n + 1):
            for j in range(0, n + 1):
                triples.append((m, n, j))
    # upward (proj_from < proj_to): the short-circuit branch
    for _ in range(ctx.pick(20, 200)):
        n = rng.randint(0, 30); m = n + rng.randint(1, 10); j = rng.randint(0, n)
        triples.append((m, n, j))
    nrand = ctx.pick(200, 12000)
    for _ in range(nrand):
        n = rng.randint(nmax + 1, 200)
        kind = rng.random()
        if kind < 0.15:
            m = rng.choice([0, 1, 2, n - 2, n - 1, n])
        else:
            m = rng.randint(0, n)
        j = rng.choice([0, 1, n - 1, n]) if rng.random() < 0.1 else rng.randint(0, n)
        triples.append((m, n, j))
    rng.shuffle(triples)          # evaluation order through the module-level cache is part of the test
    return triples


def gen_prelude(ctx):
    """count dictionaries (1-3 populations, counts > 1, projecting down) whose cache keys lie in the exhaustively
    examined range of gen_weights"""
    rng = ctx.rng
    nmax = ctx.pick(14, 40)
    cases = []
    for _ in range(ctx.pick(12, 60)):
        d = rng.choice([1, 1, 1, 2, 3])
        called = [rng.randint(2, nmax) for _ in range(d)]
        proj = [rng.randint(1, c) for c in called]
        entries = []
        for _ in range(rng.randint(1, 6)):
            entries.append([called, [rng.randint(0, c) for c in called], True, rng.choice([1, 2, 3, 7, 40])])
        # argument types, systematically: every kind of PRELUDE_KINDS is met in every run (12 cases in the quick tier, 11 kinds)
        cases.append({'projections': proj, 'entries': entries, 'types': PRELUDE_KINDS[len(cases) % len(PRELUDE_KINDS)]})
    return cases


def prelude_expected(c):
    """exact spectrum of _from_count_dict: sum over SNP configurations of count x product over populations of the
    hypergeometric weights (later duplicates of a configuration replace earlier ones, as in the dictionary)"""
    proj = c['projections']
    cd = {(tuple(e[0]), tuple(e[1]), e[2]): e[3] for e in c['entries']}
    out = []
    for idx in itertools.product(*[range(p + 1) for p in proj]):
        tot = Fraction(0)
        for (called, derived, _pol), cnt in cd.items():
            w = Fraction(cnt)
            for a in range(len(proj)):
                w *= H(called[a], proj[a], derived[a], idx[a])
                if w == 0:
                    break
            tot += w
        out.append(tot)
    return out


def check_prelude(ctx, cases, res):
    for c, r in zip(cases, res):
        ok = 'error' not in r
        tot = sum({(tuple(e[0]), tuple(e[1]), e[2]): e[3] for e in c['entries']}.values())     # later duplicates replace earlier ones, as in the dictionary
        if ok:
            ok = abs(r['total'] - tot) <= 1e-9 * max(1, tot)
        kind = c.get('types', 'canon')
        ctx.count('prelude_types_' + kind)
        ctx.obligation('prelude: _from_count_dict over %d population(s) conserves the SNP count (argument types: %s)' % (len(c['projections']), kind), ok, 'predicate', '' if ok else repr(r))
        if not ok:
            ctx.violation('_from_count_dict (projection of every SNP configuration through the cached weights; argument types: %s) does not conserve the number of SNPs: %r instead of %r' % (kind, r, tot),
                          data={'kind': 'prelude', 'case': c, 'impl': r})
            continue
        # every entry against the exact hypergeometric expectation (1e-11 relative, exact zeros), nothing masked, unfolded
        exp = prelude_expected(c)
        bad = None
        if r.get('shape') != [p + 1 for p in c['projections']]:
            bad = 'shape %r' % (r.get('shape'),)
        elif any(r['mask']) or r['folded']:
            bad = 'masked entries / folded flag on a polarized spectrum built with mask_corners=False'
        else:
            for k, (e, g) in enumerate(zip(exp, r['data'])):
                if (e == 0 and g != 0.0) or abs(Fraction(g) - e) > TOL * e:
                    bad = 'flat entry %d is %r, the exact expectation is %r' % (k, g, float(e)); break
        ctx.obligation('prelude: _from_count_dict over %d population(s) is the sum of the hypergeometric projections of its SNP configurations (argument types: %s)' % (len(c['projections']), kind),
                       bad is None, 'predicate', bad or '')
        if bad:
            ctx.violation('_from_count_dict with argument types %s (projections %r) is not the sum over SNP configurations of count x hypergeometric weights: %s' % (kind, c['projections'], bad),
                          data={'kind': 'prelude', 'case': c, 'impl': r, 'exact': [float(e) for e in exp]})


def gen_spectra(ctx):
    rng = ctx.rng
    cases = []
    ncase = ctx.pick(160, 3000)
    cid = 0
    for t in range(ncase):
        d = rng.choice([1, 1, 2, 2, 3, 3, 4])
        if d == 1:
            sizes = [rng.randint(0, 12) if rng.random() < 0.7 else rng.randint(13, ctx.pick(40, 60))]
        elif d == 2:
            sizes = [rng.randint(0, 9) for _ in range(2)]
        elif d == 3:
            sizes = [rng.randint(1, 6) for _ in range(3)]
        else:
            sizes = [rng.randint(1, 4) for _ in range(4)]
        shape = [s + 1 for s in sizes]
        size = 1
        for s in shape:
            size *= s
        zp = rng.choice([0, 0, 0.2])
        data = [0.0 if rng.random() < zp else rng.randint(1, 4096) / rng.choice([1, 4, 16, 64]) for _ in range(size)]
        mp = rng.choice([0, 0.05, 0.15, 0.3])
        mask = [rng.random() < mp for _ in range(size)]
        folded = rng.random() < 0.4
        ns = []
        for s in sizes:
            r = rng.random()
            if r < 0.15:
                ns.append(s)               # unchanged axis: the loop skips it
            elif r < 0.22:
                ns.append(0)
            else:
                ns.append(rng.randint(min(1, s), s))
        mid = [rng.randint(a, s) for a, s in zip(ns, sizes)]
        perm = list(range(d)); rng.shuffle(perm)
        c = {'id': cid, 'd': d, 'shape': shape, 'data': data, 'mask': mask, 'mask_corners': rng.random() < 0.6,
             'folded': folded, 'ns': ns, 'mid': mid, 'perm': perm, 'noskip': rng.random() < 0.3,
             'pop_ids': rng.choice([None, ['p%d' % k for k in range(d)]]),
             'extrap_x': rng.choice([None, 0.125])}
        if folded and rng.random() < 0.5:
            c['extra_mask'] = [rng.randrange(size) for _ in range(rng.randint(1, 3))]
        cases.append(c); cid += 1
    # refused inputs: upward on one axis, wrong number of sample sizes
    for t in range(ctx.pick(24, 200)):
        d = rng.choice([1, 2, 3, 4])
        sizes = [rng.randint(0, 6) for _ in range(d)]
        shape = [s + 1 for s in sizes]
        size = 1
        for s in shape:
            size *= s
        data = [rng.randint(0, 64) / 4 for _ in range(size)]
        mask = [rng.random() < 0.1 for _ in range(size)]
        ns = [rng.randint(0, s) for s in sizes]
        kind = rng.choice(['up', 'up', 'up', 'len'])
        ax = rng.randrange(d)
        if kind == 'up':
            ns[ax] = sizes[ax] + rng.randint(1, 3)
        else:
            ns = ns + [1] if rng.random() < 0.5 else ns[:-1]
            ax = 0
        c = {'id': cid, 'd': d, 'shape': shape, 'data': data, 'mask': mask, 'mask_corners': True,
             'folded': rng.random() < 0.3, 'ns': ns, 'expect_error': kind, 'bad_axis': ax}
        cases.append(c); cid += 1
    return cases


# ----------------------------------------------------------------------------------------------
# (5) argument / attribute types the API accepts

# Reviewed table: the kinds (constructors in harness/impl/c08_impl.py FLAG / DATA / MASK / NS / IDS / XX / POST) that the UNCHANGED
# library accepts and treats exactly as the canonical form -- established by running every kind on 1-, 2- and 3-dimensional folded and
# unfolded spectra against /repo (all give the canonical projection to <= 1e-12).  NOT in the table, hence not compared:
#   sample sizes / _cached_projection arguments as numpy.uint8 / int8 / int16 (accepted, but scipy's gammaln then works in float32: weights
#     carry 1e-7 and, computed first, stay in the module cache), numpy.uint64 (uint64 - int64 is a float: TypeError), floats, 0-d arrays
#     (unhashable cache key), generators / dict views (no len / no comparison);
#   a spectrum whose mask attribute is numpy.ma.nomask (only reachable through shrink_mask() on a spectrum without masked entries):
#     _project_one_axis indexes self.mask and raises IndexError;
#   the 'unspecified' folded marker that __array_finalize__ gives to views of plain arrays (truthy string: not a documented flag value).
TYPE_KINDS = {
    'flag': ['bool', 'np_bool', 'np_all', 'int', 'np_int', 'arr0d', 'float'],       # each as constructor argument and as attribute; 'none' = default
    'data': ['i64', 'i32', 'f32', 'longdouble', 'bigendian', 'list', 'intlist', 'ma_nomask', 'ma_masked', 'fortran', 'transposed',
             'strided', 'negstride', 'readonly', 'spectrum'],
    'mask': ['int', 'u8', 'list', 'intlist', 'fortran', 'strided', 'negstride', 'readonly', 'nomask'],
    'ns': ['tuple', 'arr_i64', 'arr_i32', 'list_i64', 'list_i32', 'tuple_i64', 'list_intp', 'mixed', 'sample_sizes'],
    'ids': ['tuple'],
    'xx': ['np_f64', 'np_f32'],
    'post': ['copy', 'deepcopy', 'pickle', 'mul1', 'add0', 'slice', 'view', 'rewrap', 'astype', 'ma_array'],
}
TYPE_WORDS = {'flag': 'the folded flag is given as', 'data': 'the data are given as', 'mask': 'the mask is given as',
              'ns': 'the sample sizes are given as', 'ids': 'pop_ids is a', 'xx': 'extrap_x is a', 'post': 'the spectrum went through',
              'via': 'set through'}
INT_DATA = ('i64', 'i32', 'intlist')
# (name, shape, ns, mid): every base has a shrinking axis; the 3-D one keeps an unchanged axis (the skip branch of the loop)
TYPE_BASES = [('1d', [10], [4], [7]), ('2d', [6, 5], [3, 2], [4, 3]), ('3d', [4, 5, 3], [2, 4, 1], [3, 4, 1])]
PRELUDE_KINDS = ['canon', 'tuple', 'arr_i64', 'arr_i32', 'list_i64', 'list_i32', 'keys_i64', 'keys_i32', 'counts_float', 'counts_np_i64',
                 'counts_np_f64']


def type_variants():
    """one axis at a time from the canonical form, then flag x provenance pairs; (types dict, applies to folded?, to unfolded?, bases)"""
    out = []
    allb = [b_[0] for b_ in TYPE_BASES]
    for k in TYPE_KINDS['flag']:
        for via in ('ctor', 'attr'):
            out.append(({'flag': k, 'via': via}, True, True, allb))
    out.append(({'flag': 'none', 'via': 'ctor'}, False, True, allb))
    for ax in ('data', 'mask', 'ns', 'ids', 'xx', 'post'):
        for k in TYPE_KINDS[ax]:
            if (ax, k) == ('mask', 'nomask'):
                out.append(({ax: k}, False, True, allb))        # a folded spectrum always has masked entries
            else:
                out.append(({ax: k}, True, True, allb))
    # does a flag of another type survive the ways a spectrum is handed on?  (flag x provenance, 2-D base)
    for k in ('np_bool', 'int', 'arr0d'):
        for post in TYPE_KINDS['post']:
            out.append(({'flag': k, 'via': 'ctor', 'post': post}, True, True, ['2d']))
    # a flag of another type together with sample sizes of another type
    for k in ('np_bool', 'arr0d'):
        for nk in ('arr_i64', 'list_i32', 'tuple'):
            out.append(({'flag': k, 'via': 'attr', 'ns': nk}, True, True, ['1d', '2d']))
    return out


def variant_label(ty):
    return ', '.join('%s %s' % (TYPE_WORDS[k], v) for k, v in ty.items())


def gen_types(ctx, first_id):
    """SYSTEMATIC (not sampled; only data values and mask positions come from the rng): every accepted kind of every argument /
    attribute x {1-D, 2-D, 3-D} x {unfolded, folded}.  Each case is an ordinary spectrum case (all predicates and the model
    correspondence apply to the variant itself) that also carries the canonical form's input and projection."""
    rng = ctx.rng
    cases = []
    cid = first_id
    bases = {b_[0]: b_ for b_ in TYPE_BASES}
    for ty, on_folded, on_unfolded, names in type_variants():
        for name in names:
            _, shape, ns, mid = bases[name]
            for folded in (False, True):
                if (folded and not on_folded) or (not folded and not on_unfolded):
                    continue
                d = len(shape); size = _prod(shape)
                if ty.get('data') in INT_DATA:
                    # even integers: folding halves the ambiguous entries, and the variant must represent the data exactly
                    data = [0.0 if rng.random() < 0.1 else 2.0 * rng.randint(1, 2000) for _ in range(size)]
                else:
                    data = [0.0 if rng.random() < 0.1 else rng.randint(1, 4096) / rng.choice([1, 4, 16, 64]) for _ in range(size)]
                nomask = ty.get('mask') == 'nomask'
                mask = [False] * size if nomask else [rng.random() < 0.15 for _ in range(size)]
                perm = list(range(d)); rng.shuffle(perm)
                c = {'id': cid, 'd': d, 'shape': list(shape), 'data': data, 'mask': mask, 'mask_corners': not nomask, 'folded': folded,
                     'ns': list(ns), 'mid': list(mid), 'perm': perm, 'noskip': False, 'pop_ids': ['p%d' % k for k in range(d)],
                     'extrap_x': 0.125, 'types': dict(ty), 'variant': variant_label(ty)}
                if folded and cid % 2 == 0:
                    c['extra_mask'] = [rng.randrange(size)]
                cases.append(c); cid += 1
    return cases


def gen_typed_weights(ctx):
    """_cached_projection with numpy integer arguments (all three, or one at a time) on cache keys no other stream touches
    (proj_from 201 .. 224), so that the vector really is computed with those types; compared with exact integer binomials"""
    items = []
    n = 201
    for kind in ('arr_i64', 'arr_i32'):
        for pos in ([0, 1, 2], [0], [1], [2]):
            for m, j in ((n // 2, n // 2), (n // 3, n - 7), (3, n // 4)):
                items.append({'triple': [m if m <= n else n, n, j], 'kind': kind, 'pos': pos})
                n += 1
    return items


def _weight_vector_bad(m, n, j, w, tol):
    """None or why w is not the hypergeometric weight vector of (proj_to m, proj_from n, hits j): positive exactly where
    C(m,i)C(n-m,j-i) > 0, values within tol relative (exact integer binomials)"""
    if isinstance(w, dict):
        return 'raised %r' % (w,)
    if len(w) != m + 1:
        return 'length %d' % len(w)
    for i in range(m + 1):
        num = comb(m, i) * comb(n - m, j - i) if j - i >= 0 else 0
        if num == 0:
            if w[i] != 0.0:
                return 'entry %d is %r, the exact weight is 0' % (i, w[i])
            continue
        e = Fraction(num, comb(n, j))
        if e < Fraction(1, 10 ** 307):
            continue                    # at / below the end of the normal float64 range (2.2e-308): underflow is legitimate
        if abs(Fraction(w[i]) - e) > tol * e:
            return 'entry %d is %r, the exact weight is %r' % (i, w[i], float(e))
    return None


def check_typed_weights(ctx, items, res):
    nbad = 0
    for it, r in zip(items, res):
        m, n, j = it['triple']
        ctx.count('typed_weights_' + it['kind']); ctx.case(signature=('TW', m, n, j, it['kind'], tuple(it['pos'])))
        what = 'numpy.%s' % ('int64' if it['kind'] == 'arr_i64' else 'int32')
        if 'error' in r:
            bad = 'raised ' + r['error']
        else:
            bad = _weight_vector_bad(m, n, j, r['first'], Fraction(1, 10 ** 10))
            if not bad and r['again'] != r['first']:
                bad = 'the same key asked again with Python ints gives a different vector'
        if bad:
            nbad += 1
            if nbad <= 3:
                ctx.violation('_cached_projection(%d, %d, %d) with argument(s) %r given as %s is not the hypergeometric weight vector '
                              '(positive exactly on the window, 1e-10 relative): %s' % (m, n, j, it['pos'], what, bad),
                              data={'kind': 'typed_weights', 'item': it, 'impl': r})
    ctx.obligation('predicate: _cached_projection with numpy.int64 / numpy.int32 arguments (all, or one at a time; first visit of the key) '
                   'is the exact hypergeometric weight vector (%d vectors)' % len(items), nbad == 0, 'predicate')


TYPE_SHARD = 50          # the type-variant cases are small (<= 60 entries): few, larger files
LARGE_SHARD = 4
LARGE_MASK_SHARD = 30
LARGE_MASKS = ('none', 'mid', 'quarter', 'few', 'dense')
LARGE_DATA = ('sparse', 'spike', 'range', 'counts')


def large_case(rng, cid, N, layout, folded, mkind, dkind, n, corners, sweep_pos=None):
    """one spectrum with ONE large axis (sample size N) projected to n on that axis.
    layout '1d' | '2d0' (large axis first) | '2d1' (large axis last).
    mask kinds: none | mid (one entry, hits = N/2) | quarter (hits = N/4) | few (3 isolated entries) | dense (control)
                | sweep (one entry at sweep_pos);
    data kinds (all non-negative dyadic, sums stay below 1e200): sparse (one non-zero entry of magnitude 2^-760, so that an
    entry in the tail of its window is ONLY weight * value with weight down to 1/C(N,N/2)), spike (one 2^650 among 2^-650),
    range (independent magnitudes 2^-650 .. 2^650), counts (as the small cases)."""
    s = rng.choice([2, 3])
    if layout == '1d':
        shape, ax = [N + 1], 0
    elif layout == '2d0':
        shape, ax = [N + 1, s + 1], 0
    else:
        shape, ax = [s + 1, N + 1], 1
    d = len(shape)
    size = _prod(shape)

    def flat(pos, other):
        idx = [other] * d; idx[ax] = pos
        k = 0
        for a in range(d):
            k = k * shape[a] + idx[a]
        return k

    mask = [False] * size
    if mkind == 'mid':
        hits = [N // 2]
    elif mkind == 'quarter':
        hits = [N // 4]
    elif mkind == 'few':
        hits = sorted(rng.sample(range(2, N - 1), 3))
    elif mkind == 'sweep':
        hits = [sweep_pos]
    else:
        hits = []
    for h in hits:
        mask[flat(h, rng.randrange(s + 1))] = True
    if mkind == 'dense':
        p = rng.choice([0.05, 0.15, 0.3])
        mask = [rng.random() < p for _ in range(size)]
    # data
    odd = lambda: 2 * rng.randint(0, 31) + 1
    p0 = N // 2 if mkind != 'mid' else N // 2 + 2
    if dkind == 'sparse':
        data = [0.0] * size
        # (weight * value must stay a normal float64: weights go down to 1e-59 at N = 200, 3.5e-306 at N = 1020)
        data[flat(p0, rng.randrange(s + 1))] = math.ldexp(odd(), rng.choice([-760, -760, 0, 600] if N <= 200 else [0, 0, 300, 600]))
    elif dkind == 'spike':
        data = [math.ldexp(odd(), -650) for _ in range(size)]
        data[flat(p0, rng.randrange(s + 1))] = math.ldexp(odd(), 650)
    elif dkind == 'range':
        data = [math.ldexp(odd(), rng.randint(-650, 650)) for _ in range(size)]
    else:
        data = [0.0 if rng.random() < 0.1 else rng.randint(1, 4096) / rng.choice([1, 4, 16, 64]) for _ in range(size)]
    ns, mid = [0] * d, [0] * d
    ns[ax] = n
    mid[ax] = (N + n) // 2 if cid % 2 == 0 else rng.randint(n + 1, N - 1)
    if d == 2:
        o = 1 - ax
        ns[o] = rng.choice([s, s, s - 1, 1])
        mid[o] = rng.randint(ns[o], s)
    perm = list(range(d)); rng.shuffle(perm)
    return {'id': cid, 'd': d, 'shape': shape, 'data': data, 'mask': mask, 'mask_corners': corners, 'folded': folded,
            'ns': ns, 'mid': mid, 'perm': perm, 'noskip': False, 'pop_ids': None, 'extrap_x': None,
            'large': {'N': N, 'axis': ax, 'mask_kind': mkind, 'data_kind': dkind, 'masked_hits': hits}}


def gen_large(ctx, first_id, widened):
    """SYSTEMATIC (not sampled) large-axis pool, run in every tier: the regime where the smallest positive weight
    1/C(N,N/2) is far below float resolution (N >= 56: < 2.2e-16; N = 200: 1e-59), so that anything deciding
    'contributes' by magnitude instead of by the least/most window differs from the theorem -- visible only with SPARSE
    masks / data (one interior entry) and a target well below N, in the tails of the hypergeometric.
    N x {1-D, 2-D with one large axis} x {unfolded, folded} x mask kind x target n in {N/2, N/4, 3, 1}; data kind chosen
    by a Latin rule so that every (N, layout, folded, mask kind) meets all four data kinds.  Every case also runs
    two-stage, axis order, fold consistency (impl) and goes through the Coq model (mask; data too for the smallest sizes).
    widened (a source-shape obligation of the projection code is broken, or thorough tier): more sizes, both 2-D layouts
    for every N, and a sweep of a single masked entry over every position (exact-Q data model skipped)."""
    rng = ctx.rng
    cases = []
    cid = first_id
    Ns = [56, 64, 80, 120, 200]
    if not ctx.quick:
        Ns = [56, 57, 64, 80, 101, 120, 160, 200]
    for a, N in enumerate(Ns):
        layouts = ['1d', '2d0' if a % 2 == 0 else '2d1'] if ctx.quick else ['1d', '2d0', '2d1']
        for layout in layouts:
            for folded in (False, True):
                targets = [N // 2, N // 4, 3, 1]
                for mi, mkind in enumerate(LARGE_MASKS):
                    for n in targets:
                        ti = [N // 2, N // 4, 3, 1].index(n)
                        dkind = LARGE_DATA[(mi + ti) % 4]
                        corners = False if (layout == '1d' and mkind in ('none', 'mid', 'quarter')) else (cid % 2 == 1)
                        cases.append(large_case(rng, cid, N, layout, folded, mkind, dkind, n, corners)); cid += 1
    # sample size 1020 (weights down to 1/C(1020,510) = 3.5e-306, still normal float64 numbers): anything that decides 'contributes' / 'negligible' by
    # a tiny threshold.  1-D, Python-side predicates only (exact mask, exact rational entries, two-stage, fold identities)
    for folded in (False, True):
        for mi, mkind in enumerate(('none', 'mid', 'quarter')):
            for ti, n in enumerate((510, 255, 3)):
                dkind = ('sparse', 'spike', 'counts')[(mi + ti) % 3]
                c = large_case(rng, cid, 1020, '1d', folded, mkind, dkind, n, False)
                c['nocoq'] = True
                cases.append(c); cid += 1
    if widened:
        # one masked entry at EVERY position of the large axis (and 1-D / 2-D, folded / unfolded alternating), sizes up to 400
        for N in [56, 57, 58, 60, 64, 72, 80, 100, 120, 160, 200, 300, 400]:
            step = 1 if N <= 120 else (2 if N <= 200 else 7)
            for pos in range(0, N + 1, step):
                for n in (N // 2 if pos % 2 == 0 else N // 4, 3):
                    layout = ('1d', '1d', '2d0', '2d1')[(pos + n) % 4]
                    c = large_case(rng, cid, N, layout, (pos // 2 + n) % 3 == 0, 'sweep', 'counts', n, False, sweep_pos=pos)
                    c['nocoq'] = True
                    cases.append(c); cid += 1
    return cases


def gen_bigweights(ctx):
    """weight vectors at proj_from = 400 and 1020 (smallest weights 1e-120 / 3.5e-306, still normal float64 numbers): support and
    value against exact integer binomials on the Python side (the Coq comparison stops at 200, where the log-gamma error
    leaves a factor 30 below its tolerance)"""
    out = []
    for N in (400, 1020):
        for n in (N // 2, N // 4, 3, 1):
            for hits in (N // 2, N // 4, N // 3, N - 5, 1):
                out.append((n, N, hits))
    return out


def check_bigweights(ctx, triples, res):
    nbad = 0
    for (m, n, j), w in zip(triples, res):
        ctx.count('weights_n>200'); ctx.case(signature=('W', m, n, j))
        bad = None
        if isinstance(w, dict):
            bad = 'raised %r' % (w,)
        elif len(w) != m + 1:
            bad = 'length %d' % len(w)
        else:
            for i in range(m + 1):
                num = comb(m, i) * comb(n - m, j - i) if j - i >= 0 else 0
                if num == 0:
                    if w[i] != 0.0:
                        bad = 'entry %d is %r, the exact weight is 0' % (i, w[i]); break
                    continue
                e = Fraction(num, comb(n, j))
                if e < Fraction(1, 10 ** 307):
                    continue                    # at / below the end of the normal float64 range (2.2e-308): underflow is legitimate
                if abs(Fraction(w[i]) - e) > Fraction(1, 10 ** 10) * e:
                    bad = 'entry %d is %r, the exact weight is %r' % (i, w[i], float(e)); break
        if bad:
            nbad += 1
            if nbad <= 3:
                ctx.violation('_cached_projection(%d, %d, %d) is not the hypergeometric weight vector (positive exactly on the window, 1e-10 relative): %s' % (m, n, j, bad),
                              data={'kind': 'bigweights', 'triple': [m, n, j], 'impl': w})
    ctx.obligation('predicate: _cached_projection at proj_from 400 / 1020: positive exactly where C(m,i)C(n-m,j-i) > 0, values within 1e-10 (%d vectors)' % len(triples),
                   nbad == 0, 'predicate')


def gen_neutral(ctx):
    rng = ctx.rng
    pairs = []
    nmax = ctx.pick(14, 40)
    for n in range(2, nmax + 1):
        for m in range(1, n + 1):
            pairs.append((n, m))
    for _ in range(ctx.pick(60, 1500)):
        n = rng.randint(nmax + 1, 200)
        pairs.append((n, rng.randint(1, n)))
    return pairs


# ----------------------------------------------------------------------------------------------
# checks

def check_weights(ctx, triples, res1, res2):
    exprs, meta = [], {}
    nviol = 0
    for k, ((m, n, j), w, w2) in enumerate(zip(triples, res1, res2)):
        ctx.count('weights_n<=%d' % (10 if n <= 10 else 40 if n <= 40 else 200))
        if m > n:
            ctx.count('weights_upward')
        if isinstance(w, dict) or isinstance(w2, dict):
            ctx.violation('_cached_projection(%d, %d, %d) raised %r' % (m, n, j, w if isinstance(w, dict) else w2),
                          data={'kind': 'weights', 'triple': [m, n, j]}); nviol += 1
            continue
        ctx.case(signature=('w', m, n, j) if 0 < m < n and 0 < j < n else None,
                 sample={'proj_to': m, 'proj_from': n, 'hits': j, 'impl': w[:6]} if k < 2 else None)
        # predicate: the cache returns the same vector on the second visit
        if w != w2:
            nviol += 1
            if nviol <= 3:
                ctx.violation('_cached_projection(%d, %d, %d): cached vector differs from the first computation' % (m, n, j),
                              data={'kind': 'weights', 'triple': [m, n, j], 'first': w, 'cached': w2})
        # predicate: weights of one source entry sum to one (conservation), downward only
        if m <= n and len(w) == m + 1:
            s = sum(Fraction(x) for x in w)
            if abs(s - 1) > TOL:
                nviol += 1
                if nviol <= 3:
                    ctx.violation('_cached_projection(%d, %d, %d): weights sum to %r, not 1' % (m, n, j, float(s)),
                                  data={'kind': 'weights', 'triple': [m, n, j], 'impl': w})
        exprs.append((k, '{| wc_to := %d%%nat; wc_from := %d%%nat; wc_hits := %d%%nat; wc_impl := %s |}' % (m, n, j, ql(w))))
        meta[k] = (m, n, j, w)
    header = ('From Coq Require Import ZArith QArith List.\nFrom Dadi Require Import Base.Num Base.NumQ Model.Projection '
              'Model.ProjectionCheck.\nImport ListNotations.\nOpen Scope Q_scope.')
    results = ctx.coq_cases('w', header, exprs, '(wcheck %s)' % q(TOL), 'tol 1e-11 relative per weight; zero weights exactly zero',
                            shard=ctx.pick(250, 400), kind='weights')
    nbad = 0
    for k, (m, n, j, w) in meta.items():
        rr = results.get(k)
        ok = rr is not None and rr[0]
        if not ok or k % 50 == 0:
            ctx.obligation('corr _cached_projection(%d,%d,%d)' % (m, n, j), ok, 'correspondence',
                           '' if ok else 'model != impl %r' % (rr,))
        if not ok:
            nbad += 1
            if nbad <= 3:
                exact = [float(H(n, m, j, i)) for i in range(m + 1)] if m <= n else [0.0] * (m + 1)
                ctx.violation('_cached_projection(%d, %d, %d) is not the hypergeometric weight vector C(m,i)C(n-m,j-i)/C(n,j)' % (m, n, j),
                              data={'kind': 'weights', 'triple': [m, n, j], 'impl': w, 'exact': exact, 'coq': rr})
    ctx.obligation('corr _cached_projection: all %d weight vectors agree with the exact rational weights' % len(meta), nbad == 0,
                   'correspondence', '%d disagree' % nbad if nbad else '')


def expected_mask(c, inp):
    """support of the exact multi-axis weights: target idx is masked iff some masked source idx has non-zero weight"""
    shape = inp['shape']; ns = c['ns']
    sizes = [s - 1 for s in shape]
    src_masked = [idx for idx, mk in zip(itertools.product(*[range(s) for s in shape]), inp['mask']) if mk]
    out = []
    for tgt in itertools.product(*[range(m + 1) for m in ns]):
        hit = False
        for src in src_masked:
            if all(H(sizes[a], ns[a], src[a], tgt[a]) > 0 for a in range(len(shape))):
                hit = True; break
        out.append(hit)
    return out


def check_spectra(ctx, cases, res):
    byid = {r['id']: r for r in res}
    exprs_by_d = {1: [], 2: [], 3: [], 4: [], 'M1': [], 'M2': [], 'L1': [], 'L2': [], 'T1': [], 'T2': [], 'T3': [], 'T4': []}
    meta = {}
    nv = {'n': 0}

    def viol(what, c, extra=None):
        nv['n'] += 1
        if nv['n'] <= 6:
            d = {'kind': 'spectrum', 'case': c}
            if extra:
                d.update(extra)
            ctx.violation(what, data=d)

    for c in cases:
        r = byid[c['id']]
        d = c['d']; inp = r['input']; out = r['out']
        ctx.count('dim=%d' % d); ctx.count('folded' if c['folded'] else 'unfolded')
        lg = c.get('large')
        if lg:
            ctx.count('large_axis_N=%d' % lg['N']); ctx.count('large_mask_' + lg['mask_kind']); ctx.count('large_data_' + lg['data_kind'])
        nontrivial = (not c.get('expect_error')) and any(a != s - 1 for a, s in zip(c['ns'], c['shape']))
        ctx.case(signature=('s', c['shape'], c['ns'], c['folded'], c['data'][:8], c['mask'][:16]) if nontrivial else None,
                 sample={'shape': c['shape'], 'ns': c['ns'], 'folded': c['folded'], 'out_shape': out.get('shape'),
                         'out_data_head': (out.get('data') or [])[:5]})
        raised = 'error' in out
        ty = c.get('types')
        if ty:
            # ---- argument / attribute types: the variant is the canonical spectrum and projects like it
            for ax_, k_ in ty.items():
                ctx.count('types_%s=%s' % (ax_, k_))
            label = c.get('variant') or variant_label(ty)
            if 'variant_error' in r:
                ctx.obligation('generator: type variant (%s) of case %d represents the canonical input exactly' % (label, c['id']), False, 'predicate', r['variant_error'])
                continue
            if 'build_error' in r:
                viol('a spectrum cannot be built when %s (accepted by the unchanged library, table TYPE_KINDS): %s' % (label, r['build_error']), c)
                continue
            cin, cano = r['canon_input'], r['canon_out']
            why = same_result(inp, cin) or ('pop_ids / extrap_x differ' if (inp['pop_ids'], inp['extrap_x']) != (cin['pop_ids'], cin['extrap_x']) else None)
            if why:
                viol('when %s the %s spectrum of shape %r is not the spectrum of the canonical form (float64 data, bool mask array, Python bool flag): %s' % (
                    label, 'folded' if c['folded'] else 'unfolded', c['shape'], why), c, {'variant_input': inp, 'canonical_input': cin})
            else:
                why = same_result(out, cano)
                if not why and (out['pop_ids'], out['extrap_x'], out['is_spectrum']) != (cano['pop_ids'], cano['extrap_x'], cano['is_spectrum']):
                    why = 'pop_ids / extrap_x / type differ'
                if why:
                    viol('Spectrum.project(%r) of a %s spectrum of shape %r depends on argument / attribute types: when %s (flag object of type %s) the result is not '
                         'the projection of the canonical form (float64 data, bool mask array, Python bool flag, list of Python ints): %s' % (
                             c['ns'], 'folded' if c['folded'] else 'unfolded', c['shape'], label, inp.get('folded_type'), why), c,
                         {'variant': out, 'canonical': cano})
        if raised and not out['error'].startswith('ValueError'):
            viol('Spectrum.project raised %s for shape %r -> ns %r' % (out['error'], c['shape'], c['ns']), c, {'impl': out})
            continue
        if c.get('expect_error'):
            ctx.count('refused_' + c['expect_error'])
            # predicate: upward projection (or wrong number of sizes) raises
            if not raised:
                viol('Spectrum.project did not refuse %s: sample sizes %r -> %r' % (
                    'an upward projection' if c['expect_error'] == 'up' else 'a wrong number of sample sizes',
                    [s - 1 for s in c['shape']], c['ns']), c, {'impl': out})
            if c['expect_error'] == 'up':
                oa = r.get('one_axis', {})
                if 'error' not in oa or not oa['error'].startswith('ValueError'):
                    viol('_project_one_axis did not refuse an upward projection on axis %d: %r -> %r' % (
                        c['bad_axis'], [s - 1 for s in c['shape']], c['ns']), c, {'impl': oa})
        elif raised:
            viol('Spectrum.project refused a downward projection %r -> %r: %s' % ([s - 1 for s in c['shape']], c['ns'], out['error']), c)
            continue
        else:
            # ---- property predicates on the implementation
            if not r.get('input_unchanged'):
                viol('Spectrum.project modified its input', c)
            if out['folded'] != inp['folded'] or not out['is_spectrum']:
                viol('projected spectrum lost its folded flag / type', c, {'impl': out})
            if out['pop_ids'] != inp['pop_ids'] or out['extrap_x'] != inp['extrap_x']:
                viol('projected spectrum lost pop_ids / extrap_x', c, {'impl': out})
            tin = sum(Fraction(x) for x in inp['data']); tout = sum(Fraction(x) for x in out['data'])
            # (data are non-negative: the large-axis cases, whose totals range over 1e-230 .. 1e200, are held to the relative bound)
            if abs(tin - tout) > (Fraction(1, 10 ** 10) if (lg and lg['N'] > 400) else TOL) * (abs(tin) if lg else max(abs(tin), 1)):
                viol('projection does not conserve the total: %r before, %r after (shape %r -> ns %r, folded=%s)' % (
                    float(tin), float(tout), c['shape'], c['ns'], c['folded']), c, {'impl': out})
            # (sample sizes above 400: the log-gamma weights carry 2e-12 relative error (observed; 1e-11 worst case), so two float
            #  evaluations / the exact value are compared at 1e-10 there; everything else at 1e-11)
            ftol, qtol = (1e-10, Fraction(1, 10 ** 10)) if (lg and lg['N'] > 400) else (FTOL, TOL)
            why = same_result(out, r['two_stage'], ftol)
            if why:
                viol('two-stage projection %r -> %r -> %r differs from one-stage: %s' % (
                    [s - 1 for s in c['shape']], c['mid'], c['ns'], why), c, {'one': out, 'two': r['two_stage']})
            why = same_result(out, r['in_order'], ftol)
            if why:
                viol('projecting the axes one at a time in order %r differs from project(): %s' % (c['perm'], why), c,
                     {'project': out, 'in_order': r['in_order']})
            if c['folded']:
                why = same_result(out, r['via_unfold'], ftol)
                if why:
                    viol('folded projection differs from fold(project(unfold)): %s' % why, c, {'project': out, 'via_unfold': r['via_unfold']})
            else:
                why = same_result(r['fold_project'], r['project_fold'], ftol)
                if why:
                    viol('fold(project(fs)) differs from project(fold(fs)): %s' % why, c,
                         {'fold_project': r['fold_project'], 'project_fold': r['project_fold']})
                if not lg:
                    exp = expected_mask(c, inp)
                    if exp != out['mask']:
                        k = [i for i, (x, y) in enumerate(zip(exp, out['mask'])) if x != y][0]
                        viol('mask does not spread to exactly the entries a masked source entry contributes to: flat target index %d is %s, '
                             'support of the exact weights says %s (shape %r -> ns %r)' % (k, out['mask'][k], exp[k], c['shape'], c['ns']), c,
                             {'impl_mask': out['mask'], 'expected_mask': exp})
            if lg:
                # data of the large cases against exact rationals (unfolded projection; a folded spectrum through the
                # unfolded spectrum project() works on -- folded out == fold(that projection) is the via_unfold identity above)
                if inp['folded']:
                    src, prj = r.get('unfolded', {'error': 'missing'}), r.get('unfold_project', {'error': 'missing'})
                else:
                    src, prj = inp, out
                why = 'unfold() raised ' + src['error'] if 'error' in src else exact_entries(src['data'], src['shape'], c['ns'], prj, lg['axis'], qtol)
                if why:
                    viol('projection is not the hypergeometric expectation: %s sample sizes %r -> %r (data kind %s): %s' % (
                        'unfold() of a folded spectrum,' if inp['folded'] else 'unfolded spectrum,', [s_ - 1 for s_ in src.get('shape', inp['shape'])],
                        c['ns'], lg['data_kind'], why), c, {'impl': prj})
                if inp['folded'] and 'error' not in src and 'error' not in prj:
                    expu = reference_mask(src['mask'], src['shape'], c['ns'], False)
                    if expu != prj['mask']:
                        bad = [i for i, (x, y) in enumerate(zip(expu, prj['mask'])) if x != y]
                        viol('mask does not spread to exactly the entries a masked source entry contributes to: unfold().project(%r) of a folded spectrum of '
                             'sample sizes %r leaves %d target entries wrong, first flat target index %d' % (
                                 c['ns'], [s_ - 1 for s_ in src['shape']], len(bad), bad[0]), c,
                             {'impl_mask': prj['mask'], 'expected_mask': expu, 'wrong_flat_indices': bad[:40]})
            # mask spreading (C08_mask_spreads_exactly, per shrinking axis, integer binomials only; folded: through the
            # fold/unfold mask algebra), EXACT equality -- one-stage, two-stage and one axis at a time
            exp = reference_mask(inp['mask'], inp['shape'], c['ns'], inp['folded'])
            for label, got in (('project(%r)' % (c['ns'],), out), ('project(%r).project(%r)' % (c['mid'], c['ns']), r['two_stage']),
                               ('_project_one_axis in order %r' % (c['perm'],), r['in_order'])):
                if 'error' in got or got['mask'] == exp:
                    continue
                bad = [i for i, (x, y) in enumerate(zip(exp, got['mask'])) if x != y]
                viol('mask does not spread to exactly the entries a masked source entry contributes to: %s on a %s spectrum of sample sizes %r '
                     '(masked source entries at flat indices %r) leaves %d target entries wrong, first flat target index %d is %s, the support '
                     'C(n,i)*C(N-n,j-i) > 0 of the exact weights says %s' % (
                         label, 'folded' if inp['folded'] else 'unfolded', [s_ - 1 for s_ in inp['shape']],
                         [i for i, mk in enumerate(inp['mask']) if mk][:6], len(bad), bad[0] if bad else -1,
                         got['mask'][bad[0]] if bad else None, exp[bad[0]] if bad else None), c,
                     {'impl_mask': got['mask'], 'expected_mask': exp, 'wrong_flat_indices': bad[:40]})
                break
        # ---- correspondence case (model sees the actual input the implementation saw)
        if lg and lg['N'] > 200:
            continue        # unary sample sizes above a few hundred are not for vm_compute: Python-side predicates only
        n = len(meta)
        meta[n] = c
        if lg:
            # large axis: the mask against the model through the mask-only evaluation (theorem
            # C08_mask_only_evaluation_is_model_mask: it IS the mask of [project]); the exact-Q data model recomputes three
            # binomials per (target, source) pair on binary integers and is affordable only for the smallest of these sizes
            # (the data of all large cases are compared with exact rationals in exact_entries)
            if raised:
                oshape, omk = '[]', '[]'
            else:
                oshape, omk = natl(out['shape']), bl(out['mask'])
            exprs_by_d['M%d' % d].append((n, '(Build_mcase %d %s %s %s %s %s %s)' % (
                d, natl(c['ns']), b(inp['folded']), nested(inp['mask'], inp['shape'], b), b(raised), oshape, omk)))
            if not (lg['N'] <= 64 and d == 1 and lg['data_kind'] == 'counts' and not c.get('nocoq')):
                continue
            n = len(meta)
            meta[n] = c
        if raised:
            oshape, ox, omk = '[]', '[]', '[]'
        else:
            oshape, ox, omk = natl(out['shape']), ql([0.0 if mk else x for x, mk in zip(out['data'], out['mask'])]), bl(out['mask'])
        xin = [x if math.isfinite(x) else 0.0 for x in inp['data']]
        exprs_by_d[('L%d' % d) if lg else ('T%d' % d) if ty else d].append((n, '(Build_scase %d %s %s %s %s %s %s %s %s)' % (
            d, natl(c['ns']), b(inp['folded']), nested(xin, inp['shape'], q), nested(inp['mask'], inp['shape'], b),
            b(raised), oshape, ox, omk)))
    header = ('From Coq Require Import ZArith QArith List.\nFrom Dadi Require Import Base.Num Base.NumQ Model.Projection '
              'Model.ProjectionCheck.\nImport ListNotations.\nOpen Scope Q_scope.')
    nbad = 0
    for dk, exprs in exprs_by_d.items():
        if not exprs:
            continue
        d = dk if isinstance(dk, int) else int(dk[1:])
        maskonly = isinstance(dk, str) and dk[0] == 'M'
        if maskonly:
            results = ctx.coq_cases('s%s' % dk, header + '\nDefinition chk := mcheck %d.' % d, exprs, 'chk',
                                    'masks, shapes and refusals exactly', shard=LARGE_MASK_SHARD, kind='project_mask', record_err=False)
        else:
            results = ctx.coq_cases('s%s' % dk, header + '\nDefinition chk := scheck %d %s.' % (d, q(TOL)), exprs,
                                    'chk', 'tol 1e-11 relative per unmasked entry; masks, shapes and refusals exactly',
                                    shard=ctx.pick(12, 40) if isinstance(dk, int) else TYPE_SHARD if dk[0] == 'T' else LARGE_SHARD, kind='project')
        for n, _ in exprs:
            c = meta[n]
            rr = results.get(n)
            ok = rr is not None and rr[0]
            ctx.obligation('corr Spectrum.project%s case %d (dim %d, shape %r -> %r, folded=%s)' % (
                ' [mask, large axis]' if maskonly else (' [types: %s]' % c['variant']) if c.get('variant') else '', c['id'], d, c['shape'], c['ns'], c['folded']),
                ok, 'correspondence', '' if ok else 'model != impl %r' % (rr,))
            if not ok:
                nbad += 1
                if nbad <= 3:
                    ctx.violation('Spectrum.project(%r) on a %s spectrum of shape %r%s is not the %s the model gives' % (
                        c['ns'], 'folded' if c['folded'] else 'unfolded', c['shape'], (' (%s)' % c['variant']) if c.get('variant') else '',
                        'mask / refusal' if maskonly else 'hypergeometric expectation / mask / refusal'),
                        data={'kind': 'spectrum', 'case': c, 'impl': byid[c['id']]['out'], 'coq': rr})


def check_neutral(ctx, res):
    nbad = 0
    for r in res:
        n, m = r['n'], r['m']
        ctx.count('neutral')
        if 'error' in r:
            ctx.violation('projecting the neutral spectrum %d -> %d raised %s' % (n, m, r['error']), data={'kind': 'neutral', 'pair': [n, m]})
            continue
        ctx.case(signature=('n', n, m) if m < n else None)
        bad = None
        if len(r['data']) != m + 1:
            bad = 'length %d' % len(r['data'])
        else:
            for i in range(1, m):
                if r['mask'][i]:
                    bad = 'entry %d masked' % i; break
                if not rel_close(r['data'][i], 1.0 / i):
                    bad = 'entry %d is %r, not 1/%d' % (i, r['data'][i], i); break
            if m >= 1 and not (r['mask'][0] and r['mask'][m]):
                bad = 'corners not masked'
        if bad:
            nbad += 1
            if nbad <= 3:
                ctx.violation('the neutral 1/i spectrum of size %d does not project to 1/i at size %d: %s' % (n, m, bad),
                              data={'kind': 'neutral', 'pair': [n, m], 'impl': r})
    ctx.obligation('predicate: neutral 1/i spectrum is a fixed point (%d size pairs)' % len(res), nbad == 0, 'predicate')


def run(ctx):
    ctx.rule = ('weights: every (proj_to, proj_from, hits) with proj_from <= 14 (quick) / 40 (thorough), random triples up to 200, plus upward triples, '
                'evaluated in shuffled order through the module cache, twice, after a call history of _from_count_dict runs (1-3 populations, counts > 1) that use the same cache keys; spectra: dimension 1-4, per-axis sizes 0..12 (1-D up to 60), '
                'non-negative dyadic data with zeros, random masks (p in 0..0.3, corners optional), folded (built by fold(), optional extra masks) '
                'or unfolded, target sizes incl. 0 / unchanged axes, an intermediate size vector, an axis order; refused inputs (upward, wrong length); '
                'neutral spectrum: all (n, m) small, random up to 200.  LARGE AXES, systematic in every tier: one axis of sample size 56, 64, 80, 120, 200 '
                '(1-D, and 2-D with the large axis first or last), folded and unfolded, masks {none, one entry at N/2, one at N/4, three isolated, dense random} x '
                'targets {N/2, N/4, 3, 1} on that axis, data {one non-zero entry down to 2^-760, one 2^650 spike among 2^-650, magnitudes 2^-650..2^650, counts}, '
                'each one-stage, two-stage, one axis at a time, fold identities; sample size 1020 (1-D) with masks {none, N/2, N/4}; weight vectors at 400 and 1020; '
                'thorough tier or a changed formula line of the projection code: more sizes, both 2-D layouts and one masked entry at every position for sizes 56..400.  '
                'ARGUMENT / ATTRIBUTE TYPES, systematic in every tier: every accepted kind (table TYPE_KINDS) of folded flag (constructor / attribute, both truth values), '
                'data, mask, sample sizes, pop_ids, extrap_x and provenance, one at a time from the canonical form on 1-D (10), 2-D (6x5), 3-D (4x5x3) folded and unfolded '
                'spectra, plus flag x provenance and flag x sample-size pairs; _cached_projection with numpy integer arguments on untouched keys (proj_from 201..224); '
                '_from_count_dict with typed projections / keys / counts.  '
                'distinct = distinct generated input; non-trivial = at least one axis shrinks')
    ctx.assumptions += ['float64 weights exp(lnC+lnC-lnC) via gammaln are compared with the exact rational at 1e-11 relative (observed <= 1e-13)',
                        'data are non-negative (counts), so entrywise relative comparison of sums is well conditioned',
                        'large axes: the mask is compared exactly with (a) the support C(n,i)C(N-n,j-i) > 0 in integer arithmetic (right-hand side of C08_mask_spreads_exactly) and (b) for sizes <= 200 the model mask through project_mask (C08_mask_only_evaluation_is_model_mask); the data with exact rationals on the tail / window-edge / bulk entries of the large axis at 1e-11 (1e-10 for sample size 1020, where the log-gamma weights carry 3e-12), the exact-Q Coq data model only for sizes <= 64 (three binomials per entry pair on binary integers)',
                        'weight * value stays a normal float64 in every generated case (no legitimate underflow): values >= 2^-760 at sizes <= 200, >= 1 at size 1020',
                        'fold/unfold are modelled only as far as Spectrum.project uses them; their own algebra is C09',
                        'the model takes the folded status as a bool: the truth value of the `folded` attribute (bool(fs.folded)), whatever its type; argument / attribute types are compared for the kinds the unchanged library accepts (TYPE_KINDS in harness/props/c08.py lists them and what is left out: small unsigned / 8-16 bit sample sizes, uint64, floats, a nomask mask attribute, the "unspecified" marker)']
    ctx.trusted += ['MathComp binomial.v (Vandermonde, mul_bin_diag, mul_bin_down, bin_sub, bin_gt0) for the integer identities']
    broken = source_obligations(ctx)
    triples = gen_weights(ctx)
    cases = gen_spectra(ctx)
    pairs = gen_neutral(ctx)
    pre = gen_prelude(ctx)
    # large axes with sparse masks / data: always; widened to more sizes and a sweep of every masked position when a formula
    # line of the projection code changed (the search for a failing input before 'no-failing-input-found') or in the thorough tier
    # (a changed line of Spectrum.project itself -- the fold/unfold wrapping, the refusals, the axis loop -- is searched by the type
    #  variants and the ordinary spectra, not by the large-axis sweep)
    cases += gen_large(ctx, len(cases), widened=bool([f for f in broken if f != 'project']) or not ctx.quick)
    cases += gen_types(ctx, len(cases))
    bigw = gen_bigweights(ctx)
    typedw = gen_typed_weights(ctx)
    if ctx.replay:
        rp = json.load(open(ctx.replay))
        inp = rp.get('input') or {}
        triples, cases, pairs, bigw, typedw = [], [], [], [], []
        if inp.get('kind') != 'prelude':
            pre = []
        else:
            pre = [inp['case']]
            triples = [(m, n, j) for m in range(0, 41) for n in range(m, 41) for j in range(0, n + 1) if n in inp['case']['entries'][0][0]]
        if inp.get('kind') == 'weights':
            triples = [tuple(inp['triple'])]
        elif inp.get('kind') == 'spectrum':
            c = inp['case']; c['id'] = 0; cases = [c]
        elif inp.get('kind') == 'neutral':
            pairs = [tuple(inp['pair'])]
        elif inp.get('kind') == 'bigweights':
            bigw = [tuple(inp['triple'])]
        elif inp.get('kind') == 'typed_weights':
            typedw = [inp['item']]
        else:
            triples = gen_weights(ctx)[:200]
            if not pre:                 # replay of a broken obligation without input: repeat the widened large-axis search
                cases = gen_large(ctx, 0, widened=True)
                cases += gen_types(ctx, len(cases))
    res = lib.run_impl('c08_impl.py', {'prelude': pre, 'weights': [list(t) for t in triples], 'spectra': cases, 'neutral': [list(p) for p in pairs],
                                       'bigweights': [list(t) for t in bigw], 'typed_weights': typedw}, timeout=1800)
    n0 = len(ctx.violations)
    if pre:
        check_prelude(ctx, pre, res['prelude'])
    if triples:
        check_weights(ctx, triples, res['weights'], res['weights_cached'])
    if bigw:
        check_bigweights(ctx, bigw, res.get('bigweights', []))
    if typedw:
        check_typed_weights(ctx, typedw, res.get('typed_weights', []))
    if cases:
        check_spectra(ctx, cases, res['spectra'])
    if pairs:
        check_neutral(ctx, res['neutral'])
    ctx.obligation('predicates on the implementation: total conserved, two-stage = one-stage, axis order, fold consistency, mask spreading, refusal, cache',
                   len(ctx.violations) == n0, 'predicate', '%d violation(s)' % (len(ctx.violations) - n0) if len(ctx.violations) != n0 else '')
