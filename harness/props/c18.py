"""C18 — the low-pass calling model redistributes probability and vanishes at deep coverage.

Static theorems: coq/theories/Props/C18.v (model: Model/LowPass.v, exact over Q, no Num).
Per run:
  (1) correspondence, compared inside Coq over Q: for generated (nseq, nsub, coverage distribution, F)
      every helper of dadi/LowPass/LowPass.py against the model — partitions (exact list equality) and their
      probabilities, projection_inbreeding, projection_matrix, calling_error_matrix,
      probability_of_no_call_1D_GATK_multisample, probability_enough_individuals_covered — and the whole
      make_low_pass_func_GATK_multisample output for 1-3 populations and sim_threshold in {0, 1e-2, 1}, the
      simulated arrays the run produced being handed to the model as the values of its oracle;
  (2) the property predicates evaluated on the real code: partitions are all and only the sorted genotype
      vectors, probabilities sum to one, matrices row-stochastic and non-negative, no-call in [0,1], corrected
      total <= uncorrected total (analytic and simulated regimes; the simulated regime only redistributes),
      deep coverage == plain projection, F = 1e-9 ~ F = 0.
"""
import json, math, os
from fractions import Fraction
from harness import lib
from harness.lib import q, ql, qll, natl, bl

TOL = Fraction(1, 10 ** 11)          # helpers: absolute, all values are probabilities
TOL_F = Fraction(1, 10 ** 9)          # helpers with inbreeding: BetaBinomln = differences of gammaln at arguments ~ 1/F
TOL_LP = Fraction(1, 10 ** 9)        # corrected spectrum: relative to the largest entry
P_TOL = 1e-12                        # predicates: row sums etc.
DEEP_TOL = 1e-10
F_EPS = 1e-9
F_TOL = 1e-4                         # |helper(F=1e-9) - helper(F=0)|: true distance O(1e-9), gammaln cancellation ~1e-7
THRS = [0.0, 1e-2, 1.0]

# ---------------------------------------------------------------------------------------------
# generators

def compose(rng, total, m):
    """random composition of `total` into m positive integers"""
    if m == 1:
        return [total]
    cuts = sorted(rng.sample(range(1, total), m - 1))
    return [b - a for a, b in zip([0] + cuts, cuts + [total])]

def gen_cov(rng, kind=None):
    """dyadic probability vector over depths 0..D (D <= 80); exact in float64 and sums to 1 exactly"""
    kind = kind or rng.choice(['low', 'low', 'low', 'mid', 'wide', 'nozero', 'deep', 'two'])
    bits = rng.choice([6, 8, 10])
    tot = 1 << bits
    if kind == 'low':
        D = rng.randint(1, 8); support = list(range(D + 1))
        if rng.random() < 0.4 and D >= 2:
            support = sorted(set([rng.choice([0, 1])] + rng.sample(range(D + 1), rng.randint(1, D))))
    elif kind == 'mid':
        D = rng.randint(5, 30); support = sorted(rng.sample(range(D + 1), rng.randint(2, min(D, 12))))
    elif kind == 'wide':
        D = 80; support = sorted(rng.sample(range(81), rng.randint(2, 40)))
    elif kind == 'nozero':
        D = rng.randint(2, 12); support = sorted(rng.sample(range(1, D + 1), rng.randint(1, min(D, 6))))
    elif kind == 'two':
        D = 1; support = [0, 1]
    else:  # deep: every individual has depth >= 60
        support = sorted(rng.sample(range(60, 81), rng.randint(1, 10))); D = support[-1]
    if all(s == 0 for s in support):
        support = support + [1]
    D = max(max(support), 1)
    w = compose(rng, tot, len(support))
    cov = [0.0] * (D + 1)
    for s, x in zip(support, w):
        cov[s] = x / tot
    assert sum(Fraction(c) for c in cov) == 1 and sum(cov[1:]) > 0
    return cov, kind

def gen_F(rng):
    if rng.random() < 0.4:
        return 0.0
    return rng.choice([rng.randint(1, 63) / 64.0, rng.randint(1, 15) / 16.0, 0.5, 1 / 1024.0, 1023 / 1024.0, rng.randint(1, 255) / 256.0])

def gen_sizes(rng, maxn):
    nseq = 2 * rng.randint(1, maxn // 2)
    nsub = 2 * rng.randint(1, nseq // 2)
    if rng.random() < 0.25:
        nsub = nseq
    return nseq, nsub

def gen_helper_cases(ctx):
    rng = ctx.rng
    cases = []
    n = ctx.pick(60, 420)
    maxn = ctx.pick(8, 20)
    for i in range(n):
        nseq, nsub = gen_sizes(rng, maxn)
        if i < ctx.pick(4, 10):                      # make sure the extremes are present
            nseq = maxn; nsub = rng.choice([2, maxn // 2 * 2 - 2, maxn])
        cov, kind = gen_cov(rng, 'deep' if i % 9 == 8 else None)
        cases.append({'kind': 'helpers', 'nseq': nseq, 'nsub': nsub, 'cov': cov, 'covkind': kind, 'F': gen_F(rng)})
    # F -> 0 companions: the same configuration at F = 0 and F = 1e-9 (predicate only)
    comp = []
    for c in cases[:ctx.pick(10, 60)]:
        a = dict(c); a['F'] = 0.0; a['pair'] = len(comp) // 2; a['nocorr'] = True
        b_ = dict(c); b_['F'] = F_EPS; b_['pair'] = len(comp) // 2; b_['nocorr'] = True
        comp += [a, b_]
    return cases + comp

def gen_lowpass_cases(ctx):
    rng = ctx.rng
    cases = []
    n = ctx.pick(60, 360)
    for i in range(n):
        d = rng.choice([1, 1, 2, 2, 3])
        maxn = {1: ctx.pick(8, 20), 2: ctx.pick(6, 10), 3: ctx.pick(4, 6)}[d]
        deep = (i % 6 == 5)
        pops = []
        for _ in range(d):
            nseq, nsub = gen_sizes(rng, maxn)
            cov, kind = gen_cov(rng, 'deep' if deep else rng.choice(['low', 'low', 'mid', 'wide', 'nozero', 'two']))
            pops.append({'nseq': nseq, 'nsub': nsub, 'cov': cov, 'covkind': kind, 'F': gen_F(rng)})
        size = 1
        for p in pops:
            size *= p['nseq'] + 1
        style = rng.choice(['rand', 'rand', 'neutral', 'sparse'])
        if style == 'rand':
            model = [rng.randint(0, 64) / 8.0 for _ in range(size)]
        elif style == 'sparse':
            model = [rng.choice([0, 0, 0, rng.randint(1, 32)]) / 4.0 for _ in range(size)]
        else:
            model = [rng.randint(1, 16) / float(1 << rng.randint(0, 6)) for _ in range(size)]
        thr = THRS[i % 3] if not deep else rng.choice(THRS)
        cases.append({'kind': 'lowpass', 'pops': pops, 'thr': thr, 'nsim': rng.choice([200, 400, 1000]),
                      'seed': rng.randint(0, 2 ** 31 - 1), 'model': model, 'deep': deep,
                      'Fx_none': all(p['F'] == 0 for p in pops) and rng.random() < 0.5})
    return cases

# ---------------------------------------------------------------------------------------------
# independent enumeration of genotype configurations (property predicate, not the model)

def all_configs(n, af):
    out = []
    for n2 in range(0, n + 1):
        n1 = af - 2 * n2
        if n1 < 0 or n1 + n2 > n:
            continue
        out.append([0] * (n - n1 - n2) + [1] * n1 + [2] * n2)
    return sorted(out)

def row_ok(row):
    return abs(sum(row) - 1.0) <= P_TOL and min(row) >= 0.0

# ---------------------------------------------------------------------------------------------

def helper_predicates(ctx, c, r):
    nseq, nsub, F = c['nseq'], c['nsub'], c['F']
    bad = []
    for af, (ps, pr) in enumerate(zip(r['parts'], r['probs'])):
        if sorted(ps) != all_configs(nseq // 2, af) or len(ps) != len(set(map(tuple, ps))):
            bad.append('partitions of allele count %d of %d are not all and only the genotype configurations: %r' % (af, nseq, ps))
        if abs(sum(pr) - 1.0) > P_TOL or min(pr) < 0:
            bad.append('partition probabilities of allele count %d do not sum to one / are negative: %r' % (af, pr))
    if len(r['parts']) != nseq + 1:
        bad.append('number of allele counts')
    if not r['af_flavour_same']:
        bad.append("partition_type 'allele_frequency' and 'genotype' disagree")
    for name, mat, nrow, ncol in (('projection_matrix', r['proj'], nseq + 1, nsub + 1), ('calling_error_matrix', r['cem'], nsub + 1, nsub + 1)):
        if len(mat) != nrow or any(len(x) != ncol for x in mat):
            bad.append('%s has the wrong shape' % name); continue
        for j, row in enumerate(mat):
            if not row_ok(row):
                bad.append('%s row %d is not a probability vector: sum-1 = %.3e, min = %.3e' % (name, j, sum(row) - 1, min(row)))
                break
    for row in r['projinb']:
        if not row_ok(row):
            bad.append('projection_inbreeding not normalised: %r' % row); break
    if min(r['nocall']) < 0 or max(r['nocall']) > 1 + P_TOL:
        bad.append('no-call probability outside [0,1]: %r' % r['nocall'])
    if not (0 <= r['enough'] <= 1 + P_TOL):
        bad.append('probability_enough_individuals_covered outside [0,1]: %r' % r['enough'])
    if c['covkind'] == 'deep':
        n = nsub + 1
        dev = max(abs(r['cem'][i][j] - (1.0 if i == j else 0.0)) for i in range(n) for j in range(n))
        dev = max(dev, max(r['nocall'][1:]), abs(r['enough'] - 1), abs(r['nocall'][0] - 1))
        if dev > DEEP_TOL:
            bad.append('deep coverage (every depth >= 60): calling-error matrix / no-call / enough-covered differ from identity / 0 / 1 by %.3e' % dev)
    for w in bad:
        ctx.violation('LowPass helper (nseq=%d nsub=%d F=%r cov=%s): %s' % (nseq, nsub, F, c['covkind'], w[:400]),
                      data={'case': c, 'impl': r})
    ctx.obligation('helper predicates case %d' % c['id'], not bad, 'predicate', '; '.join(bad)[:300])

def maxdiff(a, b):
    if isinstance(a, list):
        if len(a) != len(b):
            return float('inf')
        return max([maxdiff(x, y) for x, y in zip(a, b)] + [0.0])
    return abs(a - b)

def lowpass_predicates(ctx, c, r):
    bad = []
    scale = max([abs(x) for x in c['model']] + [1.0])
    tot_m, tot_o = r['model_total'], r['out_total']
    if tot_o > tot_m + 1e-11 * max(tot_m, 1.0):
        bad.append('corrected model has MORE total sites than the uncorrected one: %r > %r' % (tot_o, tot_m))
    if min(r['out']) < -1e-12 * scale:
        bad.append('corrected model has a negative entry %r' % min(r['out']))
    if r['shape'] != [p['nsub'] + 1 for p in c['pops']] or r['called_ns'] != [p['nseq'] for p in c['pops']]:
        bad.append('shape %r / model evaluated at %r' % (r['shape'], r['called_ns']))
    if all(r['use']) and abs(tot_o - tot_m) > 1e-10 * max(tot_m, 1.0):
        bad.append('simulated regime does not merely redistribute sites: total %r -> %r' % (tot_m, tot_o))
    for k, v in r['sims']:
        if min(v) < 0 or abs(sum(v) - 1.0) > P_TOL:
            bad.append('simulated array for allele counts %r is not a normalised non-negative histogram' % (k,)); break
    if not r['sim_shapes_ok']:
        bad.append('simulated arrays have the wrong shape')
    if c['deep'] and c['thr'] > 0:      # thr = 0 forces the simulated regime (a finite-sample estimate) at any depth
        dev = maxdiff(r['out'], r['plainF'])
        if dev > DEEP_TOL * scale:
            bad.append('deep coverage: corrected model differs from the plain projection (projection_matrix along every axis) by %.3e' % dev)
        if all(p['F'] == 0 for p in c['pops']):
            dv = max([abs(a - b) for a, b, m in zip(r['out'], r['plain'], r['plain_mask']) if not m] + [0.0])
            if dv > DEEP_TOL * scale:
                bad.append('deep coverage: corrected model differs from Spectrum.project by %.3e' % dv)
    for w in bad:
        ctx.violation('make_low_pass_func_GATK_multisample (pops=%s thr=%r): %s' % (
            [(p['nseq'], p['nsub'], p['F'], p['covkind']) for p in c['pops']], c['thr'], w[:400]), data={'case': c, 'impl': {k: r[k] for k in ('out', 'model_total', 'out_total', 'use')}})
    ctx.obligation('corrected-model predicates case %d' % c['id'], not bad, 'predicate', '; '.join(bad)[:300])

# ---------------------------------------------------------------------------------------------

def hexpr(what, c, r):
    e = lambda: '[]'
    parts = '[' + '; '.join('[' + '; '.join(natl(p) for p in ps) + ']' for ps in r['parts']) + ']' if what in (0, 5) else '[]'
    probs = qll(r['probs']) if what == 0 else '[]'
    mat = {1: r['proj'], 2: r['cem'], 5: r['projinb']}.get(what)
    vec = {3: r['nocall'], 4: [r['enough']]}.get(what)
    return ('{| hc_what := %d%%nat; hc_nseq := %d%%nat; hc_nsub := %d%%nat; hc_cov := %s; hc_F := %s; hc_parts := %s; '
            'hc_probs := %s; hc_mat := %s; hc_vec := %s |}') % (
        what, c['nseq'], c['nsub'], ql(c['cov']) if what in (2, 3, 4) else '[]', q(c['F']), parts, probs,
        qll(mat) if mat is not None else '[]', ql(vec) if vec is not None else '[]')

def lexpr(c, r):
    model0 = [0.0 if m else x for x, m in zip(c['model'], r['model_mask'])]
    pops = '[' + '; '.join('(%d%%nat, %d%%nat, %s, %s)' % (p['nseq'], p['nsub'], ql(p['cov']), q(p['F'])) for p in c['pops']) + ']'
    sims = '[' + '; '.join('(%s, %s)' % (natl(k), ql(v)) for k, v in r['sims']) + ']'
    return '{| lc_d := %d%%nat; lc_pops := %s; lc_thr := %s; lc_model := %s; lc_sims := %s; lc_out := %s; lc_use := %s |}' % (
        len(c['pops']), pops, q(c['thr']), ql(model0), sims, ql(r['out']), bl(r['use']))

HNAMES = {0: 'partitions_and_probabilities', 1: 'projection_matrix', 2: 'calling_error_matrix',
          3: 'probability_of_no_call_1D_GATK_multisample', 4: 'probability_enough_individuals_covered', 5: 'projection_inbreeding'}

def run(ctx):
    ctx.rule = ('helper cases = (nseq even 2..20 [quick <= 8], nsub even <= nseq, dyadic coverage distribution over depths 0..D<=80 of kind '
                'low/mid/wide/nozero/two/deep, F = 0 or dyadic in (0,1)); corrected-model cases = 1-3 such populations (smaller sizes for 2-3), a '
                'non-negative dyadic model array (corners masked by Spectrum), sim_threshold cycling through {0, 1e-2, 1}, nsim in {200,400,1000}; '
                'distinct = distinct parameter tuples; non-trivial = every case (nseq >= 2)')
    ctx.assumptions += ['row 0 of a coverage-distribution array is arange(D+1) (what compute_cov_dist builds); the model indexes depths by position',
                        'float64 results are compared with the exact rationals at 1e-11 absolute (probabilities, F = 0), 1e-9 absolute (F > 0: gammaln differences at arguments ~ 1/F) and 1e-9 of the largest entry (corrected spectra)',
                        'simulated regime: the arrays returned by simulate_GATK_multisample_calling in the run are handed to the model as the values of its oracle; '
                        'the RNG is seeded only to make the run reproducible; entries whose no-call probability is within 1e-9 of sim_threshold are not compared',
                        'F -> 0 on the implementation is checked at F = 1e-9 with tolerance 1e-4: BetaBinomln cancels gammaln values of size 1e10 there']
    ctx.trusted += ['Section variable `sim` (LowPass.v): simulate_GATK_multisample_calling returns SOME array; the theorems about the simulated regime assume '
                    'it is non-negative with total 1 (checked on every simulated array of every run)']
    hc = gen_helper_cases(ctx)
    lc = gen_lowpass_cases(ctx)
    if ctx.replay:
        rp = json.load(open(ctx.replay))
        c = (rp.get('input') or {}).get('case')
        if c:
            hc = [c] if c['kind'] == 'helpers' else []
            lc = [c] if c['kind'] == 'lowpass' else []
    for i, c in enumerate(hc + lc):
        c['id'] = i
    res = lib.run_impl('c18_impl.py', hc + lc, timeout=3000)
    byid = {r['id']: r for r in res}
    exprs, meta = [], {}
    pairs = {}
    for c in hc:
        r = byid[c['id']]
        ctx.count('helpers nseq=%d' % c['nseq']); ctx.count('cov=' + c['covkind']); ctx.count('F=0' if c['F'] == 0 else 'F>0')
        if 'error' in r:
            ctx.violation('LowPass helpers raised / returned non-finite values: %s' % r['error'], data={'case': c, 'impl': r})
            continue
        ctx.case(signature=('h', c['nseq'], c['nsub'], c['cov'], c['F']),
                 sample={'nseq': c['nseq'], 'nsub': c['nsub'], 'F': c['F'], 'cov': c['cov'], 'nocall': r['nocall'], 'enough': r['enough']})
        helper_predicates(ctx, c, r)
        if 'pair' in c:
            pairs.setdefault(c['pair'], []).append((c, r))
        if c.get('nocorr'):
            continue
        for what in range(6):
            if what == 5 and c['F'] == 0 and ctx.quick and c['id'] % 2:
                continue
            n = c['id'] * 8 + what
            exprs.append((n, hexpr(what, c, r))); meta[n] = (c, what)
    # F -> 0 on the implementation
    for k, pr in pairs.items():
        if len(pr) != 2:
            continue
        (c0, r0), (c1, r1) = pr
        dev = max(maxdiff(r0[f], r1[f]) for f in ('probs', 'proj', 'cem', 'nocall'))
        ok = dev <= F_TOL and r0['parts'] == r1['parts']
        ctx.obligation('F=1e-9 ~ F=0 pair %d' % k, ok, 'predicate', 'dev %.3e' % dev)
        ctx.err('F_to_0_impl', int(math.floor(math.log2(dev))) if dev > 0 else -10000, 'abs 1e-4')
        if not ok:
            ctx.violation('F -> 0 is not continuous: helpers at F=1e-9 and F=0 differ by %.3e (nseq=%d nsub=%d)' % (dev, c0['nseq'], c0['nsub']),
                          data={'case': c1, 'impl_F0': r0, 'impl_Feps': r1})
    header = ('From Coq Require Import ZArith QArith List.\nFrom Dadi Require Import Base.Num Base.NumQ Model.LowPass Model.LowPassCheck.\n'
              'Import ListNotations.\nOpen Scope Q_scope.')
    # F > 0 goes through exp(gammaln differences) with arguments ~ 1/F: looser tolerance there
    ex0 = [(n, e) for n, e in exprs if meta[n][0]['F'] == 0]
    exF = [(n, e) for n, e in exprs if meta[n][0]['F'] != 0]
    results = ctx.coq_cases('helpers', header, ex0, '(hcheck %s)' % q(TOL), 'abs 1e-11 (F = 0)', shard=ctx.pick(14, 24), timeout=1500)
    results.update(ctx.coq_cases('helpersF', header, exF, '(hcheck %s)' % q(TOL_F), 'abs 1e-9 (F > 0)', shard=ctx.pick(14, 24), timeout=1500))
    nbad = 0
    for n, (c, what) in meta.items():
        rr = results.get(n)
        ok = rr is not None and rr[0]
        ctx.obligation('corr %s case %d' % (HNAMES[what], c['id']), ok, 'correspondence', '' if ok else 'model != impl %r' % (rr,))
        if rr is not None:
            ctx.err('%s%s' % (HNAMES[what], '' if c['F'] == 0 else ' (F>0)'), rr[1], 'abs 1e-11' if c['F'] == 0 else 'abs 1e-9')
        if not ok:
            nbad += 1
            if nbad <= 3:
                ctx.violation('%s disagrees with the exact model (nseq=%d nsub=%d F=%r cov=%s): log2 err %r' % (
                    HNAMES[what], c['nseq'], c['nsub'], c['F'], c['covkind'], rr), data={'case': c, 'impl': byid[c['id']], 'helper': HNAMES[what]},
                    no_input=True, broken='correspondence of ' + HNAMES[what])
    # corrected model
    lexprs, lmeta = [], {}
    for c in lc:
        r = byid[c['id']]
        d = len(c['pops'])
        ctx.count('lowpass d=%d' % d); ctx.count('thr=%r' % c['thr']); ctx.count('deep' if c['deep'] else 'shallow')
        if 'error' in r:
            ctx.violation('make_low_pass_func_GATK_multisample raised / returned non-finite values: %s' % r['error'], data={'case': c, 'impl': r})
            continue
        nsimd = sum(r['use'])
        ctx.count('regime=' + ('analytic' if nsimd == 0 else 'simulated' if nsimd == len(r['use']) else 'mixed'))
        ctx.case(signature=('l', json.dumps(c['pops']), c['thr'], c['model'][:8]),
                 sample={'pops': [(p['nseq'], p['nsub'], p['F']) for p in c['pops']], 'thr': c['thr'], 'model_total': r['model_total'], 'out_total': r['out_total']})
        # plain projection with the code's own projection_matrix (zero-filled model), for the deep-coverage predicate
        lowpass_predicates(ctx, c, r)
        near = any(p != c['thr'] and abs(p - c['thr']) <= 1e-9 for p in r['pnc']) or (c['thr'] == 0.0 and any(0 < p < 1e-290 for p in r['pnc']))
        if near:
            ctx.count('skipped: no-call probability within rounding of sim_threshold'); continue
        lexprs.append((c['id'], lexpr(c, r))); lmeta[c['id']] = c
    lres = ctx.coq_cases('lowpass', header, lexprs, '(lcheck %s)' % q(TOL_LP), 'rel 1e-9 of the largest entry', shard=ctx.pick(3, 4), timeout=2400)
    nbad = 0
    for n, c in lmeta.items():
        rr = lres.get(n)
        ok = rr is not None and rr[0]
        ctx.obligation('corr make_low_pass_func case %d' % n, ok, 'correspondence', '' if ok else 'model != impl %r' % (rr,))
        if not ok:
            nbad += 1
            if nbad <= 3:
                ctx.violation('make_low_pass_func_GATK_multisample disagrees with the exact model (pops=%s thr=%r): %r' % (
                    [(p['nseq'], p['nsub'], p['F']) for p in c['pops']], c['thr'], rr), data={'case': c, 'impl': byid[n]},
                    no_input=True, broken='correspondence of make_low_pass_func_GATK_multisample')
