"""C18 — the low-pass calling model redistributes probability and vanishes at deep coverage.

Static theorems: coq/theories/Props/C18.v (model: Model/LowPass.v, exact over Q, no Num).
Per run:
  (1) correspondence, compared inside Coq over Q: for generated (nseq, nsub, coverage distribution, F)
      every helper of dadi/LowPass/LowPass.py against the model — partitions (exact list equality) and their
      probabilities, projection_inbreeding, projection_matrix, calling_error_matrix,
      probability_of_no_call_1D_GATK_multisample, probability_enough_individuals_covered — and the whole
      make_low_pass_func_GATK_multisample output for 1-3 populations and sim_threshold in {0, 1e-2, 1}, the
      simulated arrays the run produced being handed to the model as the values of its `sim` argument;
  (1b) the SIMULATION PATH itself (Model/LowPassSim.v): simulate_GATK_multisample_calling and subsample_genotypes_1D are
      run with recording wrappers around their random sources (harness/impl/c18_impl_sim.py); the recorded draws are
      replayed through the Coq model and the returned array is compared exactly (one float division); the recorded
      draws are checked to satisfy the hypotheses of the theorems (pdraw_okb), and the hypothesis of the expectation
      theorems -- every locus chooses its individuals INDEPENDENTLY and UNIFORMLY -- is made observable: across loci
      with identical sorted genotype rows the chosen position sets must differ / cover all subsets / be uniform within a
      Hoeffding bound, and at deep coverage the simulated rows must agree with the projection_matrix rows within a
      Hoeffding bound (false-alarm probabilities stated in the evidence); a fail-closed obligation on the source text of
      subsample_genotypes_1D requires the per-locus independent shuffle;
  (2) the property predicates evaluated on the real code: partitions are all and only the sorted genotype
      vectors, probabilities sum to one, matrices row-stochastic and non-negative, no-call in [0,1], corrected
      total <= uncorrected total (analytic and simulated regimes; the simulated regime only redistributes),
      deep coverage == plain projection, F = 1e-9 ~ F = 0.
"""
import ast, json, math, os
from fractions import Fraction
from harness import lib
from harness.lib import q, ql, qll, natl, bl

TOL = Fraction(1, 10 ** 11)          # helpers: absolute, all values are probabilities
TOL_F = Fraction(1, 10 ** 9)          # helpers with inbreeding: BetaBinomln = differences of gammaln at arguments ~ 1/F
TOL_LP = Fraction(1, 10 ** 9)        # corrected spectrum: relative to the largest entry
P_TOL = 1e-12                        # predicates: row sums etc.
DEEP_TOL = 1e-10
F_EPS = 1e-9
F_TOL = 1e-4                         # |helper(F=1e-9) - helper(F=0)|: true distance O(1e-9), gammaln cancellation ~1e-7
THRS = [0.0, 1e-2, 1.0]
TOL_SIM = Fraction(1, 10 ** 15)      # replayed simulation: the returned array is counts / total, one float division
P_INDEP = 1e-30                      # false-alarm bound required of the structural independence predicates (per class of loci)
P_DIST = 1e-12                       # false-alarm bound of one distributional comparison (Hoeffding, union over its entries)

# ---------------------------------------------------------------------------------------------
# generators

def compose(rng, total, m):
    """random composition of `total` into m positive integers"""
    if m == 1:
        return [total]
    cuts = sorted(rng.sample(range(1, total), m - 1))
    return [b - a for a, b in zip([0] + cuts, cuts + [total])]

def gen_cov(rng, kind=None):
    """dyadic probability vector over depths 0..D (D <= 80); exact in float64 and sums to 1 exactly"""
    kind = kind or rng.choice(['low', 'low', 'low', 'mid', 'wide', 'nozero', 'deep', 'two'])
    bits = rng.choice([6, 8, 10])
    tot = 1 << bits
    if kind == 'low':
        D = rng.randint(1, 8); support = list(range(D + 1))
        if rng.random() < 0.4 and D >= 2:
            support = sorted(set([rng.choice([0, 1])] + rng.sample(range(D + 1), rng.randint(1, D))))
    elif kind == 'mid':
        D = rng.randint(5, 30); support = sorted(rng.sample(range(D + 1), rng.randint(2, min(D, 12))))
    elif kind == 'wide':
        D = 80; support = sorted(rng.sample(range(81), rng.randint(2, 40)))
    elif kind == 'nozero':
        D = rng.randint(2, 12); support = sorted(rng.sample(range(1, D + 1), rng.randint(1, min(D, 6))))
    elif kind == 'two':
        D = 1; support = [0, 1]
    else:  # deep: every individual has depth >= 60
        support = sorted(rng.sample(range(60, 81), rng.randint(1, 10))); D = support[-1]
    if all(s == 0 for s in support):
        support = support + [1]
    D = max(max(support), 1)
    w = compose(rng, tot, len(support))
    cov = [0.0] * (D + 1)
    for s, x in zip(support, w):
        cov[s] = x / tot
    assert sum(Fraction(c) for c in cov) == 1 and sum(cov[1:]) > 0
    return cov, kind

def gen_F(rng):
    if rng.random() < 0.4:
        return 0.0
    return rng.choice([rng.randint(1, 63) / 64.0, rng.randint(1, 15) / 16.0, 0.5, 1 / 1024.0, 1023 / 1024.0, rng.randint(1, 255) / 256.0])

def gen_sizes(rng, maxn):
    nseq = 2 * rng.randint(1, maxn // 2)
    nsub = 2 * rng.randint(1, nseq // 2)
    if rng.random() < 0.25:
        nsub = nseq
    return nseq, nsub

def gen_helper_cases(ctx):
    rng = ctx.rng
    cases = []
    n = ctx.pick(60, 420)
    maxn = ctx.pick(8, 20)
    for i in range(n):
        nseq, nsub = gen_sizes(rng, maxn)
        if i < ctx.pick(4, 10):                      # make sure the extremes are present
            nseq = maxn; nsub = rng.choice([2, maxn // 2 * 2 - 2, maxn])
        cov, kind = gen_cov(rng, 'deep' if i % 9 == 8 else None)
        cases.append({'kind': 'helpers', 'nseq': nseq, 'nsub': nsub, 'cov': cov, 'covkind': kind, 'F': gen_F(rng)})
    # F -> 0 companions: the same configuration at F = 0 and F = 1e-9 (predicate only)
    comp = []
    for c in cases[:ctx.pick(10, 60)]:
        a = dict(c); a['F'] = 0.0; a['pair'] = len(comp) // 2; a['nocorr'] = True
        b_ = dict(c); b_['F'] = F_EPS; b_['pair'] = len(comp) // 2; b_['nocorr'] = True
        comp += [a, b_]
    return cases + comp

def gen_lowpass_cases(ctx):
    rng = ctx.rng
    cases = []
    n = ctx.pick(60, 360)
    for i in range(n):
        d = rng.choice([1, 1, 2, 2, 3])
        maxn = {1: ctx.pick(8, 20), 2: ctx.pick(6, 10), 3: ctx.pick(4, 6)}[d]
        deep = (i % 6 == 5)
        pops = []
        for _ in range(d):
            nseq, nsub = gen_sizes(rng, maxn)
            cov, kind = gen_cov(rng, 'deep' if deep else rng.choice(['low', 'low', 'mid', 'wide', 'nozero', 'two']))
            pops.append({'nseq': nseq, 'nsub': nsub, 'cov': cov, 'covkind': kind, 'F': gen_F(rng)})
        size = 1
        for p in pops:
            size *= p['nseq'] + 1
        style = rng.choice(['rand', 'rand', 'neutral', 'sparse'])
        if style == 'rand':
            model = [rng.randint(0, 64) / 8.0 for _ in range(size)]
        elif style == 'sparse':
            model = [rng.choice([0, 0, 0, rng.randint(1, 32)]) / 4.0 for _ in range(size)]
        else:
            model = [rng.randint(1, 16) / float(1 << rng.randint(0, 6)) for _ in range(size)]
        thr = THRS[i % 3] if not deep else rng.choice(THRS)
        cases.append({'kind': 'lowpass', 'pops': pops, 'thr': thr, 'nsim': rng.choice([200, 400, 1000]),
                      'seed': rng.randint(0, 2 ** 31 - 1), 'model': model, 'deep': deep,
                      'Fx_none': all(p['F'] == 0 for p in pops) and rng.random() < 0.5})
    # the simulated regime at deep coverage WITH subsampling (sim_threshold = 0): corrected model vs model.project(nsub)
    for k in range(ctx.pick(3, 9)):
        d = 1 if k % 3 != 2 else 2
        pops = []
        for a in range(d):
            nseq = 2 * rng.randint(2, 4 if d == 1 else 3)
            nsub = 2 * rng.randint(1, nseq // 2 - 1)
            cov, kind = gen_cov(rng, 'deep')
            pops.append({'nseq': nseq, 'nsub': nsub, 'cov': cov, 'covkind': kind, 'F': 0.0 if k % 3 != 1 else rng.choice([0.25, 0.5, 0.75])})
        size = 1
        for p in pops:
            size *= p['nseq'] + 1
        cases.append({'kind': 'lowpass', 'pops': pops, 'thr': 0.0, 'nsim': 5000, 'seed': rng.randint(0, 2 ** 31 - 1),
                      'model': [rng.randint(1, 64) / 8.0 for _ in range(size)], 'deep': True, 'Fx_none': False, 'simdeep': True})
    return cases

# ---------------------------------------------------------------------------------------------
# independent enumeration of genotype configurations (property predicate, not the model)

def all_configs(n, af):
    out = []
    for n2 in range(0, n + 1):
        n1 = af - 2 * n2
        if n1 < 0 or n1 + n2 > n:
            continue
        out.append([0] * (n - n1 - n2) + [1] * n1 + [2] * n2)
    return sorted(out)

def row_ok(row):
    return abs(sum(row) - 1.0) <= P_TOL and min(row) >= 0.0

# ---------------------------------------------------------------------------------------------

def _nonfinite_keys(r, keys):
    """keys of the record whose (nested) numeric content holds a non-finite value (the impl driver writes those as strings or as
    float nan / inf): such an output violates every clause that bounds it, and must not crash the predicates"""
    def bad(v):
        if isinstance(v, str):
            return True
        if isinstance(v, float):
            return v != v or v in (float('inf'), float('-inf'))
        if isinstance(v, (list, tuple)):
            return any(bad(x) for x in v)
        return False
    return [k for k in keys if k in r and bad(r[k])]

def helper_bad(c, r):
    """the helper clauses of the property on one record of outputs; list of complaints"""
    nseq, nsub, F = c['nseq'], c['nsub'], c['F']
    bad = []
    nf = _nonfinite_keys(r, ('probs', 'cem', 'nocall', 'enough', 'proj'))
    if nf:
        return ['non-finite values in %s (probabilities / matrix entries must be finite numbers in [0,1])' % ', '.join(nf)]
    for af, (ps, pr) in enumerate(zip(r['parts'], r['probs'])):
        if sorted(ps) != all_configs(nseq // 2, af) or len(ps) != len(set(map(tuple, ps))):
            bad.append('partitions of allele count %d of %d are not all and only the genotype configurations: %r' % (af, nseq, ps))
        if abs(sum(pr) - 1.0) > P_TOL or min(pr) < 0:
            bad.append('partition probabilities of allele count %d do not sum to one / are negative: %r' % (af, pr))
    if len(r['parts']) != nseq + 1:
        bad.append('number of allele counts')
    if not r['af_flavour_same']:
        bad.append("partition_type 'allele_frequency' and 'genotype' disagree")
    for name, mat, nrow, ncol in (('projection_matrix', r['proj'], nseq + 1, nsub + 1), ('calling_error_matrix', r['cem'], nsub + 1, nsub + 1)):
        if len(mat) != nrow or any(len(x) != ncol for x in mat):
            bad.append('%s has the wrong shape' % name); continue
        for j, row in enumerate(mat):
            if not row_ok(row):
                bad.append('%s row %d is not a probability vector: sum-1 = %.3e, min = %.3e' % (name, j, sum(row) - 1, min(row)))
                break
    for row in r['projinb']:
        if not row_ok(row):
            bad.append('projection_inbreeding not normalised: %r' % row); break
    if min(r['nocall']) < 0 or max(r['nocall']) > 1 + P_TOL:
        bad.append('no-call probability outside [0,1]: %r' % r['nocall'])
    if not (0 <= r['enough'] <= 1 + P_TOL):
        bad.append('probability_enough_individuals_covered outside [0,1]: %r' % r['enough'])
    if c['covkind'] == 'deep':
        n = nsub + 1
        dev = max(abs(r['cem'][i][j] - (1.0 if i == j else 0.0)) for i in range(n) for j in range(n))
        dev = max(dev, max(r['nocall'][1:]), abs(r['enough'] - 1), abs(r['nocall'][0] - 1))
        if dev > DEEP_TOL:
            bad.append('deep coverage (every depth >= 60): calling-error matrix / no-call / enough-covered differ from identity / 0 / 1 by %.3e' % dev)
    return bad

def helper_predicates(ctx, c, r):
    nseq, nsub, F = c['nseq'], c['nsub'], c['F']
    bad = helper_bad(c, r)
    for w in bad:
        ctx.violation('LowPass helper (nseq=%d nsub=%d F=%r cov=%s): %s' % (nseq, nsub, F, c['covkind'], w[:400]),
                      data={'case': c, 'impl': r})
    ctx.obligation('helper predicates case %d' % c['id'], not bad, 'predicate', '; '.join(bad)[:300])

def maxdiff(a, b):
    if isinstance(a, list):
        if len(a) != len(b):
            return float('inf')
        return max([maxdiff(x, y) for x, y in zip(a, b)] + [0.0])
    return abs(a - b)

def lowpass_bad(ctx, c, r):
    """the corrected-model clauses of the property on one record of outputs; list of complaints"""
    bad = []
    nf = _nonfinite_keys(r, ('model_total', 'out_total', 'out', 'sims'))
    if nf:
        return ['the corrected model is not finite (non-finite values in %s): it cannot be bounded by the uncorrected model' % ', '.join(nf)]
    scale = max([abs(x) for x in c['model']] + [1.0])
    tot_m, tot_o = r['model_total'], r['out_total']
    if tot_o > tot_m + 1e-11 * max(tot_m, 1.0):
        bad.append('corrected model has MORE total sites than the uncorrected one: %r > %r' % (tot_o, tot_m))
    if min(r['out']) < -1e-12 * scale:
        bad.append('corrected model has a negative entry %r' % min(r['out']))
    if r['shape'] != [p['nsub'] + 1 for p in c['pops']] or r['called_ns'] != [p['nseq'] for p in c['pops']]:
        bad.append('shape %r / model evaluated at %r' % (r['shape'], r['called_ns']))
    if all(r['use']) and abs(tot_o - tot_m) > 1e-10 * max(tot_m, 1.0):
        bad.append('simulated regime does not merely redistribute sites: total %r -> %r' % (tot_m, tot_o))
    for k, v in r['sims']:
        if min(v) < 0 or abs(sum(v) - 1.0) > P_TOL:
            bad.append('simulated array for allele counts %r is not a normalised non-negative histogram' % (k,)); break
    if not r['sim_shapes_ok']:
        bad.append('simulated arrays have the wrong shape')
    if c['deep'] and c['thr'] == 0 and all(p['nsub'] == p['nseq'] for p in c['pops']) and c.get('kind') == 'ltypes':
        # deep coverage, nothing subsampled, everything simulated: every locus is called with its true allele counts (a heterozygote with
        # >= 60 reads is miscalled with probability 2^-59), so the corrected model IS the model on every unmasked entry
        dv = max([abs(a - b) for a, b, m in zip(r['out'], c['model'], r['model_mask']) if not m] + [0.0])
        if dv > DEEP_TOL * scale:
            bad.append('deep coverage in every individual, nsub == nseq, sim_threshold=0: corrected model differs from the model spectrum by %.4g' % dv)
    if c['deep'] and c['thr'] > 0:      # thr = 0 forces the simulated regime (a finite-sample estimate) at any depth
        dev = maxdiff(r['out'], r['plainF'])
        if dev > DEEP_TOL * scale:
            bad.append('deep coverage: corrected model differs from the plain projection (projection_matrix along every axis) by %.3e' % dev)
        if all(p['F'] == 0 for p in c['pops']):
            dv = max([abs(a - b) for a, b, m in zip(r['out'], r['plain'], r['plain_mask']) if not m] + [0.0])
            if dv > DEEP_TOL * scale:
                bad.append('deep coverage: corrected model differs from Spectrum.project by %.3e' % dv)
    if c['deep'] and c['thr'] == 0:
        # every simulated array is within the Hoeffding tolerance of its projection row (union bound over all rows and bins), so
        # |corrected - plain projection| <= sum_af |model[af]| * t  entrywise, with probability >= 1 - 1e-12
        nb = 1; P = 1; rows = 1
        for p in c['pops']:
            nb *= p['nsub'] + 1; P *= max_parts(p['nseq']); rows *= p['nseq'] + 1
        n = max(c['nsim'] - P, 1)
        t = hoeffding_tol(n, nb * rows) + 3.0 / n + 2.0 * P / n + 1e-8
        mass = sum(abs(x) for x, m in zip(c['model'], r['model_mask']) if not m)
        dev = maxdiff(r['out'], r['plainF'])
        ctx.count('deep coverage, sim_threshold=0: corrected vs plain projection (Hoeffding)')
        ctx.err('corrected (simulated regime, deep) vs plain projection, in units of the Hoeffding tolerance', int(math.floor(math.log2(max(dev / (t * mass), 1e-300)))), 'P(false alarm) < 1e-12 per case')
        if dev > t * mass:
            bad.append('deep coverage, sim_threshold=0: corrected model differs from the plain projection (projection_matrix along every axis) by %.4g; '
                       'with independent uniform subsampling the deviation exceeds %.4g with probability < 1e-12 (nsim=%d)' % (dev, t * mass, c['nsim']))
        if all(p['F'] == 0 for p in c['pops']):
            dv = max([abs(a - b) for a, b, m in zip(r['out'], r['plain'], r['plain_mask']) if not m] + [0.0])
            if dv > t * mass:
                bad.append('deep coverage, sim_threshold=0: corrected model differs from model.project(nsub) by %.4g (tolerance %.4g, false-alarm probability < 1e-12)' % (dv, t * mass))
    return bad

def lowpass_predicates(ctx, c, r):
    bad = lowpass_bad(ctx, c, r)
    for w in bad:
        ctx.violation('make_low_pass_func_GATK_multisample (pops=%s thr=%r): %s' % (
            [(p['nseq'], p['nsub'], p['F'], p['covkind']) for p in c['pops']], c['thr'], w[:400]), data={'case': c, 'impl': {k: r[k] for k in ('out', 'model_total', 'out_total', 'use')}})
    ctx.obligation('corrected-model predicates case %d' % c['id'], not bad, 'predicate', '; '.join(bad)[:300])

# ---------------------------------------------------------------------------------------------

def hexpr(what, c, r):
    e = lambda: '[]'
    parts = '[' + '; '.join('[' + '; '.join(natl(p) for p in ps) + ']' for ps in r['parts']) + ']' if what in (0, 5) else '[]'
    probs = qll(r['probs']) if what == 0 else '[]'
    mat = {1: r['proj'], 2: r['cem'], 5: r['projinb']}.get(what)
    vec = {3: r['nocall'], 4: [r['enough']]}.get(what)
    return ('{| hc_what := %d%%nat; hc_nseq := %d%%nat; hc_nsub := %d%%nat; hc_cov := %s; hc_F := %s; hc_parts := %s; '
            'hc_probs := %s; hc_mat := %s; hc_vec := %s |}') % (
        what, c['nseq'], c['nsub'], ql(c['cov']) if what in (2, 3, 4) else '[]', q(c['F']), parts, probs,
        qll(mat) if mat is not None else '[]', ql(vec) if vec is not None else '[]')

def lexpr(c, r):
    model0 = [0.0 if m else x for x, m in zip(c['model'], r['model_mask'])]
    pops = '[' + '; '.join('(%d%%nat, %d%%nat, %s, %s)' % (p['nseq'], p['nsub'], ql(p['cov']), q(p['F'])) for p in c['pops']) + ']'
    sims = '[' + '; '.join('(%s, %s)' % (natl(k), ql(v)) for k, v in r['sims']) + ']'
    return '{| lc_d := %d%%nat; lc_pops := %s; lc_thr := %s; lc_model := %s; lc_sims := %s; lc_out := %s; lc_use := %s |}' % (
        len(c['pops']), pops, q(c['thr']), ql(model0), sims, ql(r['out']), bl(r['use']))

# ---------------------------------------------------------------------------------------------
# the simulation path: generators

def hoeffding_tol(n, nbins, delta=P_DIST):
    """t with  P(some of nbins bin frequencies of n independent loci deviates from its mean by >= t) <= delta
    (Hoeffding for each bin, union bound over the bins)"""
    return math.sqrt(math.log(2.0 * nbins / delta) / (2.0 * max(n, 1)))

def max_parts(nseq):
    return max(len(all_configs(nseq // 2, af)) for af in range(nseq + 1))

def gen_simrep_cases(ctx):
    """simulate_GATK_multisample_calling calls replayed through the Coq model (small numbers of loci)"""
    rng = ctx.rng
    cases = []
    n = ctx.pick(22, 120)
    for i in range(n):
        d = 1 if i % 3 != 2 else 2
        shallow = i % 2 == 0
        withF = (i // 2) % 2 == 0
        pops = []
        for k in range(d):
            nseq = 2 * rng.randint(2, ctx.pick(4, 6) if d == 1 else 3)
            nsub = 2 * rng.randint(1, nseq // 2 - 1)
            if (k == 1 and i % 4 == 2) or (d == 1 and i % 11 == 10):
                nsub = nseq                      # a population that is not subsampled
            cov, kind = gen_cov(rng, rng.choice(['low', 'low', 'two', 'nozero', 'mid']) if shallow else 'deep')
            F = (rng.choice([rng.randint(1, 15) / 16.0, 0.5, rng.randint(1, 63) / 64.0]) if withF else 0.0)
            pops.append({'nseq': nseq, 'nsub': nsub, 'cov': cov, 'covkind': kind, 'F': F})
        af = [rng.choice([0, 1, p['nseq'] - 1, p['nseq']] + [rng.randint(1, p['nseq'] - 1)] * 6) for p in pops]
        cases.append({'kind': 'simrep', 'pops': pops, 'af': af, 'nsim': rng.choice([60, 100, 150] if d == 2 else [100, 200, 300]),
                      'seed': rng.randint(0, 2 ** 31 - 1), 'deep': not shallow})
    return cases

def ncomb(n, k):
    return math.comb(n, k)

def loci_needed(C):
    """number of loci m of one class such that C * (1 - 1/C)**m < P_INDEP (every one of the C subsets is seen)"""
    return int(math.ceil((math.log(C) - math.log(P_INDEP)) / -math.log(1.0 - 1.0 / C))) + 5

def gen_subs_cases(ctx):
    """subsample_genotypes_1D on constructed call matrices: a few classes of identical (unsorted) rows, enough loci per class"""
    rng = ctx.rng
    cases = []
    for i in range(ctx.pick(3, 12)):
        N = rng.randint(3, 5)
        k = rng.randint(1, N - 1)
        rows = []
        for _ in range(rng.randint(2, 3)):
            calls = rng.randint(k + 1, N) if rng.random() < 0.8 else k
            row = sorted(rng.choice([0, 1, 2]) for _ in range(calls)) + [99] * (N - calls)
            rng.shuffle(row)
            C = ncomb(calls, k)
            m = loci_needed(C) if C > 1 else 50
            rows += [list(row) for _ in range(m)]
        rng.shuffle(rows)
        cases.append({'kind': 'subs', 'rows': rows, 'N': N, 'nsub': 2 * k, 'seed': rng.randint(0, 2 ** 31 - 1)})
    return cases

def gen_simdist_cases(ctx):
    """deep coverage, subsampling, F = 0 and F > 0, 1-2 populations: every simulated row against the projection_matrix row"""
    rng = ctx.rng
    cases = []
    plans = [(1, False), (1, True), (2, False), (2, True)] * ctx.pick(1, 4)
    for i, (d, withF) in enumerate(plans):
        pops = []
        for k in range(d):
            nseq = 2 * rng.randint(2, 4 if d == 1 else 3)
            nsub = 2 * rng.randint(1, nseq // 2 - 1)
            if d == 2 and k == 1 and i % 8 >= 4:
                nsub = nseq
            cov, kind = gen_cov(rng, 'deep')
            F = rng.choice([0.25, 0.5, rng.randint(1, 15) / 16.0]) if (withF and (k == 0 or rng.random() < 0.5)) else 0.0
            pops.append({'nseq': nseq, 'nsub': nsub, 'cov': cov, 'covkind': kind, 'F': F})
        import itertools
        afs = [list(t) for t in itertools.product(*[range(p['nseq'] + 1) for p in pops])]
        if len(afs) > 14:
            keep = [a for a in afs if all(0 < x < p['nseq'] for x, p in zip(a, pops))]
            rng.shuffle(keep)
            afs = [afs[0], afs[-1]] + keep[:12]
        cases.append({'kind': 'simdist', 'pops': pops, 'afs': afs, 'nsim': 20000, 'seed': rng.randint(0, 2 ** 30)})
    return cases

# ---------------------------------------------------------------------------------------------
# the simulation path: Coq records

def nl(x):
    return '[' + '; '.join(str(int(t)) for t in x) + ']'

def nll(x):
    return '[' + '; '.join(nl(t) for t in x) + ']'

def nlll(x):
    return '[' + '; '.join(nll(t) for t in x) + ']'

def pdraw_expr(d):
    loci = '[' + '; '.join('[' + '; '.join('[' + '; '.join('(%d, %d)' % (a, b) for a, b in ind) + ']' for ind in loc) + ']' for loc in d['loci']) + ']'
    return '{| pd_part := %s; pd_loci := %s; pd_sel := %s |}' % (nll(d['part']), loci, nlll(d['sel']))

def sexpr(c, r):
    pops = '[' + '; '.join('(%d%%nat, %d%%nat, %s)' % (p['nseq'], p['nsub'], q(p['F'])) for p in c['pops']) + ']'
    return '{| sc_pops := %s; sc_af := %s; sc_nsim := %d%%nat; sc_draws := ([%s])%%nat; sc_out := %s |}' % (
        pops, natl(c['af']), c['nsim'], '; '.join(pdraw_expr(d) for d in r['draws']), ql(r['out']))

def uexpr(c, r):
    return '{| uc_N := %d%%nat; uc_nsub := %d%%nat; uc_rows := (%s)%%nat; uc_sels := (%s)%%nat; uc_out := (%s)%%nat |}' % (
        c['N'], c['nsub'], nll(c['rows']), nll(r['sel']), nll(r['out']))

SIM_HEADER = ('From Coq Require Import ZArith QArith List.\nFrom Dadi Require Import Base.Num Base.NumQ Model.LowPass Model.LowPassCheck '
              'Model.LowPassSim Model.LowPassSimCheck.\nImport ListNotations.\nOpen Scope Q_scope.')

# ---------------------------------------------------------------------------------------------
# the simulation path: predicates

def class_predicates(ctx, c, classes, where):
    """the hypothesis of the expectation theorems made observable: loci with the same sorted genotype row choose their
    individuals independently and uniformly.  Returns the list of complaints; records the false-alarm bounds."""
    bad = []
    for cs in classes:
        m, calls, k = cs['m'], cs['calls'], cs['k']
        C = ncomb(calls, k)
        if not cs['perm_ok']:
            bad.append('the recorded reordering of a locus with %d called individuals is not a permutation of its positions' % calls)
        if C < 2 or m < 2:
            continue
        # (i) not all loci of the class chose the same individuals: P(false alarm) = C^-(m-1)
        lp_same = -(m - 1) * math.log10(C)
        if lp_same < math.log10(P_INDEP):
            ctx.count('independence: classes tested (not all identical)')
            ctx.stats['independence: largest log10 false-alarm bound'] = max(ctx.stats.get('independence: largest log10 false-alarm bound', -1e9), round(lp_same, 1))
            if cs['distinct'] < 2:
                bad.append('%s: all %d loci with sorted genotype row %r (%d called) selected the SAME %d positions %r (method rng.%s(axis=%r)); '
                           'with an independent choice per locus the probability of this is %d^-%d < 1e%d' % (
                               where, m, cs['row'], calls, k, cs['example'][0], cs['method'], cs['axis'], C, m - 1, int(lp_same)))
                continue
        # (ii) every subset is chosen by some locus: P(false alarm) <= C (1 - 1/C)^m
        lp_cover = math.log10(C) + m * math.log10(1.0 - 1.0 / C)
        if lp_cover < math.log10(P_INDEP):
            ctx.count('independence: classes tested (all subsets seen)')
            if cs['distinct'] != C:
                bad.append('%s: the %d loci with sorted genotype row %r chose only %d of the %d possible sets of %d individuals' % (
                    where, m, cs['row'], cs['distinct'], C, k))
                continue
        # (iii) uniform over subsets: every subset frequency within the Hoeffding bound of 1/C
        t = hoeffding_tol(m, C)
        if t < 1.0 / C:
            ctx.count('uniformity: classes tested (Hoeffding)')
            lo = (cs['mincount'] if cs['distinct'] == C else 0) / float(m)
            hi = cs['maxcount'] / float(m)
            if hi > 1.0 / C + t or lo < 1.0 / C - t:
                bad.append('%s: the sets of %d individuals chosen by %d loci with sorted genotype row %r are not uniform: frequencies in [%.4f, %.4f], '
                           'expected %.4f +- %.4f (false-alarm probability < 1e-12)' % (where, k, m, cs['row'], lo, hi, 1.0 / C, t))
    return bad

def simdist_predicates(ctx, c, r):
    bad = []
    nb = 1
    for p in c['pops']:
        nb *= p['nsub'] + 1
    P = 1
    for p in c['pops']:
        P *= max_parts(p['nseq'])
    anyF = any(p['F'] != 0 for p in c['pops'])
    worst = None
    for row in r['rows']:
        n = row['nloci']
        if n <= 0:
            bad.append('no locus simulated for allele counts %r' % (row['af'],)); continue
        if any(x != x or x in (float('inf'), float('-inf')) for x in row['out'] + row['proj'] + row['proj_counts']):
            bad.append('non-finite values in the simulated array / projection row for allele counts %r' % (row['af'],)); continue
        t = hoeffding_tol(n, nb) + 3.0 / n          # 3/n: loci whose reads do not reveal a genotype at depth >= 60 (probability < 2^-50 each)
        d1 = maxdiff(row['out'], row['proj_counts'])
        d2 = maxdiff(row['out'], row['proj'])
        t2 = t + 2.0 * P / n + (1e-8 if anyF else 1e-12)
        ctx.err('simulated row vs projection row (deep coverage), in units of the Hoeffding tolerance', int(math.floor(math.log2(max(d2 / t2, 1e-300)))), 'P(false alarm) < 1e-12 per row')
        if abs(sum(row['out']) - 1.0) > P_TOL or min(row['out']) < 0:
            bad.append('simulated array for allele counts %r is not a probability vector' % (row['af'],))
        if d1 > t or d2 > t2:
            w = ('deep coverage, allele counts %r: the simulated array differs from the projection row (projection_matrix / projection_inbreeding weighted '
                 'with the loci per partition) by %.4f; with independent uniform choices the deviation exceeds %.4f with probability < 1e-12 (%d loci, %d bins). '
                 'simulated %s expected %s' % (row['af'], max(d1, d2), t2, n, nb, ['%.3f' % x for x in row['out'][:12]], ['%.3f' % x for x in row['proj'][:12]]))
            if worst is None or max(d1, d2) > worst[0]:
                worst = (max(d1, d2), w)
    if worst:
        bad.append(worst[1])
    return bad

def source_obligations(ctx):
    """fail-closed obligations on the text of subsample_genotypes_1D: the shuffle is the per-locus independent one"""
    path = os.path.join(lib.REPO, 'dadi', 'LowPass', 'LowPass.py')
    problems = []
    try:
        tree = ast.parse(open(path).read())
    except Exception as e:
        ctx.obligation('source of dadi/LowPass/LowPass.py parses', False, 'translator', str(e)[:200]); return ['LowPass.py does not parse']
    fn = [n for n in tree.body if isinstance(n, ast.FunctionDef) and n.name == 'subsample_genotypes_1D']
    rng_def = [n for n in tree.body if isinstance(n, ast.Assign) and any(isinstance(t, ast.Name) and t.id == 'rng' for t in n.targets)]
    ok_rng = len(rng_def) == 1 and ast.dump(rng_def[0].value) == ast.dump(ast.parse('numpy.random.default_rng()').body[0].value)
    ctx.obligation('LowPass.rng is ONE module-level numpy.random.default_rng() Generator', ok_rng, 'translator',
                   '' if ok_rng else 'found %d assignments to rng' % len(rng_def))
    if not ok_rng:
        problems.append('LowPass.rng is not a numpy Generator created once at module level')
    if len(fn) != 1:
        ctx.obligation('subsample_genotypes_1D is defined once', False, 'translator'); return problems + ['subsample_genotypes_1D not found']
    fn = fn[0]
    dump = lambda src: ast.dump(ast.parse(src).body[0].value)
    # every use of a random source inside the function
    rnd = []
    for n in ast.walk(fn):
        if isinstance(n, ast.Call):
            f = n.func
            names = []
            while isinstance(f, ast.Attribute):
                names.append(f.attr); f = f.value
            if isinstance(f, ast.Name):
                names.append(f.id)
            if any(x in ('rng', 'random', 'shuffle', 'permutation', 'permuted', 'choice', 'default_rng', 'RandomState') for x in names):
                rnd.append(n)
    ok1 = len(rnd) == 1
    call = rnd[0] if rnd else None
    ok2 = ok1 and isinstance(call.func, ast.Attribute) and isinstance(call.func.value, ast.Name) and call.func.value.id == 'rng' and call.func.attr == 'permuted'
    ok3 = ok2 and len(call.args) == 1 and isinstance(call.args[0], ast.Name) and len(call.keywords) == 1 and call.keywords[0].arg == 'axis' \
        and isinstance(call.keywords[0].value, ast.Constant) and call.keywords[0].value.value == 1
    detail = ast.unparse(call) if call is not None else 'no random call'
    ctx.obligation('subsample_genotypes_1D draws randomness exactly once per group of loci', ok1, 'translator', '%d random calls' % len(rnd))
    ctx.obligation('the shuffle in subsample_genotypes_1D is rng.permuted(<loci>, axis=1): an INDEPENDENT permutation per locus', ok3, 'translator', detail)
    if not ok3:
        problems.append('the shuffle in subsample_genotypes_1D is `%s`, not the per-locus independent rng.permuted(<loci>, axis=1)' % detail)
    # what is shuffled and what is kept of it
    assigns = {t.id: n.value for n in ast.walk(fn) if isinstance(n, ast.Assign) for t in n.targets if isinstance(t, ast.Name)}
    arg = call.args[0].id if (call is not None and len(call.args) >= 1 and isinstance(call.args[0], ast.Name)) else None
    tgt = [t.id for n in ast.walk(fn) if isinstance(n, ast.Assign) and n.value is call for t in n.targets if isinstance(t, ast.Name)]
    ok4 = arg is not None and arg in assigns and ast.dump(assigns[arg]) == dump('sorted_genotype_calls[n_called == calls][:, :calls]') \
        and 'sorted_genotype_calls' in assigns and ast.dump(assigns['sorted_genotype_calls']) == dump('numpy.sort(genotype_calls, axis=1)') \
        and 'n_called' in assigns and ast.dump(assigns['n_called']) == dump('numpy.count_nonzero(genotype_calls != 99, axis=1)')
    ctx.obligation('what is shuffled: the called genotypes of the sorted rows with exactly `calls` calls', ok4, 'translator')
    keep = [n for n in ast.walk(fn) if isinstance(n, ast.Subscript) and isinstance(n.value, ast.Name) and tgt and n.value.id == tgt[0]]
    ok5 = len(tgt) == 1 and len(keep) == 1 and ast.dump(keep[0]) == dump('%s[:, :n_subsampling // 2]' % tgt[0])
    ctx.obligation('what is kept: the first n_subsampling // 2 columns of the shuffled rows', ok5, 'translator')
    if not (ok4 and ok5):
        problems.append('subsample_genotypes_1D no longer shuffles the sorted called genotypes / keeps the first n_subsampling // 2 of them')
    return problems

def run_simulation_path(ctx, only=None):
    """correspondence and predicates of simulate_GATK_multisample_calling / subsample_genotypes_1D"""
    src_problems = source_obligations(ctx)
    if only is not None:
        rep, sub, dist = ([only] if only['kind'] == 'simrep' else []), ([only] if only['kind'] == 'subs' else []), ([only] if only['kind'] == 'simdist' else [])
    else:
        rep, sub, dist = gen_simrep_cases(ctx), gen_subs_cases(ctx), gen_simdist_cases(ctx)
    allc = dist + sub + rep          # the property-level comparison (deep simulated row vs projection row) is reported first
    for i, c in enumerate(allc):
        c['id'] = 100000 + i
    res = lib.run_impl('c18_impl_sim.py', allc, timeout=3000)
    byid = {r['id']: r for r in res}
    found_input = False
    sx, ux = [], []
    for c in allc:
        r = byid[c['id']]
        ctx.count('sim kind=' + c['kind'])
        if 'error' in r:
            ctx.violation('the simulated calling model raised (%s): %s' % (c['kind'], r['error']), data={'case': c}); found_input = True
            continue
        for k, v in r.get('rng_methods', {}).items():
            ctx.count('rng.%s calls' % k, v)
        obs = not r['problems']
        ctx.obligation('random choices of case %d are observable by the recording wrappers' % c['id'], obs, 'correspondence', '; '.join(r['problems'])[:300])
        if c['kind'] == 'simrep':
            d = len(c['pops'])
            ctx.count('simrep d=%d' % d); ctx.count('simrep ' + ('deep' if c['deep'] else 'shallow'))
            ctx.count('simrep subsampled pops', sum(1 for p in c['pops'] if p['nsub'] != p['nseq']))
            ctx.case(signature=('s', json.dumps(c['pops']), c['af'], c['nsim'], c['seed']),
                     sample={'pops': [(p['nseq'], p['nsub'], p['F'], p['covkind']) for p in c['pops']], 'af': c['af'], 'nsim': c['nsim'], 'simulated': r['out'][:9]})
            bad = []
            if any(x != x or x in (float('inf'), float('-inf')) for x in r['out']):
                bad.append('returned non-finite values')
            elif abs(sum(r['out']) - 1.0) > P_TOL or min(r['out']) < 0 or r['shape'] != [p['nsub'] + 1 for p in c['pops']]:
                bad.append('returned array is not a probability vector over the bins 0..n_subsampling: sum-1 = %.3e, min = %.3e, shape %r' % (sum(r['out']) - 1, min(r['out']), r['shape']))
            elif c['deep'] and all(p['nsub'] == p['nseq'] for p in c['pops']):
                idx = 0
                for p, a in zip(c['pops'], c['af']):
                    idx = idx * (p['nsub'] + 1) + a
                if abs(r['out'][idx] - 1.0) > P_TOL:
                    bad.append('deep coverage without subsampling: the simulated array is not the point mass at the true allele counts: %r' % r['out'][:12])
            bad += class_predicates(ctx, c, r['classes'], 'simulate_GATK_multisample_calling')
            for w in bad:
                ctx.violation('simulate_GATK_multisample_calling (pops=%s af=%r nsim=%d): %s' % ([(p['nseq'], p['nsub'], p['F'], p['covkind']) for p in c['pops']], c['af'], c['nsim'], w[:500]),
                              data={'case': c, 'impl': {'out': r['out']}}); found_input = True
            ctx.obligation('simulated-array predicates case %d' % c['id'], not bad, 'predicate', '; '.join(bad)[:300])
            if obs and not any('non-finite' in w for w in bad):
                sx.append((c['id'], sexpr(c, r)))
        elif c['kind'] == 'subs':
            ctx.case(signature=('u', c['N'], c['nsub'], c['seed'], len(c['rows'])), sample={'N': c['N'], 'nsub': c['nsub'], 'loci': len(c['rows']), 'first': r['out'][:4]})
            k = c['nsub'] // 2
            bad = []
            if any(len(o) != k or any(g not in (0, 1, 2) for g in o) for o in r['out']) or len(r['out']) != sum(1 for row in c['rows'] if sum(1 for g in row if g != 99) >= k):
                bad.append('the subsample does not consist of %d called genotypes per locus with enough calls' % k)
            bad += class_predicates(ctx, c, r['classes'], 'subsample_genotypes_1D')
            for w in bad:
                ctx.violation('subsample_genotypes_1D (%d loci of %d individuals, n_subsampling=%d): %s' % (len(c['rows']), c['N'], c['nsub'], w[:500]),
                              data={'case': c}); found_input = True
            ctx.obligation('subsampling predicates case %d' % c['id'], not bad, 'predicate', '; '.join(bad)[:300])
            if obs:
                ux.append((c['id'], uexpr(c, r)))
        else:
            ctx.count('simdist d=%d' % len(c['pops'])); ctx.count('simdist ' + ('F>0' if any(p['F'] for p in c['pops']) else 'F=0'))
            ctx.count('simdist rows', len(r['rows']))
            ctx.case(signature=('d', json.dumps(c['pops']), c['seed']), sample={'pops': [(p['nseq'], p['nsub'], p['F']) for p in c['pops']], 'row': r['rows'][len(r['rows']) // 2]})
            bad = simdist_predicates(ctx, c, r) + class_predicates(ctx, c, r['classes'], 'simulate_GATK_multisample_calling at deep coverage')[:3]
            for w in bad:
                ctx.violation('simulate_GATK_multisample_calling (pops=%s nsim=%d): %s' % ([(p['nseq'], p['nsub'], p['F']) for p in c['pops']], c['nsim'], w[:600]),
                              data={'case': c}); found_input = True
            ctx.obligation('deep simulated rows == projection rows (Hoeffding) case %d' % c['id'], not bad, 'predicate', '; '.join(bad)[:300])
    sres = ctx.coq_cases('simrep', SIM_HEADER, sx, '(scheck %s)' % q(TOL_SIM), 'abs 1e-15 (counts / total)', shard=ctx.pick(2, 4), timeout=1500)
    ures = ctx.coq_cases('subs', SIM_HEADER, ux, 'ucheck', 'exact', shard=1, timeout=1500, record_err=False)
    cmap = {c['id']: c for c in allc}
    nbad = 0
    for cid, _ in sx + ux:
        rr = sres.get(cid) if cmap[cid]['kind'] == 'simrep' else ures.get(cid)
        ok = rr is not None and rr[0]
        what = 'simulate_GATK_multisample_calling' if cmap[cid]['kind'] == 'simrep' else 'subsample_genotypes_1D'
        ctx.obligation('replay of %s through the model, case %d' % (what, cid), ok, 'correspondence', '' if ok else 'model != impl %r' % (rr,))
        if not ok:
            nbad += 1
            if nbad <= 3:
                c = cmap[cid]
                ctx.violation('%s replayed with the recorded draws disagrees with the model (or the draws violate its hypotheses): %r' % (what, rr),
                              data={'case': c, 'impl': {k: v for k, v in byid[cid].items() if k in ('out', 'problems', 'probs')}},
                              no_input=True, broken='replay of ' + what)
    return src_problems, found_input

def run_types_stream(ctx, src_problems, found_input):
    """argument types / containers / layouts (c18_types), every run; a broken source obligation (the shuffle of
    subsample_genotypes_1D, the layout-independent frame of lowpass_func) starts a targeted search over the same variants
    at thorough size before no-failing-input-found is reported"""
    import sys
    from harness.props import c18_types
    me = sys.modules[__name__]
    frame_problems = c18_types.frame_obligation(ctx, lib.REPO)
    found = c18_types.run_stream(ctx, me)
    if (src_problems or frame_problems) and not found_input and not found:
        ctx.count('types: targeted search after a broken source obligation')
        found = c18_types.run_stream(ctx, me, big=True, tag='types_search')
    if src_problems and not found_input and not found:
        ctx.violation('source-text obligations of subsample_genotypes_1D fail: ' + '; '.join(src_problems), data={'problems': src_problems},
                      no_input=True, broken='source text of subsample_genotypes_1D')
    if frame_problems and not found_input and not found:
        ctx.violation('lowpass_func / its precalculation write through a flattened, reshaped or re-typed alias of an array, which reaches the array '
                      'only for some memory layouts of the model spectrum: ' + '; '.join(frame_problems), data={'problems': frame_problems},
                      no_input=True, broken='layout-independent frame of lowpass_func')


HNAMES = {0: 'partitions_and_probabilities', 1: 'projection_matrix', 2: 'calling_error_matrix',
          3: 'probability_of_no_call_1D_GATK_multisample', 4: 'probability_enough_individuals_covered', 5: 'projection_inbreeding'}

def run(ctx):
    ctx.rule = ('helper cases = (nseq even 2..20 [quick <= 8], nsub even <= nseq, dyadic coverage distribution over depths 0..D<=80 of kind '
                'low/mid/wide/nozero/two/deep, F = 0 or dyadic in (0,1)); corrected-model cases = 1-3 such populations (smaller sizes for 2-3), a '
                'non-negative dyadic model array (corners masked by Spectrum), sim_threshold cycling through {0, 1e-2, 1}, nsim in {200,400,1000}; '
                'distinct = distinct parameter tuples; non-trivial = every case (nseq >= 2); plus, on every run, deep-coverage sim_threshold=0 cases with '
                'nsub < nseq (nsim 5000); simulation path: replayed simulate_GATK_multisample_calling calls (1-2 populations, nseq 4..8 [thorough 4..12], '
                'mostly nsub < nseq, shallow and deep coverage, F = 0 and F > 0, nsim 60..300), subsample_genotypes_1D on constructed call matrices '
                '(2-3 classes of identical rows, enough loci per class for a 1e-30 false-alarm bound), deep-coverage distribution cases (nsim 20000, '
                'every allele count of 1 population / 14 allele-count pairs of 2 populations, F = 0 and F > 0); stream types (harness/props/c18_types.py), '
                'every run: 7 corrected-model base cases (1-3 populations x sim_threshold 0 / 1e-2 / 1 x low / deep coverage x F) and 4 helper base cases, each '
                'handed to every entry point once canonically and once per enumerated (argument, spelling): model spectrum layouts / dtypes / masks / the same '
                'object re-used, sizes / Fx / sim_threshold / nsim as python and numpy scalars, 0-d arrays, lists / tuples / ndarrays of each dtype and stride, '
                'coverage distributions as arrays of each dtype / order / stride, lists, masked arrays, compute_cov_dist output, shared object')
    ctx.assumptions += ['row 0 of a coverage-distribution array is arange(D+1) (what compute_cov_dist builds); the model indexes depths by position',
                        'float64 results are compared with the exact rationals at 1e-11 absolute (probabilities, F = 0), 1e-9 absolute (F > 0: gammaln differences at arguments ~ 1/F) and 1e-9 of the largest entry (corrected spectra)',
                        'simulated regime: in the corrected-model correspondence the arrays returned by simulate_GATK_multisample_calling in the run are the values of the '
                        'model\'s `sim` argument; the function that produces them is replayed draw by draw through Model/LowPassSim.v in separate cases of every run; '
                        'entries whose no-call probability is within 1e-9 of sim_threshold are not compared',
                        'the numpy / scipy generators are seeded from VERIF_SEED through the harness: every statistical predicate is deterministic for a given seed',
                        'statistical predicates (false alarm under the unchanged code, per comparison): independence of the per-locus choices -- all loci of a class '
                        'choosing the same individuals: C^-(m-1) < 1e-30, some subset never chosen: C(1-1/C)^m < 1e-30 (C subsets, m loci; classes with a larger bound are '
                        'not tested); uniformity of the chosen subsets, deep simulated row vs projection row, deep corrected model (sim_threshold=0) vs plain projection: '
                        'Hoeffding with the number of simulated loci and a union bound over the entries, < 1e-12; the reads reveal every genotype at depth >= 60 except '
                        'with probability < 2^-50 per locus (slack 3/n in the tolerance)',
                        'F -> 0 on the implementation is checked at F = 1e-9 with tolerance 1e-4: BetaBinomln cancels gammaln values of size 1e10 there']
    ctx.trusted += ['`sim` (Section variable of LowPass.v) is NOT an unconstrained oracle any more: simulate_GATK_multisample_calling is modelled as a deterministic '
                    'function of its random draws (Model/LowPassSim.v: simulate_reads, genotype calls, the two filters, subsample_genotypes_1D, histogramdd, normalisation), '
                    'replayed exactly on recorded draws in every run; for EVERY draw the returned array is a probability vector (theorem, so the hypothesis of the '
                    'total-sites theorem holds), at deep coverage it is the subsampling step alone (theorem), whose expectation under independent uniform per-locus '
                    'choices is the projection_matrix row (theorems).  What remains a hypothesis is distributional: numpy.random.Generator.permuted(axis=1) shuffles every '
                    'row independently and uniformly, scipy rv_discrete / binom draw from the stated distributions -- checked structurally (source text, recorded '
                    'choices) and statistically (bounds in the assumptions), not proved',
                    'the recording wrappers of harness/impl/c18_impl_sim.py (every draw is made by the real generator from the real state; reorderings are observed by '
                    'a second execution on cell labels from the same bit-generator state, checked to consume the same state and to reproduce the result)']
    hc = gen_helper_cases(ctx)
    lc = gen_lowpass_cases(ctx)
    if ctx.replay:
        rp = json.load(open(ctx.replay))
        c = (rp.get('input') or {}).get('case')
        if c:
            hc = [c] if c['kind'] == 'helpers' else []
            lc = [c] if c['kind'] == 'lowpass' else []
            if c['kind'] in ('simrep', 'subs', 'simdist'):
                run_simulation_path(ctx, only=c)
                return
            if c['kind'] in ('ltypes', 'htypes'):
                import sys
                from harness.props import c18_types
                c18_types.run_stream(ctx, sys.modules[__name__], only=c)
                return
    if not ctx.replay or not ((json.load(open(ctx.replay)).get('input') or {}).get('case')):
        sp, fi = run_simulation_path(ctx)
        run_types_stream(ctx, sp, fi)
    for i, c in enumerate(hc + lc):
        c['id'] = i
    res = lib.run_impl('c18_impl.py', hc + lc, timeout=3000)
    byid = {r['id']: r for r in res}
    exprs, meta = [], {}
    pairs = {}
    for c in hc:
        r = byid[c['id']]
        ctx.count('helpers nseq=%d' % c['nseq']); ctx.count('cov=' + c['covkind']); ctx.count('F=0' if c['F'] == 0 else 'F>0')
        if 'error' in r:
            ctx.violation('LowPass helpers raised / returned non-finite values: %s' % r['error'], data={'case': c, 'impl': r})
            continue
        ctx.case(signature=('h', c['nseq'], c['nsub'], c['cov'], c['F']),
                 sample={'nseq': c['nseq'], 'nsub': c['nsub'], 'F': c['F'], 'cov': c['cov'], 'nocall': r['nocall'], 'enough': r['enough']})
        helper_predicates(ctx, c, r)
        if 'pair' in c:
            pairs.setdefault(c['pair'], []).append((c, r))
        if c.get('nocorr'):
            continue
        for what in range(6):
            if what == 5 and c['F'] == 0 and ctx.quick and c['id'] % 2:
                continue
            n = c['id'] * 8 + what
            exprs.append((n, hexpr(what, c, r))); meta[n] = (c, what)
    # F -> 0 on the implementation
    for k, pr in pairs.items():
        if len(pr) != 2:
            continue
        (c0, r0), (c1, r1) = pr
        dev = max(maxdiff(r0[f], r1[f]) for f in ('probs', 'proj', 'cem', 'nocall'))
        ok = dev <= F_TOL and r0['parts'] == r1['parts']
        ctx.obligation('F=1e-9 ~ F=0 pair %d' % k, ok, 'predicate', 'dev %.3e' % dev)
        ctx.err('F_to_0_impl', int(math.floor(math.log2(dev))) if dev > 0 else -10000, 'abs 1e-4')
        if not ok:
            ctx.violation('F -> 0 is not continuous: helpers at F=1e-9 and F=0 differ by %.3e (nseq=%d nsub=%d)' % (dev, c0['nseq'], c0['nsub']),
                          data={'case': c1, 'impl_F0': r0, 'impl_Feps': r1})
    header = ('From Coq Require Import ZArith QArith List.\nFrom Dadi Require Import Base.Num Base.NumQ Model.LowPass Model.LowPassCheck.\n'
              'Import ListNotations.\nOpen Scope Q_scope.')
    # F > 0 goes through exp(gammaln differences) with arguments ~ 1/F: looser tolerance there
    ex0 = [(n, e) for n, e in exprs if meta[n][0]['F'] == 0]
    exF = [(n, e) for n, e in exprs if meta[n][0]['F'] != 0]
    results = ctx.coq_cases('helpers', header, ex0, '(hcheck %s)' % q(TOL), 'abs 1e-11 (F = 0)', shard=ctx.pick(14, 24), timeout=1500)
    results.update(ctx.coq_cases('helpersF', header, exF, '(hcheck %s)' % q(TOL_F), 'abs 1e-9 (F > 0)', shard=ctx.pick(14, 24), timeout=1500))
    nbad = 0
    for n, (c, what) in meta.items():
        rr = results.get(n)
        ok = rr is not None and rr[0]
        ctx.obligation('corr %s case %d' % (HNAMES[what], c['id']), ok, 'correspondence', '' if ok else 'model != impl %r' % (rr,))
        if rr is not None:
            ctx.err('%s%s' % (HNAMES[what], '' if c['F'] == 0 else ' (F>0)'), rr[1], 'abs 1e-11' if c['F'] == 0 else 'abs 1e-9')
        if not ok:
            nbad += 1
            if nbad <= 3:
                ctx.violation('%s disagrees with the exact model (nseq=%d nsub=%d F=%r cov=%s): log2 err %r' % (
                    HNAMES[what], c['nseq'], c['nsub'], c['F'], c['covkind'], rr), data={'case': c, 'impl': byid[c['id']], 'helper': HNAMES[what]},
                    no_input=True, broken='correspondence of ' + HNAMES[what])
    # corrected model
    lexprs, lmeta = [], {}
    for c in lc:
        r = byid[c['id']]
        d = len(c['pops'])
        ctx.count('lowpass d=%d' % d); ctx.count('thr=%r' % c['thr']); ctx.count('deep' if c['deep'] else 'shallow')
        if 'error' in r:
            ctx.violation('make_low_pass_func_GATK_multisample raised / returned non-finite values: %s' % r['error'], data={'case': c, 'impl': r})
            continue
        nsimd = sum(r['use'])
        ctx.count('regime=' + ('analytic' if nsimd == 0 else 'simulated' if nsimd == len(r['use']) else 'mixed'))
        ctx.case(signature=('l', json.dumps(c['pops']), c['thr'], c['model'][:8]),
                 sample={'pops': [(p['nseq'], p['nsub'], p['F']) for p in c['pops']], 'thr': c['thr'], 'model_total': r['model_total'], 'out_total': r['out_total']})
        # plain projection with the code's own projection_matrix (zero-filled model), for the deep-coverage predicate
        lowpass_predicates(ctx, c, r)
        near = any(p != c['thr'] and abs(p - c['thr']) <= 1e-9 for p in r['pnc']) or (c['thr'] == 0.0 and any(0 < p < 1e-290 for p in r['pnc']))
        if near:
            ctx.count('skipped: no-call probability within rounding of sim_threshold'); continue
        lexprs.append((c['id'], lexpr(c, r))); lmeta[c['id']] = c
    lres = ctx.coq_cases('lowpass', header, lexprs, '(lcheck %s)' % q(TOL_LP), 'rel 1e-9 of the largest entry', shard=ctx.pick(3, 4), timeout=2400)
    nbad = 0
    for n, c in lmeta.items():
        rr = lres.get(n)
        ok = rr is not None and rr[0]
        ctx.obligation('corr make_low_pass_func case %d' % n, ok, 'correspondence', '' if ok else 'model != impl %r' % (rr,))
        if not ok:
            nbad += 1
            if nbad <= 3:
                ctx.violation('make_low_pass_func_GATK_multisample disagrees with the exact model (pops=%s thr=%r): %r' % (
                    [(p['nseq'], p['nsub'], p['F']) for p in c['pops']], c['thr'], rr), data={'case': c, 'impl': byid[n]},
                    no_input=True, broken='correspondence of make_low_pass_func_GATK_multisample')
