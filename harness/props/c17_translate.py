"""C17 translator obligations: the compiled bivariate pdfs (dadi/DFE/PDFs.c, via harness/translate/cbody.py) and the
Python reference formulas (dadi/DFE/PDFs.py, via an extension of harness/translate/pyexpr.py) are re-read from the
current sources on every run, turned into Coq terms and proved equal to the hand models of Proofs/DFEPdf.v
(whose equality C = Python is a static theorem); plus the wiring of PDFs_cython.pyx / PDFs.biv_*.
"""
import ast, os, re
from harness import lib
from harness.translate import pyexpr, cbody

PDFS_C = os.path.join(lib.REPO, 'dadi', 'DFE', 'PDFs.c')
PDFS_PY = os.path.join(lib.REPO, 'dadi', 'DFE', 'PDFs.py')
PDFS_PYX = os.path.join(lib.REPO, 'dadi', 'DFE', 'PDFs_cython.pyx')
CACHE2D = os.path.join(lib.REPO, 'dadi', 'DFE', 'Cache2D_mod.py')

class PTr(pyexpr.Tr):
    """pyexpr.Tr extended with the array idioms of PDFs.py, read entrywise at (i, j):
    xx, xx[:,np.newaxis] -> x ; yy, yy[np.newaxis,:] -> y ; np.outer(a, b) -> a*b ; np.squeeze(e) -> e ;
    np.pi -> PI ; ssd.gamma.pdf(v, a, scale=b) -> gamma_pdf_scipy Gam v a b ; params[k] -> p<k>."""
    def __init__(self, nparams):
        super().__init__(funcs={'exp': 'exp', 'log': 'ln', 'sqrt': 'sqrt'})
        self.nparams = nparams
        self.used = set()

    def expr(self, e):
        if isinstance(e, ast.Name) and e.id in ('xx', 'yy') and e.id not in self.env:
            return {'xx': 'x', 'yy': 'y'}[e.id]
        if isinstance(e, ast.Attribute) and isinstance(e.value, ast.Name) and e.value.id in ('np', 'numpy') and e.attr == 'pi':
            return 'PI'
        if isinstance(e, ast.Subscript) and isinstance(e.value, ast.Name):
            nm = e.value.id
            if nm in ('xx', 'yy') and isinstance(e.slice, ast.Tuple) and len(e.slice.elts) == 2:
                kinds = []
                for el in e.slice.elts:
                    if isinstance(el, ast.Slice) and el.lower is None and el.upper is None and el.step is None:
                        kinds.append(':')
                    elif isinstance(el, ast.Attribute) and el.attr == 'newaxis':
                        kinds.append('new')
                    else:
                        raise pyexpr.Refuse('subscript of %s' % nm)
                if (nm, kinds) == ('xx', [':', 'new']):
                    return 'x'
                if (nm, kinds) == ('yy', ['new', ':']):
                    return 'y'
                raise pyexpr.Refuse('broadcast orientation of %s: %r' % (nm, kinds))
            if nm == 'params' and isinstance(e.slice, ast.Constant) and isinstance(e.slice.value, int):
                k = e.slice.value
                if not 0 <= k < self.nparams:
                    raise pyexpr.Refuse('params[%d] with %d parameters' % (k, self.nparams))
                self.used.add(k)
                return 'p%d' % k
            raise pyexpr.Refuse('subscript of %s' % nm)
        if isinstance(e, ast.Call):
            fn = e.func
            nm = fn.attr if isinstance(fn, ast.Attribute) else getattr(fn, 'id', None)
            if nm == 'squeeze' and len(e.args) == 1 and not e.keywords:
                return self.expr(e.args[0])
            if nm == 'outer' and len(e.args) == 2 and not e.keywords:
                return '(%s * %s)' % (self.expr(e.args[0]), self.expr(e.args[1]))
            if (nm == 'pdf' and isinstance(fn, ast.Attribute) and isinstance(fn.value, ast.Attribute) and fn.value.attr == 'gamma'
                    and len(e.args) == 2 and len(e.keywords) == 1 and e.keywords[0].arg == 'scale'):
                return '(gamma_pdf_scipy Gam %s %s %s)' % (self.expr(e.args[0]), self.expr(e.args[1]), self.expr(e.keywords[0].value))
        return super().expr(e)

def _len_test(test, nparams):
    """len(params) == k   or   len(params) in [k1, k2]"""
    if (isinstance(test, ast.Compare) and len(test.ops) == 1 and isinstance(test.left, ast.Call)
            and getattr(test.left.func, 'id', None) == 'len' and len(test.left.args) == 1
            and getattr(test.left.args[0], 'id', None) == 'params'):
        c = test.comparators[0]
        if isinstance(test.ops[0], ast.Eq) and isinstance(c, ast.Constant):
            return nparams == c.value
        if isinstance(test.ops[0], ast.In) and isinstance(c, (ast.List, ast.Tuple)) and all(isinstance(x, ast.Constant) for x in c.elts):
            return nparams in [x.value for x in c.elts]
    raise pyexpr.Refuse('branch test is not on len(params)')

def translate_py_pdf(name, nparams):
    fn = pyexpr.find_function(PDFS_PY, name)
    if [a.arg for a in fn.args.args] != ['xx', 'yy', 'params']:
        raise pyexpr.Refuse('%s: arguments' % name)
    t = PTr(nparams)
    body = list(fn.body)
    if body and isinstance(body[0], ast.Expr) and isinstance(body[0].value, ast.Constant):
        body = body[1:]
    ret = None

    def assign(st):
        if len(st.targets) > 1:                                # a = b = value
            val = t.expr(st.value)
            for tg in st.targets:
                if not isinstance(tg, ast.Name) or tg.id in t.env:
                    raise pyexpr.Refuse('chained assignment target')
                t.env[tg.id] = val
            return
        tg = st.targets[0]
        if isinstance(tg, ast.Name):
            v = st.value
            if (tg.id in ('xx', 'yy') and isinstance(v, ast.Call) and getattr(v.func, 'attr', None) == 'atleast_1d'
                    and len(v.args) == 1 and getattr(v.args[0], 'id', None) == tg.id):
                return                                           # xx = np.atleast_1d(xx)
            if tg.id in t.env:
                raise pyexpr.Refuse('re-assignment of %s' % tg.id)
            t.env[tg.id] = t.expr(v)
            return
        if isinstance(tg, ast.Tuple) and all(isinstance(el, ast.Name) for el in tg.elts):
            names = [el.id for el in tg.elts]
            v = st.value
            if isinstance(v, ast.Name) and v.id == 'params':
                if len(names) != nparams:
                    raise pyexpr.Refuse('unpacking %d names from %d parameters' % (len(names), nparams))
                idx = range(nparams)
            elif (isinstance(v, ast.Subscript) and getattr(v.value, 'id', None) == 'params' and isinstance(v.slice, ast.Slice)
                  and v.slice.lower is None and v.slice.step is None and isinstance(v.slice.upper, ast.Constant)):
                if v.slice.upper.value != len(names) or len(names) > nparams:
                    raise pyexpr.Refuse('slice unpacking')
                idx = range(len(names))
            else:
                raise pyexpr.Refuse('tuple assignment')
            for n, k in zip(names, idx):
                if n in t.env:
                    raise pyexpr.Refuse('re-assignment of %s' % n)
                t.env[n] = 'p%d' % k
                t.used.add(k)
            return
        raise pyexpr.Refuse('assignment shape')

    def run(stmts):
        nonlocal ret
        for st in stmts:
            if ret is not None:
                raise pyexpr.Refuse('statement after return')
            if isinstance(st, ast.Assign):
                assign(st)
            elif isinstance(st, ast.If):
                node = st
                while True:
                    if _len_test(node.test, nparams):
                        run(node.body); break
                    if len(node.orelse) == 1 and isinstance(node.orelse[0], ast.If):
                        node = node.orelse[0]; continue
                    if node.orelse and all(isinstance(s, ast.Raise) for s in node.orelse):
                        raise pyexpr.Refuse('%s raises for %d parameters' % (name, nparams))
                    run(node.orelse); break
            elif isinstance(st, ast.Return) and st.value is not None:
                ret = t.expr(st.value)
            else:
                raise pyexpr.Refuse('statement %s' % type(st).__name__)
    run(body)
    if ret is None:
        raise pyexpr.Refuse('no return')
    return ret, sorted(t.used)

# the hand models of Proofs/DFEPdf.v instantiated for each parameter count:  nparams -> argument list
LOGN_ARGS = {3: 'p0 p0 p1 p1 p2', 5: 'p0 p1 p2 p3 p4'}
GAMMA_ARGS = {2: 'p0 p0 p1 p1', 3: 'p0 p0 p1 p1', 4: 'p0 p1 p2 p3', 5: 'p0 p1 p2 p3'}

HEADER = '\n'.join([
    'From Coq Require Import Reals Lra.',
    'From Dadi Require Import Proofs.DFEPdf.',
    'Local Open Scope R_scope.', ''])

def obligations(ctx):
    files = []
    for name, table in (('biv_lognormal', LOGN_ARGS), ('biv_ind_gamma', GAMMA_ARGS)):
        gam = name == 'biv_ind_gamma'
        for npar, hand_args in table.items():
            ps = ' '.join('p%d' % i for i in range(npar))
            binders = ' '.join('(p%d : R)' % i for i in range(npar))
            gb = '(Gam : R -> R) ' if gam else ''
            ga = 'Gam ' if gam else ''
            # --- C side
            try:
                ctext, _, used = cbody.translate_pdf(PDFS_C, name, npar, extra_funcs={'gamma_func': ('Gam', 1)} if gam else {},
                                                     extra_binders=gb)
                ctx.obligation('translate PDFs.c %s (Nparams=%d)' % (name, npar), True, 'translator')
            except (cbody.Refuse, OSError) as e:
                ctx.obligation('translate PDFs.c %s (Nparams=%d)' % (name, npar), False, 'translator', str(e))
                ctext = None
            # --- Python side
            try:
                pexpr, _ = translate_py_pdf(name + '_py', npar)
                ptext = 'Definition gen_py_%s_%d %s%s (x y : R) : R :=\n  %s.' % (name, npar, gb, binders, pexpr)
                ctx.obligation('translate PDFs.py %s_py (%d parameters)' % (name, npar), True, 'translator')
            except (pyexpr.Refuse, OSError, SyntaxError) as e:
                ctx.obligation('translate PDFs.py %s_py (%d parameters)' % (name, npar), False, 'translator', str(e))
                ptext = None
            hand_c = '%s_c %s%s x y' % (name, ga, hand_args)
            hand_py = '%s_py %s%s x y' % (name, ga, hand_args)
            tac = ('intros. unfold gen_SIDE, HAND, gamma_marg_c, gamma_pdf_scipy; cbv zeta.\n'
                   '  first [ reflexivity | solve [unfold Rdiv; ring] | solve [exp_over_norm]\n'
                   '        | solve [repeat (f_equal; try reflexivity); unfold Rdiv; ring] ]. Qed.')
            if ctext:
                v = HEADER + ctext + '\nLemma ob : forall %s%s x y, gen_c_%s_%d %s%s x y = %s.\nProof. %s\n' % (
                    gb, binders, name, npar, ga, ps, hand_c,
                    tac.replace('gen_SIDE', 'gen_c_%s_%d' % (name, npar)).replace('HAND', (name + '_c') + (', biv_ind_gamma_c' if gam else '')))
                files.append(('C17_ob_c_%s_%d' % (name, npar), v))
            if ptext:
                v = HEADER + ptext + '\nLemma ob : forall %s%s x y, gen_py_%s_%d %s%s x y = %s.\nProof. %s\n' % (
                    gb, binders, name, npar, ga, ps, hand_py,
                    tac.replace('gen_SIDE', 'gen_py_%s_%d' % (name, npar)).replace('HAND', (name + '_py') + (', biv_ind_gamma_py' if gam else '')))
                files.append(('C17_ob_py_%s_%d' % (name, npar), v))
    res = lib.run_case_files(files, timeout=300)
    for n, (rc, so, se, secs) in sorted(res.items()):
        ctx.obligation('generated obligation %s (source formula = hand model of Proofs/DFEPdf.v)' % n, rc == 0, 'translator', se[-500:] if rc else '')
    ctx.checker_cmds.append('coqc build/cases/C17_ob_*.v (regenerated from dadi/DFE/PDFs.c and PDFs.py)')
    wiring(ctx)
    probe_obligation(ctx)

def wiring(ctx):
    """PDFs.biv_* -> PDFs_cython.biv_* -> C: argument order and sizes"""
    try:
        pyx = open(PDFS_PYX).read()
        norm = lambda s: re.sub(r'\s+', '', s)
        ok = True; why = []
        for nm in ('biv_lognormal', 'biv_ind_gamma'):
            ext = 'voidc_%s"%s"(double*xx,double*yy,double*params,intn,intm,intNparams,double*output)' % (nm, nm)
            call = 'c_%s(<double*>xx.data,<double*>yy.data,<double*>params.data,xx.size,yy.size,params.size,<double*>zz.data)' % nm
            alloc = 'zz=np.empty((xx.size,yy.size),dtype=np.float64)'
            m = re.search(r'def %s\(np\.ndarray xx, np\.ndarray yy, np\.ndarray params\):(.*?)return zz' % nm, pyx, flags=re.S)
            if ext not in norm(pyx):
                ok = False; why.append('extern prototype of ' + nm)
            if not m or call not in norm(m.group(1)) or alloc not in norm(m.group(1)):
                ok = False; why.append('wrapper body of ' + nm)
        ctx.obligation('PDFs_cython.pyx hands (xx, yy, params, xx.size, yy.size, params.size, zz) to the C functions, zz of shape (xx.size, yy.size)',
                       ok, 'translator', '; '.join(why))
        tree = ast.parse(open(PDFS_PY).read())
        ok = True; why = []
        for nm in ('biv_lognormal', 'biv_ind_gamma'):
            fns = [n for n in tree.body if isinstance(n, ast.FunctionDef) and n.name == nm]
            want = ('return np.squeeze(PDFs_cython.%s(np.asarray(xx, dtype=float), np.asarray(yy, dtype=float), '
                    'np.asarray(params, dtype=float)))' % nm)
            if len(fns) != 1 or len(fns[0].body) != 1 or ast.dump(fns[0].body[0]) != ast.dump(ast.parse(want).body[0]):
                ok = False; why.append(nm)
        ctx.obligation('PDFs.biv_* forward (xx, yy, params) as float arrays to PDFs_cython', ok, 'translator', '; '.join(why))
    except Exception as e:
        ctx.obligation('wiring of the compiled pdfs', False, 'translator', repr(e))

# the symmetric-shortcut decision of Cache2D.integrate, as modelled by Model/DFE.v [allclose_sym] / [rtol_sym]:
# exactly these three statements, inside integrate itself, and the only assignment of symmetric_dfe
PROBE = ['testx = np.logspace(-2,2,3)',
         'testout = sel_dist(testx, testx, params)',
         'symmetric_dfe = np.allclose(testout, testout.T, atol=0, rtol=1e-12)']

def probe_obligation(ctx):
    name = 'Cache2D.integrate decides the symmetric shortcut by np.allclose(testout, testout.T, atol=0, rtol=1e-12) on sel_dist(testx, testx, params), testx = logspace(-2,2,3)'
    try:
        tree = ast.parse(open(CACHE2D).read())
        cls = [n for n in tree.body if isinstance(n, ast.ClassDef) and n.name == 'Cache2D']
        fns = [n for n in cls[0].body if isinstance(n, ast.FunctionDef) and n.name == 'integrate'] if len(cls) == 1 else []
        if len(fns) != 1:
            raise pyexpr.Refuse('Cache2D.integrate not found exactly once')
        fn = fns[0]
        why = []
        want = [ast.dump(ast.parse(t).body[0]) for t in PROBE]
        targets = ('testx', 'testout', 'symmetric_dfe')
        found = {}
        for node in ast.walk(fn):
            if isinstance(node, ast.Assign):
                for tg in node.targets:
                    for nm in ast.walk(tg):
                        if isinstance(nm, ast.Name) and nm.id in targets:
                            found.setdefault(nm.id, []).append(node)
            elif isinstance(node, (ast.AugAssign, ast.AnnAssign, ast.NamedExpr)) and isinstance(getattr(node, 'target', None), ast.Name) and node.target.id in targets:
                found.setdefault(node.target.id, []).append(node)
        for nm, w in zip(targets, want):
            nodes = found.get(nm, [])
            if len(nodes) != 1:
                why.append('%s assigned %d times' % (nm, len(nodes)))
            elif ast.dump(nodes[0]) != w:
                why.append('%s is computed as `%s`' % (nm, ast.unparse(nodes[0])))
        # the three statements are top-level statements of integrate, in this order, and the flag is only read afterwards
        top = [ast.dump(st) for st in fn.body]
        pos = [top.index(w) if w in top else -1 for w in want]
        if -1 in pos or pos != sorted(pos):
            why.append('probe statements are not top-level statements of integrate in the documented order')
        uses = [n for n in ast.walk(fn) if isinstance(n, ast.Name) and n.id == 'symmetric_dfe' and isinstance(n.ctx, ast.Load)]
        if len(uses) != 2:
            why.append('symmetric_dfe read %d times (expected: edge weights, third corner)' % len(uses))
        ctx.obligation(name, not why, 'translator', '; '.join(why))
    except Exception as e:
        ctx.obligation(name, False, 'translator', repr(e))
