"""C04 — mass leaves only via fixation/loss: frozen and isolated marginals are exact.

Static theorems: coq/theories/Props/C04.v (dfactor = 1/trapezoid weight, line mass balance by telescoping,
outflow only on corner lines, conservation off the corner lines, zero-duration identity).
Per run: shared translator obligations, correspondence of the drivers with frozen / nomut flags against the model,
and the property predicates evaluated on the implementation: per-sweep mass balance of every kernel (only the two
corner lines lose mass, by exactly dt*out*phi'), mutation influx, frozen marginals, isolated-subset marginals,
no influx into frozen/nomut populations, frozen+migration rejected, remove/filter = trapezoid marginalisation.
"""
import itertools, json, math
from fractions import Fraction
from harness import lib, numgen
from harness.lib import q
from harness.numgen import HEADER
from harness.props import c02, c02_translate, c04_types, c04_cross

TOL = Fraction(1, 10 ** 9)

def trap_w(g):
    n = len(g)
    w = []
    for i in range(n):
        if i == 0:
            w.append((g[1] - g[0]) / 2)
        elif i == n - 1:
            w.append((g[-1] - g[-2]) / 2)
        else:
            w.append((g[i + 1] - g[i - 1]) / 2)
    return w

def unflat(shape, idx):
    out = []
    for n in reversed(shape):
        out.append(idx % n); idx //= n
    return out[::-1]

def mass(shape, grids, phi):
    ws = [trap_w(g) for g in grids]
    tot = 0.0
    for j, v in enumerate(phi):
        ix = unflat(shape, j)
        w = 1.0
        for a, i in enumerate(ix):
            w *= ws[a][i]
        tot += w * v
    return tot

def marginal_keep(shape, grids, phi, keep):
    """trapezoid-marginalise all axes not in keep; returns dict index-tuple(keep axes) -> value"""
    ws = [trap_w(g) for g in grids]
    out = {}
    for j, v in enumerate(phi):
        ix = unflat(shape, j)
        w = 1.0
        for a, i in enumerate(ix):
            if a not in keep:
                w *= ws[a][i]
        key = tuple(ix[a] for a in keep)
        out[key] = out.get(key, 0.0) + w * v
    return out

def flat_index(shape, ix):
    f = 0
    for n, i in zip(shape, ix):
        f = f * n + i
    return f

def transpose_flat(shape, phi, newaxes):
    """logical content of numpy's phi.transpose(newaxes): out[i] = phi[j] with j[newaxes[a]] = i[a]; returns (new shape, flat list)"""
    nshape = [shape[a] for a in newaxes]
    out = []
    for f in range(len(phi)):
        ix = unflat(nshape, f)
        j = [0] * len(shape)
        for a, na in enumerate(newaxes):
            j[na] = ix[a]
        out.append(phi[flat_index(shape, j)])
    return nshape, out

def flat_marginal(shape, grids, phi, keep):
    """marginal_keep as a flat C-ordered list over the kept axes (in increasing axis order)"""
    keep = sorted(keep)
    mk = marginal_keep(shape, grids, phi, keep)
    kshape = [shape[a] for a in keep]
    tot = 1
    for n in kshape:
        tot *= n
    return kshape, [mk[tuple(unflat(kshape, j))] for j in range(tot)]

# ---- memory layouts (interpreted by harness/impl/c04_impl.py::relayout): same shape, same logical content, different addressing.
# The model side and every predicate below work on the logical content only, so no expectation depends on the layout.
def layouts(d):
    if d == 1:
        return [{'name': 'stepped slice', 'step': [0]}, {'name': 'negative stride', 'neg': [0]}, {'name': 'window of a larger array', 'pad': True},
                {'name': 'negative stride, stepped, window', 'neg': [0], 'step': [0], 'pad': True}]
    ident = list(range(d))
    rev = ident[::-1]
    rotl = ident[1:] + [0]; rotr = [d - 1] + ident[:-1]
    sw0 = [1, 0] + ident[2:]; swl = ident[:-2] + [d - 1, d - 2]
    orders = []
    for o in (rev, sw0, swl, rotl, rotr):
        if o != ident and o not in orders:
            orders.append(o)
    L = [{'name': 'Fortran-ordered array', 'fortran': True}]
    L += [{'name': 'transposed view, memory axis order %s' % ''.join(str(a + 1) for a in o), 'order': o} for o in orders]
    L += [{'name': 'negative stride along axis 1', 'neg': [0]}, {'name': 'negative stride along axis %d' % d, 'neg': [d - 1]},
          {'name': 'stepped slice along axis %d' % d, 'step': [d - 1]}, {'name': 'stepped slice along axis 1', 'step': [0]},
          {'name': 'stepped slice along every axis', 'step': ident}, {'name': 'window of a larger array', 'pad': True},
          {'name': 'transposed view (memory axis order %s) with negative stride along axis 1, window' % ''.join(str(a + 1) for a in rev), 'order': rev, 'neg': [0], 'pad': True},
          {'name': 'transposed view (memory axis order %s), stepped along axis 2' % ''.join(str(a + 1) for a in rotl), 'order': rotl, 'step': [1]}]
    return L

def layout_perm(l, d):
    """memory axis order of a layout (identity = C order)"""
    if not l:
        return list(range(d))
    if l.get('fortran'):
        return list(range(d))[::-1]
    return list(l.get('order') or range(d))

def lname(c):
    s = (c.get('layout') or {}).get('name', 'C-contiguous')
    if c.get('xlayout'):
        s += '; grid: ' + c['xlayout']['name']
    return s

XLAYOUTS = [None] + layouts(1)

def axis_marginals(n, d, phi):
    out = []
    for a in range(d):
        m = [0.0] * n
        for j, v in enumerate(phi):
            m[unflat([n] * d, j)[a]] += v
        out.append(m)
    return out

def asym_density(rng, n, d, kind='random'):
    """density on an n^d grid whose one-axis marginals are pairwise clearly different (so an exchange of population axes is visible
    in every marginal-based predicate) -- checked, not assumed"""
    for attempt in range(200):
        phi = numgen.density(rng, n ** d, kind=kind)
        if d == 1:
            return phi
        ms = axis_marginals(n, d, phi)
        sc = max(max(abs(v) for v in m) for m in ms) or 1.0
        if all(max(abs(x - y) for x, y in zip(ms[a], ms[b])) > 0.02 * sc for a in range(d) for b in range(a + 1, d)):
            return phi
    raise RuntimeError('could not generate an axis-asymmetric density')

def distinct_pops(rng, pops, nu_lo, nu_hi, sel=True):
    """distinct nu (and, with selection, distinct gamma) per population: a permutation of the population axes changes the dynamics"""
    for attempt in range(200):
        for p in pops:
            p['nu'] = numgen.logdy(rng, nu_lo, nu_hi)
            if sel:
                p['gamma'] = lib.dyadic(rng, -8, 8, 3)
                p['h'] = rng.choice([0.5, 0.0, 1.0, 0.25])
        nus = [p['nu'] for p in pops]
        if all(abs(a / b - 1) > 0.05 for i, a in enumerate(nus) for b in nus[i + 1:]) and \
           (not sel or len(set(p['gamma'] for p in pops)) == len(pops)):
            return
    raise RuntimeError('could not generate distinct population parameters')

def Mfun(p, os, x):
    return sum(m * (o - x) for m, o in zip(p['ms'], os)) + p['gamma'] * 2 * (p['h'] + (1 - 2 * p['h']) * x) * x * (1 - x)

def run(ctx):
    ctx.rule = ('array arguments of the drivers / _inject_mutations / remove_pop / filter_pops are handed over C-contiguous AND, for the same logical '
                'content, Fortran-ordered, as transposed views (several memory axis orders), with a negative stride, as stepped slices and as windows of larger '
                'arrays (grids: stepped / reversed / window), d = 2..5, both drivers, every planned frozen subset; pipelines reorder_pops / remove_pop / filter_pops '
                '-> integrator (-> reorder_pops -> filter_pops) with a frozen population or isolated populations; densities have pairwise different axis '
                'marginals and populations pairwise different nu (and gamma) -- checked at generation; '
                'sweep cases = every (dimension, axis) kernel on unequal shapes with random grids/parameters (mass balance per sweep); driver cases = 2-5 '
                'populations with every admissible frozen subset, nomut flags (2-D), constants and functions of time; isolated-subset cases = no migration, '
                'no selection, one time step, every non-empty proper subset of populations; distinct = distinct parameter tuples; non-trivial = selection or migration present; '
                'argument types (c04_types.py, enumerated on every run): frozen / nomut flags as int, float, numpy.bool_, numpy.int64/int32/uint8/float64 and 0-d bool/int/float arrays '
                '(all flags in the type; only the frozen one; only the others; two frozen, one typed) for one_pop..five_pops with constants and with functions of time, every single '
                'frozen population; _inject_mutations_2D..5D with every flag value combination in every type; numeric arguments (nu, gamma, h, m incl. zero, theta0, beta, T, initial_t) as '
                'int / numpy.int64 / numpy.int32 / numpy.float64 / 0-d arrays, all at once and one class at a time; grid as list / tuple / float32 / longdouble / object / masked array, '
                'density as masked array / ndarray subclass (integrators, remove_pop, filter_pops): the C04 predicates on the variant and the same result as the canonical call; '
                'when the source obligation of an _inject_mutations_dD fails: every flag (value, type) assignment for that dimension and every frozen subset x type through the driver; '
                'feature interactions (c04_cross.py, enumerated on every run): every flag assignment (d=1 frozen; d=2 all 16 of frozen1/nomut1/frozen2/nomut2; d=3..5 all 2^d frozen subsets) x '
                'every driver (constants; every parameter a function of time, constant-valued and with nu/theta0 varying; only ONE class nu / m / gamma / h / theta0 a function; only ONE keyword a function) '
                'with the predicates on the real code: empty density stays off the flagged populations (generic and pure-drift run; mass within the influx of the active ones), one-step influx amount and '
                'place per population (run with theta0 = run without theta0 from the preloaded density), theta0 acts only through active populations / not at all when all are flagged, marginal of every '
                'population vs stand-alone one_pop (theta0 for active, 0 for nomut, unchanged for frozen); a driver case that disagrees with the Coq model triggers these predicates on fresh inputs of its '
                '(dimension, driver kind, flags) before no-failing-input-found')
    ctx.assumptions += ['identities evaluated on float64 outputs at 1e-10 relative to the total mass (observed <= 1e-14 on the unchanged tree)',
                        'isolated-subset comparison uses a single time step (the property says "with the same time steps")',
                        'argument types: only types the unchanged library accepts are compared (table and how it was established: harness/props/c04_types.py); a variant marked "maybe" '
                        '(0-d arrays for the numeric arguments) may raise, and is compared with the canonical call only when it runs; numpy.float32 scalars and densities of a dtype other '
                        'than native float64 are not generated (the unchanged library computes differently / reads the buffer as raw doubles)']
    c02_translate.obligations(ctx, tag='C04')
    rng = ctx.rng
    cases = []
    # ---- (1) per-sweep mass balance on the kernels
    sweeps = [c for c in c02.gen_kernel_cases(ctx, kinds=('kernel',)) if not c['delj'] or rng.random() < 0.5]
    for c in sweeps:
        c['kind'] = 'sweepmass'
        # half of the grids must contain exact 0/1 end points so that corner lines exist: already the case for ~75%
        cases.append(c)
    # ---- (2) mutation influx
    injects = []
    for d in range(1, 6):
        for rep in range(ctx.pick(2, 150)):
            n = rng.randint(3, 5) if d >= 4 else rng.randint(4, 8)
            g = numgen.grid(rng, n)
            fr = [rng.random() < 0.3 for _ in range(d)]; nm = [rng.random() < 0.3 if d == 2 else False for _ in range(d)]
            if d == 1:
                fr = [False]
            c = {'kind': 'inject', 'shape': [n] * d, 'grid': g, 'phi': numgen.density(rng, n ** d), 'dt': numgen.logdy(rng, 1e-5, 1e-1),
                 'theta0': lib.dyadic(rng, 0.25, 4, 4), 'frozen': fr, 'nomut': nm}
            injects.append(c); cases.append(c)
    # the same influx identity with the density (and the grid) in every memory layout
    for d in range(2, 6):
        n = 3 if d == 5 else 4
        g = numgen.grid(rng, n)
        base = {'kind': 'inject', 'shape': [n] * d, 'grid': g, 'phi': numgen.density(rng, n ** d, kind='random'), 'dt': numgen.logdy(rng, 1e-5, 1e-1),
                'theta0': lib.dyadic(rng, 0.25, 4, 4), 'frozen': [a == 1 for a in range(d)], 'nomut': [a == 0 and d == 2 for a in range(d)]}
        for li, lay in enumerate(layouts(d)):
            c = dict(base, layout=lay, xlayout=XLAYOUTS[li % len(XLAYOUTS)])
            injects.append(c); cases.append(c)
    # ---- (3) frozen marginals through the public drivers (const and function paths)
    frozen_cases = []
    layout_clones = []
    # every non-empty proper frozen subset x both drivers (scalars -> precomputed-coefficient path, functions -> time-dependent path)
    # for 2 and 3 populations, every single frozen population for 4 and 5, on every run; random subsets on top
    plan = []
    for d in (2, 3):
        for r in range(1, d):
            for fzs in itertools.combinations(range(d), r):
                for md in (None, 'const'):
                    plan.append((d, set(fzs), md))
    for d in (4, 5):
        for f in range(d):
            plan.append((d, {f}, 'const'))
    for d in range(2, 6):
        for rep in range(ctx.pick(1, 200)):
            plan.append((d, None, 'rand'))
    for d, fz_plan, md_plan in plan:
        if True:
            n = {2: rng.randint(5, 8), 3: rng.randint(4, 6), 4: 4, 5: 3}[d]
            if d == 5 and not ctx.quick:
                n = rng.choice([3, 4])
            g = numgen.grid(rng, n, kind=rng.choice(['uniform', 'exp', 'quad', 'random']))
            pops = [numgen.pop(rng, d) for _ in range(d)]
            nf = rng.randint(1, d - 1)
            fz = set(rng.sample(range(d), nf)) if fz_plan is None else fz_plan
            distinct_pops(rng, pops, 0.1, 10)
            for i, p in enumerate(pops):
                others = [j for j in range(d) if j != i]
                p['ms'] = [0.0 if (i in fz or j in fz) else lib.dyadic(rng, 0, 4, 3) for j in others]
                p['frozen'] = i in fz
            tf = rng.choice([1 / 64, 1 / 256])
            mv = max(max(0.25 / p['nu'], sum(p['ms']), abs(p['gamma']) * 0.25) for p in pops)
            T = numgen.logdy(rng, 1.2 * tf / mv, 2.8 * tf / mv)
            mode = (rng.choice([None, 'const']) if d <= 3 else 'const') if md_plan == 'rand' else md_plan
            c = {'kind': 'driver', 'shape': [n] * d, 'grid': g, 'pops': pops, 'theta0': lib.dyadic(rng, 0.25, 4, 4), 'tf': tf, 'delj': False,
                 'T': T, 'phi': asym_density(rng, n, d), 'as_func': mode, 'theta_slope': 0.0, '_frozen': sorted(fz)}
            frozen_cases.append(c); cases.append(c)
            ctx.count('frozen d=%d layout=C-contiguous' % d)
            if md_plan == 'rand':
                continue
            # the SAME logical case with the density handed over in every other memory layout (the grid cycles through its own
            # layouts): all planned (d, frozen subset, driver) combinations, so that for every layout that stores the axes in another
            # order some frozen subset is not invariant under that order
            lays = layouts(d)
            if not ctx.quick:
                o = list(range(d)); rng.shuffle(o)
                if o != list(range(d)):
                    lays = lays + [{'name': 'transposed view, memory axis order %s' % ''.join(str(a + 1) for a in o), 'order': o, 'neg': [rng.randrange(d)]}]
            for li, lay in enumerate(lays):
                cl = dict(c, layout=lay, xlayout=XLAYOUTS[(li + len(frozen_cases)) % len(XLAYOUTS)])
                frozen_cases.append(cl); cases.append(cl); layout_clones.append(cl)
                ctx.count('frozen d=%d layout=%s' % (d, lay['name'].split(',')[0].split(' along')[0].split(' (')[0]))
    # ---- (4) isolated subsets: m = gamma = 0, one step
    iso = []
    for d in range(2, 6):
        allsub = [s for r in range(1, d) for s in itertools.combinations(range(d), r)]
        singles = [s for s in allsub if len(s) == 1]
        multi = [s for s in allsub if len(s) > 1]
        for mode in ((None, 'const') if d <= 3 else ('const',)):
            subsets = list(allsub)
            if ctx.quick or d == 5:
                subsets = rng.sample(subsets, min(len(subsets), 3 if ctx.quick else 8))
            # every single population on every run (any exchange of population axes moves one of them), and one larger subset
            subsets = subsets + [s for s in singles if s not in subsets]
            if multi and not any(len(s) > 1 for s in subsets):
                subsets.append(rng.choice(multi))
            n = {2: 6, 3: 5, 4: 4, 5: 3}[d]
            g = numgen.grid(rng, n, kind=rng.choice(['uniform', 'exp', 'quad']))
            pops = [numgen.pop(rng, d, mig=False, sel=False) for _ in range(d)]
            distinct_pops(rng, pops, 0.2, 5, sel=False)
            tf = 1 / 64
            dtmin = tf / max(0.25 / p['nu'] for p in pops)
            T = numgen.logdy(rng, 0.3 * dtmin, 0.9 * dtmin)     # a single step of length T in the joint AND in every stand-alone run
            theta0 = lib.dyadic(rng, 0.25, 4, 4)
            phi = asym_density(rng, n, d)
            joint = {'kind': 'driver', 'shape': [n] * d, 'grid': g, 'pops': pops, 'theta0': theta0, 'tf': tf, 'delj': False, 'T': T, 'phi': phi,
                     'as_func': mode, 'theta_slope': 0.0}
            cases.append(joint)
            joints = [joint]
            for li, lay in enumerate(layouts(d)):
                jl = dict(joint, layout=lay, xlayout=XLAYOUTS[(li + d) % len(XLAYOUTS)])
                cases.append(jl); joints.append(jl)
            for S in subsets:
                S = list(S)
                mphi = marginal_keep([n] * d, [g] * d, phi, S)
                sub_phi = [mphi[tuple(unflat([n] * len(S), j))] for j in range(n ** len(S))]
                sub = {'kind': 'driver', 'shape': [n] * len(S), 'grid': g, 'pops': [dict(pops[i], ms=[0.0] * (len(S) - 1)) for i in S], 'theta0': theta0,
                       'tf': tf, 'delj': False, 'T': T, 'phi': sub_phi, 'as_func': (mode if len(S) <= 3 else 'const'), 'theta_slope': 0.0}
                if len(S) == 1:
                    sub['pops'][0]['beta'] = 1.0
                cases.append(sub)
                # every layout of the joint run against the stand-alone run
                for jl in joints:
                    iso.append((jl, S, sub))
                    ctx.count('isolated d=%d |S|=%d joint layout=%s' % (d, len(S), 'C-contiguous' if jl is joint else 'other'))
                # and the stand-alone run in other layouts against the C-contiguous joint run
                sl = layouts(len(S))
                for li in range(len(sl) if not ctx.quick else min(len(sl), 4)):
                    lay = sl[(li * 3 + d + len(iso)) % len(sl)] if ctx.quick else sl[li]
                    subl = dict(sub, layout=lay, xlayout=XLAYOUTS[(li + 1) % len(XLAYOUTS)])
                    cases.append(subl)
                    iso.append((joint, S, subl))
    # ---- (5) rejection of frozen + migration
    rejects = []
    for d in range(2, 6):
        pairs = [(f, i, j) for f in range(d) for i in range(d) for j in range(d) if i != j and f in (i, j)]
        if ctx.quick:
            pairs = rng.sample(pairs, min(len(pairs), 6))
        for f, i, j in pairs:
            c = {'kind': 'reject', 'shape': [3] * d, 'grid': [0.0, 0.5, 1.0], 'frozen': f, 'i': i, 'j': j, 'm': lib.dyadic(rng, 0.125, 4, 3), 'T': 0.01,
                 'as_func': False}
            rejects.append(c); cases.append(c)
    # ---- (6) remove / filter
    removes = []
    for d in range(2, 6):
        for rep in range(ctx.pick(2, 120)):
            n = rng.randint(3, 5)
            g = numgen.grid(rng, n)
            phi = numgen.density(rng, n ** d, kind='random')
            if rng.random() < 0.5:
                c = {'kind': 'remove', 'op': 'remove_pop', 'shape': [n] * d, 'grid': g, 'phi': phi, 'k': rng.randint(1, d)}
            else:
                keep = sorted(rng.sample(range(1, d + 1), rng.randint(1, d - 1)))
                if rng.random() < 0.3:
                    keep = keep[::-1]        # order of tokeep must not matter for filter_pops (it never reorders)
                c = {'kind': 'remove', 'op': 'filter_pops', 'shape': [n] * d, 'grid': g, 'phi': phi, 'keep': keep}
            removes.append(c); cases.append(c)
        # every memory layout of the density, with remove_pop and filter_pops each (the grid cycles through its own layouts)
        n = 3 if d == 5 else 4
        g = numgen.grid(rng, n)
        phi = asym_density(rng, n, d)
        for li, lay in enumerate(layouts(d)):
            keep = sorted(rng.sample(range(1, d + 1), rng.randint(1, d - 1)))
            for c in ({'kind': 'remove', 'op': 'remove_pop', 'shape': [n] * d, 'grid': g, 'phi': phi, 'k': 1 + (li % d)},
                      {'kind': 'remove', 'op': 'filter_pops', 'shape': [n] * d, 'grid': g, 'phi': phi, 'keep': keep}):
                c['layout'] = lay; c['xlayout'] = XLAYOUTS[(li + d) % len(XLAYOUTS)]
                removes.append(c); cases.append(c)
    # ---- (7) in-library pipelines: PhiManip.reorder_pops / remove_pop / filter_pops feeding an integrator (and back).  Expectations are
    # computed on the logical content (transpose_flat / trapezoid marginal); '_eq' is the driver case the integrate step amounts to.
    pipes_frozen, pipes_iso, pipes_back = [], [], []
    def reorders(d):
        ident = list(range(1, d + 1))
        out = []
        for o in (ident[::-1], ident[1:] + ident[:1], [2, 1] + ident[2:], ident[:-2] + [d, d - 1]):
            if o != ident and o not in out:
                out.append(o)
        o = list(ident); rng.shuffle(o)
        if o != ident and o not in out:
            out.append(o)
        return out
    def driver_fields(d, fz, mode, n, iso_=False):
        pops = [numgen.pop(rng, d, mig=not iso_, sel=not iso_) for _ in range(d)]
        if iso_:
            distinct_pops(rng, pops, 0.2, 5, sel=False)
            tf = 1 / 64
            dtmin = tf / max(0.25 / p['nu'] for p in pops)
            T = numgen.logdy(rng, 0.3 * dtmin, 0.9 * dtmin)
        else:
            distinct_pops(rng, pops, 0.1, 10)
            for i, p in enumerate(pops):
                others = [j for j in range(d) if j != i]
                p['ms'] = [0.0 if (i in fz or j in fz) else lib.dyadic(rng, 0, 4, 3) for j in others]
                p['frozen'] = i in fz
            tf = rng.choice([1 / 64, 1 / 256])
            mv = max(max(0.25 / p['nu'], sum(p['ms']), abs(p['gamma']) * 0.25) for p in pops)
            T = numgen.logdy(rng, 1.2 * tf / mv, 2.8 * tf / mv)
        return {'pops': pops, 'theta0': lib.dyadic(rng, 0.25, 4, 4), 'tf': tf, 'delj': False, 'T': T, 'as_func': mode, 'theta_slope': 0.0}
    for d in range(2, 6):
        n = {2: 6, 3: 5, 4: 4, 5: 3}[d]
        modes = (None, 'const') if d <= 3 else ('const',)
        inlays = [None] + layouts(d)
        ros = reorders(d)
        # (7a) reorder_pops -> integrator with one frozen population (new numbering) -> frozen marginal
        for oi, order in enumerate(ros):
            newaxes = [x - 1 for x in order]
            for f in range(d):
                for mode in modes:
                    g = numgen.grid(rng, n, kind=rng.choice(['uniform', 'exp', 'quad', 'random']))
                    phi = asym_density(rng, n, d)
                    drv = driver_fields(d, {f}, mode, n)
                    # most pipelines start from a fresh C-contiguous density (what the library's own models do); every fourth from another layout
                    lay = inlays[(oi + f) % len(inlays)] if (oi + f) % 4 == 3 else None
                    c = {'kind': 'pipe', 'shape': [n] * d, 'grid': g, 'phi': phi, 'layout': lay,
                         'steps': [{'op': 'reorder_pops', 'neworder': order}, dict(drv, op='integrate')]}
                    eshape, ephi = transpose_flat([n] * d, phi, newaxes)
                    c['_eq'] = dict(drv, kind='driver', shape=eshape, grid=g, phi=ephi); c['_frozen'] = [f]
                    c['_what'] = 'reorder_pops(%s) -> %s' % (order, ['', 'one_pop', 'two_pops', 'three_pops', 'four_pops', 'five_pops'][d])
                    pipes_frozen.append(c); cases.append(c)
        # (7b) reorder_pops -> isolated populations, one step -> every single population against one_pop alone
        for mode in modes:
            order = rng.choice(ros); newaxes = [x - 1 for x in order]
            g = numgen.grid(rng, n, kind=rng.choice(['uniform', 'exp', 'quad']))
            phi = asym_density(rng, n, d)
            drv = driver_fields(d, set(), mode, n, iso_=True)
            c = {'kind': 'pipe', 'shape': [n] * d, 'grid': g, 'phi': phi, 'layout': None,
                 'steps': [{'op': 'reorder_pops', 'neworder': order}, dict(drv, op='integrate')]}
            eshape, ephi = transpose_flat([n] * d, phi, newaxes)
            c['_eq'] = dict(drv, kind='driver', shape=eshape, grid=g, phi=ephi)
            c['_what'] = 'reorder_pops(%s) -> %s' % (order, ['', 'one_pop', 'two_pops', 'three_pops', 'four_pops', 'five_pops'][d])
            cases.append(c)
            for i in range(d):
                _, sp = flat_marginal(eshape, [g] * d, ephi, [i])
                sub = dict(drv, kind='driver', shape=[n], grid=g, pops=[dict(drv['pops'][i], ms=[], beta=1.0)], phi=sp)
                cases.append(sub)
                pipes_iso.append((c, [i], sub))
        # (7c) remove_pop / filter_pops -> integrator on the remaining (>= 2) populations with one frozen -> frozen marginal
        if d >= 3:
            plans = [('remove_pop', k) for k in range(1, d + 1)]
            for r in range(2, d):
                ks = list(itertools.combinations(range(1, d + 1), r))
                plans += [('filter_pops', list(k)) for k in (ks if not ctx.quick else rng.sample(ks, min(len(ks), 2)))]
            for pi, (op, arg) in enumerate(plans):
                keep = [a for a in range(d) if a != arg - 1] if op == 'remove_pop' else sorted(x - 1 for x in arg)
                dd = len(keep)
                mode = modes[pi % len(modes)] if dd <= 3 else 'const'
                g = numgen.grid(rng, n, kind=rng.choice(['uniform', 'exp', 'quad', 'random']))
                phi = asym_density(rng, n, d)
                f = pi % dd
                drv = driver_fields(dd, {f}, mode, n)
                lay = inlays[pi % len(inlays)]
                st = {'op': op, 'k': arg} if op == 'remove_pop' else {'op': op, 'keep': (arg if pi % 3 else arg[::-1])}
                c = {'kind': 'pipe', 'shape': [n] * d, 'grid': g, 'phi': phi, 'layout': lay, 'xlayout': XLAYOUTS[pi % len(XLAYOUTS)],
                     'steps': [st, dict(drv, op='integrate')]}
                eshape, ephi = flat_marginal([n] * d, [g] * d, phi, keep)
                c['_eq'] = dict(drv, kind='driver', shape=eshape, grid=g, phi=ephi); c['_frozen'] = [f]
                c['_what'] = '%s(%s) -> %s' % (op, arg, ['', 'one_pop', 'two_pops', 'three_pops', 'four_pops', 'five_pops'][dd])
                pipes_frozen.append(c); cases.append(c)
        # (7d) integrator with a frozen population -> reorder_pops -> filter_pops(that population): the library's own marginal of the
        # frozen population is the input's
        for mode in modes:
            for f in range(d):
                order = ros[(f + (0 if mode is None else 1)) % len(ros)]
                pos = [x - 1 for x in order].index(f) + 1
                g = numgen.grid(rng, n, kind=rng.choice(['uniform', 'exp', 'quad', 'random']))
                phi = asym_density(rng, n, d)
                drv = driver_fields(d, {f}, mode, n)
                c = {'kind': 'pipe', 'shape': [n] * d, 'grid': g, 'phi': phi, 'layout': inlays[(f + d) % len(inlays)] if f % 2 else None,
                     'steps': [dict(drv, op='integrate'), {'op': 'reorder_pops', 'neworder': order}, {'op': 'filter_pops', 'keep': [pos]}]}
                c['_frozen'] = [f]
                c['_what'] = '%s -> reorder_pops(%s) -> filter_pops([%d])' % (['', 'one_pop', 'two_pops', 'three_pops', 'four_pops', 'five_pops'][d], order, pos)
                pipes_back.append(c); cases.append(c)
    # ---- (8) argument types the API accepts (harness/props/c04_types.py): same values, other Python / numpy types
    typed_flags = c04_types.flag_cases(ctx, rng)
    typed_nomut = c04_types.nomut_cases(ctx, rng)
    typed_numbers = c04_types.number_cases(ctx, rng)
    typed_containers = c04_types.container_cases(ctx, rng)
    typed_search = []
    inject_search = []
    t_inj = c04_types.inject_cases(ctx, rng)
    injects += t_inj; cases += t_inj
    t_rej = c04_types.reject_cases(ctx, rng)
    rejects += t_rej; cases += t_rej
    t_rem = c04_types.remove_cases(ctx, rng)
    removes += t_rem; cases += t_rem
    # targeted search: the source obligation of an influx function broke -> every flag (value, type) assignment for that dimension
    for d in range(2, 6):
        broken_ob = [o for o in ctx.obligations if o['name'].startswith('translate _inject_mutations_%dD' % d) and not o['ok']]
        if broken_ob:
            ctx.count('targeted flag search d=%d' % d)
            sc = c04_types.search_inject(ctx, rng, d)
            inject_search.append(sc); cases.append(sc)
            typed_search += c04_types.search_drivers(ctx, rng, d)
    typed = typed_flags + typed_nomut + typed_numbers + typed_containers + typed_search
    seen_canon = set()
    for v, canon, desc in typed:
        if id(canon) not in seen_canon:
            seen_canon.add(id(canon)); cases.append(canon)
        v['_desc'] = desc
        cases.append(v)
    # ---- (9) feature interactions (harness/props/c04_cross.py): every flag assignment x every driver, d = 1..5, on every run
    cross = c04_cross.gen(ctx, rng, reps=ctx.pick(1, 2), bigger=not ctx.quick)
    cases += c04_cross.cases_of(cross)
    for i, c in enumerate(cases):
        c['id'] = i
    res = lib.run_impl('c04_impl.py', [{k: v for k, v in c.items() if not k.startswith('_') and k != 'pop'} | ({'pop': c['pop']} if 'pop' in c else {}) for c in cases], timeout=3000)
    byid = {r['id']: r for r in res}
    impl_errors = []
    for c in cases:
        r = byid[c['id']]
        if 'error' in r and c.get('_accept') == 'maybe':
            # a type the unchanged library rejects (or treats differently): nothing to compare
            ctx.count('typed variant not accepted by the library (allowed): ' + r['error'].split(':')[0])
        elif 'error' in r:
            ctx.obligation('case %d (%s) runs' % (c['id'], c['kind']), False, 'predicate', r['error'])
            impl_errors.append((c, r['error']))
        else:
            c['_out'] = r['res']
            if 'shape' in r:
                c['_oshape'] = r['shape']
            if 'trace' in r:
                c['_trace'] = r['trace']

    nviol = {}
    def pred(name, ok, what, data, sig=None, nontriv=True, key=None):
        ctx.case(signature=sig if nontriv else None, sample=dict(predicate=name, **{k: v for k, v in data.items() if k in ('d', 'k', 'dev', 'S', 'frozen')}) if ctx.evaluations % 23 == 0 else None)
        ctx.count(name)
        ctx.obligation(name + ' ' + str(sig)[:60], ok, 'predicate', '' if ok else what)
        if not ok:
            # every failing evaluation fails its obligation; replays are written for the first two per (predicate, dimension) so that the
            # ten reported violations span the predicates and dimensions instead of one family of layouts
            vk = (name, data.get('d'))
            nviol[vk] = nviol.get(vk, 0) + 1
            if nviol[vk] <= 2 or key is not None:
                ctx.violation(what, data=data, key=key)

    # (1) sweeps: mass' = mass - dt (W0 out0 phi'[corner0] + W1 out1 phi'[corner1])
    for c in sweeps:
        if '_out' not in c:
            continue
        shape, grids, k, p = c['shape'], c['grids'], c['k'], c['pop']
        d = len(shape)
        m0 = mass(shape, grids, c['phi']); m1 = mass(shape, grids, c['_out'])
        gk = grids[k]
        loss = 0.0
        ws = [trap_w(g) for g in grids]
        for corner, val in ((0, 0.0), (-1, 1.0)):
            if all(grids[j][corner] == val for j in range(d) if j != k):
                os_ = [val] * (d - 1)
                Wo = 1.0
                for j in range(d):
                    if j != k:
                        Wo *= ws[j][corner]
                # the corner LINE: other indices at `corner`; its first / last point
                def at(i):
                    ix = [(shape[j] - 1 if corner == -1 else 0) for j in range(d)]; ix[k] = i
                    f = 0
                    for j in range(d):
                        f = f * shape[j] + ix[j]
                    return c['_out'][f]
                if corner == 0:
                    Mf = Mfun(p, os_, gk[0])
                    if Mf <= 0:
                        loss += Wo * (0.5 / p['nu'] - Mf) * at(0)
                else:
                    Ml = Mfun(p, os_, gk[-1])
                    if Ml >= 0:
                        loss += Wo * (0.5 / p['nu'] + Ml) * at(shape[k] - 1)
        want = m0 - c['dt'] * loss
        scale = max(abs(m0), abs(m1), 1e-300)
        dev = abs(m1 - want) / scale
        tol = 1e-10 if not c['delj'] else 1e-9
        pred('sweep mass balance', dev <= tol,
             'implicit_%dD%s: total mass after the sweep is not mass before minus the outflow at the two corner lines (rel dev %.3g)' % (d, 'xyzab'[k], dev),
             {'d': d, 'k': k, 'dev': dev, 'case': {a: b for a, b in c.items() if not a.startswith('_')}, 'mass_before': m0, 'mass_after': m1, 'expected': want},
             sig=('sweep', c['id']), nontriv=(p['gamma'] != 0 or any(p['ms'])))
    # (2) influx
    for c in injects:
        if '_out' not in c:
            continue
        d = len(c['shape']); g = c['grid']; n = c['shape'][0]
        diff = [a - b for a, b in zip(c['_out'], c['phi'])]
        want = {}
        for k in range(d):
            if c['frozen'][k] or c['nomut'][k]:
                continue
            amt = c['dt'] / g[1] * c['theta0'] / 2 * 2 ** d / ((g[2] - g[0]) * g[1] ** (d - 1))
            f = n ** (d - 1 - k)
            want[f] = amt
        ok = True; worst = 0.0
        for j, dv in enumerate(diff):
            w = want.get(j, 0.0)
            e = abs(dv - w) / max(abs(w), abs(c['phi'][j]), 1e-300)
            worst = max(worst, e)
            if e > 1e-12:
                ok = False
        tyt = '' if not c.get('ftypes') else '; frozen flags %s passed as %s%s' % (c['frozen'], c['ftypes'], '' if not c.get('ntypes') else ', nomut flags %s as %s' % (c['nomut'], c['ntypes']))
        pred('mutation influx', ok, '_inject_mutations_%dD [density: %s%s]: density changed by something other than dt*theta0/2 (trapezoid-normalised) at the first interior point of each active population, or a frozen/nomut population received mutations (rel dev %.3g)' % (d, lname(c), tyt, worst),
             {'d': d, 'dev': worst, 'case': c, 'frozen': c['frozen']}, sig=('inject', c['id']))
    # (3) frozen marginals (direct driver calls in every layout, and the pipelines that end in an integrator)
    def pub(c):
        return {a: b for a, b in c.items() if not a.startswith('_')}
    def frozen_pred(c, eq, what, tag):
        """eq: the (logical) driver case whose frozen populations are c['_frozen']; c['_out']: the density after it"""
        d = len(eq['shape']); n = eq['shape'][0]; g = eq['grid']
        if len(c['_out']) != n ** d or c.get('_oshape', eq['shape']) != eq['shape']:
            pred('frozen marginal', False, '%s: result has shape %s, expected %s' % (what, c.get('_oshape'), eq['shape']),
                 {'d': d, 'frozen': c['_frozen'], 'case': pub(c)}, sig=(tag, c['id'], 'shape'))
            return
        for f in c['_frozen']:
            mb = marginal_keep(eq['shape'], [g] * d, eq['phi'], [f]); ma = marginal_keep(eq['shape'], [g] * d, c['_out'], [f])
            scale = max(abs(v) for v in mb.values())
            dev = max(abs(ma[(i,)] - mb[(i,)]) for i in range(1, n - 1)) / scale if n > 2 else 0.0
            data = {'d': d, 'frozen': c['_frozen'], 'dev': dev, 'layout': lname(c), 'case': pub(c), 'marginal_before': list(mb.values()), 'marginal_after': list(ma.values())}
            if '_trace' in c:
                data['handed_on'] = c['_trace']
            pred('frozen marginal', dev <= 1e-10,
                 "%s: the frozen population %d's marginal density changed at an interior frequency (rel dev %.3g) while the others evolved" % (what, f + 1, dev),
                 data, sig=(tag, c['id'], f))
    for c in frozen_cases:
        if '_out' not in c:
            continue
        frozen_pred(c, c, '%d populations [density: %s]' % (len(c['shape']), lname(c)), 'frozen')
    for c in pipes_frozen:
        if '_out' not in c:
            continue
        frozen_pred(c, c['_eq'], 'pipeline %s [input density: %s]' % (c['_what'], lname(c)), 'pipe-frozen')
    for c in pipes_back:
        if '_out' not in c:
            continue
        d = len(c['shape']); n = c['shape'][0]; g = c['grid']; f = c['_frozen'][0]
        _, mb = flat_marginal(c['shape'], [g] * d, c['phi'], [f])
        out = c['_out']
        scale = max(abs(v) for v in mb)
        dev = max(abs(out[i] - mb[i]) for i in range(1, n - 1)) / scale if len(out) == n and c.get('_oshape') == [n] else float('inf')
        pred('frozen marginal', dev <= 1e-10,
             "pipeline %s [input density: %s]: the frozen population %d's marginal, extracted by the library itself, is not the input's at an interior frequency (rel dev %.3g)" % (c['_what'], lname(c), f + 1, dev),
             {'d': d, 'frozen': c['_frozen'], 'dev': dev, 'layout': lname(c), 'case': pub(c), 'marginal_before': mb, 'marginal_after': out, 'handed_on': c.get('_trace')},
             sig=('pipe-back', c['id'], f))
    # (4) isolated subsets
    for joint, S, sub in iso + pipes_iso:
        if '_out' not in joint or '_out' not in sub:
            continue
        jeq = joint.get('_eq', joint)
        d = len(jeq['shape']); n = jeq['shape'][0]; g = jeq['grid']
        if len(joint['_out']) != n ** d or len(sub['_out']) != n ** len(S):
            pred('isolated subset marginal', False, 'result sizes %d / %d do not match the input shapes' % (len(joint['_out']), len(sub['_out'])),
                 {'d': d, 'S': S, 'joint': pub(joint), 'alone': pub(sub)}, sig=('iso', joint['id'], sub['id'], tuple(S)))
            continue
        mj = marginal_keep(jeq['shape'], [g] * d, joint['_out'], S)
        scale = max(abs(v) for v in sub['_out']) or 1.0
        dev = 0.0
        for j, v in enumerate(sub['_out']):
            ix = tuple(unflat([n] * len(S), j))
            if all(i == 0 for i in ix) or all(i == n - 1 for i in ix):
                continue
            dev = max(dev, abs(mj[ix] - v) / scale)
        what = ('%d isolated populations' % d) if '_what' not in joint else ('pipeline %s, isolated populations' % joint['_what'])
        pred('isolated subset marginal', dev <= 1e-10,
             '%s (no migration, no selection) [joint density: %s; stand-alone density: %s]: the marginal density of populations %s after a joint step differs from integrating that subset alone with the same step (rel dev %.3g)' % (what, lname(joint), lname(sub), [s + 1 for s in S], dev),
             {'d': d, 'S': S, 'dev': dev, 'layout_joint': lname(joint), 'layout_alone': lname(sub), 'joint': pub(joint), 'alone': pub(sub)},
             sig=('iso', joint['id'], sub['id'], tuple(S)))
    # (5) rejection
    for c in rejects:
        if '_out' not in c:
            continue
        pred('frozen+migration rejected', c['_out'] == 'ValueError',
             '%d populations: population %d frozen%s with migration m%d%d=%g%s was accepted' % (len(c['shape']), c['frozen'] + 1, (' (flag passed as %s)' % c['ftype']) if c.get('ftype') else '',
                                                                                                 c['i'] + 1, c['j'] + 1, c['m'], (' (passed as %s)' % c['mtype']) if c.get('mtype') else ''),
             {'d': len(c['shape']), 'case': c}, sig=('reject', len(c['shape']), c['frozen'], c['i'], c['j'], c.get('ftype'), c.get('mtype')))
    # (6) remove / filter
    for c in removes:
        if '_out' not in c:
            continue
        d = len(c['shape']); g = c['grid']
        keep = [j for j in range(d) if j != c['k'] - 1] if c['op'] == 'remove_pop' else sorted(x - 1 for x in c['keep'])
        mk = marginal_keep(c['shape'], [g] * d, c['phi'], keep)
        n = c['shape'][0]
        want = [mk[tuple(unflat([n] * len(keep), j))] for j in range(n ** len(keep))]
        scale = max(abs(v) for v in want) or 1.0
        dev = max(abs(a - b) for a, b in zip(want, c['_out'])) / scale if len(want) == len(c['_out']) else float('inf')
        pred('remove/filter is trapezoid marginalisation', dev <= 1e-12,
             '%s on a %d-D density [%s%s] is not the trapezoid marginal over the dropped populations in the original order (rel dev %.3g)' % (
                 c['op'], d, lname(c), ''.join('; %s passed as %s' % (k[:-5], c[k]) for k in ('grid_type', 'phi_type') if c.get(k)), dev),
             {'d': d, 'dev': dev, 'layout': lname(c), 'case': {a: b for a, b in c.items() if not a.startswith('_')}}, sig=('remove', c['id']))
    # (8) argument types: the property predicates on the variant itself, and the same result as the call in canonical types
    for v, canon, desc in typed:
        if '_out' not in v:
            continue
        d = len(v['shape']); n = v['shape'][0]
        if v['_frozen'] and d >= 2:
            frozen_pred(v, v, desc, 'typed-frozen')
        elif v['_frozen'] and d == 1:
            sc_ = max(abs(x) for x in v['phi']) or 1.0
            dev = max(abs(a - b) for a, b in zip(v['_out'], v['phi'])) / sc_ if len(v['_out']) == len(v['phi']) else float('inf')
            pred('frozen marginal', dev == 0.0, '%s: the frozen population changed (rel dev %.3g)' % (desc, dev),
                 {'d': 1, 'frozen': [0], 'dev': dev, 'case': pub(v)}, sig=('typed-frozen', v['id'], 0))
        if '_out' not in canon:
            continue
        sc_ = max(abs(x) for x in canon['_out']) or 1.0
        dev = max(abs(a - b) for a, b in zip(v['_out'], canon['_out'])) / sc_ if len(v['_out']) == len(canon['_out']) else float('inf')
        if not dev <= c04_types.TOL_SAME:
            dev = float('inf') if dev != dev else dev
        pred('argument types: same result as with python bools / floats / float64 arrays', dev <= c04_types.TOL_SAME,
             '%s: the result differs from the same call with the values given in the canonical types (rel dev %.3g of max|phi|)' % (desc, dev),
             {'d': d, 'dev': dev, 'frozen': v['_frozen'], 'types': v['_types'], 'case': pub(v), 'canonical_case': pub(canon), 'result': v['_out'], 'canonical_result': canon['_out']},
             sig=('types', v['id']))
    # (9) feature interactions: the property predicates for every (dimension, flags, driver)
    ncross_bad = c04_cross.evaluate(ctx, cross, pred)
    ctx.count('flag x driver entries evaluated', len(cross))
    if ncross_bad:
        ctx.count('flag x driver failing predicate evaluations', ncross_bad)
    # targeted search on _inject_mutations_dD: every (value, type) assignment of the flags
    for sc in inject_search:
        if '_out' not in sc:
            continue
        d = len(sc['shape']); nbad = 0
        for (vals, types), got in zip(sc['combos'], sc['_out']):
            want = c04_types.inject_expected(sc, vals)
            if isinstance(got, dict):
                ok = False; worst = float('inf'); why = got['error']
            else:
                gd = {j: dv for j, dv in got}
                worst = 0.0
                for j in set(gd) | set(want):
                    w = want.get(j, 0.0)
                    worst = max(worst, abs(gd.get(j, 0.0) - w) / max(abs(w), abs(sc['phi'][j]), 1e-300))
                ok = worst <= 1e-12; why = 'rel dev %.3g' % worst
            ctx.count('targeted flag search: _inject_mutations_%dD evaluations' % d)
            if ok:
                continue
            nbad += 1
            if nbad <= 4:
                one = {k: x for k, x in sc.items() if k not in ('combos', 'kind') and not k.startswith('_')}
                one.update(kind='inject', frozen=vals[:d], nomut=(vals[d:] if d == 2 else [False] * d), ftypes=types[:d])
                if d == 2:
                    one['ntypes'] = types[d:]
                pred('mutation influx', False, '_inject_mutations_%dD with flags %s passed as %s: density changed by something other than the influx into the active populations, or a frozen/nomut population received mutations (%s) [targeted search after the source obligation broke]' % (d, vals, types, why),
                     {'d': d, 'dev': worst, 'case': one, 'frozen': vals[:d]}, sig=('inject-search', sc['id'], tuple(vals), tuple(types)))
        if nbad:
            ctx.count('targeted flag search: failing (value, type) assignments d=%d' % d, nbad)
        ctx.case(signature=('inject-search', sc['id']))
    # cases the implementation refused to run (each one already failed its obligation above): replays for the first two per (kind, dimension,
    # exception), after the predicate violations so that failing inputs of the property proper are reported first
    nerr = {}
    for c, err in impl_errors:
        ek = (c['kind'], len(c['shape']), err.split(':')[0])
        nerr[ek] = nerr.get(ek, 0) + 1
        if nerr[ek] > 2:
            continue
        desc = c.get('_desc')
        if desc is None and c['kind'] == 'inject' and c.get('ftypes'):
            desc = '_inject_mutations_%dD, frozen flags %s passed as %s%s' % (len(c['shape']), c['frozen'], c['ftypes'], '' if not c.get('ntypes') else ', nomut flags %s as %s' % (c['nomut'], c['ntypes']))
        if desc is None and (c.get('grid_type') or c.get('phi_type')):
            desc = '%s, %s' % (c.get('op', c['kind']), ', '.join('%s passed as %s' % (k[:-5], c[k]) for k in ('grid_type', 'phi_type') if c.get(k)))
        ctx.violation('%s case%s failed in the implementation: %s' % (c['kind'], (' [%s]' % desc) if desc else '', err),
                      data={'case': {k: v for k, v in c.items() if not k.startswith('_')}})
    # ---- correspondence of the frozen-flag drivers against the model
    # (the model knows nothing about memory: whatever layout the density arrives in, and whichever PhiManip step produced it, the real
    # code must reproduce the model on the logical content)
    plain = [c for c in frozen_cases if '_out' in c and not c.get('layout')][:ctx.pick(6, 120)]
    extra = []
    for d in range(2, 6):
        cl = [c for c in layout_clones if '_out' in c and len(c['shape']) == d and layout_perm(c['layout'], d) != list(range(d))]
        other = [c for c in layout_clones if '_out' in c and len(c['shape']) == d and layout_perm(c['layout'], d) == list(range(d))]
        pf = [c for c in pipes_frozen if '_out' in c and len(c['_eq']['shape']) == d and len(c['_out']) == len(c['_eq']['phi'])]
        k = ctx.pick(1, 6)
        # rotate through the layouts from run to run and, within a run, across dimensions
        for pool, kk in ((cl, k), (other, k), (pf, k)):
            if pool:
                st = (ctx.rng.randrange(len(pool)))
                extra += [pool[(st + 7 * i) % len(pool)] for i in range(min(kk, len(pool)))]
    # argument types: one flag variant per dimension (rotating through types / patterns from run to run) and two canonical nomut cases
    for d in range(2, 6):
        pool = [v for v, _, _ in typed_flags if '_out' in v and len(v['shape']) == d]
        if pool:
            st = ctx.rng.randrange(len(pool))
            extra += [pool[(st + 37 * i) % len(pool)] for i in range(ctx.pick(1, 4))]          # 37 is coprime to the pool sizes' small factors: distinct picks
    pool = [cn for cn in {id(cn): cn for _, cn, _ in typed_nomut}.values() if '_out' in cn]
    if pool:
        st = ctx.rng.randrange(len(pool))
        extra += [pool[(st + 3 * i) % len(pool)] for i in range(min(2, len(pool)))]
    sel = list({c['id']: c for c in plain + extra}.values())
    def eqcase(c):
        return c.get('_eq', c)
    def describe(c):
        eq = eqcase(c)
        if '_what' in c:
            return 'pipeline %s [input density: %s] (frozen %s)' % (c['_what'], lname(c), c['_frozen'])
        return '%d pops, frozen %s, density: %s%s' % (len(eq['shape']), c['_frozen'], lname(c), ('; ' + c['_types'] + ('; nomut %s' % c['_nomut'] if '_nomut' in c else '')) if '_types' in c else '')
    exprs = [(c['id'], c02.coq_dcase(eqcase(c), c['_out'])) for c in sel]
    results = ctx.coq_cases('driver', HEADER, exprs, '(dcheck %s)' % q(TOL), 'rel 1e-09 of max|phi|', shard=ctx.pick(6, 16), timeout=1800)
    searched = {}
    next_id = len(cases)
    for c in sel:
        rr = results.get(c['id'])
        ok = rr is not None and rr[0]
        ctx.obligation('frozen-flag driver case %d (%s) = model' % (c['id'], describe(c)), ok, 'correspondence', '' if ok else 'coq result %r' % (rr,))
        if not ok:
            # targeted search: the property predicates on fresh inputs of this (dimension, driver kind, frozen / nomut flags), every driver
            # variant of that kind; a failing input found there is the violation, only otherwise no-failing-input-found
            eq = eqcase(c)
            gk = (len(eq['shape']), eq.get('as_func'), tuple(i for i, p in enumerate(eq['pops']) if p.get('frozen')),
                  tuple(i for i, p in enumerate(eq['pops']) if p.get('nomut')))
            if gk not in searched and len(searched) < 6:
                nent, nbad = c04_cross.targeted(ctx, ctx.rng, pred, gk[0], gk[1], set(gk[2]), set(gk[3]), next_id)
                next_id += 20 * nent + 100
                searched[gk] = nbad
            if searched.get(gk):
                continue
            ctx.violation('driver case (%s) differs from the model (coq %r)' % (describe(c), rr),
                          data={'case': {x: y for x, y in c.items() if not x.startswith('_')}, 'layout': lname(c), 'impl': c['_out']}, no_input=True,
                          broken='correspondence of the frozen-flag drivers with the Coq model (Model/SchemeCheck.v dcheck): the mass-balance theorems are no longer shown to apply to this code; the predicates on the implementation found no failing input unless reported separately')
