"""C04 — mass leaves only via fixation/loss: frozen and isolated marginals are exact.

Static theorems: coq/theories/Props/C04.v (dfactor = 1/trapezoid weight, line mass balance by telescoping,
outflow only on corner lines, conservation off the corner lines, zero-duration identity).
Per run: shared translator obligations, correspondence of the drivers with frozen / nomut flags against the model,
and the property predicates evaluated on the implementation: per-sweep mass balance of every kernel (only the two
corner lines lose mass, by exactly dt*out*phi'), mutation influx, frozen marginals, isolated-subset marginals,
no influx into frozen/nomut populations, frozen+migration rejected, remove/filter = trapezoid marginalisation.
"""
import itertools, json, math
from fractions import Fraction
from harness import lib, numgen
from harness.lib import q
from harness.numgen import HEADER
from harness.props import c02, c02_translate

TOL = Fraction(1, 10 ** 9)

def trap_w(g):
    n = len(g)
    w = []
    for i in range(n):
        if i == 0:
            w.append((g[1] - g[0]) / 2)
        elif i == n - 1:
            w.append((g[-1] - g[-2]) / 2)
        else:
            w.append((g[i + 1] - g[i - 1]) / 2)
    return w

def unflat(shape, idx):
    out = []
    for n in reversed(shape):
        out.append(idx % n); idx //= n
    return out[::-1]

def mass(shape, grids, phi):
    ws = [trap_w(g) for g in grids]
    tot = 0.0
    for j, v in enumerate(phi):
        ix = unflat(shape, j)
        w = 1.0
        for a, i in enumerate(ix):
            w *= ws[a][i]
        tot += w * v
    return tot

def marginal_keep(shape, grids, phi, keep):
    """trapezoid-marginalise all axes not in keep; returns dict index-tuple(keep axes) -> value"""
    ws = [trap_w(g) for g in grids]
    out = {}
    for j, v in enumerate(phi):
        ix = unflat(shape, j)
        w = 1.0
        for a, i in enumerate(ix):
            if a not in keep:
                w *= ws[a][i]
        key = tuple(ix[a] for a in keep)
        out[key] = out.get(key, 0.0) + w * v
    return out

def Mfun(p, os, x):
    return sum(m * (o - x) for m, o in zip(p['ms'], os)) + p['gamma'] * 2 * (p['h'] + (1 - 2 * p['h']) * x) * x * (1 - x)

def run(ctx):
    ctx.rule = ('sweep cases = every (dimension, axis) kernel on unequal shapes with random grids/parameters (mass balance per sweep); driver cases = 2-5 '
                'populations with every admissible frozen subset, nomut flags (2-D), constants and functions of time; isolated-subset cases = no migration, '
                'no selection, one time step, every non-empty proper subset of populations; distinct = distinct parameter tuples; non-trivial = selection or migration present')
    ctx.assumptions += ['identities evaluated on float64 outputs at 1e-10 relative to the total mass (observed <= 1e-14 on the unchanged tree)',
                        'isolated-subset comparison uses a single time step (the property says "with the same time steps")']
    c02_translate.obligations(ctx, tag='C04')
    rng = ctx.rng
    cases = []
    # ---- (1) per-sweep mass balance on the kernels
    sweeps = [c for c in c02.gen_kernel_cases(ctx, kinds=('kernel',)) if not c['delj'] or rng.random() < 0.5]
    for c in sweeps:
        c['kind'] = 'sweepmass'
        # half of the grids must contain exact 0/1 end points so that corner lines exist: already the case for ~75%
        cases.append(c)
    # ---- (2) mutation influx
    injects = []
    for d in range(1, 6):
        for rep in range(ctx.pick(2, 150)):
            n = rng.randint(3, 5) if d >= 4 else rng.randint(4, 8)
            g = numgen.grid(rng, n)
            fr = [rng.random() < 0.3 for _ in range(d)]; nm = [rng.random() < 0.3 if d == 2 else False for _ in range(d)]
            if d == 1:
                fr = [False]
            c = {'kind': 'inject', 'shape': [n] * d, 'grid': g, 'phi': numgen.density(rng, n ** d), 'dt': numgen.logdy(rng, 1e-5, 1e-1),
                 'theta0': lib.dyadic(rng, 0.25, 4, 4), 'frozen': fr, 'nomut': nm}
            injects.append(c); cases.append(c)
    # ---- (3) frozen marginals through the public drivers (const and function paths)
    frozen_cases = []
    # every non-empty proper frozen subset x both drivers (scalars -> precomputed-coefficient path, functions -> time-dependent path)
    # for 2 and 3 populations, every single frozen population for 4 and 5, on every run; random subsets on top
    plan = []
    for d in (2, 3):
        for r in range(1, d):
            for fzs in itertools.combinations(range(d), r):
                for md in (None, 'const'):
                    plan.append((d, set(fzs), md))
    for d in (4, 5):
        for f in range(d):
            plan.append((d, {f}, 'const'))
    for d in range(2, 6):
        for rep in range(ctx.pick(1, 200)):
            plan.append((d, None, 'rand'))
    for d, fz_plan, md_plan in plan:
        if True:
            n = {2: rng.randint(5, 8), 3: rng.randint(4, 6), 4: 4, 5: 3}[d]
            if d == 5 and not ctx.quick:
                n = rng.choice([3, 4])
            g = numgen.grid(rng, n, kind=rng.choice(['uniform', 'exp', 'quad', 'random']))
            pops = [numgen.pop(rng, d) for _ in range(d)]
            nf = rng.randint(1, d - 1)
            fz = set(rng.sample(range(d), nf)) if fz_plan is None else fz_plan
            for i, p in enumerate(pops):
                p['nu'] = numgen.logdy(rng, 0.1, 10)
                p['gamma'] = lib.dyadic(rng, -8, 8, 3)
                p['h'] = rng.choice([0.5, 0.0, 1.0, 0.25])
                others = [j for j in range(d) if j != i]
                p['ms'] = [0.0 if (i in fz or j in fz) else lib.dyadic(rng, 0, 4, 3) for j in others]
                p['frozen'] = i in fz
            tf = rng.choice([1 / 64, 1 / 256])
            mv = max(max(0.25 / p['nu'], sum(p['ms']), abs(p['gamma']) * 0.25) for p in pops)
            T = numgen.logdy(rng, 1.2 * tf / mv, 2.8 * tf / mv)
            mode = (rng.choice([None, 'const']) if d <= 3 else 'const') if md_plan == 'rand' else md_plan
            c = {'kind': 'driver', 'shape': [n] * d, 'grid': g, 'pops': pops, 'theta0': lib.dyadic(rng, 0.25, 4, 4), 'tf': tf, 'delj': False,
                 'T': T, 'phi': numgen.density(rng, n ** d, kind='random'), 'as_func': mode, 'theta_slope': 0.0, '_frozen': sorted(fz)}
            frozen_cases.append(c); cases.append(c)
    # ---- (4) isolated subsets: m = gamma = 0, one step
    iso = []
    for d in range(2, 6):
        subsets = [s for r in range(1, d) for s in itertools.combinations(range(d), r)]
        if ctx.quick or d == 5:
            subsets = rng.sample(subsets, min(len(subsets), 3 if ctx.quick else 8))
        n = {2: 6, 3: 5, 4: 4, 5: 3}[d]
        g = numgen.grid(rng, n, kind=rng.choice(['uniform', 'exp', 'quad']))
        pops = [numgen.pop(rng, d, mig=False, sel=False) for _ in range(d)]
        for p in pops:
            p['nu'] = numgen.logdy(rng, 0.2, 5)
        tf = 1 / 64
        dtmin = tf / max(0.25 / p['nu'] for p in pops)
        T = numgen.logdy(rng, 0.3 * dtmin, 0.9 * dtmin)     # a single step of length T in the joint AND in every stand-alone run
        theta0 = lib.dyadic(rng, 0.25, 4, 4)
        phi = numgen.density(rng, n ** d, kind='random')
        mode = rng.choice([None, 'const']) if d <= 3 else 'const'
        joint = {'kind': 'driver', 'shape': [n] * d, 'grid': g, 'pops': pops, 'theta0': theta0, 'tf': tf, 'delj': False, 'T': T, 'phi': phi,
                 'as_func': mode, 'theta_slope': 0.0}
        cases.append(joint)
        for S in subsets:
            S = list(S)
            mphi = marginal_keep([n] * d, [g] * d, phi, S)
            sub_phi = [mphi[tuple(unflat([n] * len(S), j))] for j in range(n ** len(S))]
            sub = {'kind': 'driver', 'shape': [n] * len(S), 'grid': g, 'pops': [dict(pops[i], ms=[0.0] * (len(S) - 1)) for i in S], 'theta0': theta0,
                   'tf': tf, 'delj': False, 'T': T, 'phi': sub_phi, 'as_func': (mode if len(S) <= 3 else 'const'), 'theta_slope': 0.0}
            if len(S) == 1:
                sub['pops'][0]['beta'] = 1.0
            cases.append(sub)
            iso.append((joint, S, sub))
    # ---- (5) rejection of frozen + migration
    rejects = []
    for d in range(2, 6):
        pairs = [(f, i, j) for f in range(d) for i in range(d) for j in range(d) if i != j and f in (i, j)]
        if ctx.quick:
            pairs = rng.sample(pairs, min(len(pairs), 6))
        for f, i, j in pairs:
            c = {'kind': 'reject', 'shape': [3] * d, 'grid': [0.0, 0.5, 1.0], 'frozen': f, 'i': i, 'j': j, 'm': lib.dyadic(rng, 0.125, 4, 3), 'T': 0.01,
                 'as_func': False}
            rejects.append(c); cases.append(c)
    # ---- (6) remove / filter
    removes = []
    for d in range(2, 6):
        for rep in range(ctx.pick(2, 120)):
            n = rng.randint(3, 5)
            g = numgen.grid(rng, n)
            phi = numgen.density(rng, n ** d, kind='random')
            if rng.random() < 0.5:
                c = {'kind': 'remove', 'op': 'remove_pop', 'shape': [n] * d, 'grid': g, 'phi': phi, 'k': rng.randint(1, d)}
            else:
                keep = sorted(rng.sample(range(1, d + 1), rng.randint(1, d - 1)))
                if rng.random() < 0.3:
                    keep = keep[::-1]        # order of tokeep must not matter for filter_pops (it never reorders)
                c = {'kind': 'remove', 'op': 'filter_pops', 'shape': [n] * d, 'grid': g, 'phi': phi, 'keep': keep}
            removes.append(c); cases.append(c)
    for i, c in enumerate(cases):
        c['id'] = i
    res = lib.run_impl('c04_impl.py', [{k: v for k, v in c.items() if not k.startswith('_') and k != 'pop'} | ({'pop': c['pop']} if 'pop' in c else {}) for c in cases], timeout=3000)
    byid = {r['id']: r for r in res}
    for c in cases:
        r = byid[c['id']]
        if 'error' in r:
            ctx.obligation('case %d (%s) runs' % (c['id'], c['kind']), False, 'predicate', r['error'])
            ctx.violation('%s case failed in the implementation: %s' % (c['kind'], r['error']), data={'case': {k: v for k, v in c.items() if not k.startswith('_')}})
        else:
            c['_out'] = r['res']
            if 'shape' in r:
                c['_oshape'] = r['shape']

    def pred(name, ok, what, data, sig=None, nontriv=True, key=None):
        ctx.case(signature=sig if nontriv else None, sample=dict(predicate=name, **{k: v for k, v in data.items() if k in ('d', 'k', 'dev', 'S', 'frozen')}) if ctx.evaluations % 23 == 0 else None)
        ctx.count(name)
        ctx.obligation(name + ' ' + str(sig)[:60], ok, 'predicate', '' if ok else what)
        if not ok:
            ctx.violation(what, data=data, key=key)

    # (1) sweeps: mass' = mass - dt (W0 out0 phi'[corner0] + W1 out1 phi'[corner1])
    for c in sweeps:
        if '_out' not in c:
            continue
        shape, grids, k, p = c['shape'], c['grids'], c['k'], c['pop']
        d = len(shape)
        m0 = mass(shape, grids, c['phi']); m1 = mass(shape, grids, c['_out'])
        gk = grids[k]
        loss = 0.0
        ws = [trap_w(g) for g in grids]
        for corner, val in ((0, 0.0), (-1, 1.0)):
            if all(grids[j][corner] == val for j in range(d) if j != k):
                os_ = [val] * (d - 1)
                Wo = 1.0
                for j in range(d):
                    if j != k:
                        Wo *= ws[j][corner]
                # the corner LINE: other indices at `corner`; its first / last point
                def at(i):
                    ix = [(shape[j] - 1 if corner == -1 else 0) for j in range(d)]; ix[k] = i
                    f = 0
                    for j in range(d):
                        f = f * shape[j] + ix[j]
                    return c['_out'][f]
                if corner == 0:
                    Mf = Mfun(p, os_, gk[0])
                    if Mf <= 0:
                        loss += Wo * (0.5 / p['nu'] - Mf) * at(0)
                else:
                    Ml = Mfun(p, os_, gk[-1])
                    if Ml >= 0:
                        loss += Wo * (0.5 / p['nu'] + Ml) * at(shape[k] - 1)
        want = m0 - c['dt'] * loss
        scale = max(abs(m0), abs(m1), 1e-300)
        dev = abs(m1 - want) / scale
        tol = 1e-10 if not c['delj'] else 1e-9
        pred('sweep mass balance', dev <= tol,
             'implicit_%dD%s: total mass after the sweep is not mass before minus the outflow at the two corner lines (rel dev %.3g)' % (d, 'xyzab'[k], dev),
             {'d': d, 'k': k, 'dev': dev, 'case': {a: b for a, b in c.items() if not a.startswith('_')}, 'mass_before': m0, 'mass_after': m1, 'expected': want},
             sig=('sweep', c['id']), nontriv=(p['gamma'] != 0 or any(p['ms'])))
    # (2) influx
    for c in injects:
        if '_out' not in c:
            continue
        d = len(c['shape']); g = c['grid']; n = c['shape'][0]
        diff = [a - b for a, b in zip(c['_out'], c['phi'])]
        want = {}
        for k in range(d):
            if c['frozen'][k] or c['nomut'][k]:
                continue
            amt = c['dt'] / g[1] * c['theta0'] / 2 * 2 ** d / ((g[2] - g[0]) * g[1] ** (d - 1))
            f = n ** (d - 1 - k)
            want[f] = amt
        ok = True; worst = 0.0
        for j, dv in enumerate(diff):
            w = want.get(j, 0.0)
            e = abs(dv - w) / max(abs(w), abs(c['phi'][j]), 1e-300)
            worst = max(worst, e)
            if e > 1e-12:
                ok = False
        pred('mutation influx', ok, '_inject_mutations_%dD: density changed by something other than dt*theta0/2 (trapezoid-normalised) at the first interior point of each active population, or a frozen/nomut population received mutations (rel dev %.3g)' % (d, worst),
             {'d': d, 'dev': worst, 'case': c, 'frozen': c['frozen']}, sig=('inject', c['id']))
    # (3) frozen marginals
    for c in frozen_cases:
        if '_out' not in c:
            continue
        d = len(c['shape']); n = c['shape'][0]; g = c['grid']
        for f in c['_frozen']:
            mb = marginal_keep(c['shape'], [g] * d, c['phi'], [f]); ma = marginal_keep(c['shape'], [g] * d, c['_out'], [f])
            scale = max(abs(v) for v in mb.values())
            dev = max(abs(ma[(i,)] - mb[(i,)]) for i in range(1, n - 1)) / scale if n > 2 else 0.0
            pred('frozen marginal', dev <= 1e-10,
                 "%d populations: the frozen population %d's marginal density changed at an interior frequency (rel dev %.3g) while the others evolved" % (d, f + 1, dev),
                 {'d': d, 'frozen': c['_frozen'], 'dev': dev, 'case': {a: b for a, b in c.items() if not a.startswith('_')}, 'marginal_before': list(mb.values()), 'marginal_after': list(ma.values())},
                 sig=('frozen', c['id'], f))
    # (4) isolated subsets
    for joint, S, sub in iso:
        if '_out' not in joint or '_out' not in sub:
            continue
        d = len(joint['shape']); n = joint['shape'][0]; g = joint['grid']
        mj = marginal_keep(joint['shape'], [g] * d, joint['_out'], S)
        scale = max(abs(v) for v in sub['_out']) or 1.0
        dev = 0.0
        for j, v in enumerate(sub['_out']):
            ix = tuple(unflat([n] * len(S), j))
            if all(i == 0 for i in ix) or all(i == n - 1 for i in ix):
                continue
            dev = max(dev, abs(mj[ix] - v) / scale)
        pred('isolated subset marginal', dev <= 1e-10,
             '%d isolated populations (no migration, no selection): the marginal density of populations %s after a joint step differs from integrating that subset alone with the same step (rel dev %.3g)' % (d, [s + 1 for s in S], dev),
             {'d': d, 'S': S, 'dev': dev, 'joint': {a: b for a, b in joint.items() if not a.startswith('_')}, 'alone': {a: b for a, b in sub.items() if not a.startswith('_')}},
             sig=('iso', joint['id'], tuple(S)))
    # (5) rejection
    for c in rejects:
        if '_out' not in c:
            continue
        pred('frozen+migration rejected', c['_out'] == 'ValueError',
             '%d populations: population %d frozen with migration m%d%d=%g was accepted' % (len(c['shape']), c['frozen'] + 1, c['i'] + 1, c['j'] + 1, c['m']),
             {'d': len(c['shape']), 'case': c}, sig=('reject', len(c['shape']), c['frozen'], c['i'], c['j']))
    # (6) remove / filter
    for c in removes:
        if '_out' not in c:
            continue
        d = len(c['shape']); g = c['grid']
        keep = [j for j in range(d) if j != c['k'] - 1] if c['op'] == 'remove_pop' else sorted(x - 1 for x in c['keep'])
        mk = marginal_keep(c['shape'], [g] * d, c['phi'], keep)
        n = c['shape'][0]
        want = [mk[tuple(unflat([n] * len(keep), j))] for j in range(n ** len(keep))]
        scale = max(abs(v) for v in want) or 1.0
        dev = max(abs(a - b) for a, b in zip(want, c['_out'])) / scale if len(want) == len(c['_out']) else float('inf')
        pred('remove/filter is trapezoid marginalisation', dev <= 1e-12,
             '%s on a %d-D density is not the trapezoid marginal over the dropped populations in the original order (rel dev %.3g)' % (c['op'], d, dev),
             {'d': d, 'dev': dev, 'case': c}, sig=('remove', c['id']))
    # ---- correspondence of the frozen-flag drivers against the model
    sel = [c for c in frozen_cases if '_out' in c][:ctx.pick(6, 120)]
    exprs = [(c['id'], c02.coq_dcase(c, c['_out'])) for c in sel]
    results = ctx.coq_cases('driver', HEADER, exprs, '(dcheck %s)' % q(TOL), 'rel 1e-09 of max|phi|', shard=ctx.pick(2, 16), timeout=1800)
    for c in sel:
        rr = results.get(c['id'])
        ok = rr is not None and rr[0]
        ctx.obligation('frozen-flag driver case %d (%d pops, frozen %s) = model' % (c['id'], len(c['shape']), c['_frozen']), ok, 'correspondence', '' if ok else 'coq result %r' % (rr,))
        if not ok:
            ctx.violation('%d-population driver with frozen populations %s differs from the model (coq %r)' % (len(c['shape']), c['_frozen'], rr),
                          data={'case': {x: y for x, y in c.items() if not x.startswith('_')}, 'impl': c['_out']}, no_input=True,
                          broken='correspondence of the frozen-flag drivers with the Coq model (Model/SchemeCheck.v dcheck): the mass-balance theorems are no longer shown to apply to this code; the predicates on the implementation found no failing input unless reported separately')
