"""C03 — the rescale-invariance and linearity predicates evaluated in ONE process, in adversarial call orders.

The predicates of c03.py evaluate every (original, rescaled) pair once, in an order in which no raw argument is ever re-used
with another value of the remaining ones.  A memo inside the equilibrium density / an integrator / from_phi whose key leaves out
an argument the value depends on (e.g. keyed by the raw gamma while the value depends on gamma*nu) is invisible to them: the
first evaluation of every key is right.  Here, for each base parameter set X and factor c (R = X re-expressed relative to a
reference size c times larger) the calls are made in one process (a fork of an interpreter that has only imported dadi), in the
orders

    A           neighbours(X) ... , X, R, X         neighbours(X) = X with ONE raw argument changed (other nu - several -, other
    B           neighbours(R) ... , R, X, R                         theta0, gamma, h, beta, T, migration rate, density, grid of the
    A-reversed  X, R, X, ... neighbours(X) reversed                 same length, sample sizes) and X at another reference size c'
    B-reversed  R, X, R, ... neighbours(R) reversed

and for each superposition triple (C1, C2, C3 = a C1 + b C2 in (density, theta0))

    L           neighbours(C1) ..., C1, C2, C3, C1
    L3          neighbours(C3) ..., C3, C1, C2, C3
    L-reversed  C1, C3, C2, C1, ... neighbours(C1) reversed

The predicate (X = R to round-off; C3 = a C1 + b C2) is evaluated on the values obtained IN the sequence, and every value of
every sequence is compared bitwise with the value of the same call in a pristine interpreter (its own fork).  A difference is
reported with the call sequence up to the offending call: that sequence is the replay (`--replay` runs it again).

Quick tier, systematically on every run: every numerical regime of phi_1D (neutral; genic: weak / ordinary / both sides of the
-300 guard / far beyond it / both sides of the +300 limit guard; dominance h != 0.5: gamma < 0 quadrature, gamma > 0 quadrature,
the Qadjust branch, gamma = 0; beta != 1 in each family), one whole-model program with dominance per dimension 1..5 (plus a genic
strong-selection and a function-of-time one), one driver rescale block and one driver superposition block per dimension 1..5.

Source obligation (fail closed): phi_1D, phi_1D_genic, phi_1D_snm, _compute_dt, _inject_mutations_1D..5D and every function of
the same module they call read or write no module-level mutable state (see source_obligation).  When it breaks, the orders are
run at thorough size before the check concludes that it found no failing input.
"""
import ast, builtins, json, math, os, random
from harness import lib, numgen

ORDERS_RESCALE = ['A: neighbours(X), X, R, X', 'B: neighbours(R), R, X, R', 'A-reversed: X, R, X, neighbours(X) reversed',
                  'B-reversed: R, X, R, neighbours(R) reversed']
ORDERS_LINEAR = ['L: neighbours(C1), C1, C2, C3, C1', 'L3: neighbours(C3), C3, C1, C2, C3', 'L-reversed: C1, C3, C2, C1, neighbours(C1) reversed']

def clean(c):
    return {k: v for k, v in c.items() if not k.startswith('_') and k not in ('id', 'pair_of', 'layout_of', 'sel')}

def ckey(c):
    return json.dumps(clean(c), sort_keys=True)

def cp(c):
    return json.loads(json.dumps(clean(c)))

# ----------------------------------------------------------------------------------------------------------------------
# the three families of calls: what "the same call re-expressed at reference size c" and "one raw argument changed" mean

def bf(beta):
    return 4. * beta / (beta + 1.) ** 2

def other(rng, pool, cur):
    ch = [x for x in pool if x != cur]
    return rng.choice(ch)

def phi_rescale(c, k):
    return dict(cp(c), nu=c['nu'] * k, theta0=c['theta0'] / k, gamma=c['gamma'] / k)

def other_grid(rng, g):
    for _ in range(20):
        g2 = numgen.grid(rng, len(g), kind=rng.choice(['exp', 'quad', 'uniform', 'random']))
        if g2 != g:
            return g2
    return [x * x for x in g]

def phi_neighbours(rng, c):
    out = []
    ks = rng.sample([1 / 4, 1 / 2, 3 / 2, 2, 5 / 2, 3, 5], 2)
    for k in ks:
        out.append(('other nu (x%g)' % k, dict(cp(c), nu=c['nu'] * k)))
    if c['nu'] != 1.0:
        out.append(('other nu (1)', dict(cp(c), nu=1.0)))
    out.append(('other theta0', dict(cp(c), theta0=c['theta0'] * other(rng, [1 / 2, 3 / 2, 5 / 2, 3], None))))
    out.append(('other gamma', dict(cp(c), gamma=(c['gamma'] * other(rng, [1 / 2, 3 / 2, 2, -1], None)) if c['gamma'] != 0 else rng.choice([-2.0, 1.5]))))
    out.append(('other h', dict(cp(c), h=other(rng, [0.5, 0.25, 0.75, 0.0, 1.0], c['h']))))
    out.append(('other beta', dict(cp(c), beta=other(rng, [1.0, 3.0, 0.5, 2.0], c['beta']))))
    out.append(('other grid of the same length', dict(cp(c), grid=other_grid(rng, c['grid']))))
    out.append(('other reference size', phi_rescale(c, other(rng, [1 / 8, 1 / 2, 3, 4, 10], None))))
    rng.shuffle(out)
    return out

def prog_rescale(p, k):
    from harness.props import c03
    return c03.rescale_program(clean(p), k)

def scale_key(p, key, k, only=None):
    r = cp(p)
    for i, st in enumerate(r['steps']):
        if key in st and (only is None or i in only):
            st[key] = [v * k for v in st[key]] if isinstance(st[key], list) else st[key] * k
    return r

def prog_neighbours(rng, p):
    out = []
    integ = [i for i, st in enumerate(p['steps']) if 'T' in st]
    for k in rng.sample([1 / 4, 1 / 2, 3 / 2, 2, 5 / 2, 3], 2):
        out.append(('other nu in the equilibrium step (x%g)' % k, scale_key(p, 'nu', k, only=[0])))
    if p['steps'][0]['nu'] != 1.0:
        r = cp(p); r['steps'][0]['nu'] = 1.0
        out.append(('other nu in the equilibrium step (1)', r))
    out.append(('other nu in every step', scale_key(p, 'nu', other(rng, [1 / 2, 3 / 2, 2, 3], None))))
    i = rng.choice(integ)
    out.append(('other nu in step %d' % i, scale_key(p, 'nu', other(rng, [1 / 2, 3 / 2, 2, 3], None), only=[i])))
    out.append(('other theta0', scale_key(p, 'theta0', other(rng, [1 / 2, 3 / 2, 5 / 2, 3], None))))
    out.append(('other gamma', scale_key(p, 'gamma', other(rng, [1 / 2, 3 / 2, 2], None))))
    i = rng.choice(integ)
    out.append(('other T in step %d' % i, scale_key(p, 'T', other(rng, [1 / 2, 3 / 2, 2], None), only=[i])))
    if any(any(v != 0 for v in st.get('m', [])) for st in p['steps']):
        out.append(('other migration rates', scale_key(p, 'm', other(rng, [1 / 2, 3 / 2, 2], None))))
    r = cp(p)
    for st in r['steps']:
        if 'h' in st:
            st['h'] = [other(rng, [0.5, 0.25, 0.75, 0.0, 1.0], v) for v in st['h']] if isinstance(st['h'], list) else other(rng, [0.5, 0.25, 0.75, 0.0, 1.0], st['h'])
    out.append(('other h', r))
    r = cp(p)
    for st in r['steps']:
        if st['op'] == 'from_phi':
            st['ns'] = [v + 1 for v in st['ns']]
    out.append(('other sample sizes', r))
    out.append(('other grid of the same length', dict(cp(p), grid=other_grid(rng, p['grid']))))
    out.append(('other reference size', prog_rescale(p, other(rng, [1 / 8, 1 / 2, 3, 4, 10], None))))
    rng.shuffle(out)
    return out

def drv_rescale(c, k):
    from harness.props import c03
    return c03.rescale_case(clean(c), k)

def drv_neighbours(rng, c):
    out = []
    d = len(c['shape'])
    def mod(label, f):
        r = cp(c); f(r); out.append((label, r))
    i = rng.randrange(d)
    for k in rng.sample([1 / 4, 1 / 2, 3 / 2, 2, 5 / 2, 3], 2):
        mod('other nu of population %d (x%g)' % (i + 1, k), lambda r, k=k: r['pops'][i].__setitem__('nu', r['pops'][i]['nu'] * k))
    k = other(rng, [1 / 2, 3 / 2, 2, 3], None)
    mod('other nu of every population', lambda r: [p.__setitem__('nu', p['nu'] * k) for p in r['pops']])
    kt = other(rng, [1 / 2, 3 / 2, 5 / 2, 3], None)
    def th(r):
        r['theta0'] = r['theta0'] * kt; r['theta_slope'] = r.get('theta_slope', 0.0) * kt
    mod('other theta0', th)
    j = rng.randrange(d)
    mod('other gamma of population %d' % (j + 1), lambda r: r['pops'][j].__setitem__('gamma', r['pops'][j]['gamma'] * 1.5 if r['pops'][j]['gamma'] != 0 else -2.0))
    if not c.get('delj'):
        mod('other h of population %d' % (j + 1), lambda r: r['pops'][j].__setitem__('h', other(rng, [0.5, 0.25, 0.75, 0.0, 1.0], r['pops'][j]['h'])))
    nz = [(a, b) for a, p in enumerate(c['pops']) for b, m in enumerate(p['ms']) if m != 0]
    if nz:
        a, b_ = rng.choice(nz)
        mod('other migration rate', lambda r: r['pops'][a]['ms'].__setitem__(b_, r['pops'][a]['ms'][b_] * 1.5))
    mod('other T', lambda r: r.__setitem__('T', r['T'] * other(rng, [1 / 2, 3 / 2, 2], None)))
    mod('other density', lambda r: r.__setitem__('phi', numgen.density(rng, len(r['phi']))))
    out.append(('other reference size', drv_rescale(c, other(rng, [1 / 8, 1 / 2, 3, 4, 10], None))))
    rng.shuffle(out)
    return out

FAMILIES = {'phi1d': (phi_rescale, phi_neighbours), 'program': (prog_rescale, prog_neighbours), 'driver': (drv_rescale, drv_neighbours)}

def describe(c):
    if c['kind'] == 'phi1d':
        return 'phi_1D(n=%d, nu=%.6g, theta0=%.6g, gamma=%.6g, h=%g, beta=%g)' % (len(c['grid']), c['nu'], c['theta0'], c['gamma'], c['h'], c['beta'])
    if c['kind'] == 'program':
        s0 = c['steps'][0]
        return 'model %s (equilibrium nu=%.6g theta0=%.6g gamma=%.6g h=%g)' % ('+'.join(s['op'] for s in c['steps']), s0['nu'], s0['theta0'], s0['gamma'], s0['h'])
    return '%d-population integration (T=%.6g, theta0=%.6g, nu=%s, gamma=%s, %s)' % (
        len(c['shape']), c['T'], c['theta0'], ['%.5g' % p['nu'] for p in c['pops']], ['%.5g' % p['gamma'] for p in c['pops']],
        {None: 'constants', 'const': 'constant functions', 'lin': 'functions of time'}[c['as_func']])

# ----------------------------------------------------------------------------------------------------------------------
# generators

PHI_REGIMES = [   # (name, effective coefficient gamma*nu*4beta/(beta+1)^2, genic?)
    ('neutral', 0.0, True),
    ('genic weak', -1.0, True), ('genic weak', 2.0, True), ('genic tiny', 1e-6, True), ('genic ordinary', -40.0, True), ('genic ordinary', 40.0, True),
    ('genic just inside the -300 guard', -299.0, True), ('genic just beyond the -300 guard', -301.0, True),
    ('genic far beyond the -300 guard', -1000.0, True), ('genic far beyond the -300 guard', -1e5, True),
    ('genic just inside the +300 limit guard', 299.0, True), ('genic beyond the +300 limit guard', 350.0, True), ('genic beyond the +300 limit guard', 900.0, True),
    ('dominance quadrature gamma<0', -1.0, False), ('dominance quadrature gamma<0', -40.0, False),
    ('dominance quadrature gamma>0', 2.0, False), ('dominance quadrature gamma>0', 40.0, False),
    ('dominance just inside the Qadjust guard', -299.0, False), ('dominance Qadjust branch', -301.0, False), ('dominance Qadjust branch', -350.0, False),
    ('dominance gamma=0', 0.0, False),
]

def gen_phi_blocks(rng, size):
    blocks = []
    reps = 1 if size == 'quick' else 4
    hs = [0.25, 0.0, 0.75, 1.0]
    k = 0
    for rep in range(reps):
        for ri, (name, geff, genic) in enumerate(PHI_REGIMES):
            k += 1
            beta = [1.0, 3.0, 1.0, 0.5][(ri + rep) % 4]
            h = 0.5 if genic else hs[(ri + rep) % 4]
            nu = [0.5, 2.0, 3.0, 1.0, 0.25][(ri + 2 * rep) % 5]
            n = rng.choice([9, 13, 17])
            g = numgen.grid(rng, n, kind=rng.choice(['exp', 'quad', 'uniform']))
            th = lib.dyadic(rng, 0.5, 4, 3)
            gam = geff / (nu * bf(beta))
            X = {'kind': 'phi1d', 'grid': g, 'nu': nu, 'theta0': th, 'gamma': gam, 'h': h, 'beta': beta}
            cs = [rng.choice([1 / 4, 2, 8]) if (ri + rep) % 2 == 0 else numgen.logdy(rng, 0.1, 10, 4)]
            if not genic:      # the quadrature family: a power of two and a random factor on every run
                cs = [rng.choice([1 / 4, 2, 8]), numgen.logdy(rng, 0.1, 10, 4)]
            for c in cs:
                if c == 1.0:
                    c = 3.0
                R = phi_rescale(X, c)
                blocks.append({'type': 'rescale', 'family': 'phi1d', 'what': 'phi_1D %s, beta=%g, h=%g' % (name, beta, h), 'X': X, 'R': R, 'c': c,
                               'NX': phi_neighbours(rng, X), 'NR': phi_neighbours(rng, R), 'tol': 1e-9 if genic else 1e-7,
                               'count': 'phi_1D %s%s' % (name, ', beta!=1' if beta != 1 else '')})
            if ri % 3 == rep % 3:   # linearity in theta0 of the equilibrium density
                a, b = lib.dyadic(rng, -2, 3, 3) or 1.5, lib.dyadic(rng, 0.25, 3, 3)
                th2 = lib.dyadic(rng, 0.25, 4, 4)
                if a * th + b * th2 <= 0:
                    a = abs(a)
                C1, C2, C3 = cp(X), dict(cp(X), theta0=th2), dict(cp(X), theta0=a * th + b * th2)
                blocks.append({'type': 'linear', 'family': 'phi1d', 'what': 'phi_1D %s, beta=%g, h=%g' % (name, beta, h), 'C1': C1, 'C2': C2, 'C3': C3, 'a': a, 'b': b,
                               'N1': phi_neighbours(rng, C1), 'N3': phi_neighbours(rng, C3), 'tol': 1e-10, 'count': 'phi_1D linear in theta0'})
    return blocks

def gen_program(rng, d, variant):
    """whole model of dimension d from the public API; variant 0: dominance everywhere (h != 0.5), 1: genic strong selection
    (beyond the guards of the equilibrium), 2: parameters as functions of time / growth (d >= 2), 3: neutral"""
    n = {1: rng.choice([12, 14, 16]), 2: rng.choice([8, 9, 10]), 3: rng.choice([6, 7]), 4: 5, 5: 4}[d]
    g = numgen.grid(rng, n, kind=rng.choice(['exp', 'quad', 'uniform']))
    theta0 = lib.dyadic(rng, 0.5, 4, 3)
    hpool = [0.25, 0.0, 0.75, 1.0]
    if variant == 0:
        gam = rng.choice([-1, 1]) * lib.dyadic(rng, 1, 6, 2); h = lambda: rng.choice(hpool)
    elif variant == 1:
        gam = -float(rng.choice([320, 512, 1024])); h = lambda: 0.5
    elif variant == 2:
        gam = lib.dyadic(rng, -6, 4, 2) or -1.0; h = lambda: rng.choice(hpool + [0.5])
    else:
        gam = 0.0; h = lambda: 0.5
    nuA = other(rng, [0.25, 0.5, 1.5, 2.0, 2.5, 3.0], None)
    h0 = h()
    steps = [{'op': 'phi_1D', 'nu': nuA, 'theta0': theta0, 'gamma': gam, 'h': h0, 'beta': 1.0},
             {'op': 'one_pop', 'T': lib.dyadic(rng, 0.01, 0.06, 8), 'nu': numgen.logdy(rng, 0.25, 4, 3), 'gamma': gam, 'h': h0, 'theta0': theta0}]
    def mig(k):
        return [lib.dyadic(rng, 0, 2, 2) if rng.random() < 0.7 else 0.0 for _ in range(k)]
    def nus(k):
        return [numgen.logdy(rng, 0.25, 4, 3) for _ in range(k)]
    if d >= 2:
        steps.append({'op': 'split12'})
        tp = {'op': 'two_pops', 'T': lib.dyadic(rng, 0.01, 0.05, 8), 'nu': nus(2), 'm': mig(2), 'gamma': [gam, gam / 2], 'h': [h(), h()], 'theta0': theta0}
        if variant == 2:
            if rng.random() < 0.5:
                tp['func'] = True
            else:
                tp['growth'] = [tp['nu'][0], tp['nu'][0] * 2, tp['T']]
        steps.append(tp)
        if d == 2 and rng.random() < 0.5:
            steps.append({'op': 'pulse12', 'f': lib.dyadic(rng, 0.05, 0.9, 4)})
            steps.append(dict(cp(tp), T=lib.dyadic(rng, 0.005, 0.03, 8)))
    if d >= 3:
        steps.append({'op': 'split23'})
        steps.append({'op': 'three_pops', 'T': lib.dyadic(rng, 0.005, 0.02, 8), 'nu': nus(3), 'm': mig(6), 'gamma': [gam, gam / 2, gam], 'h': [h(), h(), h()], 'theta0': theta0})
    if d >= 4:
        steps.append({'op': 'split34', 'f': [0.25, 0.5]})
        steps.append({'op': 'four_pops', 'T': lib.dyadic(rng, 0.005, 0.02, 8), 'nu': nus(4), 'm': mig(12), 'gamma': [gam, gam / 2, gam, gam / 4], 'h': [h() for _ in range(4)], 'theta0': theta0})
    if d >= 5:
        steps.append({'op': 'split45', 'f': [0.25, 0.25, 0.125]})
        steps.append({'op': 'five_pops', 'T': lib.dyadic(rng, 0.004, 0.012, 8), 'nu': nus(5), 'm': mig(20), 'gamma': [gam, gam / 2, gam, gam / 4, gam], 'h': [h() for _ in range(5)], 'theta0': theta0})
    steps.append({'op': 'from_phi', 'ns': [rng.choice([3, 4, 5]) if d <= 2 else 2 for _ in range(d)]})
    return {'kind': 'program', 'grid': g, 'tf': rng.choice([1 / 64, 1 / 128]) if d <= 3 else 1 / 64, 'steps': steps, 'trace': True}

def gen_program_blocks(rng, size):
    blocks = []
    plan = []
    for d in range(1, 6):
        if size == 'quick':
            plan += [(d, 0)] + ([(1, 1)] if d == 1 else []) + ([(2, 2)] if d == 2 else [])
        else:
            plan += [(d, v) for v in ((0, 1, 2, 3, 0) if d >= 2 else (0, 1, 3, 0))]
    for k, (d, variant) in enumerate(plan):
        P = gen_program(rng, d, variant)
        c = rng.choice([1 / 4, 2, 8]) if k % 2 == 0 else numgen.logdy(rng, 0.1, 10, 4)
        if c == 1.0:
            c = 3.0
        R = prog_rescale(P, c)
        vname = ['dominance', 'genic strong selection', 'functions of time', 'neutral'][variant]
        quad = P['steps'][0]['h'] != 0.5
        blocks.append({'type': 'rescale', 'family': 'program', 'what': '%d-D whole model (%s)' % (d, vname), 'X': P, 'R': R, 'c': c,
                       'NX': prog_neighbours(rng, P), 'NR': prog_neighbours(rng, R), 'tol': 1e-7 if quad else 1e-9, 'count': 'program d=%d %s' % (d, vname)})
        if size != 'quick' or variant == 0:
            th = P['steps'][0]['theta0']
            a, b = lib.dyadic(rng, 0.25, 3, 3), lib.dyadic(rng, 0.25, 3, 3)
            k2 = lib.dyadic(rng, 0.25, 4, 4) / th
            C1, C2, C3 = cp(P), scale_key(P, 'theta0', k2), scale_key(P, 'theta0', a + b * k2)
            blocks.append({'type': 'linear', 'family': 'program', 'what': '%d-D whole model (%s)' % (d, vname), 'C1': C1, 'C2': C2, 'C3': C3, 'a': a, 'b': b,
                           'N1': prog_neighbours(rng, C1), 'N3': prog_neighbours(rng, C3), 'tol': 1e-10, 'count': 'program d=%d linear in theta0' % d})
    return blocks

def superpose(rng, c):
    """(a, b, c1, c2, c3) as in c03.run: phi = a phi1 + b phi2, theta = a th1 + b th2"""
    a, bb = lib.dyadic(rng, -2, 3, 3), lib.dyadic(rng, 0.25, 3, 3)
    phi2 = numgen.density(rng, len(c['phi']))
    th2 = lib.dyadic(rng, 0.25, 4, 4)
    c1 = cp(c); c2 = cp(c); c2['phi'] = phi2; c2['theta0'] = th2
    if a * c1['theta0'] + bb * th2 < 0:      # the drivers reject negative theta0
        a = abs(a)
    c3 = cp(c); c3['phi'] = [a * x + bb * y for x, y in zip(c1['phi'], phi2)]; c3['theta0'] = a * c1['theta0'] + bb * th2
    if c1['as_func'] == 'lin':
        c3['theta_slope'] = (a + bb) * c1.get('theta_slope', 0.0)
    return a, bb, c1, c2, c3

def gen_driver_blocks(rng, size, base):
    """base: the driver cases of c03.run (as C02: 1-5 populations, constants / constant functions / functions of time, flags)"""
    blocks = []
    byd = {}
    for c in base:
        byd.setdefault(len(c['shape']), []).append(c)
    for d in sorted(byd):
        cs = byd[d]
        if size == 'quick':
            # one block of each type per dimension: prefer a case with dominance and selection (the less-travelled coefficients)
            pref = [c for c in cs if any(p['gamma'] != 0 and p['h'] != 0.5 for p in c['pops'])] or cs
            pick_r = [pref[0]]; pick_l = [pref[-1]]
        else:
            pick_r = cs; pick_l = cs[::2]
        for c in pick_r:
            k = rng.choice([1 / 16, 1 / 2, 2, 16]) if rng.random() < 0.5 else numgen.logdy(rng, 0.05, 20, 5)
            if k == 1.0:
                k = 3.0
            X = cp(c); R = drv_rescale(X, k)
            blocks.append({'type': 'rescale', 'family': 'driver', 'what': '%d-population integration (%s%s)' % (d, {None: 'constants', 'const': 'constant functions', 'lin': 'functions of time'}[c['as_func']], ', delj' if c.get('delj') else ''),
                           'X': X, 'R': R, 'c': k, 'NX': drv_neighbours(rng, X), 'NR': drv_neighbours(rng, R),
                           'tol': 1e-12 if math.log2(k) == int(math.log2(k)) else 1e-9, 'count': 'driver d=%d' % d})
        for c in pick_l:
            a, bb, c1, c2, c3 = superpose(rng, c)
            blocks.append({'type': 'linear', 'family': 'driver', 'what': '%d-population integration (%s)' % (d, {None: 'constants', 'const': 'constant functions', 'lin': 'functions of time'}[c['as_func']]),
                           'C1': c1, 'C2': c2, 'C3': c3, 'a': a, 'b': bb, 'N1': drv_neighbours(rng, c1), 'N3': drv_neighbours(rng, c3), 'tol': 1e-10,
                           'count': 'driver d=%d linear in (phi, theta0)' % d})
    return blocks

# ----------------------------------------------------------------------------------------------------------------------
# sessions

def sessions_of(bi, blk):
    """-> list of {'id', 'order', 'calls', 'labels', 'checks'}"""
    out = []
    def lab(N):
        return [l for l, _ in N], [c for _, c in N]
    if blk['type'] == 'rescale':
        X, R = blk['X'], blk['R']
        lx, nx = lab(blk['NX']); lr, nr = lab(blk['NR'])
        k = len(nx); m = len(nr)
        out.append((ORDERS_RESCALE[0], nx + [X, R, X], lx + ['X', 'R', 'X'], [('rescale', k, k + 1), ('rescale', k + 2, k + 1)]))
        out.append((ORDERS_RESCALE[1], nr + [R, X, R], lr + ['R', 'X', 'R'], [('rescale', m + 1, m), ('rescale', m + 1, m + 2)]))
        out.append((ORDERS_RESCALE[2], [X, R, X] + nx[::-1], ['X', 'R', 'X'] + lx[::-1], [('rescale', 0, 1), ('rescale', 2, 1)]))
        out.append((ORDERS_RESCALE[3], [R, X, R] + nr[::-1], ['R', 'X', 'R'] + lr[::-1], [('rescale', 1, 0), ('rescale', 1, 2)]))
    else:
        C1, C2, C3 = blk['C1'], blk['C2'], blk['C3']
        l1, n1 = lab(blk['N1']); l3, n3 = lab(blk['N3'])
        k = len(n1); m = len(n3)
        out.append((ORDERS_LINEAR[0], n1 + [C1, C2, C3, C1], l1 + ['C1', 'C2', 'C3', 'C1'], [('linear', k, k + 1, k + 2), ('linear', k + 3, k + 1, k + 2)]))
        out.append((ORDERS_LINEAR[1], n3 + [C3, C1, C2, C3], l3 + ['C3', 'C1', 'C2', 'C3'], [('linear', m + 1, m + 2, m), ('linear', m + 1, m + 2, m + 3)]))
        out.append((ORDERS_LINEAR[2], [C1, C3, C2, C1] + n1[::-1], ['C1', 'C3', 'C2', 'C1'] + l1[::-1], [('linear', 0, 2, 1), ('linear', 3, 2, 1)]))
    return [{'id': 'b%d.%d' % (bi, j), 'block': bi, 'order': o, 'calls': [clean(c) for c in calls], 'labels': labels, 'checks': [list(x) for x in checks]}
            for j, (o, calls, labels, checks) in enumerate(out)]

def same_float(x, y):
    return x == y or (x != x and y != y)

def bitwise(r, p):
    """r, p: result records of the same call.  -> None | text"""
    if ('error' in r) != ('error' in p):
        return 'in the sequence: %s; alone: %s' % (r.get('error', 'a value'), p.get('error', 'a value'))
    if 'error' in r:
        return None if r['error'] == p['error'] else 'different errors: %s / %s' % (r['error'], p['error'])
    a, b = r['res'], p['res']
    if len(a) != len(b):
        return 'different sizes %d / %d' % (len(a), len(b))
    if r.get('mask') != p.get('mask'):
        return 'different masks'
    bad = [i for i, (x, y) in enumerate(zip(a, b)) if not same_float(x, y)]
    if bad:
        s = max(1e-300, max(abs(x) for x in b if x == x and abs(x) != float('inf')) if any(x == x and abs(x) != float('inf') for x in b) else 1.0)
        dev = max((abs(a[i] - b[i]) / s) if (a[i] == a[i] and b[i] == b[i]) else float('inf') for i in bad)
        return '%d of %d entries differ (largest difference %.3g of the largest entry; entry %d: %r in the sequence, %r alone)' % (len(bad), len(a), dev, bad[0], a[bad[0]], b[bad[0]])
    return None

def pieces(r):
    """the unmasked values of a result, split into the densities and the spectrum of a traced program"""
    vals, mask = r['res'], r.get('mask') or [False] * len(r['res'])
    segs = r.get('segs') or [len(vals)]
    out = []; k = 0
    for n in segs:
        out.append(([v for v, mm in zip(vals[k:k + n], mask[k:k + n]) if not mm], mask[k:k + n])); k += n
    return out

def reldev(a, b):
    if len(a) != len(b):
        return float('inf')
    if not a:
        return 0.0
    if not all(math.isfinite(x) for x in a + b):
        return float('inf')
    s = max(1e-300, max(abs(x) for x in a + b))
    return max(abs(x - y) for x, y in zip(a, b)) / s

def rescale_dev(rx, rr):
    if 'error' in rx or 'error' in rr:
        return float('inf'), 'error: %s' % (rx.get('error') or rr.get('error'))
    px, pr = pieces(rx), pieces(rr)
    if len(px) != len(pr) or any(mx != mr for (_, mx), (_, mr) in zip(px, pr)):
        return float('inf'), 'different shapes / masks'
    devs = [reldev(a, b) for (a, _), (b, _) in zip(px, pr)]
    w = max(range(len(devs)), key=lambda i: devs[i])
    return devs[w], ('piece %d of %d' % (w + 1, len(devs))) if len(devs) > 1 else ''

def linear_dev(r1, r2, r3, a, b):
    if any('error' in r for r in (r1, r2, r3)):
        return float('inf'), 'error: %s' % ([r.get('error') for r in (r1, r2, r3) if 'error' in r][0])
    p1, p2, p3 = pieces(r1), pieces(r2), pieces(r3)
    if not (len(p1) == len(p2) == len(p3)) or any(not (m1 == m2 == m3) for (_, m1), (_, m2), (_, m3) in zip(p1, p2, p3)):
        return float('inf'), 'different shapes / masks'
    devs = [reldev([a * x + b * y for x, y in zip(u, v)], w) if len(u) == len(v) else float('inf') for (u, _), (v, _), (w, _) in zip(p1, p2, p3)]
    wi = max(range(len(devs)), key=lambda i: devs[i])
    return devs[wi], ('piece %d of %d' % (wi + 1, len(devs))) if len(devs) > 1 else ''

def run_sessions(sessions, jobs=3):
    """sessions + one pristine single-call session per distinct call -> (results by session id, pristine record by call key)"""
    keys = {}
    for s in sessions:
        for c in s['calls']:
            keys.setdefault(ckey(c), c)
    klist = list(keys)
    allsess = [{'id': s['id'], 'calls': s['calls']} for s in sessions] + [{'id': 'p%d' % i, 'calls': [keys[k]]} for i, k in enumerate(klist)]
    # a few interpreter groups side by side (every session is its own fork in any case)
    jobs = max(1, min(jobs, len(allsess) // 40 + 1))
    chunks = [allsess[i::jobs] for i in range(jobs)]
    from concurrent.futures import ThreadPoolExecutor
    with ThreadPoolExecutor(max_workers=jobs) as ex:
        outs = list(ex.map(lambda ch: lib.run_impl('c03_impl.py', {'sessions': ch}, timeout=6000), chunks))
    byid = {}
    for o in outs:
        for s in o['sessions']:
            byid[s['id']] = s
    pristine = {k: byid['p%d' % i]['results'][0] for i, k in enumerate(klist)}
    return byid, pristine

def all_sessions(blocks):
    out = []
    for bi, blk in enumerate(blocks):
        out += sessions_of(bi, blk)
    return out

def evaluate(ctx, blocks, max_reports=3, tag='', sessions=None, results=None):
    """runs every order of every block (or the given sessions); registers obligations / cases / violations.  -> number of failing sessions"""
    if sessions is None:
        sessions = all_sessions(blocks)
    byid, pristine = results if results is not None else run_sessions(sessions)
    nbad = 0; reported = {}
    ncalls = 0; nbit = 0
    for s in sessions:
        blk = blocks[s['block']]
        res = byid[s['id']]['results']
        fam = blk['family']
        ordname = s['order'].split(':')[0]
        ctx.count('order %s / %s' % (ordname, {'phi1d': 'phi_1D', 'program': 'whole model', 'driver': 'driver'}[fam]))
        ctx.count('in-sequence %s' % blk['count'])
        problems = []       # (last index needed, text, kind)
        pids = {r.get('pid') for r in res}
        if len(res) != len(s['calls']) or len(pids) != 1 or [r.get('pos') for r in res] != list(range(len(res))):
            problems.append((len(s['calls']) - 1, 'the calls of the sequence did not run in one process in the order asked for', 'harness'))
        for i, (c, r) in enumerate(zip(s['calls'], res)):
            ncalls += 1
            d = bitwise(r, pristine[ckey(c)])
            if d is None:
                nbit += 1
            else:
                problems.append((i, 'call %d (%s: %s) returns another value after the %d calls before it than in a pristine interpreter: %s' % (
                    i + 1, s['labels'][i], describe(c), i, d), 'history'))
                break       # later calls follow a call that already misbehaved: the first one is the finding
        worst = 0.0
        for chk in s['checks']:
            if chk[0] == 'rescale':
                _, ix, ir = chk
                dev, where = rescale_dev(res[ix], res[ir])
                worst = max(worst, dev)
                if not dev <= blk['tol']:
                    problems.append((max(ix, ir), '%s evaluated as call %d of a sequence differs from its re-expression relative to a reference size %g times larger (call %d) by %.3g relative%s' % (
                        describe(s['calls'][ix]), ix + 1, blk['c'], ir + 1, dev, (' (%s)' % where) if where else ''), 'rescale'))
            else:
                _, i1, i2, i3 = chk
                dev, where = linear_dev(res[i1], res[i2], res[i3], blk['a'], blk['b'])
                worst = max(worst, dev)
                if not dev <= blk['tol']:
                    problems.append((max(i1, i2, i3), '%s: the result for a*(density1, theta1) + b*(density2, theta2) (call %d) differs from a*call %d + b*call %d (a=%g, b=%g) by %.3g relative%s' % (
                        describe(s['calls'][i1]), i3 + 1, i1 + 1, i2 + 1, blk['a'], blk['b'], dev, (' (%s)' % where) if where else ''), 'linear'))
        ok = not problems
        ctx.case(signature=('orders', fam, blk['type'], s['order'], ckey(s['calls'][s['checks'][0][1] if s['checks'] else 0])),
                 sample={'predicate': blk['type'] + ' in one process', 'order': s['order'], 'what': blk['what'], 'calls': len(s['calls']), 'rel_dev': worst} if (ok and ctx.evaluations % 41 == 0) else None)
        ctx.obligation('%s%s [%s] order %s: %s predicate on the values of the sequence, all %d calls bitwise = pristine interpreter' % (
            tag, blk['what'], ('c=%g' % blk['c']) if blk['type'] == 'rescale' else 'a=%g b=%g' % (blk['a'], blk['b']), ordname, blk['type'], len(s['calls'])),
            ok, 'predicate', '' if ok else problems[0][1][:300])
        if ok:
            continue
        nbad += 1
        # the predicate failure is the statement about C03; the history difference explains it
        problems.sort(key=lambda p: (p[2] == 'history', p[0]))
        last, text, kind = problems[0]
        rk = (fam, kind)
        if reported.get(rk, 0) >= (max_reports if kind != 'history' else 1) or sum(reported.values()) >= 9:
            continue        # already reported for this family: the obligation above records the failure
        reported[rk] = reported.get(rk, 0) + 1
        upto = max(p[0] for p in problems if p[2] != 'harness') if any(p[2] != 'harness' for p in problems) else last
        hist = [p for p in problems if p[2] == 'history']
        msg = text + ' - calls made in ONE process in the order %s' % s['order']
        if hist and kind != 'history':
            msg += '; ' + hist[0][1]
        ctx.violation(msg, data={'sequence': s['calls'][:upto + 1], 'labels': s['labels'][:upto + 1], 'order': s['order'], 'what': blk['what'],
                                 'checks': [c for c in s['checks'] if max(c[1:]) <= upto],
                                 'block': {k: blk[k] for k in ('type', 'family', 'tol') if k in blk} | ({'c': blk['c']} if blk['type'] == 'rescale' else {'a': blk['a'], 'b': blk['b']}),
                                 'problems': [p[1] for p in problems][:6],
                                 'values_in_sequence': [r.get('res', r.get('error')) for r in res[:upto + 1]] if sum(len(r.get('res', [])) for r in res[:upto + 1]) < 4000 else 'omitted (large)',
                                 'how_to_run': 'harness/impl/c03_impl.py with {"sessions": [{"id": "x", "calls": <sequence>}]} on stdin runs the calls in this order in one process; every call alone = the pristine value'})
    ctx.stats['in-sequence calls compared bitwise with a pristine interpreter'] = ctx.stats.get('in-sequence calls compared bitwise with a pristine interpreter', 0) + ncalls
    ctx.stats['in-sequence calls bitwise equal'] = ctx.stats.get('in-sequence calls bitwise equal', 0) + nbit
    return nbad

# ----------------------------------------------------------------------------------------------------------------------
# source obligation: no module-level mutable state in the equilibrium densities, the time step and the mutation influx

TARGETS = {'PhiManip.py': ['phi_1D', 'phi_1D_genic', 'phi_1D_snm'],
           'Integration.py': ['_compute_dt', '_inject_mutations_1D', '_inject_mutations_2D', '_inject_mutations_3D', '_inject_mutations_4D', '_inject_mutations_5D']}
# reviewed exceptions: (file, function, what)
ALLOWED = {
    # the event record read by the Demes exporter (C16): phi_1D REPLACES it with a fresh one-element list and never reads it
    ('PhiManip.py', 'phi_1D', 'store Demes.cache'),
    ('PhiManip.py', 'phi_1D', 'load Demes.Initiation'),
}
PLATFORM = {'numpy', 'scipy', 'math', 'np'}      # third-party modules: functions of the platform, not of dadi
FORBIDDEN_NAMES = {'globals', 'locals', 'vars', 'setattr', 'getattr', 'delattr', '__import__', 'exec', 'eval', 'compile', 'open', 'id', 'hash', 'sys', 'os', 'functools', 'weakref', 'pickle', 'shelve'}

def _immutable(node):
    if isinstance(node, ast.Constant):
        return True
    if isinstance(node, ast.UnaryOp):
        return _immutable(node.operand)
    if isinstance(node, ast.BinOp):
        return _immutable(node.left) and _immutable(node.right)
    if isinstance(node, ast.Tuple):
        return all(_immutable(e) for e in node.elts)
    return False

def module_bindings(tree):
    """name -> ('function', node) | ('class', node) | ('import', dotted module or module.attr) | ('scalar', None) | ('state', text)"""
    b = {}
    def bind(name, v):
        if name in b and b[name][0] != v[0]:
            b[name] = ('state', 'bound more than once with different kinds')
        elif name in b and v[0] == 'function':
            b[name] = ('state', 'function defined more than once')
        else:
            b[name] = v
    def visit(stmts):
        for st in stmts:
            if isinstance(st, (ast.FunctionDef, ast.AsyncFunctionDef)):
                bind(st.name, ('function', st))
            elif isinstance(st, ast.ClassDef):
                bind(st.name, ('class', st))
            elif isinstance(st, ast.Import):
                for a in st.names:
                    bind(a.asname or a.name.split('.')[0], ('import', a.name if a.asname else a.name.split('.')[0]))
            elif isinstance(st, ast.ImportFrom):
                for a in st.names:
                    bind(a.asname or a.name, ('import', ('.' * st.level) + (st.module or '') + ':' + a.name))
            elif isinstance(st, (ast.Assign, ast.AnnAssign, ast.AugAssign)):
                tg = st.targets if isinstance(st, ast.Assign) else [st.target]
                val = st.value
                for t in tg:
                    for n in ast.walk(t):
                        if isinstance(n, ast.Name):
                            if isinstance(st, ast.AugAssign) or val is None or not _immutable(val) or not isinstance(t, ast.Name):
                                bind(n.id, ('state', 'module-level object: %s' % (ast.unparse(st)[:80])))
                            else:
                                bind(n.id, ('scalar', None))
            elif isinstance(st, (ast.If, ast.Try, ast.With, ast.For, ast.While)):
                for f in ('body', 'orelse', 'finalbody'):
                    visit(getattr(st, f, []) or [])
                for h in getattr(st, 'handlers', []) or []:
                    visit(h.body)
    visit(tree.body)
    return b

def local_names(fn):
    """names bound inside the function (parameters, assignment targets, loop / comprehension / with / except variables, nested defs, lambda parameters)"""
    loc = set()
    for n in ast.walk(fn):
        if isinstance(n, (ast.FunctionDef, ast.AsyncFunctionDef, ast.Lambda)):
            a = n.args
            for x in a.posonlyargs + a.args + a.kwonlyargs + ([a.vararg] if a.vararg else []) + ([a.kwarg] if a.kwarg else []):
                loc.add(x.arg)
            if not isinstance(n, ast.Lambda) and n is not fn:
                loc.add(n.name)
        elif isinstance(n, ast.Name) and isinstance(n.ctx, (ast.Store, ast.Del)):
            loc.add(n.id)
        elif isinstance(n, ast.ExceptHandler) and n.name:
            loc.add(n.name)
        elif isinstance(n, (ast.Import, ast.ImportFrom)):
            loc.add('<local import>')
    return loc

def dotted(node):
    parts = []
    while isinstance(node, ast.Attribute):
        parts.append(node.attr); node = node.value
    if isinstance(node, ast.Name):
        return [node.id] + parts[::-1]
    return None

def dadi_module_file(imp, dadi_dir):
    """'dadi:Numerics' / '.:Numerics' / 'dadi.tridiag_cython' -> path of the .py file or None (compiled / unknown)"""
    name = imp.split(':')[-1] if ':' in imp else imp.split('.')[-1]
    pkg = imp.split(':')[0] if ':' in imp else '.'.join(imp.split('.')[:-1])
    if pkg.strip('.') not in ('dadi', ''):
        return None
    p = os.path.join(dadi_dir, name + '.py')
    return p if os.path.exists(p) else None

def analyse_function(fname, fn, bindings, dadi_dir, cache):
    """-> (findings [text], same-module callees [name], reads of module-level scalars [name])"""
    finds = []; callees = []; scalars = []
    def flag(what, text):
        if (fname, fn.name, what) not in ALLOWED:
            finds.append('%s %s: %s' % (fname, fn.name, text))
    if fn.decorator_list:
        flag('decorator', 'decorated with %s (a wrapper may keep state between calls)' % ', '.join(ast.unparse(d) for d in fn.decorator_list))
    a = fn.args
    for dflt in list(a.defaults) + [x for x in a.kw_defaults if x is not None]:
        if not _immutable(dflt):
            flag('default', 'default argument %s is an object created once and shared by all calls' % ast.unparse(dflt))
    loc = local_names(fn)
    if '<local import>' in loc:
        flag('local import', 'import statement inside the function')
    inner = set()      # attribute nodes that are the prefix of a longer chain (a.b in a.b.c): only whole chains are classified
    for n in ast.walk(fn):
        if isinstance(n, ast.Global):
            flag('global', '`global %s`' % ', '.join(n.names))
        elif isinstance(n, ast.Attribute) and isinstance(n.value, ast.Attribute):
            inner.add(id(n.value))
    for n in ast.walk(fn):
        if isinstance(n, ast.Attribute) and id(n) not in inner:
            path = dotted(n)
            if path is None or path[0] in loc:
                continue
            root = path[0]
            kind = bindings.get(root)
            text = '.'.join(path)
            store = isinstance(n.ctx, (ast.Store, ast.Del))
            if kind is None:
                continue        # handled as a bare name below
            if kind[0] == 'import':
                mod = kind[1]
                top = mod.split(':')[0].split('.')[0] if not mod.startswith('.') else ''
                if store:
                    flag('store ' + text, 'assigns %s (state of another module)' % text)
                    continue
                if top in PLATFORM or root in PLATFORM:
                    continue
                f = dadi_module_file(mod, dadi_dir)
                if f is None:
                    flag('load ' + text, 'reads %s: not a function of a dadi source module that can be inspected' % text)
                    continue
                if f not in cache:
                    cache[f] = module_bindings(ast.parse(open(f).read()))
                ob = cache[f]
                k2 = ob.get(path[1]) if len(path) > 1 else None
                if k2 is None or k2[0] != 'function' or len(path) > 2:
                    flag('load ' + text, 'reads %s, which is %s of module %s' % (text, 'not a plain function' if k2 is None or k2[0] != 'state' else 'a ' + k2[1], os.path.basename(f)))
                else:
                    callees.append((f, path[1]))
            elif kind[0] in ('function', 'class'):
                flag(('store ' if store else 'load ') + text, '%s attribute %s of a module-level %s (attributes of functions are state that outlives the call)' % ('assigns' if store else 'reads', text, kind[0]))
            elif kind[0] == 'state':
                flag(('store ' if store else 'load ') + text, 'uses %s: %s' % (text, kind[1]))
            # attribute of a scalar constant: harmless (e.g. float methods)
    roots = set()      # Name nodes that are only the root of an attribute chain (classified above)
    for n in ast.walk(fn):
        if isinstance(n, ast.Attribute) and isinstance(n.value, ast.Name):
            roots.add(id(n.value))
    for n in ast.walk(fn):
        if isinstance(n, ast.Name) and n.id not in loc:
            kind = bindings.get(n.id)
            store = isinstance(n.ctx, (ast.Store, ast.Del))
            if n.id in FORBIDDEN_NAMES and (kind is None or kind[0] == 'import'):
                flag('name ' + n.id, 'uses `%s` (indirect access to state)' % n.id)
            elif kind is not None and kind[0] == 'import':
                mod = kind[1]
                top = mod.split(':')[0].split('.')[0] if not mod.startswith('.') else ''
                if top in PLATFORM or id(n) in roots:
                    continue
                # `from dadi.X import f` used as a bare name: f must be a plain function of X.py, inspected like the others
                f = None
                if ':' in mod:
                    pkg, item = mod.split(':')
                    if pkg.strip('.').split('.')[0] in ('dadi', '') and pkg.strip('.') not in ('dadi', ''):
                        cand = os.path.join(dadi_dir, pkg.strip('.').split('.')[-1] + '.py')
                        f = cand if os.path.exists(cand) else None
                if f is None:
                    flag('name ' + n.id, 'uses the imported object `%s` (%s) other than through its attributes: not a function that can be inspected' % (n.id, mod))
                    continue
                if f not in cache:
                    cache[f] = module_bindings(ast.parse(open(f).read()))
                k2 = cache[f].get(item)
                if k2 is None or k2[0] != 'function':
                    flag('name ' + n.id, 'uses `%s` imported from %s, which is not a plain function there' % (n.id, os.path.basename(f)))
                else:
                    callees.append((f, item))
            elif kind is None:
                if not hasattr(builtins, n.id):
                    flag('name ' + n.id, 'uses the name `%s`, which is neither local, nor bound at module level, nor a builtin' % n.id)
            elif kind[0] == 'state':
                flag('name ' + n.id, '%s module-level state `%s` (%s)' % ('writes' if store else 'uses', n.id, kind[1]))
            elif kind[0] == 'scalar':
                scalars.append(n.id)
            elif kind[0] == 'function':
                callees.append((None, n.id))
            elif kind[0] == 'class':
                flag('name ' + n.id, 'uses module-level class `%s` (instances / class attributes may keep state)' % n.id)
    return finds, callees, sorted(set(scalars))

def source_obligation(ctx):
    """-> (ok, findings).  Registers the obligation."""
    dadi_dir = os.path.join(lib.REPO, 'dadi')
    finds = []; checked = []; scal = {}
    cache = {}
    for fname, names in TARGETS.items():
        path = os.path.join(dadi_dir, fname)
        try:
            tree = ast.parse(open(path).read())
        except Exception as e:
            finds.append('%s cannot be parsed: %s' % (fname, e)); continue
        cache[path] = module_bindings(tree)
        todo = [(path, n, True) for n in names]
        seen = set()
        while todo:
            f, n, is_target = todo.pop(0)
            if (f, n) in seen:
                continue
            seen.add((f, n))
            if f not in cache:
                cache[f] = module_bindings(ast.parse(open(f).read()))
            bnd = cache[f]
            k = bnd.get(n)
            if k is None or k[0] != 'function':
                finds.append('%s: function %s not found as a single plain module-level def' % (os.path.basename(f), n)); continue
            fi, callees, scalars = analyse_function(os.path.basename(f), k[1], bnd, dadi_dir, cache)
            finds += fi
            checked.append('%s.%s' % (os.path.basename(f)[:-3], n))
            if scalars:
                scal['%s.%s' % (os.path.basename(f)[:-3], n)] = scalars
            for cf, cn in callees:
                todo.append((cf or f, cn, False))
    ok = not finds
    ctx.obligation('source: %s (and the dadi functions they call: %d functions inspected) read or write no module-level mutable state - no global dict/list/set or other '
                   'module-level object, no function attribute, no decorator, no shared default argument, no `global`; module-level scalars read: %s; reviewed exception: phi_1D replaces Demes.cache' % (
                       ', '.join(n for ns in TARGETS.values() for n in ns), len(checked), json.dumps(scal, sort_keys=True)),
                   ok, 'translator', '; '.join(finds[:6]))
    return ok, finds

# ----------------------------------------------------------------------------------------------------------------------

RULE = (' || in-process call orders: for each base parameter set X and factor c (R = X at reference size c): [A] neighbours(X), X, R, X; [B] neighbours(R), R, X, R; '
        '[A-reversed] X, R, X, neighbours(X) reversed; [B-reversed] R, X, R, neighbours(R) reversed; for each superposition triple: [L] neighbours(C1), C1, C2, C3, C1; '
        '[L3] neighbours(C3), C3, C1, C2, C3; [L-reversed] C1, C3, C2, C1, neighbours(C1) reversed; neighbours = the call with ONE raw argument changed (2-3 other nu, other '
        'theta0, gamma, h, beta, T, migration, density, grid of the same length, sample sizes) and the call at another reference size; every sequence in its own fork of an '
        'interpreter that has only imported dadi, predicate on the values of the sequence, every value also bitwise against the same call alone in such a fork; '
        'quick: every phi_1D regime of PHI_REGIMES (neutral / genic on both sides of both guards / dominance quadratures incl. Qadjust / beta != 1), whole models with dominance '
        'd=1..5 (+ genic strong selection, + functions of time), one driver rescale and one driver superposition block per d=1..5')

def start(ctx, base_driver_cases):
    """the orders stream of a full run, called from c03.run: generates the blocks and starts the implementation runs in the
    background (they only wait for subprocesses); finish() does all the bookkeeping in the calling thread"""
    import threading
    rng = random.Random('C03-orders-%d-%s' % (ctx.seed, ctx.tier))
    ctx.rule += RULE
    size = ctx.tier
    blocks = gen_phi_blocks(rng, size) + gen_program_blocks(rng, size) + gen_driver_blocks(rng, size, base_driver_cases)
    sessions = all_sessions(blocks)
    h = {'blocks': blocks, 'sessions': sessions, 'base': base_driver_cases, 'size': size}
    def work():
        try:
            h['results'] = run_sessions(sessions)
        except BaseException as e:
            h['error'] = e
    h['thread'] = threading.Thread(target=work, daemon=True)
    h['thread'].start()
    return h

def finish(ctx, h):
    h['thread'].join()
    if 'error' in h:
        raise h['error']
    blocks, size, base_driver_cases = h['blocks'], h['size'], h['base']
    ok_src, finds = source_obligation(ctx)
    ctx.notes.append('call orders exercised in one process (%s size, %d blocks, %d sequences): %s' % (size, len(blocks), len(h['sessions']), '; '.join(ORDERS_RESCALE + ORDERS_LINEAR)))
    nbad = evaluate(ctx, blocks, sessions=h['sessions'], results=h['results'])
    if not ok_src and nbad == 0 and size != 'thorough':
        # the obligation is broken and the quick-size orders found nothing: search at thorough size before concluding
        rng2 = random.Random('C03-orders-search-%d' % ctx.seed)
        blocks = gen_phi_blocks(rng2, 'thorough') + gen_program_blocks(rng2, 'thorough') + gen_driver_blocks(rng2, 'thorough', base_driver_cases)
        ctx.notes.append('source obligation broken and no failing sequence at quick size: the adversarial orders were run again at thorough size (%d blocks)' % len(blocks))
        nbad = evaluate(ctx, blocks, tag='search: ')
    if not ok_src and nbad == 0:
        ctx.violation('phi_1D / phi_1D_genic / phi_1D_snm / _compute_dt / _inject_mutations_*D use module-level mutable state (%s): the rescaling and linearity results are '
                      'statements about single evaluations and no longer carry over to sequences of calls; the adversarial call orders (thorough size, %d blocks) found no failing sequence' % (
                          '; '.join(finds[:3]), len(blocks)), data={'findings': finds}, no_input=True,
                      broken='source obligation: no module-level mutable state in the equilibrium densities, the time step and the mutation influx (harness/props/c03_orders.py)')
    return nbad

def replay(ctx, inp):
    """--replay of a recorded sequence: the sequence again in one fresh process, every call also alone, the recorded predicates again"""
    blkinfo = inp.get('block') or {}
    blk = dict(blkinfo, what=inp.get('what', 'replay'), count='replay')
    blk.setdefault('tol', 1e-9); blk.setdefault('family', inp['sequence'][0]['kind']); blk.setdefault('type', 'rescale')
    if blk['type'] == 'rescale':
        blk.setdefault('c', float('nan'))
    else:
        blk.setdefault('a', 1.0); blk.setdefault('b', 1.0)
    sess = {'id': 'replay', 'block': 0, 'order': inp.get('order', 'replay'), 'calls': [clean(c) for c in inp['sequence']],
            'labels': inp.get('labels') or ['call'] * len(inp['sequence']), 'checks': inp.get('checks') or []}
    ctx.notes.append('replay of a recorded call sequence (%d calls, order %s)' % (len(sess['calls']), sess['order']))
    return evaluate(ctx, [blk], tag='replay: ', sessions=[sess])
