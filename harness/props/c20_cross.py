"""C20 — the CROSS stream: container / dtype of every array-like argument  x  the mode keywords that change the internal path.

"Inputs are never modified in place" and "results do not depend on the call history" are statements about the OBJECTS the caller hands over.  Whether a
function works on the caller's object or on a copy is decided by idioms such as numpy.asarray(p0, dtype=float) / numpy.array(p0) / list(p0) + [theta]:
they copy for SOME containers and dtypes and hand back the caller's own buffer for others (a float64 ndarray - what the optimisers return), and which idiom
is reached depends on the mode keywords (multinom=True rebuilds p0 as a list, multinom=False does not; log=True goes through numpy.log(p0); just_hess;
the position and value of the nested parameters decide which finite-difference branch writes last).  A check that passes lists (or one mode) sees none of it.

Every run, systematically (nothing is drawn with a probability):
  (G) dadi.Godambe, every public function (fail-closed against the source: GODAMBE_SIGS) - FIM_uncert, GIM_uncert, LRT_adjust, Wald_stat, score_stat,
      get_godambe, get_hess, get_grad (hessian_elem through get_hess), sum_chi2_ppf:
        p0 as list / tuple / float64 ndarray / non-contiguous float64 view / negatively strided view / list of numpy scalars / int64 ndarray (integral values)
          x  multinom True / False (theta as an explicit LAST parameter)  x  log False / True  x  just_hess
          x  nested index sets: first, inner, LAST position, several, unsorted; a nested parameter whose value is ZERO (gamma = 0) and non-zero;
        and every other array-like argument one at a time (grid_pts, nested_indices, full_params, boot_theta_adjusts, all_boot) in its containers;
      sequences of different statistics on the SAME objects (LRT_adjust, Wald_stat, score_stat ...: what a user script does with popt), each element against
      the value of the single call in a pristine interpreter.
  (O) the other entry points of the catalogue (Inference optimiser helpers and the objective function with multinom / fixed_params / bounds, Misc.perturb_params,
      likelihoods, Numerics memoised functions, low-pass helpers, Spectrum methods with list arguments, from_phi, models, from_demes): every list / tuple /
      1-D array argument (names discovered from the driver's builders, impl mode 'crossnames') in every container that carries the same values.
Per call, in its own fork of an interpreter that has only imported dadi (= pristine):
  (a) every argument bit-for-bit unchanged afterwards: values (float.hex), container types, dtypes, shapes, strides, raw bytes of every buffer;
  (b) the SAME call again at once on the SAME objects returns the same value (and still leaves the arguments unchanged);
  (c) the first value is the pristine-interpreter value by construction; sequence elements are compared with the pristine single calls.
A call that RAISES for a container (a tuple where item assignment is needed, float index arrays) is counted as refused: (a) and (b) still apply to it.
A failed translator / scan obligation that names Godambe.py (copy= keywords, parameter mutations, memo state) runs block (G) in thorough size (more parameter
vectors, every nested subset) BEFORE the check may say no-failing-input-found.
"""
import ast, copy, json, os, itertools

P0_KINDS = ['list', 'tuple', 'f64', 'view', 'neg', 'npscalars']          # + 'int' where every value is integral
KIND_TEXT = {'0d': 'a 0-d float64 ndarray', '1el': 'a 1-element float64 ndarray', 'npfloat': 'a numpy float64 scalar',
             'list': 'a list', 'tuple': 'a tuple', 'f64': 'a float64 ndarray (what the optimisers return)', 'view': 'a non-contiguous float64 view',
             'neg': 'a negatively strided float64 view', 'npscalars': 'a list of numpy scalars', 'int': 'an int64 ndarray'}
GIM_NAME = {'FIM': 'FIM_uncert', 'GIM': 'GIM_uncert', 'LRT': 'LRT_adjust', 'Wald': 'Wald_stat', 'score': 'score_stat', 'godambe': 'get_godambe',
            'hess': 'get_hess', 'grad': 'get_grad', 'chi2': 'sum_chi2_ppf'}

# every public function of dadi/Godambe.py with its parameter list (reviewed; a new function / parameter is a broken obligation: the stream does not know how to vary it)
GODAMBE_SIGS = {
    'hessian_elem': ['func', 'f0', 'p0', 'ii', 'jj', 'eps', 'args', 'one_sided'],      # reached through get_hess (every branch: p = 0, one-sided, diagonal / off-diagonal)
    'get_hess': ['func', 'p0', 'eps', 'args'],
    'get_grad': ['func', 'p0', 'eps', 'args'],
    'get_godambe': ['func_ex', 'grid_pts', 'all_boot', 'p0', 'data', 'eps', 'log', 'just_hess', 'boot_theta_adjusts'],
    'GIM_uncert': ['func_ex', 'grid_pts', 'all_boot', 'p0', 'data', 'log', 'multinom', 'eps', 'return_GIM', 'boot_theta_adjusts'],
    'FIM_uncert': ['func_ex', 'grid_pts', 'p0', 'data', 'log', 'multinom', 'eps', 'return_FIM'],
    'LRT_adjust': ['func_ex', 'grid_pts', 'all_boot', 'p0', 'data', 'nested_indices', 'multinom', 'eps', 'boot_theta_adjusts'],
    'sum_chi2_ppf': ['x', 'weights'],
    'Wald_stat': ['func_ex', 'grid_pts', 'all_boot', 'p0', 'data', 'nested_indices', 'full_params', 'multinom', 'eps', 'adj_and_org'],
    'score_stat': ['func_ex', 'grid_pts', 'all_boot', 'p0', 'data', 'nested_indices', 'multinom', 'eps', 'adj_and_org'],
}


def source_obligation(ctx, R):
    """public functions of Godambe.py and their parameters = GODAMBE_SIGS (fail-closed)"""
    try:
        tree = ast.parse(open(os.path.join(R, 'Godambe.py')).read())
    except (OSError, SyntaxError) as e:
        ctx.obligation('cross stream: dadi/Godambe.py parsed', False, 'translator', str(e))
        return False
    got = {}
    for n in tree.body:
        if isinstance(n, ast.FunctionDef) and not n.name.startswith('_'):
            a = n.args
            got[n.name] = [x.arg for x in a.posonlyargs + a.args + a.kwonlyargs] + ([a.vararg.arg] if a.vararg else []) + ([a.kwarg.arg] if a.kwarg else [])
    diff = {k: {'source': got.get(k), 'table': GODAMBE_SIGS.get(k)} for k in sorted(set(got) | set(GODAMBE_SIGS)) if got.get(k) != GODAMBE_SIGS.get(k)}
    return ctx.obligation('cross stream: the public functions of dadi/Godambe.py and their parameters are the %d reviewed ones - every array-like parameter (p0, grid_pts, all_boot, '
                          'nested_indices, full_params, boot_theta_adjusts, x, weights) and every mode keyword (multinom, log, just_hess, eps, adj_and_org) is varied by the stream'
                          % len(GODAMBE_SIGS), not diff, 'translator', json.dumps(diff)[:500])


# ------------------------------------------------------------------------------------------------------------------
# (G) Godambe

def _godambe_data(rng, dy):
    data = {'shape': [9], 'vals': [0.0, 60.0, 31.0, 20.0, 14.0, 11.0, 9.0, 8.0, 0.0]}
    boots = []
    for k in range(6):
        boots.append({'shape': [9], 'vals': [0.0] + [v + float(int(dy(rng, -6, 6, 0))) for v in data['vals'][1:-1]] + [0.0]})
    return data, boots


def godambe_jobs(rng, dy, big):
    data, boots = _godambe_data(rng, dy)
    THETA = 64.0
    PA, PB = [2.0, 0.5, 1.0], [2.0, 1.0, 0.0]          # (nu, T, gamma): PB is integral (int64 container) and has the ZERO-valued gamma
    plist = [(PA, P0_KINDS, False), (PB, ['int', 'f64', 'list'], True)]
    if big:
        for _ in range(3):
            plist.append(([dy(rng, 0.5, 4, 3), dy(rng, 0.125, 1, 3), dy(rng, -2, 2, 3)], ['f64', 'view', 'list'], False))
        plist.append(([3.0, 2.0, -1.0], ['int', 'f64'], False))
    jobs = []
    def base(f, mn, P, cont=None, **kw):
        p0 = list(P) + ([] if mn else [THETA])
        s = {'op': 'gim', 'f': f, 'kind': 'two_epoch_g' if mn else 'two_epoch_g_theta', 'p0': p0, 'data': copy.deepcopy(data), 'boots': copy.deepcopy(boots),
             'pts': [12], 'multinom': mn, '_repeat': True}
        if f in ('LRT', 'Wald', 'score') or kw.get('fseq'):
            s['nested'] = [0]
        nn = len(kw.get('nested') or [0])
        if f in ('LRT', 'Wald', 'score') and not kw.get('fseq') and not kw.get('boot_theta_adjusts'):
            s['boots'] = s['boots'][:nn + 1]          # J over the nested parameters only: nested + 1 bootstraps keep it regular
        elif not kw.get('boot_theta_adjusts'):
            s['boots'] = s['boots'][:5]
        if f == 'Wald' or 'Wald' in (kw.get('fseq') or []):
            s['full_params'] = [p + d for p, d in zip(p0, [1.0, 0.25, 0.5, 16.0])]
        s.update(kw)
        if cont:
            s['_cont'] = dict(cont)
        return s
    def add(s, why):
        jobs.append({'spec': s, 'why': why, 'block': 'G'})
    def nested_sets(mn, zero_only):
        n = 3 if mn else 4
        if big:
            al = [list(c) for k in (1, 2, 3) for c in itertools.combinations(range(n), k)] + [[n - 1, 0]]
        else:
            al = [[0], [2], [0, 2], [1, 2], [2, 0]] if mn else [[0], [2], [3], [0, 2], [1, 3]]
        return [x for x in al if 2 in x] if zero_only else al
    # 1. the nested-model statistics: p0 container x multinom x nested positions x (non-zero / zero-valued nested parameter)
    for f in ('LRT', 'Wald', 'score'):
        for mn in (True, False):
            for P, kinds, zero in plist:
                for nested in nested_sets(mn, zero and not big):
                    for kd in kinds:
                        add(base(f, mn, P, {'p0': kd}, nested=nested), 'p0 as %s x multinom=%s x nested_indices=%r' % (KIND_TEXT[kd], mn, nested))
    # 2. every other array-like argument, one at a time (p0 the float64 ndarray of the optimisers, and a list)
    for f in ('LRT', 'Wald', 'score'):
        for mn in (True, False):
            for pk in ('f64', 'list'):
                vs = [('pts', k) for k in ('tuple', 'int', 'npscalars')] + [('nested_indices', k) for k in ('tuple', 'int', 'npscalars')] + [('all_boot', 'tuple')]
                if f == 'Wald':
                    vs += [('full_params', k) for k in ('tuple', 'f64', 'view', 'neg')]
                for name, kd in vs:
                    if pk == 'list' and (name, kd) not in (('nested_indices', 'int'), ('full_params', 'f64'), ('pts', 'tuple')):
                        continue
                    add(base(f, mn, PA, {'p0': pk, name: kd}, nested=[0, 2]), '%s as %s (p0 as %s) x multinom=%s' % (name, KIND_TEXT[kd], KIND_TEXT[pk], mn))
        for kd in ('list', 'tuple', 'f64'):
            if f == 'LRT':
                add(base(f, False, PA, {'p0': 'f64', 'boot_theta_adjusts': kd}, nested=[0, 3], boot_theta_adjusts=[1.0, 0.5, 2.0, 1.0, 1.5, 0.75]),
                    'boot_theta_adjusts as %s x multinom=False' % KIND_TEXT[kd])
    # 3. uncertainties and the derivative helpers: p0 container x multinom x log x just_hess
    for f in ('FIM', 'GIM', 'godambe', 'hess', 'grad'):
        for mn in (True, False):
            for P, kinds, zero in plist:
                for log in ((False,) if (zero or f in ('hess', 'grad') or min(P) <= 0) else (False, True)):
                    for jh in ((False, True) if f == 'godambe' else (False,)):
                        for kd in kinds:
                            if f == 'godambe' and not big and kd not in ('list', 'f64', 'view', 'int'):
                                continue            # (quick tier: GIM_uncert / FIM_uncert reach get_godambe with p0 in every container)
                            kw = {'log': log}
                            if f == 'godambe':
                                kw['just_hess'] = jh
                            add(base(f, mn, P, {'p0': kd}, **kw), 'p0 as %s x multinom=%s x log=%s%s' % (KIND_TEXT[kd], mn, log, ' x just_hess=%s' % jh if f == 'godambe' else ''))
        if f in ('GIM', 'godambe'):
            for kd in ('list', 'tuple', 'f64'):
                add(base(f, False, PA, {'p0': 'f64', 'boot_theta_adjusts': kd}, boot_theta_adjusts=[1.0, 0.5, 2.0, 1.0, 1.5, 0.75]), 'boot_theta_adjusts as %s x multinom=False' % KIND_TEXT[kd])
            add(base(f, False, PA, {'p0': 'f64', 'all_boot': 'tuple', 'pts': 'tuple'}), 'all_boot, grid_pts as tuples')
    # 4. sum_chi2_ppf(x, weights)
    for xk in ('list', 'tuple', 'f64', 'view', 'int'):
        for wk in ('tuple', 'list', 'f64'):
            s = {'op': 'gim', 'f': 'chi2', 'kind': 'two_epoch_g', 'p0': [1.0, 2.0, 4.0], 'full_params': [0.5, 0.25, 0.25], 'data': copy.deepcopy(data), 'pts': [12], '_repeat': True,
                 '_cont': {'p0': xk, 'full_params': wk}}
            add(s, 'x as %s, weights as %s' % (KIND_TEXT[xk], KIND_TEXT[wk]))
    # 5. several statistics one after the other on the SAME objects (what a script does with popt)
    seqs = [['LRT', 'Wald', 'score'], ['score', 'Wald', 'LRT'], ['FIM', 'GIM', 'LRT'], ['GIM', 'score', 'FIM']] + ([['Wald', 'LRT']] if big else [])
    for fseq in seqs:
        for mn in (True, False):
            for kd in ('list', 'f64') + (('tuple', 'view', 'neg') if big else ()):
                for nested in ([[0], [0, 2] if mn else [1, 3]]):
                    s = base(fseq[0], mn, PA, {'p0': kd, 'full_params': kd}, fseq=fseq, nested=nested)
                    singles = []
                    for g in fseq:
                        one = copy.deepcopy(s); del one['fseq']; one['f'] = g
                        singles.append(one)
                    jobs.append({'spec': s, 'singles': singles, 'block': 'G',
                                 'why': 'the statistics %s one after the other on the same objects: p0, full_params as %s x multinom=%s x nested_indices=%r' % (fseq, KIND_TEXT[kd], mn, nested)})
    return jobs


# ------------------------------------------------------------------------------------------------------------------
# (O) the other entry points: base calls whose list / tuple / 1-D array arguments are crossed with their containers

def other_bases(cat, rng, gen_fs, big):
    d1 = copy.deepcopy(cat.data1)
    out = []
    # optimiser helpers: mode keywords multinom / fixed_params / bounds with and without holes
    for mn in (True, False):
        for fx in (None, [None, 0.5], [2.0, None]):
            params = [p for p, x in zip([2.0, 0.5], fx or [None, None]) if x is None]
            for lo, hi in ((None, None), ([0.01, None], [100, 10]), ([0.01, 0.01], [2.5, None])):
                if not big and (lo, fx) not in ((None, None), ([0.01, None], [2.0, None]), ([0.01, 0.01], None), (None, [None, 0.5])):
                    continue
                out.append({'op': 'opt', 'f': 'object_func', 'kind': 'two_epoch', 'params': params, 'data': copy.deepcopy(d1), 'pts': [8, 10], 'lower': lo, 'upper': hi,
                            'fixed': fx, 'multinom': mn})
    for mn in (True, False):
        for fx in ((None, [None, 0.5]) if big else ((None,) if mn else ([None, 0.5],))):
            out.append({'op': 'opt', 'f': 'optimize_log', 'kind': 'two_epoch', 'params': [2.0, 0.5] if fx is None else [2.0], 'data': copy.deepcopy(d1), 'pts': [8, 10],
                        'lower': [0.01, 0.01], 'upper': [100, 10], 'fixed': fx, 'multinom': mn, 'maxiter': 2})
    for aa in (True, False):
        for lo, hi in ((None, None), ([0.0625, 0.0625], [16.0, 16.0]), ([None, 0.0625], [16.0, None])):
            out.append({'op': 'opt', 'f': 'perturb', 'params': [1.0, 2.0], 'lower': lo, 'upper': hi, 'seed': 1, 'fold': 1, 'as_array': aa})
    for f, pin, fx in (('proj_down', [1.0, 2.0, 3.0], [None, 2.0, None]), ('proj_down', [1.0, 2.0, 3.0], None), ('proj_up', [1.5, 2.5], [None, 2.0, None]),
                       ('proj_up', [1.5, 2.5, 3.5], None), ('proj_down', [1.0, 2.0, 3.0], [1.0, None, 3.0]), ('proj_up', [2.0], [1.0, None, 3.0])):
        out.append({'op': 'opt', 'f': f, 'pin': pin, 'fixed': fx})
    # memoised Numerics functions, low-pass helpers
    out += [{'op': 'num', 'f': 'multinomln', 'a': [[2, 1, 3]]}, {'op': 'num', 'f': 'cached_part', 'a': [3, 2]}, {'op': 'num', 'f': '_cached_projection', 'a': [2, 6, 3]},
            {'op': 'num', 'f': 'BetaBinomln', 'a': [1, 2, 0.5, 2.5]}, {'op': 'num', 'f': 'bbconv_all', 'a': [3, 2, 0.5, 2.5]}]
    cov = cat.covs[0]
    out += [{'op': 'lp', 'f': 'nocall', 'cov': cov, 'n': 4, 'Fx': 0.25}, {'op': 'lp', 'f': 'cem', 'cov': cov, 'nsub': 2, 'Fx': 0}, {'op': 'lp', 'f': 'enough', 'cov': cov, 'nseq': 6, 'nsub': 4},
            {'op': 'lp', 'f': 'func', 'kind': 'two_epoch', 'p': [2.0, 0.5], 'pts': 8, 'pops': [{'cov': cov, 'nseq': 6, 'nsub': 4, 'F': 0}]}]
    # Spectrum methods taking lists, from_phi, models, from_demes
    fs2 = gen_fs(rng, (5, 4)); fs3 = gen_fs(rng, (3, 4, 3))
    out += [{'op': 'sp', 'm': 'project', 'fs': copy.deepcopy(fs2), 'a': [[3, 2]]}, {'op': 'sp', 'm': 'marginalize', 'fs': copy.deepcopy(fs3), 'a': [[0, 2]]},
            {'op': 'sp', 'm': 'reorder_pops', 'fs': copy.deepcopy(fs3), 'a': [[3, 1, 2]]}, {'op': 'sp', 'm': 'combine_pops', 'fs': copy.deepcopy(fs3), 'a': [[1, 3]]},
            {'op': 'sp', 'm': 'filter_pops', 'fs': copy.deepcopy(fs3), 'a': [[1, 3]]}, {'op': 'sp', 'm': 'project', 'fs': dict(copy.deepcopy(fs2), fold=True), 'a': [[2, 2]]}]
    out.append({'op': 'from_phi', 'd': 2, 'pts': 8, 'phi': copy.deepcopy(cat.phis[(2, 8)][0]), 'ns': [3, 2]})
    out.append({'op': 'from_phi', 'd': 2, 'pts': 8, 'phi': copy.deepcopy(cat.phis[(2, 8)][0]), 'ns': [2, 4], 'inb': True, 'Fs': [0.125, 0.5], 'ploidys': [2, 2]})
    out += [{'op': 'model', 'kind': 'two_epoch', 'p': [2.0, 0.5], 'ns': [6], 'pts': [8, 10, 12]}, {'op': 'model', 'kind': 'split_mig', 'p': [2.0, 1.0, 0.5, 1.0], 'ns': [3, 4], 'pts': [8, 10]},
            {'op': 'model', 'kind': 'three_epoch', 'p': [2.0, 1.0, 1.0, 2.0], 'ns': [4], 'pts': 10}]
    out.append({'op': 'demes', 'yaml': 'gutenkunst_ooa.yaml', 'sampled': ['YRI', 'CEU'], 'sizes': [3, 3], 'pts': [8]})
    # integrators d = 1..5 (constant-parameter and time-dependent drivers), one_pop_X, phi_1D: every SCALAR argument (T, initial_t, nu*, gamma*, h*, m*, theta0, beta, alpha)
    # as a 0-d ndarray / 1-element array / numpy scalar - `T -= dt` re-binds a Python float but writes into the caller's 0-d array
    for d in (1, 2, 3, 4, 5):
        for nonconst in ((False, True) if (big or d <= 3) else (False,)):
            s = cat.g_integ(d=d, nonconst=nonconst, T0=False)
            s.pop('frozen', None)
            s['gamma'] = [1.0, -1.0, 0.5, 1.0, -0.5][:d]
            if d > 1:
                s['m'] = [[0 if i == j else [0.5, 1.0, 0.25][(i + j) % 3] for j in range(d)] for i in range(d)]
            s['initial_t'] = 0.015625
            out.append(s)
    sx = cat.g_integ(d=1, nonconst=False, T0=False)
    sx.pop('frozen', None)
    out.append(dict(sx, X=True, initial_t=0.015625))
    out.append({'op': 'pm', 'k': 'phi_1D', 'd': 1, 'pts': 8, 'phi': copy.deepcopy(cat.phis[(1, 8)][0]), 'nu': 2.0, 'gamma': 1.0})
    g = cat.g_ll()
    for f in ('ll', 'll_multinom'):
        out.append(dict(copy.deepcopy(g), f=f))
    return out


NATURAL = {'list': 'list', 'tuple': 'tuple', 'ndarray': 'f64'}

EXPENSIVE_QUICK_KINDS = ('tuple', 'f64', 'int', 'list')

def expensive(s):
    return (s['op'] == 'opt' and s['f'] == 'optimize_log') or s['op'] in ('demes', 'model') or (s['op'] == 'lp' and s['f'] == 'func')

def other_jobs(bases, names, quick=False):
    """names: per base the reply of the driver's 'crossnames' mode"""
    jobs, bad = [], []
    for s, nm in zip(bases, names):
        if 'build_error' in nm:
            bad.append((s, nm['build_error']))
            continue
        jobs.append({'spec': dict(copy.deepcopy(s), _repeat=True), 'why': 'arguments as the catalogue builds them', 'block': 'O'})
        for name, kinds in sorted(nm['containers'].items()):
            if name == 'args':
                continue            # the list of the method's arguments (a harness object): its elements arg0, arg1 .. are the arguments
            t = nm['types'].get(name)
            nat = NATURAL.get(t[0] if isinstance(t, list) else t)
            for kd in kinds:
                if kd == nat or (quick and expensive(s) and kd not in EXPENSIVE_QUICK_KINDS):
                    continue
                if quick and kd in ('1el', 'npfloat') and name not in ('T', 'initial_t', 'nu', 'nu1', 'theta0'):
                    continue
                if name in ('phi', 'xx'):
                    continue            # (n-dimensional arrays: their layouts are the layout differential's)
                jobs.append({'spec': dict(copy.deepcopy(s), _repeat=True, _cont={name: kd}), 'why': '%s as %s' % (name, KIND_TEXT[kd]), 'block': 'O'})
    return jobs, bad


# ------------------------------------------------------------------------------------------------------------------
# judgement

def mode_text(s):
    if s['op'] != 'gim':
        return ', '.join('%s=%r' % (k, s[k]) for k in ('multinom', 'fixed', 'lower', 'upper', 'as_array', 'inb') if k in s)
    bits = ['%s=%r' % (k, s[k]) for k in ('multinom', 'log', 'just_hess', 'nested') if k in s]
    return ', '.join(bits + ['p0=%r' % (s['p0'],)])


def _plain(c):
    """readable form of a canonical argument picture (float.hex -> decimal)"""
    if isinstance(c, list) and len(c) == 3 and isinstance(c[1], (list, str)) and isinstance(c[2], list):
        c = c[0]                     # [values, types, raw bytes] of the cross stream: show the values
    def f(x):
        if isinstance(x, str) and (x.startswith('0x') or x.startswith('-0x')):
            return float.fromhex(x)
        if isinstance(x, list):
            if len(x) == 4 and x[0] == 'A':
                return [f(v) for v in x[3]]
            if len(x) == 2 and x[0] == 'f':
                return f(x[1])
            if x and x[0] in ('L', 'T'):
                return [f(v) for v in x[1:]]
            return [f(v) for v in x]
        return x
    return json.dumps(f(c))


K_INITIAL_T = 'Integration.*_const_params:initial_t-array-advanced-in-place'

def finding_key(fam, mut):
    """known-finding key of an argument mutation (None: not a catalogued defect)"""
    if fam.startswith('Integration.') and mut == ['initial_t']:
        return K_INITIAL_T
    return None


def judge(fam, job, rec, single_digests=None):
    """findings of one cross call: [(uid, text, observed)]"""
    s = job['spec']
    finds = []
    cont = s.get('_cont') or {}
    how = '; '.join('%s handed over as %s' % (n, KIND_TEXT[k]) for n, k in sorted(cont.items())) or 'arguments as built by the catalogue'
    where = '%s(%s) with %s' % (fam, mode_text(s), how)
    mut = sorted(set((rec.get('mutated') or []) + (rec.get('mutated_by_repeat') or [])))
    same = rec.get('digest') == rec.get('repeat_digest')
    if mut:
        det = rec.get('mutated_detail') or {}
        ex = ''
        for n in mut:
            if n in det:
                bf, af = det[n]['before'], det[n]['after']
                ex = ' (%s: %s -> %s)' % (n, _plain(bf)[:110], _plain(af)[:110])
                break
        finds.append((('cross-mut:%s:%s' % ('sequence of statistics on the same objects' if s.get('fseq') else fam, ','.join(mut))) if finding_key(fam, mut) is None else finding_key(fam, mut),
                      '%s changes the caller\'s %s in place%s%s' % (where, ', '.join(mut), ex,
                          '' if same else ' - and the same call repeated at once on the same objects returns %s instead of %s' % (rec.get('repeat_value', '?')[:70], rec.get('value', '?')[:70])),
                      {'mutated': rec.get('mutated'), 'mutated_by_repeat': rec.get('mutated_by_repeat'), 'detail': det, 'first': rec.get('value'), 'repeat': rec.get('repeat_value')}))
    elif not same:
        finds.append(('cross-repeat:%s' % fam, '%s: the same call repeated at once on the same argument objects returns %s instead of %s (the value of the first call, made in a pristine interpreter)' % (
            where, rec.get('repeat_value', '?')[:80], rec.get('value', '?')[:80]), {'first': rec.get('value'), 'repeat': rec.get('repeat_value')}))
    if single_digests is not None and not mut:
        for tag, el in (('first pass', rec.get('elements')), ('second pass', rec.get('repeat_elements'))):
            if el is None or len(el) != len(single_digests):
                continue
            wrong = [i for i, (e, w) in enumerate(zip(el, single_digests)) if w is not None and e != w]
            if wrong:
                finds.append(('cross-seq:%s' % fam, '%s: element(s) %s of the sequence (%s) differ from the value the single call returns in a pristine interpreter' % (where, wrong, tag),
                              {'wrong': wrong, 'pass': tag}))
                break
    return finds


def start(ctx, cat, rng, gen_fs, dy, run_many, sig, broken):
    """the calls are drawn here (main thread, from the run's PRNG); their evaluation runs in a background thread next to the other streams"""
    import threading
    big = (not ctx.quick) or bool(broken)
    st = {'big': big, 'broken': list(broken), 'gj': godambe_jobs(rng, dy, big), 'bases': other_bases(cat, rng, gen_fs, not ctx.quick), 'quick': ctx.quick}
    def work():
        try:
            st['nres'] = run_many([{'mode': 'crossnames', 'calls': st['bases']}])[0]
            if 'crash' in st['nres']:
                oj, bad = [], []
            else:
                oj, bad = other_jobs(st['bases'], st['nres']['calls'], st['quick'])
            st['bad'] = bad
            jobs = st['gj'] + oj
            singles = {}
            for j in jobs:
                for one in j.get('singles', []):
                    singles.setdefault(sig(one), one)
            payloads = [{'mode': 'eval', 'calls': [j['spec']]} for j in jobs] + [{'mode': 'eval', 'calls': [s]} for s in singles.values()]
            st['jobs'], st['singles'], st['res'] = jobs, singles, run_many(payloads)
        except Exception as e:
            import traceback
            st['exc'] = traceback.format_exc()[-800:]
    st['thread'] = threading.Thread(target=work)
    st['thread'].start()
    return st


def run_stream(ctx, rep, cat, rng, gen_fs, dy, run_many, op_family, sig, broken):
    finish(ctx, rep, start(ctx, cat, rng, gen_fs, dy, run_many, sig, broken), op_family, sig)


def finish(ctx, rep, st, op_family, sig):
    st['thread'].join()
    big, broken = st['big'], st['broken']
    if 'exc' in st:
        ctx.obligation('cross stream ran', False, 'harness', st['exc'])
        return
    if 'crash' in st['nres']:
        ctx.obligation('cross stream: arguments of the base calls enumerated', False, 'harness', st['nres']['crash'][-400:])
    else:
        ctx.obligation('cross stream: arguments of the %d base calls of the other entry points enumerated from the driver\'s builders' % len(st['bases']), not st['bad'], 'harness', repr(st['bad'])[:300])
    jobs, singles, res = st['jobs'], st['singles'], st['res']
    sres = dict(zip(singles.keys(), res[len(jobs):]))
    sdig = {k: (None if ('crash' in r or 'build_error' in r['calls'][0]) else r['calls'][0]['digest']) for k, r in sres.items()}
    stats = {'calls': 0, 'refused': 0, 'godambe_calls': 0, 'other_calls': 0, 'sequences': 0, 'findings': 0}
    cover = {}
    secs = {}
    ncrash = 0
    for j, r in zip(jobs, res):
        s = j['spec']
        fam = op_family(s)
        if 'crash' in r or 'build_error' in r['calls'][0]:
            ncrash += 1
            if ncrash <= 3:
                ctx.obligation('cross stream call ran: %s (%s)' % (fam, j['why']), False, 'harness', json.dumps(r)[:400])
            continue
        rec = r['calls'][0]
        stats['calls'] += 1
        secs[fam.split('(')[0]] = round(secs.get(fam.split('(')[0], 0) + (r.get('secs') or 0), 2)
        stats['godambe_calls' if j['block'] == 'G' else 'other_calls'] += 1
        if rec.get('error'):
            stats['refused'] += 1
            ctx.count('cross stream: call raises for this container (refused) ' + fam)
        sd = None
        if j.get('singles'):
            stats['sequences'] += 1
            sd = [sdig.get(sig(one)) for one in j['singles']]
        for kd in sorted(set((s.get('_cont') or {}).values())) or ['as built']:
            ctx.count('cross stream container=' + kd)
        if j['block'] == 'G' and not rec.get('error') and not j.get('singles'):
            cover.setdefault((s['f'], s.get('multinom')), set()).add((s.get('_cont') or {}).get('p0'))
        finds = judge(fam, j, rec, sd)
        ctx.case(signature=('cross', sig(s)), sample={'cross': fam, 'why': j['why'], 'findings': [f[1][:160] for f in finds]} if (finds or stats['calls'] <= 2) else None)
        for uid, what, obs in finds:
            stats['findings'] += 1
            if uid == K_INITIAL_T:
                stats['keyed_findings'] = stats.get('keyed_findings', 0) + 1
            rep.report(uid if uid == K_INITIAL_T else None, what + ' [cross stream: ' + j['why'] + ']', {'kind': 'cross', 'call': s, 'singles': j.get('singles'), 'why': j['why'], 'observed': obs}, unkeyed_id=uid)
    ctx.stats['cross_stream'] = dict(stats, thorough_size=big, broken=sorted(broken), seconds_by_family=secs)
    ctx.obligation('cross stream: container / dtype of every array-like argument (list, tuple, float64 ndarray, non-contiguous / negatively strided view, numpy scalars, int64 ndarray) x mode '
                   'keywords (multinom, log, just_hess, nested index positions incl. last and a zero-valued nested parameter, fixed_params, bounds): every argument bit-for-bit unchanged '
                   '(values, types, dtypes, strides, raw bytes), the immediate repeat on the same objects returns the same value, sequence elements equal their pristine single calls '
                   '(%d calls: %d Godambe, %d other entry points, %d sequences; %d refused by the library for the container)' % (
                       stats['calls'], stats['godambe_calls'], stats['other_calls'], stats['sequences'], stats['refused']),
                   stats['findings'] == 0 and ncrash == 0 and stats['calls'] > 0, 'predicate', '%d findings, %d crashes' % (stats['findings'], ncrash))
    if stats['findings'] and stats['findings'] == stats.get('keyed_findings') and not ncrash:
        ctx.obligations[-1]['known_key'] = K_INITIAL_T
    # not vacuous: every Godambe function reached (without raising) under both multinom modes with p0 in every container
    miss = []
    for f in ('LRT', 'Wald', 'score', 'FIM', 'GIM', 'godambe', 'hess', 'grad'):
        for mn in (True, False):
            need = set(['list', 'f64', 'view', 'int']) if (f == 'godambe' and not big) else set(P0_KINDS + ['int'])
            lack = need - cover.get((f, mn), set())
            if lack:
                miss.append('%s multinom=%s: %s' % (GIM_NAME[f], mn, sorted(lack)))
    ctx.obligation('cross stream is not vacuous: every public Godambe function returned a value under multinom=True and multinom=False with p0 in each of the %d containers (quick tier: get_godambe directly in 4 of them, in all through GIM_uncert / FIM_uncert)' % (len(P0_KINDS) + 1),
                   not miss, 'harness', repr(miss)[:400])


def replay(ctx, inp, run_many, op_family, sig):
    s = inp['call']
    singles = inp.get('singles') or []
    res = run_many([{'mode': 'eval', 'calls': [s]}] + [{'mode': 'eval', 'calls': [one]} for one in singles])
    r = res[0]
    if 'crash' in r or 'build_error' in r['calls'][0]:
        ctx.obligation('replayed cross call ran', False, 'harness', json.dumps(r)[:400])
        return
    sd = [None if ('crash' in x or 'build_error' in x['calls'][0]) else x['calls'][0]['digest'] for x in res[1:]] if singles else None
    fam = op_family(s)
    finds = judge(fam, {'spec': s}, r['calls'][0], sd)
    ctx.case(sample={'cross': fam, 'findings': [f[1][:200] for f in finds]})
    ctx.obligation('replayed call leaves every argument bit-for-bit unchanged and its immediate repeat on the same objects returns the same value', not finds, 'predicate',
                   '; '.join(f[1][:200] for f in finds))
    for uid, what, obs in finds[:1]:
        ctx.violation(what, data=inp, key=uid if uid == K_INITIAL_T else None)
