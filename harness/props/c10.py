"""C10 — population bookkeeping on spectra equals explicit index arithmetic, keeps labels.

Static theorems: coq/theories/Props/C10.v  (model: coq/theories/Model/PopOps.v).
Per run:
  (1) correspondence: Spectrum.marginalize / filter_pops / reorder_pops / combine_two_pops / combine_pops /
      scramble_pop_ids and Misc.combine_pops on generated spectra (d = 2..6, unequal sample sizes, with/without
      labels, folded/unfolded, no / corner / random masks) against the Coq model evaluated over Q:
      shape, mask, labels, folded flag exactly; values where unmasked to 1e-11 relative; nan pattern of scramble;
      calls the code refuses must be refused by the model and vice versa;
  (2) the conclusions of the conservation theorems evaluated on the Q instance for every case;
  (3) the property predicates on the implementation itself (independent index arithmetic in harness/impl/c10_impl.py):
      totals conserved, the axis labelled L carries population L's marginal spectrum, commutation with project
      (on the axes that are not merged / dropped) and with fold on unmasked data: data, mask, labels AND folded flag;
  (4) size regimes (harness/props/c10_sizes.py): on every run every operation on the smallest legal spectra and on
      systematically chosen large ones (binomials / products of binomials beyond 2^31, 2^53, 2^63, 2^64, 2^128, the
      float64 range; axes beyond 255 entries; more than 65535 entries), compared entry by entry with the explicit
      re-indexing in exact arithmetic, and with the Coq model where vm_compute affords it (pcheck_full_fast).
"""
import itertools, json, math
from fractions import Fraction
from harness import lib
from harness.lib import q, ql, b, bl, natl
from harness.props import c10_sizes

TOL = Fraction(1, 10 ** 11)
TOLF = 1e-11
LABELS = ['YRI', 'CEU', 'CHB', 'JPT', 'pop 5', 'F']

HEADER = ('From Coq Require Import String.\nFrom Coq Require Import ZArith QArith List.\n'
          'From Dadi Require Import Base.Num Base.NumQ Model.PopOps Model.PopOpsCheck.\n'
          'Import ListNotations.\nOpen Scope Q_scope.')

# ------------------------------------------------------------------------------------------------------
# generator

def rand_shape(rng, d, cap):
    hi = {2: 7, 3: 5, 4: 4, 5: 3, 6: 3}[d]
    for _ in range(1000):
        sh = [rng.randint(2, hi) for _ in range(d)]
        n = 1
        for s in sh:
            n *= s
        if len(set(sh)) > 1 and n <= cap:
            return sh
    return [2] * (d - 1) + [3]

def subsets(d, lo, hi):
    for k in range(lo, hi + 1):
        for s in itertools.combinations(range(d), k):
            yield list(s)

def op_args(ctx, d, exhaustive):
    """list of (op, args) for a d-dimensional spectrum"""
    rng = ctx.rng
    out = []
    margs = list(subsets(d, 1, d - 1))
    keeps = list(subsets(d, 1, d))
    perms = list(itertools.permutations(range(1, d + 1)))
    pairs = [(p, qq) for p in range(1, d + 1) for qq in range(1, d + 1) if p != qq]
    combs = list(subsets(d, 1, d))
    if not exhaustive:
        nm = ctx.pick(3, 8)
        margs = rng.sample(margs, min(nm, len(margs)))
        keeps = rng.sample(keeps, min(ctx.pick(2, 6), len(keeps)))
        perms = rng.sample(perms, min(ctx.pick(3, 10), len(perms)))
        pairs = rng.sample(pairs, min(ctx.pick(3, 8), len(pairs)))
        combs = rng.sample(combs, min(ctx.pick(3, 8), len(combs)))
    for s in margs:
        s = list(s); rng.shuffle(s)
        out.append(('marg', {'over': s, 'mc': rng.random() < 0.6}))
    for s in keeps:
        s = [k + 1 for k in s]; rng.shuffle(s)
        out.append(('filter', {'keep': s}))
    for p in perms:
        out.append(('reorder', {'order': list(p)}))
    for p in pairs:
        out.append(('combine2', {'pq': list(p)}))
    for s in combs:
        s = [k + 1 for k in s]; rng.shuffle(s)
        out.append(('combine', {'tc': s}))
    if d == 2:
        out.append(('misc', {'idx': None}))
        out.append(('misc', {'idx': [1, 0]}))          # ignored for 2-D
    if d == 3:
        for ix in ([0, 1], [0, 2], [1, 2]):
            out.append(('misc', {'idx': ix}))
        out.append(('misc', {'idx': None}))
    out.append(('scramble', {'mc': True}))
    out.append(('scramble', {'mc': rng.random() < 0.5}))
    return out

def refusals(ctx, d):
    rng = ctx.rng
    out = [('reorder', {'order': [1] * d}), ('reorder', {'order': list(range(d))}),
           ('reorder', {'order': list(range(1, d))}), ('reorder', {'order': list(range(1, d + 2))}),
           ('filter', {'keep': [1, 1]}), ('filter', {'keep': [d + 1]}), ('filter', {'keep': [0]}),
           ('marg', {'over': list(range(d)), 'mc': True}), ('marg', {'over': [d], 'mc': True})]
    if d == 3:
        out += [('misc', {'idx': [1, 0]}), ('misc', {'idx': [2, 1]}), ('misc', {'idx': [0, 1, 2]})]
    if d >= 4:
        out += [('misc', {'idx': [0, 1]})]
    return out

def make_case(ctx, cid, shape, op, args, variant=None):
    rng = ctx.rng
    d = len(shape)
    n = 1
    for s in shape:
        n *= s
    data = [rng.randint(0, 255) / 16.0 if rng.random() < 0.9 else 0.0 for _ in range(n)]
    labels, folded, maskmode = variant if variant else (rng.random() < 0.6, rng.choice(['no', 'no', 'fold', 'fold', 'direct']),
                                                        rng.choice(['none', 'corners', 'corners', 'random']))
    if maskmode == 'none':
        mask = [False] * n; mc = False
    elif maskmode == 'corners':
        mask = [False] * n; mc = True
    else:
        pm = rng.choice([0.03, 0.1, 0.3])
        mask = [rng.random() < pm for _ in range(n)]; mc = rng.random() < 0.7
    if folded == 'direct':
        # a folded spectrum given directly: entries beyond half the total sample are masked (plus whatever else is)
        tot = sum(s - 1 for s in shape)
        for k, I in enumerate(itertools.product(*[range(s) for s in shape])):
            if sum(I) > tot // 2:
                mask[k] = True
                if rng.random() < 0.8:
                    data[k] = 0.0
    ids = None
    if labels:
        ids = rng.sample(LABELS, d)
    c = {'id': cid, 'op': op, 'args': args, 'shape': shape, 'data': data, 'mask': mask, 'mask_corners': mc,
         'pop_ids': ids, 'folded': folded, 'predicates': True}
    # projection targets for the commutation predicate: merged axes keep their size
    ns = [s - 1 for s in shape]
    keepsize = set()
    if op == 'combine2':
        keepsize = set(p - 1 for p in args['pq'])
    elif op == 'combine':
        keepsize = set(p - 1 for p in args['tc'])
    elif op == 'misc':
        keepsize = set(args.get('idx') or [0, 1]) if d == 3 else {0, 1}
    c['proj'] = [ns[k] if k in keepsize else rng.randint(1, ns[k]) for k in range(d)]
    return c

def gen_cases(ctx):
    rng = ctx.rng
    cases = []
    cap = ctx.pick(300, 700)
    for d in range(2, 7):
        exhaustive = (not ctx.quick) and d <= 4
        nshapes = ctx.pick(1, 2 if d <= 4 else 3)
        for _ in range(nshapes):
            shape = rand_shape(rng, d, cap)
            for op, args in op_args(ctx, d, exhaustive):
                nvar = 1 if ctx.quick else (2 if d <= 4 else 1)
                for _ in range(nvar):
                    cases.append(make_case(ctx, len(cases), shape, op, args))
        # every (labels, folded, mask) combination at least once per op and dimension
        shape = rand_shape(rng, d, min(cap, 200))
        ops = op_args(ctx, d, False)
        variants = [(l, f, m) for l in (False, True) for f in ('no', 'fold', 'direct') for m in ('none', 'corners', 'random')]
        rng.shuffle(variants)
        byop = {}
        for op, args in ops:
            byop.setdefault(op, []).append(args)
        for op, lst in byop.items():
            for v in (variants[:ctx.pick(4, len(variants))]):
                cases.append(make_case(ctx, len(cases), shape, op, rng.choice(lst), v))
        for op, args in refusals(ctx, d):
            c = make_case(ctx, len(cases), rand_shape(rng, d, 64), op, args)
            c['predicates'] = False; c['refusal'] = True
            cases.append(c)
    # size regimes: the smallest legal and systematically chosen large sample sizes for every operation, on every run
    cases += c10_sizes.gen_size_cases(ctx, make_case, len(cases))
    return cases

# ------------------------------------------------------------------------------------------------------
# Coq terms

def coq_str(s):
    return '"%s"%%string' % s.replace('"', '""')

def coq_ids(ids):
    if ids is None:
        return 'None'
    return '(Some [%s])' % '; '.join(coq_str(s) for s in ids)

def coq_op(op, a):
    if op == 'marg':
        return '(OpMarg %s %s)' % (natl(a['over']), b(a['mc']))
    if op == 'filter':
        return '(OpFilter %s)' % natl(a['keep'])
    if op == 'reorder':
        return '(OpReorder %s)' % natl(a['order'])
    if op == 'combine2':
        return '(OpCombine2 %d%%nat %d%%nat)' % tuple(a['pq'])
    if op == 'combine':
        return '(OpCombine %s)' % natl(a['tc'])
    if op == 'misc':
        return '(OpMisc %s)' % natl(a['idx'] if a.get('idx') is not None else [0, 1])
    if op == 'scramble':
        return '(OpScramble %s)' % b(a['mc'])
    raise KeyError(op)

def coq_case(c, r):
    i = r['input']
    ok = 'output' in r
    o = r.get('output') or {'shape': [], 'data': [], 'mask': [], 'nan': [], 'pop_ids': None, 'folded': False}
    return ('{| pc_op := %s; pc_shape := %s; pc_data := %s; pc_mask := %s; pc_ids := %s; pc_folded := %s; pc_ok := %s; '
            'pc_oshape := %s; pc_odata := %s; pc_omask := %s; pc_onan := %s; pc_oids := %s; pc_ofolded := %s |}') % (
        coq_op(c['op'], c['args']), natl(i['shape']), ql(i['data']), bl(i['mask']), coq_ids(i['pop_ids']), b(i['folded'] is True),
        b(ok), natl(o['shape']), ql(o['data']), bl(o['mask']), bl(o['nan']), coq_ids(o['pop_ids']), b(o['folded'] is True))

CODES = {-1: 'the code refuses / accepts the call and the model does the opposite', -2: 'shape', -3: 'mask', -4: 'population labels',
         -5: 'folded flag', -6: 'nan pattern', -7: 'model total not conserved (Q instance)'}

# ------------------------------------------------------------------------------------------------------

def judge_predicates(ctx, c, r):
    """property predicates evaluated on the implementation; returns list of failure descriptions"""
    bad = []
    # large cases beyond N = 1000 chromosomes: exp(gammaln) weights (projection, re-dealing) are only good to a few ulps of
    # gammaln(N+2) in the exponent; 1e-11 for every other case
    tolf = c10_sizes.size_tol(c['shape']) if c.get('big') else TOLF
    P = r.get('pred')
    if P is None:
        if 'pred_error' in r:
            bad.append(('predicate evaluation raised: ' + r['pred_error'][:200], 'pred-error'))
        return bad
    if 'shape' in P:
        bad.append(('result has shape %r, the explicit re-indexing has shape %r' % (P['shape']['got'], P['shape']['want']), 'shape'))
        return bad
    got, exp, scale = P['total'] if 'total' in P else (0.0, 0.0, 1.0)      # large cases: totals are part of the exact reference
    ctx.count('pred:total' if 'total' in P else 'pred:total in the exact reference')
    if not abs(got - exp) <= tolf * max(scale, 1e-300):
        bad.append(('total not conserved: sum of the unmasked result %r, sum of the entries mapped there %r' % (got, exp), 'total'))
    L = P.get('labels')
    if L is not None:
        ctx.count('pred:labels')
        if not L['ok'] or not L['err'] <= TOLF * max(L['scale'], 1e-300):
            bad.append(('population labels not on the right axes: labels %r became %r (%s; marginal spectrum of a labelled axis differs by %r)'
                        % (c['pop_ids'], L['ids_out'], L['detail'], L['err']), 'labels'))
    pr = P.get('project')
    if pr is not None:
        ctx.count('pred:project')
        if (not pr['shape_ok'] or not pr['err'] <= tolf * max(pr['scale'], 1.0) or not pr['mask_equal'] or pr['ids'][0] != pr['ids'][1]
                or pr['folded'][0] != pr['folded'][1]):
            bad.append(('does not commute with projection to %r on unmasked data: %r' % (c['proj'], pr), 'project'))
    for mc in (0, 1):
        fr = P.get('fold_mc%d' % mc)
        if fr is None:
            continue
        ctx.count('pred:fold')
        if not fr['shape_ok'] or not fr['err'] <= tolf * max(fr['scale'], 1.0) or not fr['mask_equal'] or fr['ids'][0] != fr['ids'][1]:
            bad.append(('does not commute with folding on unmasked data (mask_corners=%d): %r' % (mc, fr), 'fold'))
        elif fr['folded'][0] is not True or fr['folded'][1] is not True:
            bad.append(('does not commute with folding (mask_corners=%d): %s of the folded spectrum has folded=%r, folding the %s of the '
                        'unfolded spectrum has folded=%r (data and mask agree)' % (mc, c['op'], fr['folded'][0], c['op'], fr['folded'][1]), 'fold-flag'))
    return bad

def run(ctx):
    ctx.rule = ('cases = (dimension 2..6, unequal sample sizes, operation, its argument (subset / permutation / pair / merge set, '
                'exhaustive for d<=4 in the thorough tier), labels or none, unfolded / folded by fold() / folded given directly, '
                'no / corner / random masks, dyadic data) from one PRNG, plus calls the code must refuse; distinct = distinct '
                '(shape, op, args, labels, folding, mask); non-trivial = every accepted call.  SIZE REGIMES, on every run (fixed lists in '
                'harness/props/c10_sizes.py, not drawn): every operation on the smallest legal spectra (n = 1, 2 in 2..6 dimensions) and on '
                'large ones chosen so that the largest product of per-population binomials / the largest single binomial / the pool '
                'binomial cross 2^31, 2^53, 2^63, 2^64, 2^128 and the float64 range, axes exceed 127 / 255 entries and arrays 32767 / '
                '65535 entries (e.g. (20,31) (29,30) (34,35) (30,40) (66,66) (67,5) (3,80) (1,200) (2,1100) (70,1100) (22,24,26) '
                '(10,11,12,13)); an obligation recomputes the bands from the cases that were actually evaluated')
    ctx.assumptions += ['float64 sums are compared with exact rational sums at 1e-11 relative to the largest entry',
                        'scramble_pop_ids: exp(gammaln) weights compared with exact binomial ratios at the same tolerance',
                        'values under masked entries are not compared (masks are compared exactly)',
                        'commutation with projection is claimed and checked on the axes that are neither merged nor dropped '
                        '(pooling two populations and then subsampling is a different experiment from subsampling each); '
                        'scramble_pop_ids is not claimed to commute with projection',
                        'Misc.combine_pops works on the raw data and ignores mask and folding by design; it is compared as such']
    ctx.assumptions += ['every case is ALSO compared entry by entry (shape, mask, labels, folded flag, nan pattern, values at 1e-11 relative '
                        'PER ENTRY) with the explicit re-indexing computed in exact arithmetic (scaled integers; fractions / math.comb for '
                        'the re-dealing weights) by harness/props/c10_sizes.py; for the large cases this is the entry-wise reference, the '
                        'Coq model is evaluated on those of at most 1500 entries (quick: 12 of them; thorough: all) through '
                        'pcheck_full_fast, which Props/C10.v proves equal to the check on the model for every case',
                        'large cases beyond N = 1000 chromosomes (scramble_pop_ids entries and total, commutation with projection / folding): '
                        'tolerance max(1e-11, 64 ulp of gammaln(N+2)) (exp(sum of gammaln) cannot do better in float64; 4.7e-11 at '
                        'N = 1102, observed 3e-12); 1e-11 for every case up to N = 290',
                        'large cases: the driver evaluates commutation with projection and folding on the real code; totals and labels are '
                        'part of the exact entry-wise reference there']
    ctx.trusted += ['harness/impl/c10_impl.py: independent index arithmetic for the predicates on the implementation',
                    'harness/props/c10_sizes.py: exact explicit re-indexing (cross-checked on every small case against the real code and, '
                    'through it, the Coq model)']
    import time
    t0 = time.time()
    cases = gen_cases(ctx)
    if ctx.replay:
        rp = json.load(open(ctx.replay))
        if rp.get('input') and 'case' in rp['input']:
            c = rp['input']['case']; c['id'] = 0
            cases = [c]
    res = []
    nproc = 1 if len(cases) < 8 else 3          # independent cases, interleaved over three fresh interpreters
    from concurrent.futures import ThreadPoolExecutor
    with ThreadPoolExecutor(max_workers=nproc) as ex:
        for part in ex.map(lambda k: lib.run_impl('c10_impl.py', cases[k::nproc], timeout=1500), range(nproc)):
            res += part
    byid = {r['id']: r for r in res}
    t1 = time.time()
    exprs = []
    exprs_fast = []
    meta = {}
    nxbad = 0
    if not ctx.replay:
        c10_sizes.coverage_obligation(ctx, cases, byid)
    for c in cases:
        r = byid[c['id']]
        d = len(c['shape'])
        ctx.count('d=%d' % d); ctx.count('op=' + c['op'])
        if 'build_error' in r:
            ctx.obligation('case %d input construction' % c['id'], False, 'harness', r['build_error'])
            continue
        ctx.count('folded=' + c['folded']); ctx.count('labels' if c['pop_ids'] else 'nolabels')
        nm = sum(r['input']['mask'])
        ctx.count('masked_entries=%s' % ('0' if nm == 0 else '<=2' if nm <= 2 else '>2'))
        if 'error' in r:
            ctx.count('impl refuses')
            if not c.get('refusal'):
                ctx.violation('%s%r raised %s on a %d-D spectrum of shape %r' % (c['op'], c['args'], r['error'], d, c['shape']),
                              data={'case': c, 'impl': r})
        out = r.get('output')
        if out is not None and not isinstance(out['folded'], bool):
            ctx.violation('%s returns a Spectrum whose folded attribute is %r' % (c['op'], out['folded']), data={'case': c, 'impl': r})
        if out is not None and out.get('inf'):
            ctx.violation('%s returns infinite entries' % c['op'], data={'case': c, 'impl': r})
        sig = (tuple(c['shape']), c['op'], json.dumps(c['args'], sort_keys=True), bool(c['pop_ids']), c['folded'],
               tuple(k for k, m in enumerate(r['input']['mask']) if m) if c.get('big') else tuple(r['input']['mask']))
        if c.get('size_regime'):
            ctx.count('size regime: ' + ('large' if c.get('big') else 'smallest'))
        ctx.case(signature=sig if out is not None else None,
                 sample={'op': c['op'], 'args': c['args'], 'shape': c['shape'], 'pop_ids': c['pop_ids'], 'folded': c['folded'],
                         'out_shape': out and out['shape'], 'out_pop_ids': out and out['pop_ids'],
                         'out_head': out and out['data'][:6]})
        bad = judge_predicates(ctx, c, r)
        if 'pred' in r or bad:
            ctx.obligation('predicates case %d (%s%s): totals, labels, project, fold' % (c['id'], c['op'], json.dumps(c['args'], sort_keys=True)),
                           not bad, 'predicate', '; '.join(w for w, _ in bad)[:400])
        for what, kind in bad:
            ctx.violation('%s%r on shape %r: %s' % (c['op'], c['args'], c['shape'], what), data={'case': c, 'impl': r})
        # the explicit re-indexing of every entry in exact arithmetic (all cases; the only entry-wise reference for the large ones)
        xbad = c10_sizes.judge_exact(c, r)
        ctx.count('exact reference')
        ctx.obligation('exact re-indexing case %d (%s%s) shape %r' % (c['id'], c['op'], json.dumps(c['args'], sort_keys=True), c['shape']),
                       not xbad, 'predicate', '; '.join(w for w, _ in xbad)[:400])
        if xbad:
            nxbad += 1
            if nxbad <= 6:
                ctx.violation('%s%r on a %s spectrum with sample sizes %r (labels %r) is not the explicit re-indexing of its entries: %s'
                              % (c['op'], c['args'], {'no': 'unfolded', 'fold': 'folded', 'direct': 'folded'}[c['folded']],
                                 [s_ - 1 for s_ in c['shape']], c['pop_ids'], '; '.join(w for w, _ in xbad)),
                              data={'case': c, 'impl': r if len(c['data']) <= 20000 else {k: v for k, v in r.items() if k != 'input'}})
        if c.get('big'):
            # evaluating the Gallina model on arrays of this size inside Coq is affordable for some (pcheck_full_fast: Pascal rows
            # for the binomials, proved to return what pcheck_full returns: C10_fast_check_is_the_check), not for the largest
            if c.get('coq_fast'):
                n = 1000000 + len(exprs_fast)
                exprs_fast.append((n, coq_case(c, r)))
                meta[n] = c
            continue
        n = len(exprs)
        exprs.append((n, coq_case(c, r)))
        meta[n] = c
    t2 = time.time()
    results = ctx.coq_cases('corr', HEADER, exprs, '(pcheck_full %s)' % q(TOL), 'tol 1e-11 x largest entry', shard=ctx.pick(12, 24), timeout=1500)
    t3 = time.time()
    if exprs_fast:
        results.update(ctx.coq_cases('corrlarge', HEADER, exprs_fast, '(pcheck_full_fast %s)' % q(TOL), 'tol 1e-11 x largest entry',
                                     shard=ctx.pick(2, 3), timeout=1500))
        ctx.count('large cases evaluated on the Coq model', len(exprs_fast))
    ctx.notes.append('wall: generator + real code %.0f s, predicates + exact reference %.0f s, Coq %d ordinary cases %.0f s, Coq %d large cases %.0f s'
                     % (t1 - t0, t2 - t1, len(exprs), t3 - t2, len(exprs_fast), time.time() - t3))
    nbad = 0
    for n, c in meta.items():
        rr = results.get(n)
        ok = rr is not None and rr[0]
        why = '' if ok else ('model != impl: ' + (CODES.get(rr[1], 'values differ (log2 rel err %d)' % rr[1]) if rr else 'no result from coqc'))
        ctx.obligation('corr case %d %s%s d=%d' % (c['id'], c['op'], json.dumps(c['args'], sort_keys=True), len(c['shape'])), ok, 'correspondence', why)
        if not ok:
            nbad += 1
            if nbad <= 5:
                r = byid[c['id']]
                ctx.violation('%s%r on a %s spectrum of shape %r (labels %r) is not the explicit re-indexing of its entries: %s'
                              % (c['op'], c['args'], {'no': 'unfolded', 'fold': 'folded', 'direct': 'folded'}[c['folded']], c['shape'], c['pop_ids'], why),
                              data={'case': c, 'impl': r, 'coq': rr})

