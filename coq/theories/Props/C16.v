(** C16 placeholder during development *)
From Coq Require Import List.
From Dadi Require Import Base.Num Model.DemesFront.
Example C16_placeholder : std_wiring 1 = mkWiring (0 :: nil) nil (0 :: nil).
Proof. reflexivity. Qed.
