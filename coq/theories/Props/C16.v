(** C16 — demes graphs and native dadi models give the same spectrum in any units or order.
    Only statements; every proof is [exact <lemma>].  Model: Model/DemesFront.v (the importer as a function from a
    resolved graph + sampling spec to the sequence of calls into the numerical layer).  [gmap a b r] multiplies the times
    of a graph by a, its sizes by b and its rates by r; [evmap a] the times of the events `demes` reports. *)
From Coq Require Import ZArith QArith Reals List Bool Arith Lra Lia Permutation.
From Dadi Require Import Base.Num Base.NumR Base.NumQ Model.DemesFront
     Proofs.DemesBase Proofs.DemesRescale Proofs.DemesUnits Proofs.DemesOrder Proofs.DemesExport Proofs.DemesPulse
     Model.DemesExportModel Model.DemesExportReorderModel Proofs.DemesExportRoundTrip Proofs.DemesExportReorder.
Import ListNotations.
Local Open Scope R_scope.

(** rescale_graph_same_program: sizes and times x c, rates / c, Ne x c: identical (T, nu, M), identical program *)
Theorem C16_rescale_graph_same_program : forall ws pnu c (g : graph R) evs sampled frozen Ne ns,
  0 < c -> wf_graph g -> has_root g ->
  core ws pnu (gmap c c (/ c) g) (evmap c evs) sampled frozen (scale_Ne c Ne) ns = core ws pnu g evs sampled frozen Ne ns.
Proof. exact core_rescale. Qed.
Print Assumptions C16_rescale_graph_same_program.

(** the same for the whole importer (ancient samples, slicing, unit conversion), when the sizes of the frozen branches
    scale with the graph *)
Theorem C16_rescale_whole_importer : forall ws pnu gt c (g : graph R) sampled times new_ids sizes evs Ne ns,
  0 < c -> (forall k, gt = Some k -> 0 < k) -> wf_graph g -> has_root_inf g ->
  front ws pnu gt (gmap c c (/ c) g) sampled (option_map (map (Rmult c)) times) new_ids (map (Rmult c) sizes)
        (evmap c evs) (scale_Ne c Ne) ns
  = front ws pnu gt g sampled times new_ids sizes evs Ne ns.
Proof. exact front_rescale. Qed.
Print Assumptions C16_rescale_whole_importer.

(** ... which a literal size (start_size=1 in the source) does not do *)
Theorem C16_literal_frozen_size_refuted : exists c Ne : R, 0 < c /\
  make_nu_func [(1, 1, SConstant)] 0 (c * Ne) <> make_nu_func [(1, 1, SConstant)] 0 Ne.
Proof. exact literal_frozen_size_refuted. Qed.

(** time_units_same_program (oracle: Graph.in_generations divides every time by generation_time k) *)
Theorem C16_time_units_same_program : forall ws pnu k (g : graph R) sampled times new_ids sizes evs Ne ns, 0 < k ->
  front ws pnu (Some k) g sampled times new_ids sizes evs Ne ns
  = front ws pnu None (gmap (/ k) 1 1 g) sampled (option_map (map (Rmult (/ k))) times) new_ids sizes evs Ne ns.
Proof. exact front_time_units. Qed.
Print Assumptions C16_time_units_same_program.

(** deme_order_permutes_axes: same calls, then the reorder with the permuted index list *)
Theorem C16_deme_order_permutes_axes : forall ws pnu (g : graph R) evs sampled frozen Ne ns sigma is_,
  let s1 := core_run ws pnu g evs sampled frozen Ne in
  s_ok s1 = true -> indices_of sampled (s_ids s1) = Some is_ -> is_perm1 (map S is_) (length (s_ids s1)) = true ->
  Permutation sigma (seq 0 (length sampled)) ->
  core ws pnu g evs sampled frozen Ne ns
    = rev (s_calls s1) ++ [simple_call F_reorder_pops [] (map S is_) []; simple_call F_from_phi [] ns sampled]
  /\ core ws pnu g evs (permute sigma sampled 0%nat) frozen Ne (permute sigma ns 0%nat)
    = rev (s_calls s1) ++ [simple_call F_reorder_pops [] (permute sigma (map S is_) 0%nat) [];
                           simple_call F_from_phi [] (permute sigma ns 0%nat) (permute sigma sampled 0%nat)].
Proof. exact order_permutes_axes. Qed.
Print Assumptions C16_deme_order_permutes_axes.

Theorem C16_final_axes_are_the_sampled_demes : forall ids sampled is_,
  indices_of sampled ids = Some is_ -> reorder_labels ids (map S is_) = sampled.
Proof. exact final_axes_are_sampled. Qed.

Theorem C16_permuted_reorder_permutes_axes : forall cur ord sigma, Forall (fun i => (i < length ord)%nat) sigma ->
  reorder_labels cur (permute sigma ord 0%nat) = permute sigma (reorder_labels cur ord) 0%nat.
Proof. exact reorder_labels_permute. Qed.

(** frozen_flags_wired (d = 1..5) *)
Theorem C16_integration_call_wired : forall (ids : list nat) (T : R) (nus : list (sizefn R)) (M : list (list R)) (fr : list bool),
  let d := length ids in (1 <= d <= 5)%nat -> length nus = d -> length fr = d ->
  exists f, int_fname d = Some f /\
    integ_calls std_wirings ids T nus M fr
    = [mkCall f T nus (map (fun ab => nth (snd ab) (nth (fst ab) M []) 0) (offdiag d)) fr [] ids].
Proof. exact integ_call_wired. Qed.

Theorem C16_frozen_flags_wired : forall (g : graph R) frozen Ne iv,
  let stp := mk_step g frozen Ne iv in
  (1 <= length (st_live stp) <= 5)%nat ->
  exists c, integ_calls std_wirings (st_live stp) (st_T stp) (st_nus stp) (st_M stp) (st_fr stp) = [c]
            /\ c_ids c = st_live stp /\ c_fr c = map (fun id => mem id frozen) (c_ids c) /\ c_nus c = st_nus stp.
Proof. exact frozen_flags_wired. Qed.
Print Assumptions C16_frozen_flags_wired.

Theorem C16_axes_carry_the_demes_of_the_next_interval : forall ws all evs (stp : step R) (s : st R),
  s_ok (run_step ws all evs stp s) = true -> tleb (snd (st_iv stp)) (Fin 0) = false ->
  exists nx, find (fun x => teqb (fst (st_iv x)) (snd (st_iv stp))) all = Some nx
             /\ s_ids (run_step ws all evs stp s) = st_live nx.
Proof. exact run_step_ids. Qed.

(** the wiring of the current source (frozen5 <- frozen[3]) violates it *)
Theorem C16_frozen_flags_miswired_refuted : exists (ids : list nat) (fr : list bool),
  length ids = 5%nat /\ length fr = 5%nat /\
  forall c, integ_calls (F:=R) wirings_frozen5_from_3 ids 0 (repeat (SNum 1) 5) [] fr = [c] -> c_fr c <> fr.
Proof. exact frozen_flags_miswired_refuted. Qed.

(** ancient_sample_is_frozen_branch *)
Theorem C16_ancient_sample_is_frozen_branch : forall ws pnu gt (g : graph R) sampled times new_ids sizes evs Ne ns,
  nmin_list times = 0 -> existsb (fun t => negb (Reqb t 0)) times = true ->
  let l := map (fun x => mkAS (fst (fst (fst x))) (snd (fst (fst x)) - 0) (snd (fst x)) (snd x))
               (combine (combine (combine sampled times) new_ids) sizes) in
  front ws pnu gt g sampled (Some times) new_ids sizes evs Ne ns
  = core ws pnu (match gt with Some k => in_generations k (explicit_branches l g) | None => explicit_branches l g end)
         evs (sampled_names l) (frozen_names l) Ne ns.
Proof. exact ancient_is_frozen_branch. Qed.
Print Assumptions C16_ancient_sample_is_frozen_branch.

(** pulse_source_order_irrelevant: a pulse is a set of (source, proportion) pairs - listing the pairs in another order
    gives the same call of the in-place pulse function (each proportion lands at the position of the source it is listed
    WITH), for 2..5 populations *)
Theorem C16_pulse_source_order_irrelevant : forall srcs props srcs' props' dst (s : st R),
  NoDup srcs -> ~ In dst srcs -> length srcs = length props -> length srcs' = length props' ->
  Permutation (combine srcs props) (combine srcs' props') ->
  apply_event (EPulse srcs dst props) s = apply_event (EPulse srcs' dst props') s.
Proof. exact pulse_source_order_irrelevant. Qed.
Print Assumptions C16_pulse_source_order_irrelevant.

(** ... hence the same program of the whole importer: [same_but_pulse_listing g g'] - the same demes and migrations, pulses
    at the same times; [tev_equiv] - the same events up to the listing order of the pairs of the pulses *)
Theorem C16_pulse_listing_same_program : forall ws pnu gt (g g' : graph R) sampled times new_ids sizes evs evs' Ne ns,
  same_but_pulse_listing g g' -> Forall2 tev_equiv evs evs' ->
  front ws pnu gt g sampled times new_ids sizes evs Ne ns = front ws pnu gt g' sampled times new_ids sizes evs' Ne ns.
Proof. exact front_pulse_listing_irrelevant. Qed.
Print Assumptions C16_pulse_listing_same_program.

(** pairing the listed proportions with the source positions in POPULATION order instead (sources listed youngest first)
    exchanges the proportions between the sources *)
Theorem C16_pairing_by_population_order_refuted : exists (props : list R) sis sorted_sis,
  Permutation sis sorted_sis /\ NoDup sis /\ length sis = length props /\
  sorted_props props sorted_sis (Some 1%nat) 3 <> sorted_props props sis (Some 1%nat) 3.
Proof. exact pairing_by_population_order_refuted. Qed.

(** non-vacuity: three populations (ids 5, 6, 7), destination 6, sources listed (7, 5) with proportions (1/4, 1/8) or
    (5, 7) with (1/8, 1/4): the hypotheses hold and both give phi_3D_admix_1_and_3_into_2(phi, 1/8, 1/4) *)
Example C16_pulse_nonvacuous :
  let s := mkSt (F:=Q) [5; 6; 7]%nat [] true in
  Permutation (combine [7; 5]%nat [(1 # 4)%Q; (1 # 8)%Q]) (combine [5; 7]%nat [(1 # 8)%Q; (1 # 4)%Q]) /\ NoDup [7; 5]%nat /\ ~ In 6%nat [7; 5]%nat /\
  map (fun c => (c_fn c, c_fs c)) (s_calls (apply_event (EPulse [7; 5]%nat 6%nat [(1 # 4)%Q; (1 # 8)%Q]) s))
    = [(F_pulse 3 2, [(1 # 8)%Q; (1 # 4)%Q])] /\
  s_calls (apply_event (EPulse [5; 7]%nat 6%nat [(1 # 8)%Q; (1 # 4)%Q]) s) = s_calls (apply_event (EPulse [7; 5]%nat 6%nat [(1 # 4)%Q; (1 # 8)%Q]) s).
Proof.
  cbv zeta. split; [apply perm_swap|]. split; [|split; [|split]].
  - constructor; [intros [H|[]]; discriminate|]. constructor; [intros []|constructor].
  - intros [H|[H|[]]]; discriminate.
  - vm_compute. reflexivity.
  - vm_compute. reflexivity.
Qed.

(** slice_preserves_size_functions: DemesUtil.slice at t (used when every sample is ancient) keeps every deme that is
    older than t, with its size function on [t, inf) shifted by t - whatever the kind of the epoch that reaches t and
    wherever that epoch ends (at the present, before the present, exactly at t); [deme_size_at] is `demes`' Deme.size_at.
    [deme_wf]: epochs contiguous from the deme's start, positive durations, an infinite epoch is constant, sizes not 0. *)
Theorem C16_slice_preserves_size_functions : forall (g : graph R) t d, 0 < t ->
  In d (g_demes g) -> deme_wf d -> tlt (Fin t) (d_start d) ->
  In (slice_deme t d) (g_demes (slice g t))
  /\ forall u, 0 <= u -> deme_size_at (slice_deme t d) u = deme_size_at d (u + t).
Proof. exact slice_preserves_size_functions. Qed.
Print Assumptions C16_slice_preserves_size_functions.

Theorem C16_slice_demes_are_shifted : forall (g : graph R) t d', 0 < t -> In d' (g_demes (slice g t)) ->
  exists d, In d (g_demes g) /\ tlt (Fin t) (d_start d) /\ d' = slice_deme t d.
Proof. exact slice_demes_are_shifted. Qed.

(** ... and the migration rate in force between any two demes at any time of the retained window *)
Theorem C16_slice_preserves_migration_rates : forall (g : graph R) t src dst u, 0 < t -> 0 <= u ->
  mig_rate_at (slice g t) src dst u = mig_rate_at g src dst (u + t).
Proof. exact slice_preserves_migration_rates. Qed.

(** interpolating the cut epoch with its already shifted and clamped end time (0) instead of its own end violates it
    as soon as the epoch ends before the present *)
Theorem C16_slice_clamped_end_refuted : exists t s0 s1 x te, 0 < te <= t /\ t < x /\
  size_at t s0 s1 (Fin x) 0 SLinear <> size_at t s0 s1 (Fin x) te SLinear.
Proof. exact size_at_clamped_end_refuted. Qed.

(** non-vacuity: a deme that grows linearly from 1 at time 4 to 4 at time 2, then is constant; sliced at 3 (inside
    the growth epoch, which ends before the present) its last epoch ends with size 5/2 = the size at time 3 *)
Definition growth_deme {F} `{Num F} : deme F :=
  mkDeme 0 Inf [] [mkEpoch Inf (n2 + n2)%num n1 n1 SConstant;
                   mkEpoch (Fin (n2 + n2)%num) n2 n1 (n2 + n2)%num SLinear;
                   mkEpoch (Fin n2) n0 n1 n1 SConstant].
Example C16_slice_nonvacuous :
  deme_wf growth_deme /\ tlt (Fin 3) (d_start growth_deme) /\
  map (fun e => (e_end e, e_s0 e, e_s1 e)) (shift_epochs (F:=Q) 3%Q (d_epochs growth_deme)) = [(1, 1, 1); (0, 1, 5 # 2)]%Q.
Proof.
  split; [|split].
  - unfold deme_wf, growth_deme, tlt. cbn. numR_all. repeat split; try reflexivity; try discriminate; try lra;
      try (apply Rleb_false; lra).
  - reflexivity.
  - vm_compute. reflexivity.
Qed.

(** export_import_same_program_partial.  Full statement (not proved): for every program of splits, admixture, pulses,
    remove_pop, reorder_pops and constant / exponential / linear integrations, importing the exported graph yields the
    original program up to relabelling.  Proved: the numeric content of a run of integrations (durations, size
    functions, migration rates) survives export with any Nref, generation_time and re-import with Ne = Nref. *)
Theorem C16_export_import_same_program_partial : forall Nref gt cs, Nref <> 0 -> gt <> 0 ->
  map (reimport Nref gt) (export_chain Nref gt cs) = map native cs.
Proof. exact export_import_chain. Qed.
Print Assumptions C16_export_import_same_program_partial.

(** non-vacuity: a root that splits in two; the hypotheses of the rescaling theorems hold for it, and the model run on
    the rationals gives the native program  phi_1D; phi_1D_to_2D; two_pops(T=1/4, nu=(1/2, 3/2)); reorder; from_phi *)
Definition split_graph {F} `{Num F} : graph F := mkGraph
  [mkDeme 0 Inf [] [mkEpoch Inf n1 n2 n2 SConstant];
   mkDeme 1 (Fin n1) [0%nat] [mkEpoch (Fin n1) n0 n1 n1 SConstant];
   mkDeme 2 (Fin n1) [0%nat] [mkEpoch (Fin n1) n0 (n1 + n2)%num (n1 + n2)%num SConstant]] [] [].

Example C16_nonvacuous :
  wf_graph split_graph /\ has_root_inf split_graph /\
  map (fun c => (c_fn c, c_T c, c_nus c, c_ids c))
      (core (F:=Q) std_wirings true split_graph [(1%Q, ESplit 0 [1; 2]%nat)] [2; 1]%nat [] None [5; 4]%nat)
  = [(F_phi_1D, 0%Q, [], [0%nat]); (F_phi_1D_to_2D, 0%Q, [], [1; 2]%nat);
     (F_two_pops, (1 # 4)%Q, [SNum (1 # 2)%Q; SNum (3 # 2)%Q], [1; 2]%nat);
     (F_reorder_pops, 0%Q, [], []); (F_from_phi, 0%Q, [], [2; 1]%nat)].
Proof.
  split; [|split].
  - intros d Hd. cbn in Hd. destruct Hd as [<-|[<-|[<-|[]]]]; discriminate.
  - eexists. split; [left; reflexivity|]. split; reflexivity.
  - vm_compute. reflexivity.
Qed.

(** export_import_same_program.  The event log of a native program ([elog]: phi_1D, then rounds of at most one Split /
    Pulse / Remove record followed by an Integration record) is exported by [export_model] - the model of
    dadi.Demes.output giving the RESOLVED graph (the resolution of the Builder data by `demes` is an oracle; the model
    is compared with the real output + demes on every run) - and re-imported by the importer model [front] with
    Ne = Nref.  For every log of the class [log_ok] (1..5 populations; splits; admixed new populations; pulses;
    removals; constant, linear and exponential sizes; any migration rates; consecutive integrations; every record
    followed by an integration of positive duration), every Nref > 0 and every generation time, the re-imported
    program is the sequence of calls that recorded the log ([native_calls]), argument by argument, every axis
    labelled with the name the exporter generated for it, followed by the identity reorder_pops and from_phi. *)
Theorem C16_export_import_same_program : forall (lg : elog R) N gt ns new_ids sizes,
  log_ok lg -> 0 < N -> (forall k, gt = Some k -> 0 < k) ->
  front std_wirings true gt (export_model N gt lg) (final_ids lg) None new_ids sizes (export_events N gt lg) (Some N) ns
  = native_calls lg ++ [simple_call F_reorder_pops [] (seq 1 (length (final_ids lg))) [];
                        simple_call F_from_phi [] ns (final_ids lg)].
Proof. exact export_import_same_program. Qed.
Print Assumptions C16_export_import_same_program.

(** the stages: integrations only; + splits; + linear / exponential sizes; + migration; + admixed populations and
    pulses; + removal.  [roundtrip lg] is the conclusion above for all N, gt, ns *)
Theorem C16_export_import_stage1 : forall lg : elog R, log_ok lg -> Forall (fun r => r_ev r = SNone) (l_rounds lg) -> roundtrip lg.
Proof. exact export_import_stage1. Qed.
Theorem C16_export_import_stage2 : forall lg : elog R, log_ok lg -> log_stage 2 lg -> roundtrip lg.
Proof. exact export_import_stage2. Qed.
Theorem C16_export_import_stage3 : forall lg : elog R, log_ok lg -> log_stage 3 lg -> roundtrip lg.
Proof. exact export_import_stage3. Qed.
Theorem C16_export_import_stage4 : forall lg : elog R, log_ok lg -> log_stage 4 lg -> roundtrip lg.
Proof. exact export_import_stage4. Qed.
Theorem C16_export_import_stage5 : forall lg : elog R, log_ok lg -> log_stage 5 lg -> roundtrip lg.
Proof. exact export_import_stage5. Qed.
Theorem C16_export_import_stage6_partial : forall lg : elog R, log_ok lg -> log_stage 6 lg -> roundtrip lg.
Proof. exact export_import_stage6_partial. Qed.
Print Assumptions C16_export_import_stage6_partial.

(** non-vacuity: one history per stage in the class and of that stage exactly; the same histories run on the rationals *)
Example C16_export_stage_examples :
  (log_ok (ex1 (F:=R)) /\ Forall (fun r => r_ev r = SNone) (l_rounds (ex1 (F:=R))))
  /\ (log_ok (ex2 (F:=R)) /\ log_stage 2 (ex2 (F:=R)))
  /\ (log_ok (ex3 (F:=R)) /\ log_stage 3 (ex3 (F:=R)) /\ ~ log_stage 2 (ex3 (F:=R)))
  /\ (log_ok (ex4 (F:=R)) /\ log_stage 4 (ex4 (F:=R)) /\ ~ log_stage 3 (ex4 (F:=R)))
  /\ (log_ok (ex5 (F:=R)) /\ log_stage 5 (ex5 (F:=R)) /\ ~ log_stage 4 (ex5 (F:=R)))
  /\ (log_ok (ex6 (F:=R)) /\ log_stage 6 (ex6 (F:=R)) /\ ~ log_stage 5 (ex6 (F:=R))).
Proof.
  exact (conj export_import_stage1_example (conj export_import_stage2_example (conj export_import_stage3_example
        (conj export_import_stage4_example (conj export_import_stage5_example export_import_stage6_example))))).
Qed.

(** export_import_reorder (stage 6, complete).  With reorder_pops records ([log_okr]: the class above plus Reorder
    records carrying a permutation) the literal call sequence cannot come back: the graph does not record the order of
    the axes, and the importer integrates the demes of a window in creation order.  What comes back is the native
    program written with its populations in creation order, [sorted_calls]: every argument looked up by name, a
    reorder_pops call where Demes.output starts a new era while the axes are out of creation order (the new names
    follow the native order), and one at the end to the final order of the program. *)
Theorem C16_export_import_reorder : forall (lg : elog R) N gt ns new_ids sizes,
  log_okr lg -> 0 < N -> (forall k, gt = Some k -> 0 < k) ->
  front std_wirings true gt (export_model N gt lg) (final_ids lg) None new_ids sizes (export_events N gt lg) (Some N) ns
  = sorted_calls lg ++ [simple_call F_from_phi [] ns (final_ids lg)].
Proof. exact export_import_reorder. Qed.
Print Assumptions C16_export_import_reorder.

(** without Reorder records the creation-order program is the native program followed by the identity reorder *)
Theorem C16_sorted_calls_native : forall lg : elog R, log_ok lg ->
  sorted_calls lg = native_calls lg ++ [simple_call F_reorder_pops [] (seq 1 (length (final_ids lg))) []].
Proof. exact sorted_calls_native. Qed.

(** non-vacuity: a history with reorder_pops followed by a new era (in [log_okr], not in [log_ok]); on the rationals the
    importer model gives [sorted_calls] back and not the literal native call sequence *)
Example C16_export_reorder_example : log_okr (ex7 (F:=R)) /\ ~ log_ok (ex7 (F:=R)).
Proof. exact export_import_stage6_reorder_example. Qed.
