(** C01 — one-population SFS against exact coalescent and selection-equilibrium theory.   PROOF, PARTIAL.

    Proved here (exact-arithmetic semantics of the faithful model Model/Equilibrium.v of PhiManip.phi_1D, phi_1D_genic, phi_1D_snm):
    the equilibrium density is a stationary solution of the documented drift-selection equation for every nu and
    beta (genic closed form in both numerical regimes; general dominance given the quadrature oracle), with the
    boundary value G(0) = 2 nu b theta0/2 that the mutation influx theta0/2 produces and absorption at 1; the two
    code paths agree at h = 1/2; non-negativity; every exp argument stays below 600 and no divisor vanishes;
    quantitative continuity at the gamma = 0 switch; bounds on the jumps at the |gamma| = 300 guards; the Beta
    integral behind "theta/x samples to theta/i"; the coalescent oracle returns theta nu / i for a constant size.

    NOT proved (no finite-difference / PDE convergence theory is installed; said in MANIFEST and in the evidence):
      "for every piecewise-constant size history (1-4 epochs) and every n in 2..30 the spectrum computed by
       Integration.one_pop + Spectrum.from_phi + Numerics.make_extrap_func converges, as grid and time step are
       refined, to [coal_sfs_all]; the error is O(timescale_factor) and <= 1.5% at timescale_factor = 1e-4;
       the density is stationary under the DISCRETE scheme up to a grid error that vanishes under refinement".
    That half is checked on generated histories by harness/props/c01.py against the oracles evaluated in Coq.
    Only statements here; every proof is [exact <lemma>]. *)
From Coq Require Import Reals ZArith QArith List Lra Lia.
From Coquelicot Require Import Coquelicot.
From Dadi Require Import Base.Num Base.NumR Model.Equilibrium Model.Coalescent Proofs.EquilibriumProofs Proofs.CoalescentProofs
  Model.Tridiag Model.Scheme Model.NDSweep Proofs.IsolatedSweep Proofs.IsolatedStep Proofs.SnmStationary.
Import ListNotations.
Local Open Scope R_scope.

(** Documented scheme, h = 1/2:  V = x(1-x)/(nu b), b = 4 beta/(beta+1)^2,  M = gamma x(1-x),  flux J = gamma G - G'/(2 nu b)
    for G = x(1-x) phi.  [GA] / [GB] are G in the two numerical regimes of phi_1D_genic (above / below gamma_eff = -300). *)
Theorem C01_genic_is_stationary : forall nu theta0 gamma beta x,
  0 < nu -> 0 < beta -> gamma <> 0 ->
  let b := bR beta in let g := gamma * nu * b in let K := nu * theta0 * b in
  (0 < x < 1 -> -300 < g -> x * (1 - x) * (genic_pt g x * nu * theta0 * bfac beta) = GA K g x) /\
  (0 < x < 1 -> g <= -300 -> x * (1 - x) * (genic_pt g x * nu * theta0 * bfac beta) = GB K g x) /\
  is_derive (GA K g) x (GA1 K g x) /\ is_derive (GA1 K g) x (GA2 K g x) /\
  is_derive (GB K g) x (GB1 K g x) /\ is_derive (GB1 K g) x (GB2 K g x) /\
  GA2 K g x / (2 * nu * b) - gamma * GA1 K g x = 0 /\
  GB2 K g x / (2 * nu * b) - gamma * GB1 K g x = 0 /\
  GA K g 0 = 2 * (nu * b) * (theta0 / 2) /\ GA K g 1 = 0 /\ GB K g 0 = 2 * (nu * b) * (theta0 / 2) /\
  gamma * GA K g x - GA1 K g x / (2 * nu * b) = theta0 / 2 * (2 * g / (1 - exp (- (2 * g)))).
Proof. exact genic_is_stationary_lemma. Qed.
Print Assumptions C01_genic_is_stationary.

(** neutral density: the flux through every x is exactly the mutation influx theta0/2 *)
Theorem C01_neutral_flux_is_mutation_influx : forall nu theta0 beta x,
  0 < nu -> 0 < beta -> 0 < x < 1 ->
  let b := bR beta in let G := fun y => nu * theta0 * b * (1 - y) in
  x * (1 - x) * (snm_pt nu theta0 x * bfac beta) = G x /\
  is_derive G x (- (nu * theta0 * b)) /\ 0 * G x - (- (nu * theta0 * b)) / (2 * nu * b) = theta0 / 2.
Proof. exact snm_flux_is_influx. Qed.

(** the PRE-REPAIR form of the source (selection strength gamma instead of gamma*nu, [phi_1D_prefix]: old
    phi_1D(nu, theta0, gamma) = current phi_1D(1, nu theta0, gamma)) violates the stationary equation for nu <> 1 *)
Theorem C01_genic_stationary_nu_refuted_for_the_prefix_form :
  exists nu theta0 gamma beta x, 0 < nu /\ 0 < beta /\ 0 < x < 1 /\
    let b := bR beta in let g_old := gamma * 1 * b in let K := 1 * (nu * theta0) * b in
    x * (1 - x) * (genic_pt g_old x * 1 * (nu * theta0) * bfac beta) = GA K g_old x /\
    GA2 K g_old x / (2 * nu * b) - gamma * GA1 K g_old x < - (3 / 10).
Proof. exact genic_prefix_form_not_stationary. Qed.

(** what the list function returns on a grid from 0 to 1 (ties the pointwise statements to [phi_genic]) *)
Theorem C01_phi_genic_normal_form : forall m1 ms nu theta0 gamma beta, gamma <> 0 ->
  let g := gamma * nu * bfac beta in
  phi_genic (0 :: m1 :: ms ++ [1]) nu theta0 gamma beta =
  map (fun p => p * nu * theta0 * bfac beta)
      (genic_pt g m1 :: genic_pt g m1 :: map (genic_pt g) ms ++ [genic_limit g]).
Proof. exact phi_genic_std. Qed.

(** general dominance, quadrature oracle = the integral.  M = gamma 2 (h + (1-2h) x) x(1-x); the flux is the same at every x *)
Theorem C01_general_h_is_stationary : forall (ovf : R) (quad : (R -> R) -> R -> R -> R),
  (forall f a b, quad f a b = RInt f a b) ->
  forall nu theta0 gamma h beta x, 0 < nu -> 0 < beta ->
  let b := bR beta in let g := gamma * nu * b in let K := nu * theta0 * b in
  (0 < x < 1 -> x * (1 - x) * (general_raw ovf quad g h (general_int0 ovf quad g h) x * (1 / (x * (1 - x))) * nu * theta0 * bfac beta)
                = Gh K g h x) /\
  is_derive (Gh K g h) x (Gh1 K g h x) /\
  gamma * 2 * (h + (1 - 2 * h) * x) * Gh K g h x - Gh1 K g h x / (2 * nu * b) = theta0 / 2 * / RInt (eQ g h) 0 1 /\
  Gh K g h 0 = 2 * (nu * b) * (theta0 / 2) /\ Gh K g h 1 = 0.
Proof. exact general_h_is_stationary_lemma. Qed.
Print Assumptions C01_general_h_is_stationary.

Theorem C01_general_h_at_half_is_genic : forall (ovf : R) (quad : (R -> R) -> R -> R -> R),
  (forall f a b, quad f a b = RInt f a b) ->
  forall g x, g <> 0 -> -300 < g ->
  general_raw ovf quad g (1 / 2) (general_int0 ovf quad g (1 / 2)) x * (1 / (x * (1 - x))) = genic_pt g x /\
  (qadjust ovf g = 0 -> g < 300 -> 1 / general_int0 ovf quad g (1 / 2) = genic_limit g).
Proof. exact general_h_at_half_is_genic_lemma. Qed.

Theorem C01_phi_nonneg : forall m1 ms nu theta0 gamma beta,
  0 < nu -> 0 < theta0 -> 0 < beta -> gamma <> 0 -> List.Forall (fun m => 0 < m < 1) (m1 :: ms) ->
  List.Forall (fun p => 0 < p) (phi_genic (0 :: m1 :: ms ++ [1]) nu theta0 gamma beta).
Proof. exact phi_genic_nonneg. Qed.

(** every argument of exp is <= 600 < ln(DBL_MAX) = 709.78, no divisor vanishes, values within (0, 1/(x(1-x))] *)
Theorem C01_phi_finite_on_grid : forall g x, g <> 0 -> 0 <= x <= 1 ->
  (-300 < g -> - (2 * g) * (1 - x) <= 600 /\ - (2 * g) < 600 /\ 1 - exp (- (2 * g)) <> 0) /\
  (g <= -300 -> 2 * g * x <= 0) /\
  (g < 300 -> 2 * g < 600 /\ exp (2 * g) - 1 <> 0) /\
  (0 < x < 1 -> x * (1 - x) <> 0 /\ 0 < genic_pt g x <= 1 / (x * (1 - x))) /\
  0 < genic_limit g.
Proof. exact phi_finite_on_grid_lemma. Qed.

(** gamma = 0 switch: the genic form tends to the neutral one linearly in gamma, C(x) = 2 e^{2|g|} / x *)
Theorem C01_switch_gamma0_continuous : forall g x, g <> 0 -> -300 < g -> 0 < x < 1 ->
  Rabs (genic_pt g x - 1 / x) <= 2 * exp (2 * Rabs g) / x * Rabs g.
Proof. exact switch_gamma0_lemma. Qed.

(** |gamma| = 300 guards: the two interior formulas differ by at most 1/(e^600 - 1) < 1e-260 of 1/(x(1-x)),
    the two x = 1 values by the same relative amount *)
Theorem C01_switch_300_gap : forall g x, g <= -300 -> 0 < x < 1 ->
  Rabs (genicA g x - genicB g x) <= 1 / (x * (1 - x)) * / (exp 600 - 1).
Proof. exact switch_300_gap_lemma. Qed.
Theorem C01_limit_x1_switch_gap : forall g, 300 <= g ->
  Rabs (2 * g * exp (2 * g) / (exp (2 * g) - 1) - 2 * g) <= 2 * g * / (exp 600 - 1).
Proof. exact limit_x1_switch_gap_lemma. Qed.
Theorem C01_guard_gap_is_negligible : / (exp 600 - 1) < / 10 ^ 260.
Proof. exact exp600_huge. Qed.

(** binomial sampling of the neutral density theta/x gives theta/i (Beta integral), all n and 1 <= i <= n *)
Theorem C01_snm_samples_to_theta_over_i : forall (theta : R) (n i : nat), (1 <= i <= n)%nat ->
  (forall x, x <> 0 -> Binomial.C n i * x ^ i * (1 - x) ^ (n - i) * (theta / x) = theta * Binomial.C n i * (x ^ (i - 1) * (1 - x) ^ (n - i))) /\
  is_RInt (fun x => theta * Binomial.C n i * (x ^ (i - 1) * (1 - x) ^ (n - i))) 0 1 (theta / INR i).
Proof. exact snm_samples_to_theta_over_i_lemma. Qed.
Print Assumptions C01_snm_samples_to_theta_over_i.

(** the coalescent oracle, constant size nu: theta nu / i.  Finite domain: sample sizes 2 <= n <= 30 (the stated
    domain of the property), decided by vm_compute on exact rationals and lifted with forallb_forall. *)
Theorem C01_coal_const_is_theta_over_i : forall (quad : (R -> R) -> R -> R -> R) (theta nu : R) (n i : nat),
  (2 <= n <= 30)%nat -> (1 <= i < n)%nat ->
  coal_sfs theta (ej_hist quad [] nu) n i = theta * nu / INR i.
Proof. exact coal_const_is_theta_over_i_lemma. Qed.
Print Assumptions C01_coal_const_is_theta_over_i.

(** the oracle for a mutation rate that changes from epoch to epoch (theta0 passed as a function of time): when every
    epoch carries the same theta it IS the constant-theta oracle, for every history (any number of constant / exponential
    epochs, any quadrature slot), every sample size and entry *)
Theorem C01_coal_theta_per_epoch_uniform : forall (quad : (R -> R) -> R -> R -> R) (th nuA : R) (eps : list (R * @epoch R)) (n i : nat),
  (forall e, In e eps -> fst e = th) ->
  coal_sfs 1 (ej_hist_th quad eps nuA th) n i = coal_sfs th (ej_hist quad (map snd eps) nuA) n i.
Proof. exact coal_sfs_th_uniform_lemma. Qed.
Print Assumptions C01_coal_theta_per_epoch_uniform.

(** non-vacuity: a concrete grid and parameters satisfy the hypotheses; a concrete oracle value *)
(** "left unchanged when integrated further under the same size" - neutral case, EXACT (no grid error): on every grid
    running from 0 to 1 (>= 3 points, strictly increasing), for every size nu, breeding ratio beta, theta0, every positive
    time step and either delj setting, the mutation influx followed by the implicit step returns the neutral equilibrium
    density unchanged at every interior grid point (the interface fluxes of V phi = theta0 (1-x) are all theta0/2, and the
    flux missing at x = 0 is exactly the injected amount) ... *)
Theorem C01_neutral_equilibrium_is_discrete_fixed_point : forall g n nu theta0 beta dt h dj i,
  unit_grid g n -> 0 < nu -> 0 < beta -> 0 < dt -> (1 <= i <= n - 2)%nat ->
  nthF (implicit_1D g nu 0 h beta dt dj (add_at (phi_snm g nu theta0 beta) 1 (snm_amount g theta0 dt))) i
  = nthF (phi_snm g nu theta0 beta) i.
Proof. exact snm_fixed_point_of_implicit_1D. Qed.
Print Assumptions C01_neutral_equilibrium_is_discrete_fixed_point.
(** ... hence by the one-population step of the integrator model, by any sequence of steps, and by the whole
    constant-parameter driver for any integration time (agree_off_corners in one dimension = all entries but the two end points) *)
Theorem C01_neutral_equilibrium_unchanged_by_one_pop : forall g n nu theta0 beta h dj tf,
  unit_grid g n -> 0 < nu -> 0 < beta -> 0 < tf -> forall fuel t T res,
  integrate_const fuel [n] [g] [snm_pop nu beta h] theta0 tf dj t T (phi_snm g nu theta0 beta) = Some res ->
  agree_off_corners [n] [g] res (phi_snm g nu theta0 beta).
Proof. exact neutral_equilibrium_unchanged_by_one_pop. Qed.
Theorem C01_neutral_equilibrium_unchanged_by_any_steps : forall g n nu theta0 beta h dj,
  unit_grid g n -> 0 < nu -> 0 < beta -> forall dts X, (forall dt, In dt dts -> 0 < dt) ->
  agree_off_corners [n] [g] X (phi_snm g nu theta0 beta) ->
  agree_off_corners [n] [g] (steps [n] [g] [snm_pop nu beta h] theta0 dj dts X) (phi_snm g nu theta0 beta).
Proof. exact neutral_equilibrium_unchanged_by_any_steps. Qed.
Example C01_neutral_fixed_point_nonvacuous : unit_grid [0; 1/4; 1/2; 1] 4 /\ (1 <= 2 <= 4 - 2)%nat.
Proof. exact neutral_fixed_point_nonvacuous. Qed.

Example C01_nonvacuous :
  List.Forall (fun p => 0 < p) (phi_genic (0 :: (1/4) :: [1/2; 3/4] ++ [1]) 2 1 (-5) 1) /\
  coal_sfs 3 (ej_hist (fun _ _ _ => 0) [] 2) 5 2 = 3 * 2 / INR 2.
Proof.
  split.
  - apply phi_genic_nonneg; try lra. repeat constructor; lra.
  - apply coal_const_is_theta_over_i_lemma; lia.
Qed.
