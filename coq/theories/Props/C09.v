(** C09 — folding and ancestral misidentification conserve counts; symmetric, idempotent;
    folding status, masks and labels survive arithmetic, slicing and likelihood evaluation.
    Only statements; every proof is [exact <lemma>].

    Arrays of every dimension d and every shape s (s = numpy .shape, any list of axis lengths)
    are C-order flat lists of length [size s]; reversing all axes is [rev].  Values over R,
    masks over bool.  [total_samples s] = sum (n_k - 1). *)
From Coq Require Import ZArith Reals List Bool Arith Lia Lra Permutation.
From Dadi Require Import Base.Num Base.NumR Model.Fold Proofs.FoldAbs Proofs.FoldND.
Import ListNotations.
Local Open Scope R_scope.

(** total counts are conserved (all entries of the data array) *)
Theorem C09_fold_conserves_total : forall (s : list nat) (xs : list R),
  length xs = size s -> nsum (fold_data_l s xs) = nsum xs.
Proof. exact l_fold_conserves_total. Qed.
Print Assumptions C09_fold_conserves_total.

(** ... and over the unmasked entries: what is visible after folding is exactly the input summed over
    the entries whose own and mirror positions are unmasked (minus the two corners the constructor masks) *)
Theorem C09_fold_conserves_unmasked_total : forall (s : list nat) (xs : list R) (ms : list bool),
  length xs = size s ->
  msum (fold_mask_l s ms) (fold_data_l s xs) = msum (sym_mask_l s ms) xs.
Proof. exact l_fold_conserves_unmasked_total. Qed.
Print Assumptions C09_fold_conserves_unmasked_total.

Theorem C09_fold_conserves_unmasked_total_symmetric_mask : forall (s : list nat) (xs : list R) (ms : list bool),
  length xs = size s -> sym_mask_l s ms = ms ->
  msum (fold_mask_l s ms) (fold_data_l s xs) = msum ms xs.
Proof. exact l_fold_conserves_unmasked_total_sym. Qed.

(** the result is unchanged if the input (data and mask) is mirrored first *)
Theorem C09_fold_of_mirror : forall (s : list nat) (xs : list R) (ms : list bool),
  length xs = size s -> length ms = size s ->
  fold_data_l s (rev xs) = fold_data_l s xs /\ fold_mask_l s (rev ms) = fold_mask_l s ms.
Proof. exact l_fold_of_mirror_both. Qed.
Print Assumptions C09_fold_of_mirror.

(** [reverse_l] (reverse every axis of the d-dimensional array) is the reversed flat list *)
Theorem C09_reverse_all_axes_is_rev : forall (s : list nat) (xs : list R),
  length xs = size s -> reverse_l s xs 0 = rev xs.
Proof. exact l_reverse_is_rev_R. Qed.

(** masks: own mask OR mirror's mask OR folded-out OR corner *)
Theorem C09_fold_mask_is_union : forall (s : list nat) (ms : list bool), length ms = size s ->
  fold_mask_l s ms =
  map2 orb (map2 orb (map2 orb ms (rev ms)) (tabulate s (folded_out total (total_samples s))))
           (tabulate s (is_corner s)).
Proof. exact l_fold_mask_is_union. Qed.
Print Assumptions C09_fold_mask_is_union.

(** fold(unfold(fold(x))) = fold(x): data, mask, and the whole Spectrum object *)
Theorem C09_fold_unfold_fold : forall (s : list nat) (xs : list R) (ms : list bool),
  fold_data_l s (unfold_data_l s (fold_data_l s xs)) = fold_data_l s xs /\
  fold_mask_l s (unfold_mask_l s (fold_mask_l s ms)) = fold_mask_l s ms.
Proof. exact l_fold_unfold_fold_both. Qed.
Print Assumptions C09_fold_unfold_fold.

Theorem C09_fold_unfold_fold_spectrum : forall a f : lspec R, fold_ls a = Some f ->
  exists u, unfold_ls f = Some u /\ fold_ls u = Some f.
Proof. exact ls_fold_unfold_fold. Qed.

Theorem C09_fold_refuses_folded_unfold_refuses_unfolded : forall a : lspec R,
  (ls_folded a = true -> fold_ls a = None) /\ (ls_folded a = false -> unfold_ls a = None).
Proof. exact ls_refusals. Qed.

(** ambiguous entries (total = half of an even total sample size) share equally with their mirror *)
Theorem C09_ambiguous_shared_equally : forall (s : list nat) (x : list nat -> R) (mi : list nat),
  In mi (enum s) -> (2 * total mi = total_samples s)%nat ->
  fold_nd s x mi = (x mi + x (mirror_mi s mi)) / 2 /\
  fold_nd s x (mirror_mi s mi) = fold_nd s x mi.
Proof. exact nd_ambiguous_shared_equally. Qed.
Print Assumptions C09_ambiguous_shared_equally.

(** with an odd total there are none: every entry is folded out or receives its mirror in full *)
Theorem C09_no_ambiguous_when_odd : forall (s : list nat) (x : list nat -> R) (mi : list nat),
  Nat.odd (total_samples s) = true -> In mi (enum s) ->
  ambiguous total (total_samples s) mi = false /\
  fold_nd s x mi = if folded_out total (total_samples s) mi then 0 else x mi + x (mirror_mi s mi).
Proof. exact nd_no_ambiguous_when_odd. Qed.
Print Assumptions C09_no_ambiguous_when_odd.

(** ancestral misidentification *)
Theorem C09_misid_is_convex_mix : forall (s : list nat) (p : R) (xs : list R) (ms : list bool),
  length xs = size s -> length ms = size s ->
  misid_data_l s p xs = map2 (fun a b => (1 - p) * a + p * b) xs (rev xs) /\
  misid_mask_l s ms = map2 orb ms (rev ms).
Proof. exact l_misid_both. Qed.
Print Assumptions C09_misid_is_convex_mix.

Theorem C09_misid_between_entry_and_mirror : forall (s : list nat) (p : R) (x : list nat -> R) (mi : list nat),
  0 <= p <= 1 ->
  Rmin (x mi) (x (mirror_mi s mi)) <= misid_nd s p x mi <= Rmax (x mi) (x (mirror_mi s mi)).
Proof. exact nd_misid_between. Qed.

Theorem C09_misid_conserves_total : forall (s : list nat) (p : R) (xs : list R),
  length xs = size s -> nsum (misid_data_l s p xs) = nsum xs.
Proof. exact l_misid_conserves_total. Qed.
Print Assumptions C09_misid_conserves_total.

(** arithmetic between folded and unfolded spectra is refused by all 14 binary and 7 in-place methods,
    and nothing else is *)
Theorem C09_mixed_folding_arithmetic_refused : forall (f : R -> R -> R) (avail : bool) (a b : lspec R),
  ls_folded a <> ls_folded b ->
  binop f avail a (OSpec b) = Refused /\ iop f avail a (OSpec b) = Refused.
Proof. exact mixed_refused. Qed.

Theorem C09_only_mixed_folding_refused : forall (f : R -> R -> R) (avail : bool) (a : lspec R) (o : operand R),
  binop f avail a o = Refused \/ iop f avail a o = Refused ->
  exists b, o = OSpec b /\ ls_folded a <> ls_folded b.
Proof. exact refused_only_mixed. Qed.

(** folding status, shape, labels survive arithmetic; masks are OR-ed entrywise *)
Theorem C09_arith_preserves_folded_mask_labels : forall (f : R -> R -> R) (a r : lspec R) (o : operand R),
  binop f true a o = Done r \/ iop f true a o = Done r ->
  ls_folded r = ls_folded a /\ ls_shape r = ls_shape a /\
  ls_mask r = new_mask a o /\
  (forall b, o = OSpec b -> ls_folded b = ls_folded a) /\
  (ls_ids a <> None -> ls_ids r = ls_ids a) /\
  (forall p m, other_mask o = Some m -> length (ls_mask a) = length m ->
     nth p (ls_mask r) false = nth p (ls_mask a) false || nth p m false) /\
  (other_mask o = None -> ls_mask r = ls_mask a).
Proof. exact arith_result. Qed.

Theorem C09_slicing_keeps_folded_labels : forall (sel : list axsel) (a : lspec R),
  ls_folded (slice_ls sel a) = ls_folded a /\ ls_ids (slice_ls sel a) = ls_ids a /\
  ls_ex (slice_ls sel a) = ls_ex a /\
  ls_mask (slice_ls sel a) = map (arr_of (ls_shape a) (ls_mask a) false) (sel_enum sel).
Proof. exact slice_keeps. Qed.

(** likelihood evaluation folds an unfolded model against folded data, and only then *)
Theorem C09_likelihood_autofold : forall (lgam : R -> R) (model data mf : lspec R),
  ls_folded data = true -> ls_folded model = false -> fold_ls model = Some mf ->
  ll_ls lgam model data = ll_ls lgam mf data.
Proof. exact ll_autofold. Qed.

Theorem C09_likelihood_refuses_folded_model_unfolded_data : forall (lgam : R -> R) (model data : lspec R),
  ls_folded data = false -> ls_folded model = true -> ll_ls lgam model data = None.
Proof. exact ll_mixed_refused. Qed.

(** non-vacuity: a 2x2 spectrum (total sample size 2, even): the corner pair is folded, the two
    ambiguous entries are shared equally, the folded-out corner is zeroed and masked; and a 3x3 total *)
Example C09_nonvacuous : forall a b c d : R,
  fold_data_l [2; 2]%nat [a; b; c; d] = [a + d; (b + c) / 2; (c + b) / 2; 0] /\
  fold_mask_l [2; 2]%nat [false; true; false; false] = [true; true; true; true] /\
  fold_mask_l [2; 3]%nat [false; true; false; false; false; false] = [true; true; true; false; true; true] /\
  nsum (fold_data_l [3; 3]%nat [1; 2; 3; 4; 5; 6; 7; 8; 9]) = 45 /\
  binop Rplus true {| ls_shape := [2]%nat; ls_folded := true; ls_data := [a; b]; ls_mask := [false; true]; ls_ids := None; ls_ex := None |}
        (OSpec {| ls_shape := [2]%nat; ls_folded := false; ls_data := [c; d]; ls_mask := [false; false]; ls_ids := None; ls_ex := None |})
    = Refused.
Proof.
  intros. split; [|split; [reflexivity|split; [reflexivity|split; [|reflexivity]]]].
  - unfold fold_data_l, tabulate, fold_nd, fold_val, reverse, where_, folded_out, ambiguous, arr_of.
    cbn [enum map flat_map seq app mirror_mi ravel total total_samples list_sum fold_right Nat.pred Nat.sub
         Nat.add Nat.mul size nth Nat.div Nat.ltb Nat.leb Nat.eqb Nat.divmod fst].
    unfold nhalf, n2. numR.
    f_equal; [lra|]. f_equal; [lra|]. f_equal; [lra|]. f_equal. lra.
  - rewrite l_fold_conserves_total by reflexivity. unfold nsum. cbn [fold_right]. numR. lra.
Qed.
