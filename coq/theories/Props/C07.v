(** C07 — grid extrapolation is exact for polynomial grid dependence with 1-6 grid sizes.
    Only statements; every proof is [exact <lemma>]. *)
From Coq Require Import ZArith Reals List Lra Lia Permutation.
From Dadi Require Import Base.Num Base.NumR Model.Extrap Proofs.ExtrapProofs Proofs.ExtrapAll.
Import ListNotations.
Local Open Scope R_scope.

Theorem C07_exact_for_polynomials : forall cs xs : list R,
  length cs = length xs -> (1 <= length xs <= 6)%nat -> NoDup xs ->
  extrap_entry xs (map (peval cs) xs) = Some (hd 0 cs).
Proof. exact extrap_exact. Qed.
Print Assumptions C07_exact_for_polynomials.

Theorem C07_log_variant_exact : forall cs xs ys : list R,
  length cs = length xs -> (1 <= length xs <= 6)%nat -> NoDup xs ->
  map ln ys = map (peval cs) xs ->
  option_map exp (extrap_entry xs (map ln ys)) = Some (exp (hd 0 cs)).
Proof. exact extrap_log_exact. Qed.
Print Assumptions C07_log_variant_exact.

Theorem C07_order_of_grid_list_irrelevant : forall xs ys xs' ys' : list R,
  length xs = length ys -> length xs' = length ys' ->
  Permutation (combine xs ys) (combine xs' ys') -> (2 <= length xs)%nat ->
  extrap_entry xs ys = extrap_entry xs' ys'.
Proof. exact extrap_entry_perm. Qed.
Print Assumptions C07_order_of_grid_list_irrelevant.

Theorem C07_other_counts_refused : forall xs ys : list R,
  (length xs = 0 \/ 6 < length xs)%nat -> extrap_entry xs ys = None.
Proof. exact extrap_refuses. Qed.

Theorem C07_fallback_entrywise : forall (logm : bool) fm (xs ys : list R) e,
  (2 <= length xs)%nat -> extrap_entry xs (if logm then map ln ys else ys) = Some e ->
  let ex := if logm then exp e else e in
  let best := nth (argmin xs) ys 0 in
  extrap_full logm fm xs ys = Some (if far fm ex best then best else ex).
Proof. exact fallback_spec. Qed.

Theorem C07_single_grid_is_identity : forall (logm : bool) fm x y, (logm = true -> 0 < y) ->
  extrap_full logm fm [x] [y] = Some y.
Proof. exact k1_is_identity. Qed.
Print Assumptions C07_single_grid_is_identity.

(** One wrap, many calls.  [run_calls step store calls]: the wrapped function as an object holding the list captured by
    make_extrap_func ([Some xs]: explicit extrap_x_l; [None]: x read off each call's results), called on a sequence of
    (extrap_x carried by the results, results) pairs.  Every call returns what the pure function returns and the captured
    list is left as it was (the source obligation "no in-place operation on extrap_x_l / x_l / pts_l / result_l" is the
    tie of this frame condition to Numerics.py). *)
Theorem C07_calls_are_independent : forall (step : list R -> list R -> option R) store calls,
  run_calls step store calls = (map (fun c => step (call_xs store (fst c)) (snd c)) calls, store).
Proof. exact run_calls_pure. Qed.
Print Assumptions C07_calls_are_independent.

Theorem C07_repeated_calls_exact : forall (store : option (list R)) (calls : list (list R * list R)),
  Forall (fun c => let xs := call_xs store (fst c) in
                   length (snd c) = length xs /\ (1 <= length xs <= 6)%nat /\ NoDup xs) calls ->
  run_calls extrap_entry store (map (fun c => (fst c, map (peval (snd c)) (call_xs store (fst c)))) calls)
  = (map (fun c => Some (hd 0 (snd c))) calls, store).
Proof. exact repeated_calls_exact. Qed.
Print Assumptions C07_repeated_calls_exact.

(** the frame condition is needed: a wrapper that reverses/sorts the captured list in place after using it is exact on
    the first call and wrong on the second (witness: f(x) = x on the spacings [2; 1]). *)
Theorem C07_rewriting_the_captured_list_refuted :
  exists (g : list R -> list R) (xs cs : list R),
    length cs = length xs /\ NoDup xs /\
    let c := (@nil R, map (peval cs) xs) in
    nth 0 (fst (run_calls_rewriting g extrap_entry (Some xs) [c; c])) None = Some (hd 0 cs) /\
    nth 1 (fst (run_calls_rewriting g extrap_entry (Some xs) [c; c])) None <> Some (hd 0 cs).
Proof. exact rewriting_store_refuted. Qed.

(** the batched correspondence check (weights of the node list computed once, logarithms handed in) evaluates the model
    itself - for every number type, so in particular for the rationals it runs on. *)
Theorem C07_batched_check_is_the_model : forall (F : Type) (NF : Num F) (logm : bool) (fm : F) (xs ys : list F),
  extrap_full_pre logm fm xs (map (lag0_weight xs) xs) ys (if logm then map nln ys else ys) = extrap_full logm fm xs ys.
Proof. exact (@extrap_full_pre_eq). Qed.
Print Assumptions C07_batched_check_is_the_model.

(** How the spacings are typed.  A spacing may be written as an integer ([XInt]: python int - the documented type of
    extrap_x_l is list[int] -, numpy integer scalar, element of an integer array, integer .extrap_x) or as a float
    ([XNum]), in any mixture; the typed call is the untyped one on the numbers denoted.  So: the result depends on the
    numbers only, all-integer lists are exact like any other, and an implementation that keeps the weights of an
    all-integer list in an integer container is refuted.  (The tie to Numerics.py: the translated closed formulas use
    true division on scalars; the generator hands every accepted container / scalar type to the real code on every run.) *)
Theorem C07_typing_of_spacings_irrelevant : forall (logm : bool) fm (xs xs' : list (@xval R)) (ys : list R),
  map xnum xs = map xnum xs' ->
  extrap_entry_typed xs ys = extrap_entry_typed xs' ys /\ extrap_full_typed logm fm xs ys = extrap_full_typed logm fm xs' ys.
Proof. intros logm fm xs xs' ys E. split; [exact (typing_irrelevant xs xs' ys E) | exact (typing_irrelevant_full logm fm xs xs' ys E)]. Qed.
Print Assumptions C07_typing_of_spacings_irrelevant.

Theorem C07_integers_are_the_floats_they_denote : forall zs : list Z,
  map xnum (map (@XInt R) zs) = map xnum (map (fun z => XNum (IZR z)) zs).
Proof. exact int_written_as_float. Qed.

Theorem C07_typed_spacings_exact : forall (cs : list R) (xs : list (@xval R)),
  length cs = length xs -> (1 <= length xs <= 6)%nat -> NoDup (map xnum xs) ->
  extrap_entry_typed xs (map (peval cs) (map xnum xs)) = Some (hd 0 cs).
Proof. exact typed_exact. Qed.
Print Assumptions C07_typed_spacings_exact.

Theorem C07_integer_spacings_exact : forall (cs : list R) (zs : list Z),
  length cs = length zs -> (1 <= length zs <= 6)%nat -> NoDup zs ->
  extrap_entry_typed (map XInt zs) (map (peval cs) (map IZR zs)) = Some (hd 0 cs).
Proof. exact integer_spacings_exact. Qed.
Print Assumptions C07_integer_spacings_exact.

Theorem C07_integer_spacings_log_exact : forall (cs : list R) (zs : list Z) (ys : list R),
  length cs = length zs -> (1 <= length zs <= 6)%nat -> NoDup zs ->
  map ln ys = map (peval cs) (map IZR zs) ->
  option_map exp (extrap_entry_typed (map XInt zs) (map ln ys)) = Some (exp (hd 0 cs)).
Proof. exact integer_spacings_log_exact. Qed.

(** weights of an all-integer list cut to integers (toward zero: numpy.empty_like of an integer array / a C cast; or
    floored: integer division) are not exact although the model is: f(x) = x on the spacings 2, 7, 11, 13. *)
Theorem C07_integer_weights_refuted :
  exists (zs : list Z) (cs : list R), length cs = length zs /\ NoDup zs /\
    extrap_entry_typed (map XInt zs) (map (peval cs) (map IZR zs)) = Some (hd 0 cs) /\
    lagrange0_intweights Z.quot zs (map (peval cs) (map IZR zs)) <> hd 0 cs /\
    lagrange0_intweights Z.div zs (map (peval cs) (map IZR zs)) <> hd 0 cs.
Proof. exact integer_weights_refuted. Qed.

(** the check of the closed formulas called directly (no logarithm, no fallback) evaluates the model, for every number type *)
Theorem C07_direct_check_is_the_model : forall (F : Type) (NF : Num F) (xs ys : list F),
  extrap_entry_w xs (map (lag0_weight xs) xs) ys = extrap_entry xs ys.
Proof. exact (@extrap_entry_w_eq). Qed.
Print Assumptions C07_direct_check_is_the_model.

(** non-vacuity: a concrete cubic at four distinct spacings *)
Example C07_nonvacuous :
  extrap_entry [1; 2; 4; 8] (map (peval [5; -1; 3; 2]) [1; 2; 4; 8]) = Some 5.
Proof. apply (extrap_exact [5; -1; 3; 2] [1; 2; 4; 8]); [reflexivity | cbn; lia | ].
  repeat constructor; cbn [In]; intuition lra. Qed.

(** Edge values of the fallback threshold.  [far fm ex best] is the decision "the extrapolation [ex] lies MORE than [fm]
    decades from the finest-grid value [best]" for EVERY threshold [fm] (a number of the field, zero and tiny values
    included; strict comparison: a distance of exactly [fm] decades stays).  Threshold 0: every entry that differs at all
    from the finest-grid value (positive ratio) falls back, so the result is the finest-grid value.  A zero ratio is
    infinitely far (log10 0 = -inf), a negative ratio is not far (log10 of a negative number is nan). *)
Theorem C07_fallback_decision_is_strict_decade_distance : forall fm ex best : R, 0 < ex / best ->
  (far fm ex best = true <-> fm < Rabs (ln (ex / best) / ln 10)).
Proof. exact far_spec. Qed.
Print Assumptions C07_fallback_decision_is_strict_decade_distance.

Theorem C07_zero_threshold_falls_back_whenever_different : forall ex best : R, 0 < ex / best ->
  (far 0 ex best = true <-> ex <> best).
Proof. exact far_zero_threshold. Qed.
Print Assumptions C07_zero_threshold_falls_back_whenever_different.

Theorem C07_zero_threshold_returns_finest_grid_value : forall ex best : R, 0 < ex / best ->
  (if far 0 ex best then best else ex) = best.
Proof. exact zero_threshold_returns_finest. Qed.

Theorem C07_fallback_monotone_in_threshold : forall fm fm' ex best : R,
  fm' <= fm -> far fm ex best = true -> far fm' ex best = true.
Proof. exact far_monotone. Qed.

Theorem C07_zero_ratio_is_far : forall fm ex best : R, ex / best = 0 -> far fm ex best = true.
Proof. exact far_zero_ratio. Qed.

Theorem C07_negative_ratio_is_not_far : forall fm ex best : R, ex / best < 0 -> far fm ex best = false.
Proof. exact far_negative_ratio. Qed.
