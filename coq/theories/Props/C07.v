(** C07 — grid extrapolation is exact for polynomial grid dependence with 1-6 grid sizes.
    Only statements; every proof is [exact <lemma>]. *)
From Coq Require Import ZArith Reals List Lra Lia Permutation.
From Dadi Require Import Base.Num Base.NumR Model.Extrap Proofs.ExtrapProofs Proofs.ExtrapAll.
Import ListNotations.
Local Open Scope R_scope.

Theorem C07_exact_for_polynomials : forall cs xs : list R,
  length cs = length xs -> (1 <= length xs <= 6)%nat -> NoDup xs ->
  extrap_entry xs (map (peval cs) xs) = Some (hd 0 cs).
Proof. exact extrap_exact. Qed.
Print Assumptions C07_exact_for_polynomials.

Theorem C07_log_variant_exact : forall cs xs ys : list R,
  length cs = length xs -> (1 <= length xs <= 6)%nat -> NoDup xs ->
  map ln ys = map (peval cs) xs ->
  option_map exp (extrap_entry xs (map ln ys)) = Some (exp (hd 0 cs)).
Proof. exact extrap_log_exact. Qed.
Print Assumptions C07_log_variant_exact.

Theorem C07_order_of_grid_list_irrelevant : forall xs ys xs' ys' : list R,
  length xs = length ys -> length xs' = length ys' ->
  Permutation (combine xs ys) (combine xs' ys') -> (2 <= length xs)%nat ->
  extrap_entry xs ys = extrap_entry xs' ys'.
Proof. exact extrap_entry_perm. Qed.
Print Assumptions C07_order_of_grid_list_irrelevant.

Theorem C07_other_counts_refused : forall xs ys : list R,
  (length xs = 0 \/ 6 < length xs)%nat -> extrap_entry xs ys = None.
Proof. exact extrap_refuses. Qed.

Theorem C07_fallback_entrywise : forall (logm : bool) fm (xs ys : list R) e,
  (2 <= length xs)%nat -> extrap_entry xs (if logm then map ln ys else ys) = Some e ->
  let ex := if logm then exp e else e in
  let best := nth (argmin xs) ys 0 in
  extrap_full logm fm xs ys = Some (if far fm ex best then best else ex).
Proof. exact fallback_spec. Qed.

Theorem C07_single_grid_is_identity : forall (logm : bool) fm x y, (logm = true -> 0 < y) ->
  extrap_full logm fm [x] [y] = Some y.
Proof. exact k1_is_identity. Qed.
Print Assumptions C07_single_grid_is_identity.

(** One wrap, many calls.  [run_calls step store calls]: the wrapped function as an object holding the list captured by
    make_extrap_func ([Some xs]: explicit extrap_x_l; [None]: x read off each call's results), called on a sequence of
    (extrap_x carried by the results, results) pairs.  Every call returns what the pure function returns and the captured
    list is left as it was (the source obligation "no in-place operation on extrap_x_l / x_l / pts_l / result_l" is the
    tie of this frame condition to Numerics.py). *)
Theorem C07_calls_are_independent : forall (step : list R -> list R -> option R) store calls,
  run_calls step store calls = (map (fun c => step (call_xs store (fst c)) (snd c)) calls, store).
Proof. exact run_calls_pure. Qed.
Print Assumptions C07_calls_are_independent.

Theorem C07_repeated_calls_exact : forall (store : option (list R)) (calls : list (list R * list R)),
  Forall (fun c => let xs := call_xs store (fst c) in
                   length (snd c) = length xs /\ (1 <= length xs <= 6)%nat /\ NoDup xs) calls ->
  run_calls extrap_entry store (map (fun c => (fst c, map (peval (snd c)) (call_xs store (fst c)))) calls)
  = (map (fun c => Some (hd 0 (snd c))) calls, store).
Proof. exact repeated_calls_exact. Qed.
Print Assumptions C07_repeated_calls_exact.

(** the frame condition is needed: a wrapper that reverses/sorts the captured list in place after using it is exact on
    the first call and wrong on the second (witness: f(x) = x on the spacings [2; 1]). *)
Theorem C07_rewriting_the_captured_list_refuted :
  exists (g : list R -> list R) (xs cs : list R),
    length cs = length xs /\ NoDup xs /\
    let c := (@nil R, map (peval cs) xs) in
    nth 0 (fst (run_calls_rewriting g extrap_entry (Some xs) [c; c])) None = Some (hd 0 cs) /\
    nth 1 (fst (run_calls_rewriting g extrap_entry (Some xs) [c; c])) None <> Some (hd 0 cs).
Proof. exact rewriting_store_refuted. Qed.

(** the batched correspondence check (weights of the node list computed once, logarithms handed in) evaluates the model
    itself - for every number type, so in particular for the rationals it runs on. *)
Theorem C07_batched_check_is_the_model : forall (F : Type) (NF : Num F) (logm : bool) (fm : F) (xs ys : list F),
  extrap_full_pre logm fm xs (map (lag0_weight xs) xs) ys (if logm then map nln ys else ys) = extrap_full logm fm xs ys.
Proof. exact (@extrap_full_pre_eq). Qed.
Print Assumptions C07_batched_check_is_the_model.

(** non-vacuity: a concrete cubic at four distinct spacings *)
Example C07_nonvacuous :
  extrap_entry [1; 2; 4; 8] (map (peval [5; -1; 3; 2]) [1; 2; 4; 8]) = Some 5.
Proof. apply (extrap_exact [5; -1; 3; 2] [1; 2; 4; 8]); [reflexivity | cbn; lia | ].
  repeat constructor; cbn [In]; intuition lra. Qed.
