(** C07 — grid extrapolation is exact for polynomial grid dependence with 1-6 grid sizes.
    Only statements; every proof is [exact <lemma>]. *)
From Coq Require Import ZArith Reals List Lra Lia Permutation.
From Dadi Require Import Base.Num Base.NumR Model.Extrap Proofs.ExtrapProofs Proofs.ExtrapAll.
Import ListNotations.
Local Open Scope R_scope.

Theorem C07_exact_for_polynomials : forall cs xs : list R,
  length cs = length xs -> (1 <= length xs <= 6)%nat -> NoDup xs ->
  extrap_entry xs (map (peval cs) xs) = Some (hd 0 cs).
Proof. exact extrap_exact. Qed.
Print Assumptions C07_exact_for_polynomials.

Theorem C07_log_variant_exact : forall cs xs ys : list R,
  length cs = length xs -> (1 <= length xs <= 6)%nat -> NoDup xs ->
  map ln ys = map (peval cs) xs ->
  option_map exp (extrap_entry xs (map ln ys)) = Some (exp (hd 0 cs)).
Proof. exact extrap_log_exact. Qed.
Print Assumptions C07_log_variant_exact.

Theorem C07_order_of_grid_list_irrelevant : forall xs ys xs' ys' : list R,
  length xs = length ys -> length xs' = length ys' ->
  Permutation (combine xs ys) (combine xs' ys') -> (2 <= length xs)%nat ->
  extrap_entry xs ys = extrap_entry xs' ys'.
Proof. exact extrap_entry_perm. Qed.
Print Assumptions C07_order_of_grid_list_irrelevant.

Theorem C07_other_counts_refused : forall xs ys : list R,
  (length xs = 0 \/ 6 < length xs)%nat -> extrap_entry xs ys = None.
Proof. exact extrap_refuses. Qed.

Theorem C07_fallback_entrywise : forall (logm : bool) fm (xs ys : list R) e,
  (2 <= length xs)%nat -> extrap_entry xs (if logm then map ln ys else ys) = Some e ->
  let ex := if logm then exp e else e in
  let best := nth (argmin xs) ys 0 in
  extrap_full logm fm xs ys = Some (if far fm ex best then best else ex).
Proof. exact fallback_spec. Qed.

Theorem C07_single_grid_is_identity : forall (logm : bool) fm x y, (logm = true -> 0 < y) ->
  extrap_full logm fm [x] [y] = Some y.
Proof. exact k1_is_identity. Qed.
Print Assumptions C07_single_grid_is_identity.

(** non-vacuity: a concrete cubic at four distinct spacings *)
Example C07_nonvacuous :
  extrap_entry [1; 2; 4; 8] (map (peval [5; -1; 3; 2]) [1; 2; 4; 8]) = Some 5.
Proof. apply (extrap_exact [5; -1; 3; 2] [1; 2; 4; 8]); [reflexivity | cbn; lia | ].
  repeat constructor; cbn [In]; intuition lra. Qed.
