(** C19 — the uncertainty machinery (dadi/Godambe.py) differentiates exactly and matches closed-form information.
    Only statements; every proof is [exact <lemma>].

    Model: Model/Godambe.v (step-size rule, the four Hessian stencils, the gradient stencils, H, J, cU).
    A "quadratic" is [quadm c lin qd]: constant + sum a*p_k + sum a*p_k*p_l, any number of parameters,
    any list of monomials;  [quad_d2], [quad_d1] are its exact second / first partial derivatives. *)
From Coq Require Import ZArith Reals List Lra Lia Bool Permutation.
From Coquelicot Require Import Coquelicot.
From Dadi Require Import Base.Num Base.NumR Model.Godambe Proofs.GodambeProofs Proofs.GodambePoisson Proofs.GodambeLnBounds Proofs.GodambeRemainder.
Import ListNotations.
Local Open Scope R_scope.

(** each of the four stencils of hessian_elem (central / one-sided, diagonal / off-diagonal), whichever
    the one_sided flags and zero tests select, returns the exact second partial of every quadratic,
    for any two coordinates and any non-zero step sizes *)
Theorem C19_hess_exact_on_quadratics :
  forall c lin qd (p0 eps : list R) (os : list bool) ii jj,
  (ii < length p0)%nat -> (jj < length p0)%nat -> nth ii eps 0 <> 0 -> nth jj eps 0 <> 0 ->
  hess_elem (quadm c lin qd) (quadm c lin qd p0) p0 ii jj eps os = quad_d2 qd ii jj.
Proof. exact hess_elem_exact. Qed.
Print Assumptions C19_hess_exact_on_quadratics.

(** get_hess as a whole (step-size rule included): exact Hessian at every point -- parameters that are
    zero, tiny or negative included -- for every eps <> 0 *)
Theorem C19_get_hess_exact_on_quadratics :
  forall c lin qd (p0 : list R) (eps : R) r cc,
  eps <> 0 -> (r < length p0)%nat -> (cc < length p0)%nat ->
  nth cc (nth r (get_hess (quadm c lin qd) p0 eps) []) 0 = quad_d2 qd r cc.
Proof. exact get_hess_exact. Qed.
Print Assumptions C19_get_hess_exact_on_quadratics.

Theorem C19_grad_central_exact_on_quadratics :
  forall c lin qd (p0 eps : list R) (os : list bool) ii,
  (ii < length p0)%nat -> nth ii eps 0 <> 0 ->
  negb (Reqb (nth ii p0 0) 0) && negb (nth ii os false) = true ->
  grad_elem (quadm c lin qd) p0 ii eps os = quad_d1 lin qd p0 ii.
Proof. exact grad_elem_central_exact. Qed.
Print Assumptions C19_grad_central_exact_on_quadratics.

(** one-sided (and central) differences are exact when the function is linear in the coordinate,
    in particular for every linear function (qd = []) *)
Theorem C19_grad_onesided_exact_on_linear :
  forall c lin qd (p0 eps : list R) (os : list bool) ii,
  (ii < length p0)%nat -> nth ii eps 0 <> 0 -> quad_d2 qd ii ii = 0 ->
  grad_elem (quadm c lin qd) p0 ii eps os = quad_d1 lin qd p0 ii.
Proof. exact grad_elem_exact_on_linear. Qed.
Print Assumptions C19_grad_onesided_exact_on_linear.

(** ... and on a quadratic the one-sided branch is off by exactly step/2 * curvature *)
Theorem C19_grad_onesided_value_on_quadratics :
  forall c lin qd (p0 eps : list R) (os : list bool) ii,
  (ii < length p0)%nat -> nth ii eps 0 <> 0 ->
  negb (Reqb (nth ii p0 0) 0) && negb (nth ii os false) = false ->
  grad_elem (quadm c lin qd) p0 ii eps os = quad_d1 lin qd p0 ii + nth ii eps 0 / 2 * quad_d2 qd ii ii.
Proof. exact grad_elem_onesided_value. Qed.

Theorem C19_get_grad_exact :
  forall c lin qd (p0 : list R) (eps : R) i,
  eps <> 0 -> (i < length p0)%nat ->
  (nth i p0 0 <> 0 /\ Rtiny <= nth i p0 0 * eps) \/ quad_d2 qd i i = 0 ->
  nth i (get_grad (quadm c lin qd) p0 eps) 0 = quad_d1 lin qd p0 i.
Proof. exact get_grad_exact. Qed.
Print Assumptions C19_get_grad_exact.

(** step = eps for p = 0 (flag stays down: the zero test selects the one-sided stencil),
    step = eps and one_sided for 0 <> p, p*eps < 1e-6 (every negative p included), step = eps*p otherwise;
    never zero *)
Theorem C19_stepsize_rule :
  forall eps p : R,
  (p = 0 -> step_rule eps p = (eps, false)) /\
  (p <> 0 -> p * eps < Rtiny -> step_rule eps p = (eps, true)) /\
  (p <> 0 -> Rtiny <= p * eps -> step_rule eps p = (eps * p, false)).
Proof. exact step_rule_spec. Qed.

Theorem C19_stepsize_nonzero : forall eps p : R, eps <> 0 -> fst (step_rule eps p) <> 0.
Proof. exact step_rule_nonzero. Qed.

Theorem C19_central_stencil_iff :
  forall eps p : R,
  (negb (Reqb p 0) && negb (snd (step_rule eps p)) = true) <-> (p <> 0 /\ Rtiny <= p * eps).
Proof. exact step_rule_central_iff. Qed.

Theorem C19_J_permutation_invariant :
  forall n (g g' : list (list R)), Permutation g g' -> J_mat n g = J_mat n g'.
Proof. exact J_mat_perm. Qed.
Print Assumptions C19_J_permutation_invariant.

Theorem C19_cU_permutation_invariant :
  forall n (g g' : list (list R)), Permutation g g' -> cU_vec n g = cU_vec n g'.
Proof. exact cU_vec_perm. Qed.

(** [post] stands for everything computed from (H, J, cU): H J^-1 H, uncertainties, LRT adjustment, Wald, score *)
Theorem C19_godambe_bootstrap_order_irrelevant :
  forall (D T : Type) (ll : D -> list R -> R) p0 eps data (boots boots' : list D)
         (post : list (list R) * list (list R) * list R -> T),
  Permutation boots boots' ->
  post (godambe_HJc ll p0 eps data boots) = post (godambe_HJc ll p0 eps data boots').
Proof. exact (@godambe_perm). Qed.
Print Assumptions C19_godambe_bootstrap_order_irrelevant.

(** Poisson model linear in its parameters, m_i = adj * sum_k theta_k B_i[k] > 0:
    d ll/d theta_k = sum_i (d_i/m_i - adj) B_i[k]   and   d2 ll/d theta_k d theta_l = - sum_i d_i B_i[k] B_i[l] / m_i^2.
    Full statement intended by the property (NOT proved):
      |get_hess (pois_ll ..) theta eps - pois_hess| <= C(theta, B, d) * eps^2   (same for get_grad, and hence for the
      Fisher/Godambe uncertainties, LRT adjustment, Wald and score statistics);
    the O(eps^2) agreement is checked numerically at eps and eps/2 by the harness (model in exact arithmetic and
    implementation in floats). *)
Theorem C19_linear_poisson_closed_forms_partial :
  forall (Bs : list (list R)) (dt : @pdata R) (theta : list R),
  0 < pd_adj dt -> List.Forall (fun bi => 0 < ndot theta bi) Bs ->
  (forall k, (k < length theta)%nat ->
     is_derive (fun v => pois_ll (lin_mean Bs) dt (upd theta k v)) (nth k theta 0) (pois_grad Bs dt theta k)) /\
  (forall k l, (l < length theta)%nat ->
     is_derive (fun v => pois_grad Bs dt (upd theta l v) k) (nth l theta 0) (pois_hess Bs dt theta k l)).
Proof. exact pois_closed_forms. Qed.
Print Assumptions C19_linear_poisson_closed_forms_partial.

(** the one-sided gradient is first order only: not exact on quadratics (witness p = 0, f = p^2, eps = 1) *)
Theorem C19_grad_onesided_on_quadratics_refuted :
  exists c lin qd p0 eps, eps <> 0 /\
    nth 0 (get_grad (quadm c lin qd) p0 eps) 0 <> quad_d1 lin qd p0 0.
Proof. exact get_grad_onesided_not_exact. Qed.

(** remainder of the central stencils on u |-> ln (a + u), a > 0 (standalone, no model definitions) *)
Theorem C19_ln_stencil_remainders :
  (forall a p, 0 < a -> Rabs p <= a / 2 ->
     Rabs (ln (a + p) - ln (a - p) - 2 * p / a) <= 8 / 3 * (Rabs p * Rabs p * Rabs p) / (a * a * a)) /\
  (forall a p, 0 < a -> Rabs p <= a / 2 ->
     Rabs (ln (a + p) - 2 * ln a + ln (a - p) + p * p / (a * a)) <= 2 * (p * p * (p * p)) / (a * a * (a * a))) /\
  (forall a p q, 0 < a -> Rabs p + Rabs q <= a / 4 ->
     Rabs (ln (a + p + q) - ln (a + p - q) - ln (a - p + q) + ln (a - p - q) + 4 * p * q / (a * a))
     <= 40 * (Rabs p * Rabs q) * ((Rabs p + Rabs q) * (Rabs p + Rabs q)) / (a * a * (a * a))).
Proof. exact (conj ln_grad_bound (conj ln_diag_bound ln_off_bound)). Qed.
Print Assumptions C19_ln_stencil_remainders.

(** Poisson model linear in its parameters, all means positive; rho bounds the shares |theta_k B_i[k]| / m_i
    ([share_bound]; rho = 1 when all theta_k B_i[k] >= 0, see C19_share_bound_nonneg).
    For 0 < eps <= 1/(8 rho) and coordinates r, c on which the step-size rule selects the central stencils
    (theta <> 0, 1e-6 <= theta * eps), the entry of get_hess is within
       C_H eps^2,  C_H = 40 rho^2 sum_i |d_i| |B_i[r] B_i[c]| / m_i^2   (pois_abs_hess; independent of eps and of adj)
    of the closed form pois_hess. *)
Theorem C19_poisson_hessian_within_eps2 :
  forall (Bs : list (list R)) (dt : @pdata R) (theta : list R) (rho : R),
  0 < pd_adj dt -> List.Forall (fun b => 0 < ndot theta b) Bs -> 0 < rho -> share_bound Bs theta rho ->
  forall (eps : R) (r c : nat),
  0 < eps -> eps <= / (8 * rho) -> (r < length theta)%nat -> (c < length theta)%nat ->
  nth r theta 0 <> 0 -> Rtiny <= nth r theta 0 * eps ->
  nth c theta 0 <> 0 -> Rtiny <= nth c theta 0 * eps ->
  Rabs (nth c (nth r (get_hess (pois_ll (lin_mean Bs) dt) theta eps) []) 0 - pois_hess Bs dt theta r c)
  <= 40 * (rho * rho) * pois_abs_hess Bs dt theta r c * (eps * eps).
Proof. exact poisson_hessian_within_eps2. Qed.
Print Assumptions C19_poisson_hessian_within_eps2.

(** same for get_grad:  C_g = 4/3 rho^2 sum_i |d_i| |B_i[k]| / m_i  (pois_abs_grad) *)
Theorem C19_poisson_gradient_within_eps2 :
  forall (Bs : list (list R)) (dt : @pdata R) (theta : list R) (rho : R),
  0 < pd_adj dt -> List.Forall (fun b => 0 < ndot theta b) Bs -> 0 < rho -> share_bound Bs theta rho ->
  forall (eps : R) (k : nat),
  0 < eps -> eps <= / (8 * rho) -> (k < length theta)%nat ->
  nth k theta 0 <> 0 -> Rtiny <= nth k theta 0 * eps ->
  Rabs (nth k (get_grad (pois_ll (lin_mean Bs) dt) theta eps) 0 - pois_grad Bs dt theta k)
  <= 4 / 3 * (rho * rho) * pois_abs_grad Bs dt theta k * (eps * eps).
Proof. exact poisson_gradient_within_eps2. Qed.
Print Assumptions C19_poisson_gradient_within_eps2.

(** per-entry form: hessian_elem with central flags, whatever the lists eps / one_sided are elsewhere *)
Theorem C19_poisson_hess_elem_central_within_eps2 :
  forall (Bs : list (list R)) (dt : @pdata R) (theta : list R) (rho : R),
  0 < pd_adj dt -> List.Forall (fun b => 0 < ndot theta b) Bs -> share_bound Bs theta rho ->
  forall (es : list R) (os : list bool) (ii jj : nat) (eps : R),
  (ii < length theta)%nat -> (jj < length theta)%nat -> 0 < eps -> eps * rho <= 1 / 8 ->
  nth ii theta 0 <> 0 -> nth jj theta 0 <> 0 ->
  nth ii es 0 = eps * nth ii theta 0 -> nth jj es 0 = eps * nth jj theta 0 ->
  nth ii os false = false -> nth jj os false = false ->
  Rabs (hess_elem (pois_ll (lin_mean Bs) dt) (pois_ll (lin_mean Bs) dt theta) theta ii jj es os - pois_hess Bs dt theta ii jj)
  <= 40 * (rho * rho) * pois_abs_hess Bs dt theta ii jj * (eps * eps).
Proof. exact hess_elem_central_bound. Qed.

Theorem C19_share_bound_nonneg :
  forall (Bs : list (list R)) (theta : list R),
  List.Forall (fun b => forall k, 0 <= nth k theta 0 * nth k b 0) Bs -> share_bound Bs theta 1.
Proof. exact share_bound_nonneg. Qed.

(** H = - get_hess, J = mean of outer products of the bootstrap gradients, cU = mean gradient: each entry within
    (explicit constant) * eps^2 of the value obtained from the closed-form Hessian / score vectors.
    (The inverse-matrix stage -- GIM = H J^-1 H, uncertainties, LRT adjustment, Wald, score -- is NOT covered.) *)
Theorem C19_poisson_godambe_HJc_within_eps2 :
  forall (Bs : list (list R)) (theta : list R) (rho : R) (data : @pdata R) (boots : list (@pdata R)) (eps : R),
  0 < pd_adj data -> List.Forall (fun bt => 0 < pd_adj bt) boots -> List.Forall (fun b => 0 < ndot theta b) Bs ->
  0 < rho -> share_bound Bs theta rho -> boots <> [] ->
  0 < eps -> eps <= / (8 * rho) -> eps <= 1 ->
  (forall k, (k < length theta)%nat -> nth k theta 0 <> 0 /\ Rtiny <= nth k theta 0 * eps) ->
  let HJc := godambe_HJc (fun bt => pois_ll (lin_mean Bs) bt) theta eps data boots in
  forall i j, (i < length theta)%nat -> (j < length theta)%nat ->
    Rabs (nth j (nth i (fst (fst HJc)) []) 0 - - pois_hess Bs data theta i j)
      <= 40 * (rho * rho) * pois_abs_hess Bs data theta i j * (eps * eps) /\
    Rabs (nth j (nth i (snd (fst HJc)) []) 0 - J_entry (exact_grads Bs theta boots) i j)
      <= nsum (map (J_const rho Bs theta i j) boots) / IZR (Z.of_nat (length boots)) * (eps * eps) /\
    Rabs (nth i (snd HJc) 0 - cU_entry (exact_grads Bs theta boots) i)
      <= nsum (map (grad_const rho Bs theta i) boots) / IZR (Z.of_nat (length boots)) * (eps * eps).
Proof. exact poisson_godambe_HJc_within_eps2. Qed.
Print Assumptions C19_poisson_godambe_HJc_within_eps2.

(** the bound cannot hold for all small eps: below eps = 1e-6/theta_k the step-size rule switches to the
    one-sided stencil, which is first order (witness: theta = 1, B = (1), d = 1: |error| >= eps/4) *)
Theorem C19_poisson_gradient_eps2_for_all_small_eps_refuted :
  exists (Bs : list (list R)) (dt : @pdata R) (theta : list R),
    0 < pd_adj dt /\ List.Forall (fun b => 0 < ndot theta b) Bs /\
    ~ (exists C eps0, 0 < eps0 /\ forall eps, 0 < eps <= eps0 ->
         Rabs (nth 0 (get_grad (pois_ll (lin_mean Bs) dt) theta eps) 0 - pois_grad Bs dt theta 0) <= C * (eps * eps)).
Proof. exact poisson_gradient_eps2_small_eps_refuted. Qed.
Print Assumptions C19_poisson_gradient_eps2_for_all_small_eps_refuted.

Example C19_remainder_nonvacuous :
  let Bs := [[1; 1]; [2; 1]] in let dt := {| pd_adj := 1; pd_d := [3; 5]; pd_g := [0; 0] |} in
  Rabs (nth 1 (nth 0 (get_hess (pois_ll (lin_mean Bs) dt) [1; 2] (1 / 100)) []) 0 - - (23 / 24)) <= 23 / 6000 /\
  Rabs (nth 0 (get_grad (pois_ll (lin_mean Bs) dt) [1; 2] (1 / 100)) 0 - (3 / 3 - 1 + (5 / 4 - 1) * 2)) <= 4 / 3 * (3 / 3 + 10 / 4) * (1 / 10000).
Proof. exact poisson_remainder_example. Qed.

(** non-vacuity: f(p) = 1 + 2 p0 + 3 p1 + 2 p0^2 + 5 p0 p1 + p1^2 at (1, 0): second parameter zero => one-sided stencils *)
Example C19_nonvacuous :
  get_hess (quadm 1 [(2, 0%nat); (3, 1%nat)] [(2, (0%nat, 0%nat)); (5, (0%nat, 1%nat)); (1, (1%nat, 1%nat))]) [1; 0] (1 / 100)
  = [[4; 5]; [5; 2]].
Proof. exact godambe_example. Qed.
