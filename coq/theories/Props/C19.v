(** C19 — the uncertainty machinery (dadi/Godambe.py) differentiates exactly and matches closed-form information.
    Only statements; every proof is [exact <lemma>].

    Model: Model/Godambe.v (step-size rule, the four Hessian stencils, the gradient stencils, H, J, cU).
    A "quadratic" is [quadm c lin qd]: constant + sum a*p_k + sum a*p_k*p_l, any number of parameters,
    any list of monomials;  [quad_d2], [quad_d1] are its exact second / first partial derivatives. *)
From Coq Require Import ZArith QArith Reals List Lra Lia Bool Permutation.
From Coquelicot Require Import Coquelicot.
From Dadi Require Import Base.Num Base.NumR Base.NumQ Model.Godambe Proofs.GodambeProofs Proofs.GodambePoisson Proofs.GodambeLnBounds Proofs.GodambeRemainder Proofs.MatPerturb Proofs.MatNeumann Proofs.MatStats Proofs.MatLists Proofs.GodambeInverse Proofs.GodambeModelStats Proofs.GodambeAffine Proofs.GodambeNested.
Import ListNotations.
Local Open Scope R_scope.

(** each of the four stencils of hessian_elem (central / one-sided, diagonal / off-diagonal), whichever
    the one_sided flags and zero tests select, returns the exact second partial of every quadratic,
    for any two coordinates and any non-zero step sizes *)
Theorem C19_hess_exact_on_quadratics :
  forall c lin qd (p0 eps : list R) (os : list bool) ii jj,
  (ii < length p0)%nat -> (jj < length p0)%nat -> nth ii eps 0 <> 0 -> nth jj eps 0 <> 0 ->
  hess_elem (quadm c lin qd) (quadm c lin qd p0) p0 ii jj eps os = quad_d2 qd ii jj.
Proof. exact hess_elem_exact. Qed.
Print Assumptions C19_hess_exact_on_quadratics.

(** get_hess as a whole (step-size rule included): exact Hessian at every point -- parameters that are
    zero, tiny or negative included -- for every eps <> 0 *)
Theorem C19_get_hess_exact_on_quadratics :
  forall c lin qd (p0 : list R) (eps : R) r cc,
  eps <> 0 -> (r < length p0)%nat -> (cc < length p0)%nat ->
  nth cc (nth r (get_hess (quadm c lin qd) p0 eps) []) 0 = quad_d2 qd r cc.
Proof. exact get_hess_exact. Qed.
Print Assumptions C19_get_hess_exact_on_quadratics.

Theorem C19_grad_central_exact_on_quadratics :
  forall c lin qd (p0 eps : list R) (os : list bool) ii,
  (ii < length p0)%nat -> nth ii eps 0 <> 0 ->
  negb (Reqb (nth ii p0 0) 0) && negb (nth ii os false) = true ->
  grad_elem (quadm c lin qd) p0 ii eps os = quad_d1 lin qd p0 ii.
Proof. exact grad_elem_central_exact. Qed.
Print Assumptions C19_grad_central_exact_on_quadratics.

(** one-sided (and central) differences are exact when the function is linear in the coordinate,
    in particular for every linear function (qd = []) *)
Theorem C19_grad_onesided_exact_on_linear :
  forall c lin qd (p0 eps : list R) (os : list bool) ii,
  (ii < length p0)%nat -> nth ii eps 0 <> 0 -> quad_d2 qd ii ii = 0 ->
  grad_elem (quadm c lin qd) p0 ii eps os = quad_d1 lin qd p0 ii.
Proof. exact grad_elem_exact_on_linear. Qed.
Print Assumptions C19_grad_onesided_exact_on_linear.

(** ... and on a quadratic the one-sided branch is off by exactly step/2 * curvature *)
Theorem C19_grad_onesided_value_on_quadratics :
  forall c lin qd (p0 eps : list R) (os : list bool) ii,
  (ii < length p0)%nat -> nth ii eps 0 <> 0 ->
  negb (Reqb (nth ii p0 0) 0) && negb (nth ii os false) = false ->
  grad_elem (quadm c lin qd) p0 ii eps os = quad_d1 lin qd p0 ii + nth ii eps 0 / 2 * quad_d2 qd ii ii.
Proof. exact grad_elem_onesided_value. Qed.

Theorem C19_get_grad_exact :
  forall c lin qd (p0 : list R) (eps : R) i,
  eps <> 0 -> (i < length p0)%nat ->
  (nth i p0 0 <> 0 /\ Rtiny <= nth i p0 0 * eps) \/ quad_d2 qd i i = 0 ->
  nth i (get_grad (quadm c lin qd) p0 eps) 0 = quad_d1 lin qd p0 i.
Proof. exact get_grad_exact. Qed.
Print Assumptions C19_get_grad_exact.

(** step = eps for p = 0 (flag stays down: the zero test selects the one-sided stencil),
    step = eps and one_sided for 0 <> p, p*eps < 1e-6 (every negative p included), step = eps*p otherwise;
    never zero *)
Theorem C19_stepsize_rule :
  forall eps p : R,
  (p = 0 -> step_rule eps p = (eps, false)) /\
  (p <> 0 -> p * eps < Rtiny -> step_rule eps p = (eps, true)) /\
  (p <> 0 -> Rtiny <= p * eps -> step_rule eps p = (eps * p, false)).
Proof. exact step_rule_spec. Qed.

Theorem C19_stepsize_nonzero : forall eps p : R, eps <> 0 -> fst (step_rule eps p) <> 0.
Proof. exact step_rule_nonzero. Qed.

Theorem C19_central_stencil_iff :
  forall eps p : R,
  (negb (Reqb p 0) && negb (snd (step_rule eps p)) = true) <-> (p <> 0 /\ Rtiny <= p * eps).
Proof. exact step_rule_central_iff. Qed.

Theorem C19_J_permutation_invariant :
  forall n (g g' : list (list R)), Permutation g g' -> J_mat n g = J_mat n g'.
Proof. exact J_mat_perm. Qed.
Print Assumptions C19_J_permutation_invariant.

Theorem C19_cU_permutation_invariant :
  forall n (g g' : list (list R)), Permutation g g' -> cU_vec n g = cU_vec n g'.
Proof. exact cU_vec_perm. Qed.

(** [post] stands for everything computed from (H, J, cU): H J^-1 H, uncertainties, LRT adjustment, Wald, score *)
Theorem C19_godambe_bootstrap_order_irrelevant :
  forall (D T : Type) (ll : D -> list R -> R) p0 eps data (boots boots' : list D)
         (post : list (list R) * list (list R) * list R -> T),
  Permutation boots boots' ->
  post (godambe_HJc ll p0 eps data boots) = post (godambe_HJc ll p0 eps data boots').
Proof. exact (@godambe_perm). Qed.
Print Assumptions C19_godambe_bootstrap_order_irrelevant.

(** ** LRT_adjust / Wald_stat / score_stat do not depend on the order in which the nested parameters are listed.

    [wald_stat], [score_stat], [lrt_adjust] are the statistics as functions of (H, J, cU) (Model/Godambe.v); the inverse they
    use certifies itself ([mat_inv_v]: A Ai = Ai A = 1 is tested entry by entry), so nothing depends on how it was found.
    Listing the n nested parameters in another order [perm] (a permutation of 0..n-1: new position a holds old position
    perm[a]) re-lists rows and columns of H and J ([sub_mat perm]) and the entries of cU and of the parameter difference
    ([select perm]); the statistics are unchanged.
    Not proved: that the inverse is found for the re-listed matrix whenever it is found for the original one (completeness of the
    elimination) -- both are hypotheses here, evaluated on every generated case. *)
Theorem C19_wald_order_invariant :
  forall n perm (Hm Jm : list (list R)) (d : list R) w w',
  wfm n Hm -> wfm n Jm -> length d = n -> Permutation perm (seq 0 n) ->
  wald_stat Hm Jm d = Some w -> wald_stat (sub_mat perm Hm) (sub_mat perm Jm) (select perm d) = Some w' -> w' = w.
Proof. exact wald_order_invariant. Qed.
Print Assumptions C19_wald_order_invariant.

Theorem C19_score_order_invariant :
  forall n perm (Hm Jm : list (list R)) (cU : list R) s s',
  wfm n Hm -> wfm n Jm -> length cU = n -> Permutation perm (seq 0 n) ->
  score_stat Hm Jm cU = Some s -> score_stat (sub_mat perm Hm) (sub_mat perm Jm) (select perm cU) = Some s' -> s' = s.
Proof. exact score_order_invariant. Qed.

Theorem C19_lrt_adjust_order_invariant :
  forall n perm (Hm Jm : list (list R)) a a',
  wfm n Hm -> wfm n Jm -> Permutation perm (seq 0 n) ->
  lrt_adjust Hm Jm = Some a -> lrt_adjust (sub_mat perm Hm) (sub_mat perm Jm) = Some a' -> a' = a.
Proof. exact lrt_order_invariant. Qed.

(** the Godambe matrix itself is re-listed alike *)
Theorem C19_gim_order_equivariant :
  forall n perm (Hm Jm G G' : list (list R)),
  wfm n Hm -> wfm n Jm -> Permutation perm (seq 0 n) ->
  gim Hm Jm = Some G -> gim (sub_mat perm Hm) (sub_mat perm Jm) = Some G' -> G' = sub_mat perm G /\ wfm n G.
Proof. exact gim_sub_mat. Qed.

(** Wald_stat from the caller's lists ([wald_diff]: theta_opt appended for multinom=True, full_params reduced with the nested
    indices when it has the length of p0, else taken as the values of the nested parameters): listing the nested indices in
    another order -- and, where full_params holds just the nested values, those values in the same new order -- gives the
    same (adjusted, unadjusted) statistics. *)
Theorem C19_wald_nested_order_irrelevant :
  forall n perm theta (p0 : list R) idx fp fp' (Hm Jm : list (list R)) d d' w w',
  wfm n Hm -> wfm n Jm -> length idx = n -> Permutation perm (seq 0 n) ->
  (length fp = length p0 /\ fp' = fp) \/ (length fp = n /\ n <> length p0 /\ n <> S (length p0) /\ fp' = select perm fp) ->
  wald_diff theta p0 idx fp = Some d -> wald_stat Hm Jm d = Some w ->
  wald_diff theta p0 (map (fun k => nth k idx 0%nat) perm) fp' = Some d' ->
  wald_stat (sub_mat perm Hm) (sub_mat perm Jm) d' = Some w' -> w' = w.
Proof. exact wald_nested_order_irrelevant. Qed.
Print Assumptions C19_wald_nested_order_irrelevant.

(** a nested index listed twice (the first listed index occurs again among the positions that receive a value): numpy's
    indexed assignment lets the last value win, diff_func ignores the value at position 0, row 0 of H and of J vanishes and
    neither has an inverse -- LRT_adjust, Wald_stat and score_stat have no value (the implementation raises LinAlgError) *)
Theorem C19_repeated_nested_index_singular :
  forall (Bs : list (list R)) aug (full : list R) i idx (data : @pdata R) (boots : list (@pdata R)) (p0 : list R) (eps : R),
  In i (firstn (length p0 - 1) idx) -> (0 < length p0)%nat -> eps <> 0 -> boots <> [] ->
  let HJc := godambe_HJc (fun dt => pois_ll (model_mean Bs aug (Some (full, i :: idx))) dt) p0 eps data boots in
  (forall c, (c < length p0)%nat -> entry (fst (fst HJc)) 0 c = 0 /\ entry (snd (fst HJc)) 0 c = 0) /\
  mat_inv_v (fst (fst HJc)) = None /\ mat_inv_v (snd (fst HJc)) = None.
Proof. exact repeated_nested_index_singular. Qed.
Print Assumptions C19_repeated_nested_index_singular.

(** non-vacuity (exact rationals): three nested parameters [0; 2; 3] out of five, values [2; 5; 3], listed as [3; 0; 2] with
    values [3; 2; 5]: same statistics; the values kept in the first order against matrices in the second: different *)
Example C19_order_nonvacuous :
  let Hm : list (list Q) := [[4; 1; 0]; [1; 3; 1]; [0; 1; 2]]%Q in let Jm : list (list Q) := [[2; 1; 0]; [1; 2; 0]; [0; 0; 1]]%Q in
  let p0 : list Q := [1; 2; 3; 4; 5]%Q in let idx := [0; 2; 3]%nat in let vals : list Q := [2; 5; 3]%Q in let perm := [2; 0; 1]%nat in
  let idx' := map (fun k => nth k idx 0%nat) perm in
  idx' = [3; 0; 2]%nat /\ select perm vals = [3; 2; 5]%Q /\
  (match wald_diff None p0 idx vals with Some d => wald_stat Hm Jm d | None => None end) = Some (24, 18)%Q /\
  (match wald_diff None p0 idx' (select perm vals) with Some d => wald_stat (sub_mat perm Hm) (sub_mat perm Jm) d | None => None end) = Some (24, 18)%Q /\
  (match wald_diff None p0 idx' (select perm vals) with Some d => wald_stat Hm Jm d | None => None end) = Some (149 # 3, 17)%Q /\
  lrt_adjust Hm Jm = Some (18 # 11)%Q /\ lrt_adjust (sub_mat perm Hm) (sub_mat perm Jm) = Some (18 # 11)%Q.
Proof. vm_compute. repeat split. Qed.

(** Poisson model linear in its parameters, m_i = adj * sum_k theta_k B_i[k] > 0:
    d ll/d theta_k = sum_i (d_i/m_i - adj) B_i[k]   and   d2 ll/d theta_k d theta_l = - sum_i d_i B_i[k] B_i[l] / m_i^2.
    Full statement intended by the property (NOT proved):
      |get_hess (pois_ll ..) theta eps - pois_hess| <= C(theta, B, d) * eps^2   (same for get_grad, and hence for the
      Fisher/Godambe uncertainties, LRT adjustment, Wald and score statistics);
    the O(eps^2) agreement is checked numerically at eps and eps/2 by the harness (model in exact arithmetic and
    implementation in floats). *)
Theorem C19_linear_poisson_closed_forms_partial :
  forall (Bs : list (list R)) (dt : @pdata R) (theta : list R),
  0 < pd_adj dt -> List.Forall (fun bi => 0 < ndot theta bi) Bs ->
  (forall k, (k < length theta)%nat ->
     is_derive (fun v => pois_ll (lin_mean Bs) dt (upd theta k v)) (nth k theta 0) (pois_grad Bs dt theta k)) /\
  (forall k l, (l < length theta)%nat ->
     is_derive (fun v => pois_grad Bs dt (upd theta l v) k) (nth l theta 0) (pois_hess Bs dt theta k l)).
Proof. exact pois_closed_forms. Qed.
Print Assumptions C19_linear_poisson_closed_forms_partial.

(** the one-sided gradient is first order only: not exact on quadratics (witness p = 0, f = p^2, eps = 1) *)
Theorem C19_grad_onesided_on_quadratics_refuted :
  exists c lin qd p0 eps, eps <> 0 /\
    nth 0 (get_grad (quadm c lin qd) p0 eps) 0 <> quad_d1 lin qd p0 0.
Proof. exact get_grad_onesided_not_exact. Qed.

(** remainder of the central stencils on u |-> ln (a + u), a > 0 (standalone, no model definitions) *)
Theorem C19_ln_stencil_remainders :
  (forall a p, 0 < a -> Rabs p <= a / 2 ->
     Rabs (ln (a + p) - ln (a - p) - 2 * p / a) <= 8 / 3 * (Rabs p * Rabs p * Rabs p) / (a * a * a)) /\
  (forall a p, 0 < a -> Rabs p <= a / 2 ->
     Rabs (ln (a + p) - 2 * ln a + ln (a - p) + p * p / (a * a)) <= 2 * (p * p * (p * p)) / (a * a * (a * a))) /\
  (forall a p q, 0 < a -> Rabs p + Rabs q <= a / 4 ->
     Rabs (ln (a + p + q) - ln (a + p - q) - ln (a - p + q) + ln (a - p - q) + 4 * p * q / (a * a))
     <= 40 * (Rabs p * Rabs q) * ((Rabs p + Rabs q) * (Rabs p + Rabs q)) / (a * a * (a * a))).
Proof. exact (conj ln_grad_bound (conj ln_diag_bound ln_off_bound)). Qed.
Print Assumptions C19_ln_stencil_remainders.

(** Poisson model linear in its parameters, all means positive; rho bounds the shares |theta_k B_i[k]| / m_i
    ([share_bound]; rho = 1 when all theta_k B_i[k] >= 0, see C19_share_bound_nonneg).
    For 0 < eps <= 1/(8 rho) and coordinates r, c on which the step-size rule selects the central stencils
    (theta <> 0, 1e-6 <= theta * eps), the entry of get_hess is within
       C_H eps^2,  C_H = 40 rho^2 sum_i |d_i| |B_i[r] B_i[c]| / m_i^2   (pois_abs_hess; independent of eps and of adj)
    of the closed form pois_hess. *)
Theorem C19_poisson_hessian_within_eps2 :
  forall (Bs : list (list R)) (dt : @pdata R) (theta : list R) (rho : R),
  0 < pd_adj dt -> List.Forall (fun b => 0 < ndot theta b) Bs -> 0 < rho -> share_bound Bs theta rho ->
  forall (eps : R) (r c : nat),
  0 < eps -> eps <= / (8 * rho) -> (r < length theta)%nat -> (c < length theta)%nat ->
  nth r theta 0 <> 0 -> Rtiny <= nth r theta 0 * eps ->
  nth c theta 0 <> 0 -> Rtiny <= nth c theta 0 * eps ->
  Rabs (nth c (nth r (get_hess (pois_ll (lin_mean Bs) dt) theta eps) []) 0 - pois_hess Bs dt theta r c)
  <= 40 * (rho * rho) * pois_abs_hess Bs dt theta r c * (eps * eps).
Proof. exact poisson_hessian_within_eps2. Qed.
Print Assumptions C19_poisson_hessian_within_eps2.

(** same for get_grad:  C_g = 4/3 rho^2 sum_i |d_i| |B_i[k]| / m_i  (pois_abs_grad) *)
Theorem C19_poisson_gradient_within_eps2 :
  forall (Bs : list (list R)) (dt : @pdata R) (theta : list R) (rho : R),
  0 < pd_adj dt -> List.Forall (fun b => 0 < ndot theta b) Bs -> 0 < rho -> share_bound Bs theta rho ->
  forall (eps : R) (k : nat),
  0 < eps -> eps <= / (8 * rho) -> (k < length theta)%nat ->
  nth k theta 0 <> 0 -> Rtiny <= nth k theta 0 * eps ->
  Rabs (nth k (get_grad (pois_ll (lin_mean Bs) dt) theta eps) 0 - pois_grad Bs dt theta k)
  <= 4 / 3 * (rho * rho) * pois_abs_grad Bs dt theta k * (eps * eps).
Proof. exact poisson_gradient_within_eps2. Qed.
Print Assumptions C19_poisson_gradient_within_eps2.

(** per-entry form: hessian_elem with central flags, whatever the lists eps / one_sided are elsewhere *)
Theorem C19_poisson_hess_elem_central_within_eps2 :
  forall (Bs : list (list R)) (dt : @pdata R) (theta : list R) (rho : R),
  0 < pd_adj dt -> List.Forall (fun b => 0 < ndot theta b) Bs -> share_bound Bs theta rho ->
  forall (es : list R) (os : list bool) (ii jj : nat) (eps : R),
  (ii < length theta)%nat -> (jj < length theta)%nat -> 0 < eps -> eps * rho <= 1 / 8 ->
  nth ii theta 0 <> 0 -> nth jj theta 0 <> 0 ->
  nth ii es 0 = eps * nth ii theta 0 -> nth jj es 0 = eps * nth jj theta 0 ->
  nth ii os false = false -> nth jj os false = false ->
  Rabs (hess_elem (pois_ll (lin_mean Bs) dt) (pois_ll (lin_mean Bs) dt theta) theta ii jj es os - pois_hess Bs dt theta ii jj)
  <= 40 * (rho * rho) * pois_abs_hess Bs dt theta ii jj * (eps * eps).
Proof. exact hess_elem_central_bound. Qed.

Theorem C19_share_bound_nonneg :
  forall (Bs : list (list R)) (theta : list R),
  List.Forall (fun b => forall k, 0 <= nth k theta 0 * nth k b 0) Bs -> share_bound Bs theta 1.
Proof. exact share_bound_nonneg. Qed.

(** H = - get_hess, J = mean of outer products of the bootstrap gradients, cU = mean gradient: each entry within
    (explicit constant) * eps^2 of the value obtained from the closed-form Hessian / score vectors.
    (The inverse-matrix stage -- GIM = H J^-1 H, uncertainties, LRT adjustment, Wald, score -- follows at the end of this file.) *)
Theorem C19_poisson_godambe_HJc_within_eps2 :
  forall (Bs : list (list R)) (theta : list R) (rho : R) (data : @pdata R) (boots : list (@pdata R)) (eps : R),
  0 < pd_adj data -> List.Forall (fun bt => 0 < pd_adj bt) boots -> List.Forall (fun b => 0 < ndot theta b) Bs ->
  0 < rho -> share_bound Bs theta rho -> boots <> [] ->
  0 < eps -> eps <= / (8 * rho) -> eps <= 1 ->
  (forall k, (k < length theta)%nat -> nth k theta 0 <> 0 /\ Rtiny <= nth k theta 0 * eps) ->
  let HJc := godambe_HJc (fun bt => pois_ll (lin_mean Bs) bt) theta eps data boots in
  forall i j, (i < length theta)%nat -> (j < length theta)%nat ->
    Rabs (nth j (nth i (fst (fst HJc)) []) 0 - - pois_hess Bs data theta i j)
      <= 40 * (rho * rho) * pois_abs_hess Bs data theta i j * (eps * eps) /\
    Rabs (nth j (nth i (snd (fst HJc)) []) 0 - J_entry (exact_grads Bs theta boots) i j)
      <= nsum (map (J_const rho Bs theta i j) boots) / IZR (Z.of_nat (length boots)) * (eps * eps) /\
    Rabs (nth i (snd HJc) 0 - cU_entry (exact_grads Bs theta boots) i)
      <= nsum (map (grad_const rho Bs theta i) boots) / IZR (Z.of_nat (length boots)) * (eps * eps).
Proof. exact poisson_godambe_HJc_within_eps2. Qed.
Print Assumptions C19_poisson_godambe_HJc_within_eps2.

(** the bound cannot hold for all small eps: below eps = 1e-6/theta_k the step-size rule switches to the
    one-sided stencil, which is first order (witness: theta = 1, B = (1), d = 1: |error| >= eps/4) *)
Theorem C19_poisson_gradient_eps2_for_all_small_eps_refuted :
  exists (Bs : list (list R)) (dt : @pdata R) (theta : list R),
    0 < pd_adj dt /\ List.Forall (fun b => 0 < ndot theta b) Bs /\
    ~ (exists C eps0, 0 < eps0 /\ forall eps, 0 < eps <= eps0 ->
         Rabs (nth 0 (get_grad (pois_ll (lin_mean Bs) dt) theta eps) 0 - pois_grad Bs dt theta 0) <= C * (eps * eps)).
Proof. exact poisson_gradient_eps2_small_eps_refuted. Qed.
Print Assumptions C19_poisson_gradient_eps2_for_all_small_eps_refuted.

Example C19_remainder_nonvacuous :
  let Bs := [[1; 1]; [2; 1]] in let dt := {| pd_adj := 1; pd_d := [3; 5]; pd_g := [0; 0] |} in
  Rabs (nth 1 (nth 0 (get_hess (pois_ll (lin_mean Bs) dt) [1; 2] (1 / 100)) []) 0 - - (23 / 24)) <= 23 / 6000 /\
  Rabs (nth 0 (get_grad (pois_ll (lin_mean Bs) dt) [1; 2] (1 / 100)) 0 - (3 / 3 - 1 + (5 / 4 - 1) * 2)) <= 4 / 3 * (3 / 3 + 10 / 4) * (1 / 10000).
Proof. exact poisson_remainder_example. Qed.

(** non-vacuity: f(p) = 1 + 2 p0 + 3 p1 + 2 p0^2 + 5 p0 p1 + p1^2 at (1, 0): second parameter zero => one-sided stencils *)
Example C19_nonvacuous :
  get_hess (quadm 1 [(2, 0%nat); (3, 1%nat)] [(2, (0%nat, 0%nat)); (5, (0%nat, 1%nat)); (1, (1%nat, 1%nat))]) [1; 0] (1 / 100)
  = [[4; 5]; [5; 2]].
Proof. exact godambe_example. Qed.

(** ---- the inverse-matrix stage (GIM = H J^-1 H, uncertainties, LRT adjustment, Wald, score) ----
    Matrices as functions nat -> nat -> R read on [0,n) x [0,n) ([meq n]); [mnorm n] = sum of |entries| (submultiplicative);
    [is_inv n A B]: A B = 1 = B A on the square.  numpy.linalg.inv is an oracle: any two-sided inverse. *)
Theorem C19_norm_submultiplicative :
  forall n (A B : mat), mnorm n (mmul n A B) <= mnorm n A * mnorm n B.
Proof. exact mnorm_mmul. Qed.

(** B' - B = - B (A' - A) B';  |B'| <= |B| / (1 - |B||E|);  |B' - B| <= |B|^2 |E| / (1 - |B||E|) *)
Theorem C19_inverse_perturbation :
  forall n (A B A' B' : mat), is_inv n A B -> is_inv n A' B' ->
  meq n (msub B' B) (mopp (mmul n (mmul n B (msub A' A)) B')) /\
  (mnorm n B * mnorm n (msub A' A) < 1 ->
   mnorm n B' <= mnorm n B / (1 - mnorm n B * mnorm n (msub A' A)) /\
   mnorm n (msub B' B) <= mnorm n B * mnorm n B * mnorm n (msub A' A) / (1 - mnorm n B * mnorm n (msub A' A))).
Proof.
  exact (fun n A B A' B' HI HI' =>
           conj (inv_perturb_identity n A B A' B' (proj2 HI) (proj1 HI'))
                (inv_perturb_norm n A B A' B' (proj2 HI) (proj1 HI'))).
Qed.
Print Assumptions C19_inverse_perturbation.

Theorem C19_product_perturbation :
  forall n (A B A' B' : mat),
  mnorm n (msub (mmul n A' B') (mmul n A B)) <= mnorm n (msub A' A) * mnorm n B' + mnorm n A * mnorm n (msub B' B).
Proof. exact mmul_diff_norm. Qed.

(** a perturbation with |B| |A' - A| < 1 of an invertible matrix is invertible (Neumann series): the theorems below need
    invertibility of the closed-form matrices only *)
Theorem C19_small_perturbation_invertible :
  forall n (A B A' : mat), is_inv n A B -> mnorm n B * mnorm n (msub A' A) < 1 -> exists B', is_inv n A' B'.
Proof. exact neumann_inverse. Qed.
Print Assumptions C19_small_perturbation_invertible.

(** entrywise form: every |H' i j - H i j| <= c e2 and n^2 c e2 |Hinv| <= 1/2  =>  every entry of H'inv within
    2 |Hinv|^2 n^2 c e2 of Hinv *)
Theorem C19_inverse_entries_within :
  forall n (H Hi H' Hi' : mat) (c e2 : R),
  is_inv n H Hi -> is_inv n H' Hi' ->
  (forall i j, (i < n)%nat -> (j < n)%nat -> Rabs (H' i j - H i j) <= c * e2) ->
  INR n * INR n * c * e2 * mnorm n Hi <= 1 / 2 ->
  forall i j, (i < n)%nat -> (j < n)%nat ->
    Rabs (Hi' i j - Hi i j) <= 2 * (mnorm n Hi * mnorm n Hi) * (INR n * INR n * c) * e2.
Proof. exact fim_inverse_within_entries. Qed.

Theorem C19_sqrt_perturbation :
  forall a a' : R, 0 < a -> 0 <= a' -> Rabs (sqrt a' - sqrt a) <= Rabs (a' - a) / sqrt a.
Proof. exact sqrt_diff_bound. Qed.

(** FIM_uncert for Poisson models linear in their parameters (multinom=False): the standard deviations
    sqrt(diag(inv(H))) from the finite-difference Hessian are within  K / sqrt((inv Hc)_ii) * eps^2  of those from the closed
    form Hc = - pois_hess, K = 2 |inv Hc|^2 CH, CH = sum_ij 40 rho^2 pois_abs_hess i j; inv: ANY function returning an n x n
    two-sided inverse whenever one exists.  inv(H') exists and its diagonal is positive (no nan). *)
Theorem C19_poisson_FIM_uncert_within_eps2 :
  forall (n : nat) (inv : list (list R) -> list (list R)),
  (forall M, wf n M -> invertible n M -> wf n (inv M) /\ is_inv n (ent M) (ent (inv M))) ->
  forall (Bs : list (list R)) (theta : list R) (rho : R) (data : @pdata R) (boots : list (@pdata R)) (eps : R),
  length theta = n ->
  0 < pd_adj data -> List.Forall (fun b => 0 < ndot theta b) Bs -> 0 < rho -> share_bound Bs theta rho ->
  0 < eps -> eps <= / (8 * rho) -> eps <= 1 ->
  (forall k, (k < length theta)%nat -> nth k theta 0 <> 0 /\ Rtiny <= nth k theta 0 * eps) ->
  let H' := fst (fst (godambe_HJc (fun bt => pois_ll (lin_mean Bs) bt) theta eps data boots)) in
  let Hc := pois_H_mat n Bs data theta in
  let K := 2 * (mnorm n (ent (inv Hc)) * mnorm n (ent (inv Hc))) * CH_pois n rho Bs data theta in
  invertible n Hc -> mnorm n (ent (inv Hc)) * (CH_pois n rho Bs data theta * (eps * eps)) <= 1 / 2 ->
  invertible n H' /\
  (forall i j, (i < n)%nat -> (j < n)%nat -> Rabs (ent (inv H') i j - ent (inv Hc) i j) <= K * (eps * eps)) /\
  (forall i, (i < n)%nat -> K * (eps * eps) < ent (inv Hc) i i ->
     0 < ent (inv H') i i /\
     Rabs (uncert inv H' i - uncert inv Hc i) <= K / sqrt (ent (inv Hc) i i) * (eps * eps)).
Proof. exact poisson_FIM_uncert_within_eps2. Qed.
Print Assumptions C19_poisson_FIM_uncert_within_eps2.

(** GIM_uncert: G = H inv(J) H ([gim_of]); |G' - Gc| <= KGIM eps^2 and the standard deviations sqrt(diag(inv(G))) *)
Theorem C19_poisson_GIM_uncert_within_eps2 :
  forall (n : nat) (inv : list (list R) -> list (list R)),
  (forall M, wf n M -> invertible n M -> wf n (inv M) /\ is_inv n (ent M) (ent (inv M))) ->
  forall (Bs : list (list R)) (theta : list R) (rho : R) (data : @pdata R) (boots : list (@pdata R)) (eps : R),
  length theta = n ->
  0 < pd_adj data -> List.Forall (fun bt => 0 < pd_adj bt) boots -> List.Forall (fun b => 0 < ndot theta b) Bs ->
  0 < rho -> share_bound Bs theta rho -> boots <> [] ->
  0 < eps -> eps <= / (8 * rho) -> eps <= 1 ->
  (forall k, (k < length theta)%nat -> nth k theta 0 <> 0 /\ Rtiny <= nth k theta 0 * eps) ->
  let HJc := godambe_HJc (fun bt => pois_ll (lin_mean Bs) bt) theta eps data boots in
  let H' := fst (fst HJc) in let J' := snd (fst HJc) in
  let Hc := pois_H_mat n Bs data theta in let Jc := pois_J_mat n Bs theta boots in
  let G' := gim_of inv H' J' in let Gc := gim_of inv Hc Jc in
  let KGIM := KG (mnorm n (ent Hc)) (mnorm n (ent (inv Jc))) (CH_pois n rho Bs data theta) (CJ_pois n rho Bs theta boots) in
  let K := 2 * (mnorm n (ent (inv Gc)) * mnorm n (ent (inv Gc))) * KGIM in
  invertible n Jc -> mnorm n (ent (inv Jc)) * (CJ_pois n rho Bs theta boots * (eps * eps)) <= 1 / 2 ->
  invertible n Gc -> mnorm n (ent (inv Gc)) * (KGIM * (eps * eps)) <= 1 / 2 ->
  invertible n J' /\ invertible n G' /\
  mnorm n (msub (ent G') (ent Gc)) <= KGIM * (eps * eps) /\
  (forall i j, (i < n)%nat -> (j < n)%nat -> Rabs (ent (inv G') i j - ent (inv Gc) i j) <= K * (eps * eps)) /\
  (forall i, (i < n)%nat -> K * (eps * eps) < ent (inv Gc) i i ->
     0 < ent (inv G') i i /\
     Rabs (uncert inv G' i - uncert inv Gc i) <= K / sqrt (ent (inv Gc) i i) * (eps * eps)).
Proof. exact poisson_GIM_uncert_within_eps2. Qed.
Print Assumptions C19_poisson_GIM_uncert_within_eps2.

(** LRT_adjust, Wald_stat, score_stat (every parameter nested, multinom=False) *)
Theorem C19_poisson_LRT_Wald_score_within_eps2 :
  forall (n : nat) (inv : list (list R) -> list (list R)),
  (forall M, wf n M -> invertible n M -> wf n (inv M) /\ is_inv n (ent M) (ent (inv M))) ->
  forall (Bs : list (list R)) (theta : list R) (rho : R) (data : @pdata R) (boots : list (@pdata R)) (eps : R),
  length theta = n ->
  0 < pd_adj data -> List.Forall (fun bt => 0 < pd_adj bt) boots -> List.Forall (fun b => 0 < ndot theta b) Bs ->
  0 < rho -> share_bound Bs theta rho -> boots <> [] ->
  0 < eps -> eps <= / (8 * rho) -> eps <= 1 ->
  (forall k, (k < length theta)%nat -> nth k theta 0 <> 0 /\ Rtiny <= nth k theta 0 * eps) ->
  let HJc := godambe_HJc (fun bt => pois_ll (lin_mean Bs) bt) theta eps data boots in
  let H' := fst (fst HJc) in let J' := snd (fst HJc) in let cU' := snd HJc in
  let Hc := pois_H_mat n Bs data theta in let Jc := pois_J_mat n Bs theta boots in let cUc := pois_cU_vec n Bs theta boots in
  let CH := CH_pois n rho Bs data theta in let CJ := CJ_pois n rho Bs theta boots in let Cc := Cc_pois n rho Bs theta boots in
  (forall k : R,
   invertible n Hc -> mnorm n (ent (inv Hc)) * (CH * (eps * eps)) <= 1 / 2 ->
   trace (mat_mul Jc (inv Hc)) <> 0 ->
   KT (mnorm n (ent (inv Hc))) (mnorm n (ent Jc)) CH CJ * (eps * eps) <= Rabs (trace (mat_mul Jc (inv Hc))) / 2 ->
   invertible n H' /\ trace (mat_mul J' (inv H')) <> 0 /\
   Rabs (k / trace (mat_mul J' (inv H')) - k / trace (mat_mul Jc (inv Hc)))
   <= 2 * Rabs k * KT (mnorm n (ent (inv Hc))) (mnorm n (ent Jc)) CH CJ
      / (trace (mat_mul Jc (inv Hc)) * trace (mat_mul Jc (inv Hc))) * (eps * eps)) /\
  (forall d : list R, length d = n ->
   Rabs (qform H' d - qform Hc d) <= vnorm n (vec d) * vnorm n (vec d) * CH * (eps * eps) /\
   (invertible n Jc -> mnorm n (ent (inv Jc)) * (CJ * (eps * eps)) <= 1 / 2 ->
    Rabs (qform (gim_of inv H' J') d - qform (gim_of inv Hc Jc) d)
    <= vnorm n (vec d) * vnorm n (vec d) * KG (mnorm n (ent Hc)) (mnorm n (ent (inv Jc))) CH CJ * (eps * eps))) /\
  (invertible n Jc -> mnorm n (ent (inv Jc)) * (CJ * (eps * eps)) <= 1 / 2 ->
   invertible n J' /\
   Rabs (qform (inv J') cU' - qform (inv Jc) cUc) <= KG (vnorm n (vec cUc)) (mnorm n (ent (inv Jc))) Cc CJ * (eps * eps)) /\
  (invertible n Hc -> mnorm n (ent (inv Hc)) * (CH * (eps * eps)) <= 1 / 2 ->
   invertible n H' /\
   Rabs (qform (inv H') cU' - qform (inv Hc) cUc) <= KG (vnorm n (vec cUc)) (mnorm n (ent (inv Hc))) Cc CH * (eps * eps)).
Proof. exact poisson_LRT_Wald_score_within_eps2. Qed.
Print Assumptions C19_poisson_LRT_Wald_score_within_eps2.

(** the oracle contract is satisfiable (reciprocal; adjugate / determinant) *)
Theorem C19_inv_contract_satisfiable :
  (forall M, wf 1 M -> invertible 1 M -> wf 1 (inv1 M) /\ is_inv 1 (ent M) (ent (inv1 M))) /\
  (forall M, wf 2 M -> invertible 2 M -> wf 2 (inv2 M) /\ is_inv 2 (ent M) (ent (inv2 M))).
Proof. exact (conj inv1_spec inv2_spec). Qed.

(** the same for the model's own executable statistics (var_of, gim, lrt_adjust, wald_stat, score_stat use mat_inv_v:
    Gauss-Jordan accepted only with the certificate A Ai = Ai A = 1); no oracle *)
Theorem C19_mat_inv_v_certificate :
  forall n (A Ai : list (list R)), length A = n -> mat_inv_v A = Some Ai -> wf n A /\ wf n Ai /\ is_inv n (ent A) (ent Ai).
Proof. exact mat_inv_v_spec. Qed.

Theorem C19_poisson_model_FIM_within_eps2 :
  forall (Bs : list (list R)) (theta : list R) (rho : R) (data : @pdata R) (boots : list (@pdata R)) (eps : R),
  0 < pd_adj data -> List.Forall (fun b => 0 < ndot theta b) Bs -> 0 < rho -> share_bound Bs theta rho ->
  0 < eps -> eps <= / (8 * rho) -> eps <= 1 ->
  (forall k, (k < length theta)%nat -> nth k theta 0 <> 0 /\ Rtiny <= nth k theta 0 * eps) ->
  let n := length theta in
  let H' := fst (fst (godambe_HJc (fun bt => pois_ll (lin_mean Bs) bt) theta eps data boots)) in
  let Hc := pois_H_mat n Bs data theta in
  forall Hi Hi', mat_inv_v Hc = Some Hi -> mat_inv_v H' = Some Hi' ->
  let K := 2 * (mnorm n (ent Hi) * mnorm n (ent Hi)) * CH_pois n rho Bs data theta in
  mnorm n (ent Hi) * (CH_pois n rho Bs data theta * (eps * eps)) <= 1 / 2 ->
  var_of Hc = Some (diag Hi) /\ var_of H' = Some (diag Hi') /\
  forall i, (i < n)%nat -> K * (eps * eps) < nth i (diag Hi) 0 ->
    0 < nth i (diag Hi') 0 /\
    Rabs (sqrt (nth i (diag Hi') 0) - sqrt (nth i (diag Hi) 0)) <= K / sqrt (nth i (diag Hi) 0) * (eps * eps).
Proof. exact poisson_model_FIM_within_eps2. Qed.
Print Assumptions C19_poisson_model_FIM_within_eps2.

Theorem C19_poisson_model_GIM_within_eps2 :
  forall (Bs : list (list R)) (theta : list R) (rho : R) (data : @pdata R) (boots : list (@pdata R)) (eps : R),
  0 < pd_adj data -> List.Forall (fun bt => 0 < pd_adj bt) boots -> List.Forall (fun b => 0 < ndot theta b) Bs ->
  0 < rho -> share_bound Bs theta rho -> boots <> [] ->
  0 < eps -> eps <= / (8 * rho) -> eps <= 1 ->
  (forall k, (k < length theta)%nat -> nth k theta 0 <> 0 /\ Rtiny <= nth k theta 0 * eps) ->
  let n := length theta in
  let HJc := godambe_HJc (fun bt => pois_ll (lin_mean Bs) bt) theta eps data boots in
  let H' := fst (fst HJc) in let J' := snd (fst HJc) in
  let Hc := pois_H_mat n Bs data theta in let Jc := pois_J_mat n Bs theta boots in
  forall Ji Ji' G G' Gi Gi',
  mat_inv_v Jc = Some Ji -> mat_inv_v J' = Some Ji' ->
  gim Hc Jc = Some G -> gim H' J' = Some G' ->
  mat_inv_v G = Some Gi -> mat_inv_v G' = Some Gi' ->
  let KGIM := KG (mnorm n (ent Hc)) (mnorm n (ent Ji)) (CH_pois n rho Bs data theta) (CJ_pois n rho Bs theta boots) in
  let K := 2 * (mnorm n (ent Gi) * mnorm n (ent Gi)) * KGIM in
  mnorm n (ent Ji) * (CJ_pois n rho Bs theta boots * (eps * eps)) <= 1 / 2 ->
  mnorm n (ent Gi) * (KGIM * (eps * eps)) <= 1 / 2 ->
  var_of G = Some (diag Gi) /\ var_of G' = Some (diag Gi') /\
  mnorm n (msub (ent G') (ent G)) <= KGIM * (eps * eps) /\
  forall i, (i < n)%nat -> K * (eps * eps) < nth i (diag Gi) 0 ->
    0 < nth i (diag Gi') 0 /\
    Rabs (sqrt (nth i (diag Gi') 0) - sqrt (nth i (diag Gi) 0)) <= K / sqrt (nth i (diag Gi) 0) * (eps * eps).
Proof. exact poisson_model_GIM_within_eps2. Qed.
Print Assumptions C19_poisson_model_GIM_within_eps2.

Theorem C19_poisson_model_LRT_Wald_score_within_eps2 :
  forall (Bs : list (list R)) (theta : list R) (rho : R) (data : @pdata R) (boots : list (@pdata R)) (eps : R),
  0 < pd_adj data -> List.Forall (fun bt => 0 < pd_adj bt) boots -> List.Forall (fun b => 0 < ndot theta b) Bs ->
  0 < rho -> share_bound Bs theta rho -> boots <> [] ->
  0 < eps -> eps <= / (8 * rho) -> eps <= 1 ->
  (forall k, (k < length theta)%nat -> nth k theta 0 <> 0 /\ Rtiny <= nth k theta 0 * eps) ->
  let n := length theta in
  let HJc := godambe_HJc (fun bt => pois_ll (lin_mean Bs) bt) theta eps data boots in
  let H' := fst (fst HJc) in let J' := snd (fst HJc) in let cU' := snd HJc in
  let Hc := pois_H_mat n Bs data theta in let Jc := pois_J_mat n Bs theta boots in let cUc := pois_cU_vec n Bs theta boots in
  let CH := CH_pois n rho Bs data theta in let CJ := CJ_pois n rho Bs theta boots in let Cc := Cc_pois n rho Bs theta boots in
  forall Hi Hi' Ji Ji',
  mat_inv_v Hc = Some Hi -> mat_inv_v H' = Some Hi' -> mat_inv_v Jc = Some Ji -> mat_inv_v J' = Some Ji' ->
  mnorm n (ent Hi) * (CH * (eps * eps)) <= 1 / 2 -> mnorm n (ent Ji) * (CJ * (eps * eps)) <= 1 / 2 ->
  (let t := trace (mat_mul Jc Hi) in let KLRT := KT (mnorm n (ent Hi)) (mnorm n (ent Jc)) CH CJ in
   t <> 0 -> KLRT * (eps * eps) <= Rabs t / 2 ->
   exists a a', lrt_adjust Hc Jc = Some a /\ lrt_adjust H' J' = Some a' /\
     Rabs (a' - a) <= 2 * Rabs (IZR (Z.of_nat n)) * KLRT / (t * t) * (eps * eps)) /\
  (forall d : list R, length d = n ->
   exists w w', wald_stat Hc Jc d = Some w /\ wald_stat H' J' d = Some w' /\
     Rabs (fst w' - fst w) <= vnorm n (vec d) * vnorm n (vec d) * KG (mnorm n (ent Hc)) (mnorm n (ent Ji)) CH CJ * (eps * eps) /\
     Rabs (snd w' - snd w) <= vnorm n (vec d) * vnorm n (vec d) * CH * (eps * eps)) /\
  (exists s s', score_stat Hc Jc cUc = Some s /\ score_stat H' J' cU' = Some s' /\
     Rabs (fst s' - fst s) <= KG (vnorm n (vec cUc)) (mnorm n (ent Ji)) Cc CJ * (eps * eps) /\
     Rabs (snd s' - snd s) <= KG (vnorm n (vec cUc)) (mnorm n (ent Hi)) Cc CH * (eps * eps)).
Proof. exact poisson_model_LRT_Wald_score_within_eps2. Qed.
Print Assumptions C19_poisson_model_LRT_Wald_score_within_eps2.

(** non-vacuity: 2 x 2 matrices meeting the hypotheses of the perturbation theorem; the final theorems on a one-parameter
    model (theta = 1, B = (1), d = 4, eps = 1/100) with the reciprocal as oracle / with the model's mat_inv_v *)
Example C19_inverse_perturbation_nonvacuous :
  let A := m2 2 1 1 1 in let B := m2 1 (-1) (-1) 2 in
  let A' := m2 (2 + 1 / 100) 1 1 1 in let B' := m2 (100 / 101) (- 100 / 101) (- 100 / 101) (201 / 101) in
  is_inv 2 A B /\ is_inv 2 A' B' /\ mnorm 2 B = 5 /\ mnorm 2 (msub A' A) = 1 / 100 /\
  mnorm 2 B * mnorm 2 (msub A' A) <= 1 / 2 /\
  mnorm 2 (msub B' B) <= 2 * (mnorm 2 B * mnorm 2 B) * (1 / 100).
Proof. exact inv_perturb_nonvacuous. Qed.

Example C19_poisson_FIM_uncert_nonvacuous :
  let Bs := [[1]] in let dt := {| pd_adj := 1; pd_d := [4]; pd_g := [0] |} in
  let H' := fst (fst (godambe_HJc (fun bt => pois_ll (lin_mean Bs) bt) [1] (1 / 100) dt [])) in
  0 < ent (inv1 H') 0%nat 0%nat /\ Rabs (uncert inv1 H' 0%nat - 1 / 2) <= 4 / 1000.
Proof. exact poisson_FIM_uncert_nonvacuous. Qed.

Example C19_poisson_model_FIM_nonvacuous :
  let Bs := [[1]] in let dt := {| pd_adj := 1; pd_d := [4]; pd_g := [0] |} in
  let H' := fst (fst (godambe_HJc (fun bt => pois_ll (lin_mean Bs) bt) [1] (1 / 100) dt [])) in
  exists v v', var_of (pois_H_mat 1 Bs dt [1]) = Some v /\ var_of H' = Some v' /\ nth 0 v 0 = 1 / 4 /\
    0 < nth 0 v' 0 /\ Rabs (sqrt (nth 0 v' 0) - 1 / 2) <= 4 / 1000.
Proof. exact poisson_model_FIM_nonvacuous. Qed.

(** ---- properly nested LRT_adjust / Wald_stat / score_stat ----
    diff_func(q) = func_ex(p0 with p0[nested_indices] = q): the Poisson log-likelihood of the AFFINE mean
    m_i(q) = c_i + sum_k q_k B_i[idx_k]  =  lin_mean Bs (embed full idx q),  embed full idx q = scatter full idx q ++ [1]
    (full = p0, idx = nested_indices: NoDup, in range, any order; the last coefficient of each B_i multiplies the constant 1).
    Hypotheses are on the full point P = embed full idx q: means positive, share bound |P_k B_i[k]| <= rho (ndot P B_i)
    (constant term included; rho = 1 when all terms are non-negative, C19_share_bound_nonneg).
    Closed forms = the idx-sub-blocks of the full closed forms at P. *)
Theorem C19_nested_function_is_full_model :
  forall (Bs : list (list R)) (dt : @pdata R) full idx q,
  pois_ll (model_mean Bs false (Some (full, idx))) dt q = pois_ll (lin_mean Bs) dt (embed full idx q).
Proof. exact pois_ll_nested. Qed.

(** the finite-difference stencils of the nested function at (q; ii, jj) are those of the full model at (P; idx ii, idx jj) *)
Theorem C19_embed_moves_with_nested_parameter :
  forall (full : list R) (idx : list nat), NoDup idx -> (forall i, In i idx -> (i < length full)%nat) ->
  forall q ii v, length q = length idx -> (ii < length idx)%nat ->
  nth (nth ii idx 0%nat) (embed full idx q) 0 = nth ii q 0 /\
  embed full idx (upd q ii v) = upd (embed full idx q) (nth ii idx 0%nat) v.
Proof. exact (fun full idx ND Hr q ii v Hl Hi => conj (nth_embed full idx ND Hr q ii Hl Hi) (embed_upd full idx ND Hr q ii v Hl Hi)). Qed.

Theorem C19_nested_hessian_within_eps2 :
  forall (Bs : list (list R)) (dt : @pdata R) (full : list R) (idx : list nat) (q : list R) (rho : R) (eps : R) (r c : nat),
  NoDup idx -> (forall i, In i idx -> (i < length full)%nat) -> length q = length idx ->
  0 < pd_adj dt -> List.Forall (fun b => 0 < ndot (embed full idx q) b) Bs -> 0 < rho -> share_bound Bs (embed full idx q) rho ->
  0 < eps -> eps <= / (8 * rho) -> (r < length idx)%nat -> (c < length idx)%nat ->
  nth r q 0 <> 0 -> Rtiny <= nth r q 0 * eps -> nth c q 0 <> 0 -> Rtiny <= nth c q 0 * eps ->
  Rabs (nth c (nth r (get_hess (pois_ll (model_mean Bs false (Some (full, idx))) dt) q eps) []) 0
        - pois_hess Bs dt (embed full idx q) (nth r idx 0%nat) (nth c idx 0%nat))
  <= 40 * (rho * rho) * pois_abs_hess Bs dt (embed full idx q) (nth r idx 0%nat) (nth c idx 0%nat) * (eps * eps).
Proof. exact nested_hessian_within_eps2. Qed.
Print Assumptions C19_nested_hessian_within_eps2.

Theorem C19_nested_gradient_within_eps2 :
  forall (Bs : list (list R)) (dt : @pdata R) (full : list R) (idx : list nat) (q : list R) (rho : R) (eps : R) (k : nat),
  NoDup idx -> (forall i, In i idx -> (i < length full)%nat) -> length q = length idx ->
  0 < pd_adj dt -> List.Forall (fun b => 0 < ndot (embed full idx q) b) Bs -> 0 < rho -> share_bound Bs (embed full idx q) rho ->
  0 < eps -> eps <= / (8 * rho) -> (k < length idx)%nat -> nth k q 0 <> 0 -> Rtiny <= nth k q 0 * eps ->
  Rabs (nth k (get_grad (pois_ll (model_mean Bs false (Some (full, idx))) dt) q eps) 0
        - pois_grad Bs dt (embed full idx q) (nth k idx 0%nat))
  <= 4 / 3 * (rho * rho) * pois_abs_grad Bs dt (embed full idx q) (nth k idx 0%nat) * (eps * eps).
Proof. exact nested_gradient_within_eps2. Qed.

(** the plain affine model: every parameter differentiated, constant column kept (model_mean Bs false None q = lin_mean Bs (q ++ [1])) *)
Theorem C19_affine_hessian_within_eps2 :
  forall (Bs : list (list R)) (dt : @pdata R) (q : list R) (rho : R) (eps : R) (r c : nat),
  0 < pd_adj dt -> List.Forall (fun b => 0 < ndot (q ++ [1]) b) Bs -> 0 < rho -> share_bound Bs (q ++ [1]) rho ->
  0 < eps -> eps <= / (8 * rho) -> (r < length q)%nat -> (c < length q)%nat ->
  nth r q 0 <> 0 -> Rtiny <= nth r q 0 * eps -> nth c q 0 <> 0 -> Rtiny <= nth c q 0 * eps ->
  Rabs (nth c (nth r (get_hess (pois_ll (model_mean Bs false None) dt) q eps) []) 0 - pois_hess Bs dt (q ++ [1]) r c)
  <= 40 * (rho * rho) * pois_abs_hess Bs dt (q ++ [1]) r c * (eps * eps).
Proof. exact affine_hessian_within_eps2. Qed.

Theorem C19_affine_gradient_within_eps2 :
  forall (Bs : list (list R)) (dt : @pdata R) (q : list R) (rho : R) (eps : R) (k : nat),
  0 < pd_adj dt -> List.Forall (fun b => 0 < ndot (q ++ [1]) b) Bs -> 0 < rho -> share_bound Bs (q ++ [1]) rho ->
  0 < eps -> eps <= / (8 * rho) -> (k < length q)%nat -> nth k q 0 <> 0 -> Rtiny <= nth k q 0 * eps ->
  Rabs (nth k (get_grad (pois_ll (model_mean Bs false None) dt) q eps) 0 - pois_grad Bs dt (q ++ [1]) k)
  <= 4 / 3 * (rho * rho) * pois_abs_grad Bs dt (q ++ [1]) k * (eps * eps).
Proof. exact affine_gradient_within_eps2. Qed.

(** get_godambe on diff_func: H = - get_hess, J, cU entrywise within (explicit constant) * eps^2 of the idx-sub-blocks *)
Theorem C19_nested_godambe_HJc_within_eps2 :
  forall (Bs : list (list R)) (full : list R) (idx : list nat) (q : list R) (rho : R) (data : @pdata R) (boots : list (@pdata R)) (eps : R),
  NoDup idx -> (forall i, In i idx -> (i < length full)%nat) -> length q = length idx ->
  0 < pd_adj data -> List.Forall (fun bt => 0 < pd_adj bt) boots ->
  List.Forall (fun b => 0 < ndot (embed full idx q) b) Bs -> 0 < rho -> share_bound Bs (embed full idx q) rho -> boots <> [] ->
  0 < eps -> eps <= / (8 * rho) -> eps <= 1 ->
  (forall k, (k < length q)%nat -> nth k q 0 <> 0 /\ Rtiny <= nth k q 0 * eps) ->
  let P := embed full idx q in
  let HJc := godambe_HJc (fun bt => pois_ll (model_mean Bs false (Some (full, idx))) bt) q eps data boots in
  forall i j, (i < length idx)%nat -> (j < length idx)%nat ->
    Rabs (nth j (nth i (fst (fst HJc)) []) 0 - - pois_hess Bs data P (nth i idx 0%nat) (nth j idx 0%nat))
      <= 40 * (rho * rho) * pois_abs_hess Bs data P (nth i idx 0%nat) (nth j idx 0%nat) * (eps * eps) /\
    Rabs (nth j (nth i (snd (fst HJc)) []) 0 - J_entry (nest_grads Bs P idx boots) i j)
      <= nsum (map (J_const rho Bs P (nth i idx 0%nat) (nth j idx 0%nat)) boots) / IZR (Z.of_nat (length boots)) * (eps * eps) /\
    Rabs (nth i (snd HJc) 0 - cU_entry (nest_grads Bs P idx boots) i)
      <= nsum (map (grad_const rho Bs P (nth i idx 0%nat)) boots) / IZR (Z.of_nat (length boots)) * (eps * eps).
Proof. exact nested_godambe_HJc_within_eps2. Qed.
Print Assumptions C19_nested_godambe_HJc_within_eps2.

(** the closed-form nested Hessian is the [sub_mat idx] block of the full closed-form Hessian *)
Theorem C19_nested_closed_form_is_sub_block :
  forall (Bs : list (list R)) (data : @pdata R) (P : list R) (idx : list nat) (N : nat),
  (forall i, In i idx -> (i < N)%nat) -> nest_H_mat Bs data P idx = sub_mat idx (pois_H_mat N Bs data P).
Proof. exact nest_H_mat_sub_block. Qed.

(** LRT_adjust, Wald_stat, score_stat for ANY subset of nested parameters (n = len(nested_indices)), numpy.linalg.inv as oracle *)
Theorem C19_poisson_nested_LRT_Wald_score_within_eps2 :
  forall (n : nat) (inv : list (list R) -> list (list R)),
  (forall M, wf n M -> invertible n M -> wf n (inv M) /\ is_inv n (ent M) (ent (inv M))) ->
  forall (Bs : list (list R)) (full : list R) (idx : list nat) (q : list R) (rho : R) (data : @pdata R) (boots : list (@pdata R)) (eps : R),
  length idx = n ->
  NoDup idx -> (forall i, In i idx -> (i < length full)%nat) -> length q = length idx ->
  0 < pd_adj data -> List.Forall (fun bt => 0 < pd_adj bt) boots ->
  List.Forall (fun b => 0 < ndot (embed full idx q) b) Bs -> 0 < rho -> share_bound Bs (embed full idx q) rho -> boots <> [] ->
  0 < eps -> eps <= / (8 * rho) -> eps <= 1 ->
  (forall k, (k < length q)%nat -> nth k q 0 <> 0 /\ Rtiny <= nth k q 0 * eps) ->
  let P := embed full idx q in
  let HJc := godambe_HJc (fun bt => pois_ll (model_mean Bs false (Some (full, idx))) bt) q eps data boots in
  let H' := fst (fst HJc) in let J' := snd (fst HJc) in let cU' := snd HJc in
  let Hc := nest_H_mat Bs data P idx in let Jc := nest_J_mat Bs P idx boots in let cUc := nest_cU_vec Bs P idx boots in
  let CH := CH_nest rho Bs data P idx in let CJ := CJ_nest rho Bs P idx boots in let Cc := Cc_nest rho Bs P idx boots in
  (forall k : R,
   invertible n Hc -> mnorm n (ent (inv Hc)) * (CH * (eps * eps)) <= 1 / 2 ->
   trace (mat_mul Jc (inv Hc)) <> 0 ->
   KT (mnorm n (ent (inv Hc))) (mnorm n (ent Jc)) CH CJ * (eps * eps) <= Rabs (trace (mat_mul Jc (inv Hc))) / 2 ->
   invertible n H' /\ trace (mat_mul J' (inv H')) <> 0 /\
   Rabs (k / trace (mat_mul J' (inv H')) - k / trace (mat_mul Jc (inv Hc)))
   <= 2 * Rabs k * KT (mnorm n (ent (inv Hc))) (mnorm n (ent Jc)) CH CJ
      / (trace (mat_mul Jc (inv Hc)) * trace (mat_mul Jc (inv Hc))) * (eps * eps)) /\
  (forall d : list R, length d = n ->
   Rabs (qform H' d - qform Hc d) <= vnorm n (vec d) * vnorm n (vec d) * CH * (eps * eps) /\
   (invertible n Jc -> mnorm n (ent (inv Jc)) * (CJ * (eps * eps)) <= 1 / 2 ->
    Rabs (qform (gim_of inv H' J') d - qform (gim_of inv Hc Jc) d)
    <= vnorm n (vec d) * vnorm n (vec d) * KG (mnorm n (ent Hc)) (mnorm n (ent (inv Jc))) CH CJ * (eps * eps))) /\
  (invertible n Jc -> mnorm n (ent (inv Jc)) * (CJ * (eps * eps)) <= 1 / 2 ->
   invertible n J' /\
   Rabs (qform (inv J') cU' - qform (inv Jc) cUc) <= KG (vnorm n (vec cUc)) (mnorm n (ent (inv Jc))) Cc CJ * (eps * eps)) /\
  (invertible n Hc -> mnorm n (ent (inv Hc)) * (CH * (eps * eps)) <= 1 / 2 ->
   invertible n H' /\
   Rabs (qform (inv H') cU' - qform (inv Hc) cUc) <= KG (vnorm n (vec cUc)) (mnorm n (ent (inv Hc))) Cc CH * (eps * eps)).
Proof. exact poisson_nested_LRT_Wald_score_within_eps2. Qed.
Print Assumptions C19_poisson_nested_LRT_Wald_score_within_eps2.

(** the same for the model's own lrt_adjust / wald_stat / score_stat (mat_inv_v with its certificate); no oracle *)
Theorem C19_poisson_nested_model_LRT_Wald_score_within_eps2 :
  forall (Bs : list (list R)) (full : list R) (idx : list nat) (q : list R) (rho : R) (data : @pdata R) (boots : list (@pdata R)) (eps : R),
  NoDup idx -> (forall i, In i idx -> (i < length full)%nat) -> length q = length idx ->
  0 < pd_adj data -> List.Forall (fun bt => 0 < pd_adj bt) boots ->
  List.Forall (fun b => 0 < ndot (embed full idx q) b) Bs -> 0 < rho -> share_bound Bs (embed full idx q) rho -> boots <> [] ->
  0 < eps -> eps <= / (8 * rho) -> eps <= 1 ->
  (forall k, (k < length q)%nat -> nth k q 0 <> 0 /\ Rtiny <= nth k q 0 * eps) ->
  let n := length idx in
  let P := embed full idx q in
  let HJc := godambe_HJc (fun bt => pois_ll (model_mean Bs false (Some (full, idx))) bt) q eps data boots in
  let H' := fst (fst HJc) in let J' := snd (fst HJc) in let cU' := snd HJc in
  let Hc := nest_H_mat Bs data P idx in let Jc := nest_J_mat Bs P idx boots in let cUc := nest_cU_vec Bs P idx boots in
  let CH := CH_nest rho Bs data P idx in let CJ := CJ_nest rho Bs P idx boots in let Cc := Cc_nest rho Bs P idx boots in
  forall Hi Hi' Ji Ji',
  mat_inv_v Hc = Some Hi -> mat_inv_v H' = Some Hi' -> mat_inv_v Jc = Some Ji -> mat_inv_v J' = Some Ji' ->
  mnorm n (ent Hi) * (CH * (eps * eps)) <= 1 / 2 -> mnorm n (ent Ji) * (CJ * (eps * eps)) <= 1 / 2 ->
  (let t := trace (mat_mul Jc Hi) in let KLRT := KT (mnorm n (ent Hi)) (mnorm n (ent Jc)) CH CJ in
   t <> 0 -> KLRT * (eps * eps) <= Rabs t / 2 ->
   exists a a', lrt_adjust Hc Jc = Some a /\ lrt_adjust H' J' = Some a' /\
     Rabs (a' - a) <= 2 * Rabs (IZR (Z.of_nat n)) * KLRT / (t * t) * (eps * eps)) /\
  (forall d : list R, length d = n ->
   exists w w', wald_stat Hc Jc d = Some w /\ wald_stat H' J' d = Some w' /\
     Rabs (fst w' - fst w) <= vnorm n (vec d) * vnorm n (vec d) * KG (mnorm n (ent Hc)) (mnorm n (ent Ji)) CH CJ * (eps * eps) /\
     Rabs (snd w' - snd w) <= vnorm n (vec d) * vnorm n (vec d) * CH * (eps * eps)) /\
  (exists s s', score_stat Hc Jc cUc = Some s /\ score_stat H' J' cU' = Some s' /\
     Rabs (fst s' - fst s) <= KG (vnorm n (vec cUc)) (mnorm n (ent Ji)) Cc CJ * (eps * eps) /\
     Rabs (snd s' - snd s) <= KG (vnorm n (vec cUc)) (mnorm n (ent Hi)) Cc CH * (eps * eps)).
Proof. exact poisson_nested_model_LRT_Wald_score_within_eps2. Qed.
Print Assumptions C19_poisson_nested_model_LRT_Wald_score_within_eps2.

(** non-vacuity: p0 = (1, 2), second parameter nested, one spectrum entry m(q) = 1 + q + 1, d = 8, one bootstrap = data,
    eps = 1/100, oracle = reciprocal: closed forms H = (1/2), J = (1); the LRT adjustment 1/trace(J' inv H') is within 11/1000 of 1/2 *)
Example C19_poisson_nested_LRT_nonvacuous :
  let Bs := [[1; 1; 1]] in let dt := {| pd_adj := 1; pd_d := [8]; pd_g := [0] |} in
  let HJc := godambe_HJc (fun bt => pois_ll (model_mean Bs false (Some ([1; 2], [1%nat]))) bt) [2] (1 / 100) dt [dt] in
  trace (mat_mul (snd (fst HJc)) (inv1 (fst (fst HJc)))) <> 0 /\
  Rabs (1 / trace (mat_mul (snd (fst HJc)) (inv1 (fst (fst HJc)))) - 1 / 2) <= 11 / 1000.
Proof. exact poisson_nested_LRT_nonvacuous. Qed.
