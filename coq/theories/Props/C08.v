(** C08 — projection is hypergeometric subsampling: conserving, composable, mask-monotone.
    Only statements; every proof is [exact <lemma>].

    H n m j i   = C(m,i) C(n-m,j-i) / C(n,j): weight with which source entry j (of n) enters target entry i (of m)
                  (the model's [hweight] on the R instance; [cached_projection m n j] is the vector i = 0..m).
    proj_axis   = Spectrum._project_one_axis on a d-dimensional nested array, for the data (R, +) with
                  coefficients [pcoef n m] and for the mask (bool, ||) with coefficients [pmask n m].
    wf d sh x   = x is a rectangular d-dimensional array of shape sh.   All theorems: any d, any axis, any sizes. *)
From Coq Require Import ZArith Reals List Lra Lia Bool Arith.
From Dadi Require Import Base.Num Base.NumR Model.Projection Proofs.ProjBase Proofs.ProjH Proofs.ProjTensor Proofs.ProjSpectrum
  Proofs.ProjFoldConsistent Proofs.ProjFoldMask.
From Dadi Require Model.ProjectionCheck Proofs.ProjMaskOnly.
Import ListNotations.
Local Open Scope R_scope.

(** weights: conserving *)
Theorem C08_H_sums_to_one : forall n m j, (m <= n)%nat -> (j <= n)%nat ->
  rsum (fun i => H n m j i) (m + 1) = 1.
Proof. exact H_sums_to_one. Qed.
Print Assumptions C08_H_sums_to_one.

(** weights: two stages n -> l -> m equal one stage *)
Theorem C08_H_compose : forall n l m j i, (m <= l)%nat -> (l <= n)%nat -> (j <= n)%nat -> (i <= m)%nat ->
  rsum (fun k => H l m k i * H n l j k) (l + 1) = H n m j i.
Proof. exact H_compose. Qed.
Print Assumptions C08_H_compose.

(** weights: non-zero exactly on the window [least, most] used by _project_one_axis *)
Theorem C08_H_support : forall n m j i, (m <= n)%nat -> (j <= n)%nat ->
  0 < H n m j i <-> in_window n m j i = true.
Proof. exact H_pos_iff. Qed.
Print Assumptions C08_H_support.

(** weights: mirror symmetry *)
Theorem C08_H_reversal : forall n m j i, (m <= n)%nat -> (j <= n)%nat -> (i <= m)%nat ->
  H n m (n - j) (m - i) = H n m j i.
Proof. exact H_reversal. Qed.
Print Assumptions C08_H_reversal.

(** the vector returned by _cached_projection is these weights; projecting upward gives the zero vector *)
Theorem C08_cached_projection_is_H : forall m n j i, (m <= n)%nat -> (i <= m)%nat ->
  nth i (cached_projection (F:=R) m n j) 0 = H n m j i.
Proof. exact cached_projection_nth. Qed.
Theorem C08_cached_projection_upward_zero : forall m n j, (n < m)%nat ->
  cached_projection (F:=R) m n j = repeat 0 (m + 1).
Proof. exact cached_projection_upward. Qed.

(** every entry of the projected array is the hypergeometric expectation along the projected axis *)
Theorem C08_entry_is_hypergeometric_expectation : forall d ax n m sh (x : tens R d) idx,
  wf d sh x -> (ax < d)%nat -> length idx = d -> nth ax sh 0%nat = S n -> (m <= n)%nat -> (nth ax idx 0 <= m)%nat ->
  tget 0 d idx (proj_axis 0 Rplus d ax (pcoef n m) m x)
  = rsum (fun j => H n m j (nth ax idx 0%nat) * tget 0 d (upd ax j idx) x) (S n).
Proof. exact project_entry_hypergeometric. Qed.
Print Assumptions C08_entry_is_hypergeometric_expectation.

(** total conserved: one axis, and the whole of Spectrum.project (unfolded) for any number of axes *)
Theorem C08_project_axis_conserves_total : forall d ax n m sh (x : tens R d),
  wf d sh x -> nth ax sh 0%nat = S n -> (m <= n)%nat ->
  ttotal 0 Rplus d (proj_axis 0 Rplus d ax (pcoef n m) m x) = ttotal 0 Rplus d x.
Proof. exact project_axis_conserves_total. Qed.
Theorem C08_project_conserves_total : forall d ns sh (x : tens R d) mk x' mk',
  wf d sh x -> Forall (fun L => 1 <= L)%nat sh ->
  project d ns false x mk = Some (x', mk') -> ttotal 0 Rplus d x' = ttotal 0 Rplus d x.
Proof. exact project_conserves_total. Qed.
Print Assumptions C08_project_conserves_total.

(** axes can be projected in any order: data and mask *)
Theorem C08_axes_commute_data : forall d a b n m n' m' sh (x : tens R d),
  a <> b -> wf d sh x -> Forall (fun L => 1 <= L)%nat sh ->
  proj_axis 0 Rplus d a (pcoef n m) m (proj_axis 0 Rplus d b (pcoef n' m') m' x)
  = proj_axis 0 Rplus d b (pcoef n' m') m' (proj_axis 0 Rplus d a (pcoef n m) m x).
Proof. exact axes_commute_data. Qed.
Theorem C08_axes_commute_mask : forall d a b n m n' m' sh (x : tens bool d),
  a <> b -> wf d sh x -> Forall (fun L => 1 <= L)%nat sh ->
  proj_axis false orb d a (pmask n m) m (proj_axis false orb d b (pmask n' m') m' x)
  = proj_axis false orb d b (pmask n' m') m' (proj_axis false orb d a (pmask n m) m x).
Proof. exact axes_commute_mask. Qed.
Print Assumptions C08_axes_commute_data.

(** two stages equal one stage: data and mask *)
Theorem C08_two_stage_equals_one_stage_data : forall d ax n l m sh (x : tens R d),
  wf d sh x -> nth ax sh 0%nat = S n -> (m <= l)%nat -> (l <= n)%nat ->
  proj_axis 0 Rplus d ax (pcoef l m) m (proj_axis 0 Rplus d ax (pcoef n l) l x) = proj_axis 0 Rplus d ax (pcoef n m) m x.
Proof. exact two_stage_data. Qed.
Theorem C08_two_stage_equals_one_stage_mask : forall d ax n l m sh (x : tens bool d),
  wf d sh x -> nth ax sh 0%nat = S n -> (m <= l)%nat -> (l <= n)%nat ->
  proj_axis false orb d ax (pmask l m) m (proj_axis false orb d ax (pmask n l) l x) = proj_axis false orb d ax (pmask n m) m x.
Proof. exact two_stage_mask. Qed.
Print Assumptions C08_two_stage_equals_one_stage_data.

(** the neutral spectrum: if the interior source entries are 1/j, the interior projected entries are 1/i
    (the two corner entries of source and target are unconstrained — they are the masked corners) *)
Theorem C08_neutral_fixed_point : forall n m (xs : list R),
  length xs = S n -> (m <= n)%nat -> (forall j, (1 <= j <= n - 1)%nat -> nth j xs 0 = / INR j) ->
  forall i, (1 <= i <= m - 1)%nat -> nth i (proj_axis 0 Rplus 1 0 (pcoef n m) m xs) 0 = / INR i.
Proof. exact neutral_fixed_point. Qed.
Print Assumptions C08_neutral_fixed_point.

(** a masked source entry masks exactly the entries it can contribute to *)
Theorem C08_mask_spreads_exactly : forall d ax n m sh (mk : tens bool d) idx,
  wf d sh mk -> (ax < d)%nat -> length idx = d -> nth ax sh 0%nat = S n -> (m <= n)%nat -> (nth ax idx 0 <= m)%nat ->
  tget false d idx (proj_axis false orb d ax (pmask n m) m mk) = true
  <-> exists j, (j <= n)%nat /\ tget false d (upd ax j idx) mk = true /\ 0 < H n m j (nth ax idx 0%nat).
Proof. exact mask_spreads_exactly. Qed.
Print Assumptions C08_mask_spreads_exactly.

(** the mask-only evaluation the correspondence check runs for sample sizes in the hundreds (window test only, no
    binomials) IS the mask of the model [project], defined exactly when the model is: any dimension, folded or not *)
Theorem C08_mask_only_evaluation_is_model_mask : forall d ns folded sh (x : tens R d) (mk : tens bool d) x' mk',
  wf d sh x -> wf d sh mk -> Forall (fun L => 1 <= L)%nat sh ->
  project d ns folded x mk = Some (x', mk') -> ProjectionCheck.project_mask d ns folded mk = Some mk'.
Proof. exact ProjMaskOnly.project_mask_is_project. Qed.
Theorem C08_mask_only_evaluation_refuses_with_model : forall d ns folded sh (x : tens R d) (mk : tens bool d),
  wf d sh x -> wf d sh mk -> Forall (fun L => 1 <= L)%nat sh ->
  project d ns folded x mk = None -> ProjectionCheck.project_mask d ns folded mk = None.
Proof. exact ProjMaskOnly.project_mask_refuses_with_project. Qed.
Print Assumptions C08_mask_only_evaluation_is_model_mask.

(** folded spectra: project works on unfold(fs) and folds the result; the ingredient that makes this
    consistent (fold(project fs) = project(fold fs)) is that projection commutes with reversing all axes.
    (ingredient of the full statement C08_folded_projection_consistent below) *)
Theorem C08_folded_projection_consistent_partial : forall d ax n m sh (x : tens R d),
  wf d sh x -> (ax < d)%nat -> nth ax sh 0%nat = S n -> (m <= n)%nat ->
  proj_axis 0 Rplus d ax (pcoef n m) m (trev d x) = trev d (proj_axis 0 Rplus d ax (pcoef n m) m x).
Proof. exact projection_commutes_with_reversal_data. Qed.
Theorem C08_folded_projection_consistent_mask_partial : forall d ax n m sh (x : tens bool d),
  wf d sh x -> (ax < d)%nat -> nth ax sh 0%nat = S n -> (m <= n)%nat ->
  proj_axis false orb d ax (pmask n m) m (trev d x) = trev d (proj_axis false orb d ax (pmask n m) m x).
Proof. exact projection_commutes_with_reversal_mask. Qed.
Print Assumptions C08_folded_projection_consistent_partial.

(** folded spectra: Spectrum.project on a folded spectrum unfolds, projects and folds back.  Projecting the folded
    spectrum fold(x) this way is defined exactly when projecting x is, and gives the fold of the projection of x:
        fold (project ns (unfold (fold x))) = fold (project ns x)      -- data and mask, any dimension, shape, targets.
    Ingredients: unfold(fold x) is the symmetrisation (x + mirror x)/2 [mask: x || mirror x || corners], projection is
    linear and commutes with the mirror, fold forgets the symmetrisation. *)
Theorem C08_folded_projection_consistent : forall d ns sh (x : tens R d) mk mk',
  wf d sh x -> Forall (fun L => 1 <= L)%nat sh ->
  option_map fst (project d ns true (fold_data d x) mk')
  = option_map (fun p => fold_data d (fst p)) (project d ns false x mk).
Proof. exact folded_projection_consistent. Qed.
Print Assumptions C08_folded_projection_consistent.

Theorem C08_folded_projection_consistent_mask : forall d ns sh (x x' : tens R d) (mk : tens bool d),
  wf d sh x -> wf d sh x' -> wf d sh mk -> Forall (fun L => 1 <= L)%nat sh ->
  option_map snd (project d ns true x (fold_mask d mk))
  = option_map (fun p => fold_mask d (snd p)) (project d ns false x' mk).
Proof. exact folded_projection_consistent_mask. Qed.
Print Assumptions C08_folded_projection_consistent_mask.

Theorem C08_unfold_of_fold_is_symmetrisation : forall d sh (x : tens R d),
  wf d sh x -> Forall (fun L => 1 <= L)%nat sh -> unfold_data d (fold_data d x) = unfold_data d x.
Proof. exact unfold_fold_data. Qed.
Theorem C08_fold_forgets_symmetrisation : forall d sh (y : tens R d),
  wf d sh y -> Forall (fun L => 1 <= L)%nat sh -> fold_data d (unfold_data d y) = fold_data d y.
Proof. exact fold_unfold_data. Qed.
Theorem C08_projection_commutes_with_symmetrisation : forall d ax n m sh (x : tens R d),
  wf d sh x -> Forall (fun L => 1 <= L)%nat sh -> (ax < d)%nat -> nth ax sh 0%nat = S n -> (m <= n)%nat ->
  proj_axis 0 Rplus d ax (pcoef n m) m (unfold_data d x) = unfold_data d (proj_axis 0 Rplus d ax (pcoef n m) m x).
Proof. exact proj_axis_unfold_data. Qed.

(** non-vacuity: the folded 1-D spectrum of (1,2,3,4) projected from 3 to 2 samples *)
Example C08_folded_nonvacuous :
  let x : tens R 1 := [1; 2; 3; 4] in let mk : tens bool 1 := [false; false; false; false] in
  wf 1 [4]%nat x /\ exists y my, project 1 [2]%nat true (fold_data 1 x) mk = Some (y, my) /\
  exists x1 m1, project 1 [2]%nat false x mk = Some (x1, m1) /\ y = fold_data 1 x1.
Proof. cbv zeta. set (x := ([1; 2; 3; 4] : tens R 1)). set (mk := ([false; false; false; false] : tens bool 1)).
  assert (Hw : wf 1 [4]%nat x) by (cbn; repeat split; repeat constructor).
  assert (Hp : Forall (fun L => 1 <= L)%nat [4]%nat) by (repeat constructor).
  split; [exact Hw|].
  destruct (project 1 [2]%nat false x mk) as [[x1 m1]|] eqn:E; [|cbn in E; discriminate E].
  destruct (folded_projection_consistent_eq 1 [2]%nat [4]%nat x mk mk x1 m1 Hw Hp E) as (y & my & E' & Ey).
  exists y, my. split; [exact E'|]. exists x1, m1. split; [reflexivity|exact Ey]. Qed.

(** projecting upward is refused *)
Theorem C08_upward_refused : forall d ns folded (x : tens R d) mk,
  Exists (fun p => (snd p < fst p)%nat) (combine ns (sample_sizes d x)) -> project d ns folded x mk = None.
Proof. exact project_upward_refused. Qed.
Theorem C08_upward_refused_one_axis : forall d m ax (x : tens R d) mk,
  (nth ax (sample_sizes d x) 0 < m)%nat -> project_one_axis d m ax x mk = None.
Proof. exact project_one_axis_upward. Qed.
Print Assumptions C08_upward_refused.

(** non-vacuity: a concrete 2-D array (shape 3 x 4) projected to sample sizes (1, 2): the hypotheses of the
    theorems above are satisfiable and the projection is defined *)
Example C08_nonvacuous :
  let x : tens R 2 := [[1; 2; 3; 4]; [5; 6; 7; 8]; [9; 10; 11; 12]] in
  let mk : tens bool 2 := [[true; false; false; false]; [false; false; true; false]; [false; false; false; true]] in
  wf 2 [3; 4]%nat x /\ Forall (fun L => 1 <= L)%nat [3; 4]%nat /\
  exists x' mk', project 2 [1; 2]%nat false x mk = Some (x', mk') /\ ttotal 0 Rplus 2 x' = 78.
Proof. cbv zeta. split; [|split].
  - cbn. repeat split; repeat constructor.
  - repeat constructor.
  - set (x := ([[1; 2; 3; 4]; [5; 6; 7; 8]; [9; 10; 11; 12]] : tens R 2)).
    set (mk := ([[true; false; false; false]; [false; false; true; false]; [false; false; false; true]] : tens bool 2)).
    assert (Hw : wf 2 [3; 4]%nat x) by (cbn; repeat split; repeat constructor).
    assert (Hp : Forall (fun L => 1 <= L)%nat [3; 4]%nat) by (repeat constructor).
    destruct (project 2 [1; 2]%nat false x mk) as [[x' mk']|] eqn:E.
    + exists x', mk'. split; [reflexivity|].
      rewrite (project_conserves_total 2 [1; 2]%nat [3; 4]%nat x mk x' mk' Hw Hp E). cbn. lra.
    + exfalso. cbn in E. discriminate E. Qed.
