(** C14 — spectra survive file and pickle round trips with data, mask, folding and labels.
    Only statements; every proof is [exact <lemma>].

    Model: Model/FileFormat.v (to_file / from_file / array_to_file / array_from_file / pickler / unpickler as
    the code writes them, on strings).  The number <-> text conversion is an oracle:
      [fmt p x]  what '%.<p>g' prints,  [parse t]  what numpy reads,  with
      [parse (fmt p x) = round p x]  and  [tok_ok (fmt p x)]  (non-empty, no white space).
    Non-finite values are ordinary elements of [num] (tokens 'inf', '-inf', 'nan').
    [wf_spectrum]: >= 1 axis, every axis >= 1 (singleton axes allowed), data and mask of the size of the shape,
    labels absent or one per axis, labels free of the double quote and of line terminators (blanks allowed).
    [comment_ok c]: no line terminator inside [strip c].  Comments come back as [strip c] (the writer strips
    them): unchanged exactly when they have no leading/trailing white space; a leading '#' survives.
    gzip is "transport = identity on the text" (runtime half: harness/props/c14.py). *)
From Coq Require Import String Ascii List Bool Arith ZArith.
From Dadi Require Import Model.FileFormat Proofs.FileFormatBase Proofs.FileFormatProofs.
Import ListNotations.
Local Open Scope list_scope.
Local Open Scope string_scope.

Theorem C14_roundtrip :
  forall (num : Type) (fmt : nat -> num -> string) (parse : string -> num) (round : nat -> num -> num),
    (forall p x, parse (fmt p x) = round p x) -> (forall p x, tok_ok (fmt p x) = true) ->
  forall p comments mask_corners (s : spectrum num),
    wf_spectrum s = true -> Forall (fun c => comment_ok c = true) comments ->
    from_file parse mask_corners (to_file fmt p comments true s)
    = Some (map strip comments, after_file round p mask_corners s).
Proof. exact (@roundtrip). Qed.
Print Assumptions C14_roundtrip.

Theorem C14_comments_unchanged_when_stripped :
  forall comments, Forall (fun c => strip c = c) comments -> map strip comments = comments.
Proof. exact comments_exact. Qed.

Theorem C14_roundtrip_old_format :
  forall (num : Type) (fmt : nat -> num -> string) (parse : string -> num) (round : nat -> num -> num),
    (forall p x, parse (fmt p x) = round p x) -> (forall p x, tok_ok (fmt p x) = true) ->
  forall p comments mask_corners (s : spectrum num),
    wf_spectrum s = true -> Forall (fun c => comment_ok c = true) comments ->
    from_file parse mask_corners (to_file fmt p comments false s)
    = Some (map strip comments, after_old_file round p mask_corners s).
Proof. exact (@roundtrip_old_format). Qed.
Print Assumptions C14_roundtrip_old_format.

(** a hand-written pre-1.3 file in ANY white-space layout (comment lines starting with '#', one line whose tokens
    are the dimensions, one line whose tokens are the numbers, then a blank line or the end of the file; any blanks or
    tabs between tokens, trailing blanks, missing final newline, CR-LF endings) reads back as those numbers with an
    empty mask (corners when mask_corners), unfolded, unlabelled.  Stated on the readline sequence. *)
Theorem C14_pre13_any_layout :
  forall (num : Type) (fmt : nat -> num -> string) (parse : string -> num) (round : nat -> num -> num),
    (forall p x, parse (fmt p x) = round p x) ->
  forall p mask_corners comment_lines h d rest sh data,
    Forall (fun l => starts_hash l = true) comment_lines -> starts_hash h = false ->
    sh <> [] -> split_ws h = map print_nat sh ->
    split_ws d = map (fmt p) data -> length data = nprod sh ->
    sall is_space (nth 0 rest "") = true ->
    from_file_lines parse mask_corners (comment_lines ++ h :: d :: rest)
    = Some (map (fun l => strip (stail l)) comment_lines,
            mkSpec sh (map (round p) data)
                   (if mask_corners then set_corners (repeat false (length data)) else repeat false (length data))
                   false None None).
Proof. exact (@from_file_pre13_any_layout). Qed.
Print Assumptions C14_pre13_any_layout.

Theorem C14_array_roundtrip :
  forall (num : Type) (fmt : nat -> num -> string) (parse : string -> num) (round : nat -> num -> num),
    (forall p x, parse (fmt p x) = round p x) -> (forall p x, tok_ok (fmt p x) = true) ->
  forall p comments (a : array num),
    shape_ok (a_shape a) = true -> length (a_flat a) = nprod (a_shape a) ->
    Forall (fun c => comment_ok c = true) comments ->
    array_from_file parse (array_to_file fmt p comments a)
    = Some (map strip comments, mkArray (a_shape a) (map (round p) (a_flat a))).
Proof. exact (@array_roundtrip). Qed.
Print Assumptions C14_array_roundtrip.

(** array_to_file on a Spectrum writes the fill value (nan) under the mask *)
Theorem C14_array_roundtrip_spectrum :
  forall (num : Type) (fmt : nat -> num -> string) (parse : string -> num) (round : nat -> num -> num),
    (forall p x, parse (fmt p x) = round p x) -> (forall p x, tok_ok (fmt p x) = true) ->
  forall p comments fillv (s : spectrum num),
    wf_spectrum s = true -> Forall (fun c => comment_ok c = true) comments ->
    array_from_file parse (array_to_file fmt p comments (mkArray (sp_shape s) (filled fillv (sp_mask s) (sp_data s))))
    = Some (map strip comments, mkArray (sp_shape s) (map (round p) (filled fillv (sp_mask s) (sp_data s)))).
Proof. exact (@array_roundtrip_spectrum). Qed.

(** "read back consistently": the generic writer's text IS the foldmaskinfo=False (pre-1.3) spectrum file,
    so C14_roundtrip_old_format also describes Spectrum.from_file on an array_to_file file *)
Theorem C14_array_file_is_old_spectrum_file :
  forall (num : Type) (fmt : nat -> num -> string) p comments (s : spectrum num),
    array_to_file fmt p comments (mkArray (sp_shape s) (sp_data s)) = to_file fmt p comments false s.
Proof. exact (@array_file_is_old_spectrum_file). Qed.

Theorem C14_pickle_roundtrip :
  forall (num : Type) (s : spectrum num),
    length (sp_data s) = nprod (sp_shape s) -> length (sp_mask s) = nprod (sp_shape s) ->
    labels_len_ok (sp_shape s) (sp_labels s) = true ->
    spectrum_unpickler (spectrum_pickler s) = Some s.
Proof. exact (@pickle_roundtrip). Qed.
Print Assumptions C14_pickle_roundtrip.

(** ---- memory layouts.  A Spectrum's data and mask are strided views on memory blocks ([view]: block, offset,
    shape, strides - C-contiguous, transposed by reorder_pops / .T / swapaxes, Fortran order, stepped or reversed
    slices, stride-0 broadcast mask).  What the file format, the pickler and every comparison talk about is the
    LOGICAL content [v_ravel] (entries in C order of their indices), never the order of the cells in memory. *)

(** the file round trip preserves the logical content whatever the layout (current and pre-1.3 format) *)
Theorem C14_roundtrip_any_layout :
  forall (num : Type) (fmt : nat -> num -> string) (parse : string -> num) (round : nat -> num -> num),
    (forall p x, parse (fmt p x) = round p x) -> (forall p x, tok_ok (fmt p x) = true) ->
  forall p comments mask_corners foldmaskinfo (d : num) (dv : view num) (mv : view bool) folded labels extrap,
    shape_ok (v_shape dv) = true -> v_shape mv = v_shape dv ->
    labels_len_ok (v_shape dv) labels = true ->
    match labels with None => true | Some ls => forallb label_ok ls end = true ->
    Forall (fun c => comment_ok c = true) comments ->
    from_file parse mask_corners (to_file fmt p comments foldmaskinfo (spectrum_of_views d dv mv folded labels extrap))
    = Some (map strip comments,
            (if foldmaskinfo then after_file else after_old_file) round p mask_corners
              (spectrum_of_views d dv mv folded labels extrap)).
Proof. exact roundtrip_views. Qed.
Print Assumptions C14_roundtrip_any_layout.

(** two layouts holding the same entries give the same file *)
Theorem C14_file_layout_independent :
  forall (num : Type) (fmt : nat -> num -> string) p comments foldmaskinfo (d : num) dv dv' mv mv' folded labels extrap,
    v_shape dv = v_shape dv' -> v_shape mv = v_shape mv' ->
    (forall idx, In idx (indices (v_shape dv)) -> v_get d dv idx = v_get d dv' idx) ->
    (forall idx, In idx (indices (v_shape mv)) -> v_get false mv idx = v_get false mv' idx) ->
    to_file fmt p comments foldmaskinfo (spectrum_of_views d dv mv folded labels extrap)
    = to_file fmt p comments foldmaskinfo (spectrum_of_views d dv' mv' folded labels extrap).
Proof. exact file_layout_independent. Qed.

(** for a C-contiguous array memory order and logical order coincide (the only layout a generator of fresh arrays
    produces), and the file of any spectrum is the file of its C-contiguous copy *)
Theorem C14_contiguous_memory_order_is_logical_order :
  forall (A : Type) (d : A) sh l, length l = nprod sh -> v_ravel d (c_view sh l) = l.
Proof. exact @c_view_ravel. Qed.

Theorem C14_file_of_contiguous_copy :
  forall (num : Type) (fmt : nat -> num -> string) p comments foldmaskinfo (d : num) dv mv folded labels extrap,
    to_file fmt p comments foldmaskinfo (spectrum_of_views d dv mv folded labels extrap)
    = to_file fmt p comments foldmaskinfo
        (spectrum_of_views d (c_view (v_shape dv) (v_ravel d dv)) (c_view (v_shape mv) (v_ravel false mv)) folded labels extrap).
Proof. exact file_of_contiguous_copy. Qed.

Theorem C14_pickle_roundtrip_any_layout :
  forall (num : Type) (d : num) dv mv folded labels extrap,
    v_shape mv = v_shape dv -> labels_len_ok (v_shape dv) labels = true ->
    spectrum_unpickler (spectrum_pickler (spectrum_of_views d dv mv folded labels extrap))
    = Some (spectrum_of_views d dv mv folded labels extrap).
Proof. exact pickle_roundtrip_views. Qed.
Print Assumptions C14_pickle_roundtrip_any_layout.

(** a writer that emits the cells in MEMORY order (numpy.nditer(self.data), ravel(order='K'), the raw buffer) under
    the logical shape is not a round trip: dense, in-bounds witness = a 3x2 spectrum transposed to 2x3, which is
    what reorder_pops([2,1]) returns *)
Theorem C14_memory_order_writer_refuted :
  exists (dv : view tnum) (mv : view bool),
    v_inbounds dv = true /\ v_inbounds mv = true /\ shape_ok (v_shape dv) = true /\ v_shape mv = v_shape dv /\
    length (v_buf dv) = nprod (v_shape dv) /\ length (v_buf mv) = nprod (v_shape dv) /\
    from_file tn_parse false (to_file tn_fmt 17 [] true (spectrum_in_memory_order dv mv false None None))
    <> Some ([], after_file tn_round 17 false (spectrum_of_views NaN dv mv false None None)).
Proof. exact memory_order_writer_refuted. Qed.
Print Assumptions C14_memory_order_writer_refuted.

(** ---- argument / attribute types.  The constructor stores data_folded and pop_ids AS GIVEN, so the .folded attribute
    of a Spectrum is any truthy / falsy Python object ([pyflag]: True / False, numpy.bool_, int, numpy integer,
    float, 0-d array of one of these) and .pop_ids any sequence ([seqkind]).  [canon o] is the canonical form of the
    object: sp_folded = bool(flag) ([truthy]), the items of the labels.  Writers, readers and the pickler may depend on
    the truth value of the flag and on the items of the labels only. *)

(** the file round trip of an object returns its canonical form, whatever the type of the flag and of the label
    container (current and pre-1.3 format) *)
Theorem C14_roundtrip_any_attribute_type :
  forall (num : Type) (fmt : nat -> num -> string) (parse : string -> num) (round : nat -> num -> num),
    (forall p x, parse (fmt p x) = round p x) -> (forall p x, tok_ok (fmt p x) = true) ->
  forall p comments mask_corners foldmaskinfo (o : spectrum_obj num),
    wf_spectrum (so_spec o) = true -> Forall (fun c => comment_ok c = true) comments ->
    from_file parse mask_corners (to_file_obj fmt p comments foldmaskinfo o)
    = Some (map strip comments, (if foldmaskinfo then after_file else after_old_file) round p mask_corners (canon o)).
Proof. exact roundtrip_obj. Qed.
Print Assumptions C14_roundtrip_any_attribute_type.

(** the folding status read back is bool(flag) *)
Theorem C14_folding_read_back_is_truth_value :
  forall (num : Type) (fmt : nat -> num -> string) (parse : string -> num) (round : nat -> num -> num),
    (forall p x, parse (fmt p x) = round p x) -> (forall p x, tok_ok (fmt p x) = true) ->
  forall p comments mask_corners (o : spectrum_obj num),
    wf_spectrum (so_spec o) = true -> Forall (fun c => comment_ok c = true) comments ->
    option_map (fun r => sp_folded (snd r)) (from_file parse mask_corners (to_file_obj fmt p comments true o))
    = Some (truthy (so_folded o)).
Proof. exact roundtrip_obj_folded. Qed.

(** two objects that differ only in the type of the flag (same truth value) and in the label container give the
    same file *)
Theorem C14_file_attribute_type_independent :
  forall (num : Type) (fmt : nat -> num -> string) p comments foldmaskinfo (s : spectrum num) f f' k k',
    truthy f = truthy f' ->
    to_file_obj fmt p comments foldmaskinfo (mkObj s f k) = to_file_obj fmt p comments foldmaskinfo (mkObj s f' k').
Proof. exact file_type_independent. Qed.

(** pickling returns the object itself, flag object and label container included *)
Theorem C14_pickle_roundtrip_any_attribute_type :
  forall (num : Type) (o : spectrum_obj num),
    length (sp_data (so_spec o)) = nprod (sp_shape (so_spec o)) ->
    length (sp_mask (so_spec o)) = nprod (sp_shape (so_spec o)) ->
    labels_len_ok (sp_shape (so_spec o)) (sp_labels (so_spec o)) = true ->
    sp_folded (so_spec o) = truthy (so_folded o) ->
    spectrum_unpickler_obj (spectrum_pickler_obj o) = Some o.
Proof. exact pickle_roundtrip_obj. Qed.
Print Assumptions C14_pickle_roundtrip_any_attribute_type.

(** a writer that tests [self.folded is True] (identity with the singleton) instead of the truth value is not a
    round trip: a folded spectrum whose flag is a numpy.bool_ comes back unfolded *)
Theorem C14_identity_test_writer_refuted :
  exists o : spectrum_obj tnum,
    wf_spectrum (so_spec o) = true /\ sp_folded (so_spec o) = truthy (so_folded o) /\ truthy (so_folded o) = true /\
    from_file tn_parse false (to_file_identity_test tn_fmt 17 [] true o)
    <> Some ([], after_file tn_round 17 false (canon o)).
Proof. exact identity_test_writer_refuted. Qed.
Print Assumptions C14_identity_test_writer_refuted.

(** documented limitation (not promised by the property): a label containing a double quote is not read back.
    [tnum] = naturals + inf/-inf/nan with exact printing: an instance satisfying the oracle hypotheses
    ([tn_parse_fmt], [tn_fmt_tok]). *)
Theorem C14_label_with_quote_refuted :
  exists s : spectrum tnum,
    shape_ok (sp_shape s) = true /\ length (sp_data s) = nprod (sp_shape s) /\
    length (sp_mask s) = nprod (sp_shape s) /\ labels_len_ok (sp_shape s) (sp_labels s) = true /\
    from_file tn_parse false (to_file tn_fmt 16 [] true s) <> Some ([], after_file tn_round 16 false s).
Proof. exact label_with_quote_refuted. Qed.
Print Assumptions C14_label_with_quote_refuted.

(** non-vacuity: the hypotheses of C14_roundtrip are satisfiable (instance [tnum]) and the theorem then
    determines a concrete 2x1x3 folded spectrum with blank-carrying labels, non-finite values, three
    comments and mask_corners=True *)
Example C14_nonvacuous :
  from_file tn_parse true
    (to_file tn_fmt 17 ["  hello  "; "#x"; ""] true
       (mkSpec [2; 1; 3] [Fin 15; PInf; Fin 3; NaN; NInf; Fin 0]
               [true; false; false; false; true; false] true (Some ["pop one"; ""; " c "]) (Some (Fin 5))))
  = Some (["hello"; "#x"; ""],
          mkSpec [2; 1; 3] [Fin 15; PInf; Fin 3; NaN; NInf; Fin 0]
                 [true; false; false; false; true; true] true (Some ["pop one"; ""; " c "]) None).
Proof.
  exact (@roundtrip tnum tn_fmt tn_parse tn_round tn_parse_fmt tn_fmt_tok 17 ["  hello  "; "#x"; ""] true
           (mkSpec [2; 1; 3] [Fin 15; PInf; Fin 3; NaN; NInf; Fin 0]
                   [true; false; false; false; true; false] true (Some ["pop one"; ""; " c "]) (Some (Fin 5)))
           eq_refl ltac:(repeat constructor)).
Qed.

(** non-vacuity of the layout theorems: a 2x3 folded spectrum held as the transpose of a 3x2 block (strides 1,2)
    with a stride-0 (broadcast) mask; the logical content is what comes back *)
Example C14_any_layout_nonvacuous :
  from_file tn_parse false
    (to_file tn_fmt 17 ["c"] true
       (spectrum_of_views NaN (mkView [Fin 1; Fin 2; Fin 3; PInf; Fin 5; Fin 6] 0%Z [2; 3] [1%Z; 2%Z])
                          (mkView [false] 0%Z [2; 3] [0%Z; 0%Z]) true (Some ["a b"; "c"]) None))
  = Some (["c"], mkSpec [2; 3] [Fin 1; Fin 3; Fin 5; Fin 2; PInf; Fin 6] [false; false; false; false; false; false]
                        true (Some ["a b"; "c"]) None).
Proof.
  exact (roundtrip_views tnum tn_fmt tn_parse tn_round tn_parse_fmt tn_fmt_tok 17 ["c"] false true NaN
           (mkView [Fin 1; Fin 2; Fin 3; PInf; Fin 5; Fin 6] 0%Z [2; 3] [1%Z; 2%Z])
           (mkView [false] 0%Z [2; 3] [0%Z; 0%Z]) true (Some ["a b"; "c"]) None
           eq_refl eq_refl eq_refl eq_refl ltac:(repeat constructor)).
Qed.

(** non-vacuity of the attribute-type theorems: a folded 2x2 spectrum whose flag is a 0-d array holding the numpy
    integer 1 and whose labels sit in a tuple reads back folded, with its labels *)
Example C14_any_attribute_type_nonvacuous :
  from_file tn_parse false
    (to_file_obj tn_fmt 17 [] true
       (mkObj (mkSpec [2; 2] [Fin 1; Fin 2; Fin 3; Fin 0] [true; false; false; true] true (Some ["a b"; "c"]) None)
              (Arr0 (NpInt 1)) SeqTuple))
  = Some ([], mkSpec [2; 2] [Fin 1; Fin 2; Fin 3; Fin 0] [true; false; false; true] true (Some ["a b"; "c"]) None).
Proof.
  exact (roundtrip_obj tnum tn_fmt tn_parse tn_round tn_parse_fmt tn_fmt_tok 17 [] false true
           (mkObj (mkSpec [2; 2] [Fin 1; Fin 2; Fin 3; Fin 0] [true; false; false; true] true (Some ["a b"; "c"]) None)
                  (Arr0 (NpInt 1)) SeqTuple) eq_refl ltac:(repeat constructor)).
Qed.
