From Dadi Require Import Base.Num.
