(** C02 — every integration path in 1-5 populations solves the documented implicit scheme.
    Only statements; every proof is [exact <lemma>].  The theorems are about one line of a sweep along any axis
    (the per-axis kernels of every dimension are instances: Model/NDSweep.v [sweep_line], tied to the C code by
    the per-run translator obligations and the correspondence), about the Thomas solver, and about the drivers. *)
From Coq Require Import Reals List Lra Lia.
From Dadi Require Import Base.Num Base.NumR Model.Tridiag Model.Scheme Model.NDSweep
  Proofs.TridiagProofs Proofs.SchemeProofs Proofs.Drivers Proofs.NDLines Proofs.NDSweepProofs Proofs.Pivots Proofs.PivotsDominant Proofs.PrecalcPython.
Import ListNotations.
Local Open Scope R_scope.

(** the Thomas algorithm returns a solution of the tridiagonal system whenever no pivot vanishes ... *)
Theorem C02_thomas_solves : forall rows : list (@row R),
  nonzero (all_pivots rows) -> eqs_top rows (thomas rows) /\ length (thomas rows) = length rows.
Proof. exact thomas_solves. Qed.
Print Assumptions C02_thomas_solves.
(** ... and it is the only one *)
Theorem C02_thomas_unique : forall rows xs, nonzero (all_pivots rows) -> eqs_top rows xs -> xs = thomas rows.
Proof. exact thomas_unique. Qed.

(** the rows the kernels assemble (tabulated per line, as in C) are the specification rows *)
Theorem C02_executable_rows_are_spec_rows : forall xs Vf Mf nu c0 c1 dt use_delj, (2 <= length xs)%nat -> forall phi,
  line_rows xs Vf Mf nu c0 c1 dt use_delj phi = line_rows_spec xs Vf Mf nu c0 c1 dt use_delj phi.
Proof. exact line_rows_eq_spec. Qed.

(** every row is the conservative fully-implicit flux form: u_i/dt + Delta_i (F_{i+1/2} - F_{i-1/2}) + absorbing term *)
Theorem C02_rows_are_flux_form : forall xs Vf Mf nu c0 c1 dt use_delj, (2 <= length xs)%nat ->
  forall (u : nat -> R) i, (i < length xs)%nat ->
  coef_a xs Vf Mf use_delj i * u (i - 1)%nat + coef_b xs Vf Mf nu c0 c1 dt use_delj i * u i + coef_c xs Vf Mf use_delj i * u (S i) =
  u i / dt + dfactor xs i * (fluxR xs Vf Mf use_delj u i - fluxL xs Vf Mf use_delj u i) + bcterm xs Mf nu c0 c1 i * u i.
Proof. exact row_is_flux_form. Qed.

(** one step along a line, for arbitrary grid, density, coefficient functions, dt and delj setting, yields the
    solution of that system *)
Theorem C02_step_solves_scheme : forall xs Vf Mf nu c0 c1 dt use_delj, (2 <= length xs)%nat -> forall phi,
  nonzero (all_pivots (line_rows xs Vf Mf nu c0 c1 dt use_delj phi)) ->
  let u := line_solve xs Vf Mf nu c0 c1 dt use_delj phi in
  length u = length xs /\
  forall i, (i < length xs)%nat ->
    nthF u i / dt + dfactor xs i * (fluxR xs Vf Mf use_delj (nthF u) i - fluxL xs Vf Mf use_delj (nthF u) i)
    + bcterm xs Mf nu c0 c1 i * nthF u i = nthF phi i / dt.
Proof. exact line_solve_solves. Qed.
Print Assumptions C02_step_solves_scheme.

(** d dimensions, any axis k, any shape: line (o,q) of the swept array is the implicit step applied to line (o,q)
    of the input, with migration from every other population evaluated at that line's other-coordinates and the
    absorbing terms switched on exactly when all of them are 0 (resp. 1) *)
Theorem C02_sweep_lines_any_dimension : forall shape grids pops k p, nth_error pops k = Some p ->
  length (nth k grids []) = ax_len shape k -> forall dt dj phi o q,
  (o < ax_outer shape k)%nat -> (q < ax_inner shape k)%nat ->
  get_line shape k (sweep shape grids pops k dt dj phi) o q =
  line_solve (nth k grids []) (Vfunc_beta (p_nu p) (p_beta p)) (Mline shape grids k p o q) (p_nu p)
             (corner0 shape grids k o q) (corner1 shape grids k o q) dt dj (get_line shape k phi o q).
Proof. exact sweep_lines. Qed.

Theorem C02_sweep_solves_scheme_any_dimension : forall shape grids pops k p, nth_error pops k = Some p ->
  length (nth k grids []) = ax_len shape k -> forall dt dj phi o q, (2 <= ax_len shape k)%nat ->
  (o < ax_outer shape k)%nat -> (q < ax_inner shape k)%nat ->
  nonzero (all_pivots (line_rows (nth k grids []) (Vfunc_beta (p_nu p) (p_beta p)) (Mline shape grids k p o q) (p_nu p)
                                 (corner0 shape grids k o q) (corner1 shape grids k o q) dt dj (get_line shape k phi o q))) ->
  let u := get_line shape k (sweep shape grids pops k dt dj phi) o q in
  forall i, (i < ax_len shape k)%nat ->
    nthF u i / dt
    + dfactor (nth k grids []) i * (fluxR (nth k grids []) (Vfunc_beta (p_nu p) (p_beta p)) (Mline shape grids k p o q) dj (nthF u) i
                                   - fluxL (nth k grids []) (Vfunc_beta (p_nu p) (p_beta p)) (Mline shape grids k p o q) dj (nthF u) i)
    + bcterm (nth k grids []) (Mline shape grids k p o q) (p_nu p) (corner0 shape grids k o q) (corner1 shape grids k o q) i * nthF u i
    = nthF (get_line shape k phi o q) i / dt.
Proof. exact sweep_solves_scheme. Qed.
Print Assumptions C02_sweep_solves_scheme_any_dimension.

(** the hypothesis "no pivot vanishes" follows from a checkable condition: on a strictly increasing grid, with dt > 0
    and nu > 0, if both interface coefficients of every cell are non-negative (cell-Peclet condition; always true
    without advection, and what the delj switch is designed to ensure) every Thomas pivot is strictly positive —
    because the trapezoid-weighted column sums of the conservative scheme are w_j/dt + absorbing term > 0 *)
Theorem C02_pivots_positive_under_peclet_condition : forall xs Vf Mf nu c0 c1 dt use_delj,
  (2 <= length xs)%nat -> (forall i, (i < length xs - 1)%nat -> 0 < dx xs i) -> 0 < dt -> 0 < nu ->
  (forall i, (i < length xs - 1)%nat -> 0 <= atemp xs Vf Mf use_delj i) ->
  (forall i, (i < length xs - 1)%nat -> 0 <= ctemp xs Vf Mf use_delj i) ->
  forall phi, allpos (all_pivots (line_rows xs Vf Mf nu c0 c1 dt use_delj phi)).
Proof. exact line_pivots_positive. Qed.
Print Assumptions C02_pivots_positive_under_peclet_condition.

(** ... and for EVERY parameter set (any advection, dominance, migration, either delj setting, any grid): only the diagonal
    carries 1/dt, so the rows are strictly diagonally dominant, hence no Thomas pivot vanishes, as soon as 1/dt exceeds the
    dt-free load |a_i| + |c_i| + |b_i - 1/dt| of every row - in particular for every 0 < dt < 1/(1 + sum of the loads) *)
Theorem C02_pivots_nonzero_for_small_time_steps : forall xs Vf Mf nu c0 c1 use_delj, (2 <= length xs)%nat ->
  forall dt phi, 0 < dt -> (forall i, (i < length xs)%nat -> row_load xs Vf Mf nu c0 c1 use_delj i < 1 / dt) ->
  nonzero (all_pivots (line_rows xs Vf Mf nu c0 c1 dt use_delj phi)).
Proof. exact line_pivots_nonzero_small_dt. Qed.
Theorem C02_pivots_nonzero_below_explicit_dt0 : forall xs Vf Mf nu c0 c1 use_delj, (2 <= length xs)%nat ->
  forall dt phi, 0 < dt -> dt < 1 / (1 + load_sum xs Vf Mf nu c0 c1 use_delj) ->
  nonzero (all_pivots (line_rows xs Vf Mf nu c0 c1 dt use_delj phi)).
Proof. exact line_pivots_nonzero_below_dt0. Qed.
Theorem C02_diagonally_dominant_systems_have_nonzero_pivots : forall rows, rowdom rows -> nonzero (all_pivots rows).
Proof. exact all_pivots_dominant. Qed.
Print Assumptions C02_pivots_nonzero_below_explicit_dt0.

(** absorbing terms exist only on the all-zero / all-one corner lines *)
Lemma bcterm_off_corner xs Mf nu i : bcterm xs Mf nu false false i = 0.
Proof. unfold bcterm, bc0, bc1. cbn [andb]. numR. destruct (Nat.eqb i 0), (Nat.eqb i (length xs - 1)); lra. Qed.
Theorem C02_absorbing_only_on_corner_lines : forall xs Mf nu i, bcterm xs Mf nu false false i = 0.
Proof. exact bcterm_off_corner. Qed.

(** the time-dependent driver on parameter functions that return constants is the constant-parameter driver
    (same time steps, same steps), in any number of populations *)
Theorem C02_const_equals_timedep : forall fuel shape grids (pops : list (@pop R)) theta0 tf use_delj t T phi,
  integrate_tdep fuel shape grids (fun _ => pops) (fun _ => theta0) tf use_delj t T phi =
  integrate_const fuel shape grids pops theta0 tf use_delj t T phi.
Proof. exact const_equals_timedep. Qed.
Print Assumptions C02_const_equals_timedep.

(** the precomputed-coefficient kernels see exactly the on-the-fly rows *)
Theorem C02_precalc_rows_are_onthefly_rows : forall xs Vf Mf nu c0 c1 dt use_delj (phi : list R),
  length phi = length xs ->
  precalc_rows (map (coef_a xs Vf Mf use_delj) (seq 0 (length xs)))
               (map (coef_b0 xs Vf Mf nu c0 c1 use_delj) (seq 0 (length xs)))
               (map (coef_c xs Vf Mf use_delj) (seq 0 (length xs))) dt phi
  = map (fun r : @row R => let '(a, b, c, r0) := r in (a, b, c, r0))
        (map (fun i => (coef_a xs Vf Mf use_delj i, nadd (coef_b0 xs Vf Mf nu c0 c1 use_delj i) (ndiv n1 dt),
                        coef_c xs Vf Mf use_delj i, ndiv (nthF phi i) dt)) (seq 0 (length xs))).
Proof. exact precalc_equals_onthefly. Qed.

(** the coefficient arrays the Python constant-parameter drivers precompute: arrays that agree with coef_a / coef_b0 / coef_c on the
    three index classes (first point, generic interior point, last point) - which the per-run translator proves, from the current
    source, for every array of _one_pop/_two_pops/_three_pops_const_params - make the precomputed-coefficient solve the line solve
    of the model *)
Theorem C02_python_precalc_arrays_give_model_line : forall xs (Vf Mf : R -> R) nu c0 c1 dj (a b c : nat -> R),
  (2 <= length xs)%nat ->
  a 0%nat = coef_a xs Vf Mf dj 0 ->
  (forall i, (1 <= i)%nat -> (i <= length xs - 2)%nat -> a i = coef_a xs Vf Mf dj i) ->
  a (length xs - 1)%nat = coef_a xs Vf Mf dj (length xs - 1) ->
  b 0%nat = coef_b0 xs Vf Mf nu c0 c1 dj 0 ->
  (forall i, (1 <= i)%nat -> (i <= length xs - 2)%nat -> b i = coef_b0 xs Vf Mf nu c0 c1 dj i) ->
  b (length xs - 1)%nat = coef_b0 xs Vf Mf nu c0 c1 dj (length xs - 1) ->
  c 0%nat = coef_c xs Vf Mf dj 0 ->
  (forall i, (1 <= i)%nat -> (i <= length xs - 2)%nat -> c i = coef_c xs Vf Mf dj i) ->
  c (length xs - 1)%nat = coef_c xs Vf Mf dj (length xs - 1) ->
  forall dt phi, length phi = length xs ->
  precalc_solve (map a (seq 0 (length xs))) (map b (seq 0 (length xs))) (map c (seq 0 (length xs))) dt phi
  = line_solve xs Vf Mf nu c0 c1 dt dj phi.
Proof. exact python_coefficients_give_model_line. Qed.

(** non-vacuity: a concrete 3-point system with non-vanishing pivots, solved by the algorithm *)
Example C02_nonvacuous :
  let rows : list (@row R) := [(0, 2, 1, 1); (1, 2, 1, 1); (1, 2, 0, 1)] in
  nonzero (all_pivots rows) /\ eqs_top rows (thomas rows).
Proof.
  assert (Hp : nonzero (all_pivots ([(0, 2, 1, 1); (1, 2, 1, 1); (1, 2, 0, 1)] : list (@row R)))).
  { cbn. numR. repeat split; lra. }
  split; [exact Hp|]. exact (proj1 (thomas_solves _ Hp)).
Qed.
