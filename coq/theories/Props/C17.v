(** C17 -- DFE integration is the documented quadrature of a schedule-independent cache.
    Only statements; every proof is [exact <lemma>].

    Models: Model/DFE.v (entrywise, real-number instance; [rep = false] the snapshot as written, [rep = true] the
    proposed repair), Model/Sched.v (worker protocol, split_jobs, merge).  Oracles (inputs, not modelled): the cached
    spectra, the pdf values on the grid, the scipy quad/dblquad tail integrals ([wneu], [wdel], [tails2]), sqrt.
    [_refuted] theorems are clauses the faithful model of the snapshot violates (findings). *)
From Coq Require Import ZArith Reals List Bool Lra Lia Permutation.
From Dadi Require Import Base.Num Base.NumR Model.DFE Model.Sched
  Proofs.DFEProofs Proofs.DFEMix Proofs.DFERefuted Proofs.DFEPdf Proofs.SchedProofs Proofs.SchedMain Proofs.MergeProofs.
Import ListNotations.
Local Open Scope R_scope.

(** * integrate is linear in theta *)
Theorem C17_integrate1d_linear_in_theta : forall ext (theta : R) xs ws ss neu wneu wdel,
  integrate1d ext theta xs ws ss neu wneu wdel = theta * integrate1d ext 1 xs ws ss neu wneu wdel.
Proof. exact integrate1d_linear. Qed.
Print Assumptions C17_integrate1d_linear_in_theta.

Theorem C17_integrate2d_linear_in_theta : forall ext sym (theta : R) xs W S t,
  integrate2d ext sym theta xs W S t = theta * integrate2d ext sym 1 xs W S t.
Proof. exact integrate2d_linear. Qed.

Theorem C17_point_pos2d_linear_in_theta : forall o c (theta : R) rho params,
  c2_point_pos o c theta rho params = oscale theta (c2_point_pos o c 1 rho params).
Proof. exact c2_point_pos_linear. Qed.

Theorem C17_symmetric_point_pos2d_linear_in_theta : forall o c (theta : R) params,
  c2_sym_point_pos o c theta params = oscale theta (c2_sym_point_pos o c 1 params).
Proof. exact c2_sym_point_pos_linear. Qed.

Theorem C17_mixture_linear_in_theta : forall o s1 s2 ext (theta : R) params,
  mixture o s1 s2 ext theta params = theta * mixture o s1 s2 ext 1 params.
Proof. exact mixture_linear. Qed.

Theorem C17_vourlaki_linear_in_theta : forall (theta : R) s1 s2 w1 wneu1 wdel1 W2 sym t2 w2 wneu2 wdel2 pw gp pc pcp,
  vourlaki theta s1 s2 w1 wneu1 wdel1 W2 sym t2 w2 wneu2 wdel2 pw gp pc pcp
  = oscale theta (vourlaki 1 s1 s2 w1 wneu1 wdel1 W2 sym t2 w2 wneu2 wdel2 pw gp pc pcp).
Proof. exact vourlaki_linear. Qed.

(** Cache1D.integrate_point_pos as written is NOT linear in theta (cached gammapos: theta never multiplies the point mass) *)
Theorem C17_point_pos1d_theta_refuted :
  exists (o : @oracle R) (c : @cache1 R) (params : list R) (theta : R) st1 stt,
    c1_point_pos o c false true 1 None 1 params = Some st1 /\
    c1_point_pos o c false true theta None 1 params = Some stt /\
    snd stt <> theta * snd st1.
Proof. exact point_pos_theta_refuted. Qed.
Print Assumptions C17_point_pos1d_theta_refuted.

(** ... and history dependent (uncached gammapos: theta is baked into the spectrum written to the cache) *)
Theorem C17_point_pos1d_history_refuted :
  exists (o : @oracle R) (c : @cache1 R) (demo : R -> R) (params : list R) (theta : R) gs' sp' r1 stA stB,
    c1_point_pos o c false true 1 (Some demo) 1 params = Some (gs', sp', r1) /\
    c1_point_pos o c false true theta (Some demo) 1 params = Some stA /\
    c1_point_pos o {| c1_xs := c1_xs c; c1_gs := gs'; c1_sp := sp'; c1_neu := c1_neu c |} false true theta (Some demo) 1 params = Some stB /\
    snd stA <> snd stB.
Proof. exact point_pos_history_refuted. Qed.

(** with the repair (cache the unscaled spectrum, multiply the point mass by theta) it is linear and leaves the cache in a theta-independent state *)
Theorem C17_point_pos1d_repaired_linear : forall o c ext (theta : R) demo npos params,
  c1_point_pos o c true ext theta demo npos params = sscale theta (c1_point_pos o c true ext 1 demo npos params).
Proof. exact c1_point_pos_rep_linear. Qed.

Theorem C17_mixtures_with_point_mass_repaired_linear : forall o s1 s2 rep (theta : R) params,
  mixture_sym_point_pos o s1 s2 true rep theta params = oscale theta (mixture_sym_point_pos o s1 s2 true rep 1 params) /\
  mixture_point_pos o s1 s2 true rep theta params = oscale theta (mixture_point_pos o s1 s2 true rep 1 params).
Proof. exact mixtures_point_mass_repaired_linear. Qed.

(** * selection has no effect: theta * S * total quadrature weight *)
Theorem C17_selection_free_gives_total_weight_1d : forall (theta S : R) xs ws wneu wdel n, length ws = n -> (0 < n)%nat ->
  integrate1d true theta xs ws (repeat S n) S wneu wdel = theta * S * total_weight1d xs ws wneu wdel.
Proof. exact selection_free_1d. Qed.
Print Assumptions C17_selection_free_gives_total_weight_1d.

Theorem C17_selection_free_gives_total_weight_2d : forall (sym : bool) (theta S : R) xs W t n,
  length xs = n -> (0 < n)%nat -> length W = n -> Forall (fun r => length r = n) W ->
  length (q1low t) = n -> length (q1high t) = n -> length (q2low t) = n -> length (q2high t) = n ->
  integrate2d true sym theta xs W (repeat (repeat S n) n) t = theta * S * total_weight2d sym xs W t.
Proof. exact selection_free_2d. Qed.

(** the regions of the 2-D rule for a product density: (neutral + grid + lethal) x (neutral + grid + lethal) minus the
    lethal x lethal corner, which Cache2D.integrate does not add *)
Theorem C17_regions_tile_the_quadrant : forall (u v xs : list R) a1 c1 a2 c2, length v = length xs ->
  total_weight2d false xs (outer u v) (product_tails u v a1 c1 a2 c2)
  = (trapz u xs + a1 + c1) * (trapz v xs + a2 + c2) - c1 * c2.
Proof. exact total_weight_product. Qed.

Theorem C17_selection_free_point_pos2d : forall (sym : bool) (theta S rho : R) xs gs W t p1 g1 p2 g2 sq n i1 i2,
  length xs = n -> (0 < n)%nat -> (n <= length gs)%nat -> length W = n -> Forall (fun r => length r = n) W ->
  length (q1low t) = n -> length (q1high t) = n -> length (q2low t) = n -> length (q2high t) = n ->
  pick2 g1 g2 gs = Some (i1, i2) ->
  point_pos2d sym theta (Some rho) xs gs W (repeat (repeat S (length gs)) (length gs)) t p1 g1 p2 g2 sq
  = Some (theta * S * total_weight_pp2d sym rho xs W t p1 p2 sq).
Proof. exact selection_free_pp2d. Qed.

Theorem C17_selection_free_mixture : forall (o : oracle) (theta S : R) xs1 gs1 xs2 gs2 params n1' n2',
  let s1 := {| c1_xs := xs1; c1_gs := gs1; c1_sp := repeat S (length gs1); c1_neu := S |} in
  let s2 := {| c2_xs := xs2; c2_gs := gs2; c2_S := repeat (repeat S (length gs2)) (length gs2) |} in
  let pa := but_last 2 params in let pb := but_last 1 params in
  length xs1 = n1' -> (0 < n1')%nat -> length (pdf1 o pa) = n1' -> (n1' <= length gs1)%nat ->
  length xs2 = n2' -> (0 < n2')%nat -> (n2' <= length gs2)%nat ->
  length (pdf2 o pb) = n2' -> Forall (fun r => length r = n2') (pdf2 o pb) ->
  length (q1low (tl2 o pb)) = n2' -> length (q1high (tl2 o pb)) = n2' ->
  length (q2low (tl2 o pb)) = n2' -> length (q2high (tl2 o pb)) = n2' ->
  mixture o s1 s2 true theta params
  = theta * S * ((1 - last params 0) * total_weight1d xs1 (pdf1 o pa) (fst (tl1 o pa)) (snd (tl1 o pa))
                 + last params 0 * total_weight2d (sym2 o pb) xs2 (pdf2 o pb) (tl2 o pb)).
Proof. exact selection_free_mixture. Qed.

Theorem C17_selection_free_vourlaki : forall (theta S : R) xs1 gs1 xs2 gs2 w1 wneu1 wdel1 W2 sym t2 w2 wneu2 wdel2 pw gp pc pcp n1' n2' i1 i2,
  length xs1 = n1' -> (0 < n1')%nat -> length w1 = n1' -> (n1' <= length gs1)%nat ->
  length xs2 = n2' -> (0 < n2')%nat -> (n2' <= length gs2)%nat -> length W2 = n2' -> Forall (fun r => length r = n2') W2 ->
  length (q1low t2) = n2' -> length (q1high t2) = n2' -> length (q2low t2) = n2' -> length (q2high t2) = n2' ->
  length w2 = n2' -> pick2 gp gp gs2 = Some (i1, i2) ->
  vourlaki theta {| c1_xs := xs1; c1_gs := gs1; c1_sp := repeat S (length gs1); c1_neu := S |}
           {| c2_xs := xs2; c2_gs := gs2; c2_S := repeat (repeat S (length gs2)) (length gs2) |}
           w1 wneu1 wdel1 W2 sym t2 w2 wneu2 wdel2 pw gp pc pcp
  = Some (theta * S * (total_weight1d xs1 w1 wneu1 wdel1 * ((1 - pw) * (1 - pc))
                       + total_weight2d sym xs2 W2 t2 * ((1 - pw) * pc * (1 - pcp))
                       + total_weight1d xs2 w2 wneu2 wdel2 * ((1 - pw) * pc * pcp + pw * pc * (1 - pcp))
                       + (pw * (1 - pc) + pw * pc * pcp))).
Proof. exact selection_free_vourlaki. Qed.

(** every component of Vourlaki_mixture takes the neutral / lethal tail masses of the grid its trapezoid runs over
    ([vourlaki_q]: the quad oracle [Qd] is a function of the limits, the limits are derived from each cache's own grid):
    linear in theta, and with selection having no effect the total weight is the stated weighted sum of the three total
    quadrature weights, m5 with the tails of s1's grid, m4 and m7 with the tails of s2's grid *)
Theorem C17_vourlaki_own_grid_tails_linear_in_theta : forall Qd (theta : R) s1 s2 w1 W2 sym t2 w2 ab pw gp pc pcp,
  vourlaki_q Qd theta s1 s2 w1 W2 sym t2 w2 ab pw gp pc pcp
  = oscale theta (vourlaki_q Qd 1 s1 s2 w1 W2 sym t2 w2 ab pw gp pc pcp).
Proof. exact vourlaki_q_linear. Qed.

Theorem C17_selection_free_vourlaki_own_grid_tails : forall Qd (theta S : R) xs1 gs1 xs2 gs2 w1 W2 sym t2 w2 ab pw gp pc pcp n1' n2' i1 i2,
  length xs1 = n1' -> (0 < n1')%nat -> length w1 = n1' -> (n1' <= length gs1)%nat ->
  length xs2 = n2' -> (0 < n2')%nat -> (n2' <= length gs2)%nat -> length W2 = n2' -> Forall (fun r => length r = n2') W2 ->
  length (q1low t2) = n2' -> length (q1high t2) = n2' -> length (q2low t2) = n2' -> length (q2high t2) = n2' ->
  length w2 = n2' -> pick2 gp gp gs2 = Some (i1, i2) ->
  vourlaki_q Qd theta {| c1_xs := xs1; c1_gs := gs1; c1_sp := repeat S (length gs1); c1_neu := S |}
             {| c2_xs := xs2; c2_gs := gs2; c2_S := repeat (repeat S (length gs2)) (length gs2) |}
             w1 W2 sym t2 w2 ab pw gp pc pcp
  = Some (theta * S * (total_weight1d xs1 w1 (Qd ab 0 (Some (0 - last xs1 0))) (Qd ab (0 - hd 0 xs1) None) * ((1 - pw) * (1 - pc))
                       + total_weight2d sym xs2 W2 t2 * ((1 - pw) * pc * (1 - pcp))
                       + total_weight1d xs2 w2 (Qd ab 0 (Some (0 - last xs2 0))) (Qd ab (0 - hd 0 xs2) None)
                         * ((1 - pw) * pc * pcp + pw * pc * (1 - pcp))
                       + (pw * (1 - pc) + pw * pc * pcp))).
Proof. exact selection_free_vourlaki_q. Qed.
Print Assumptions C17_selection_free_vourlaki_own_grid_tails.

(** ... and tails taken from another grid move the selection-free result by
    theta * S * (weight of the mixed-sign components) * (pdf mass between the bounds of the two grids) *)
Theorem C17_vourlaki_foreign_tails_drop_the_mass_between_the_grids :
  forall (theta S : R) xs1 gs1 xs2 gs2 w1 wneu1 wdel1 W2 sym t2 w2 wneu2 wdel2 wneu' wdel' pw gp pc pcp n1' n2' i1 i2 r r',
  length xs1 = n1' -> (0 < n1')%nat -> length w1 = n1' -> (n1' <= length gs1)%nat ->
  length xs2 = n2' -> (0 < n2')%nat -> (n2' <= length gs2)%nat -> length W2 = n2' -> Forall (fun r => length r = n2') W2 ->
  length (q1low t2) = n2' -> length (q1high t2) = n2' -> length (q2low t2) = n2' -> length (q2high t2) = n2' ->
  length w2 = n2' -> pick2 gp gp gs2 = Some (i1, i2) ->
  let s1 := {| c1_xs := xs1; c1_gs := gs1; c1_sp := repeat S (length gs1); c1_neu := S |} in
  let s2 := {| c2_xs := xs2; c2_gs := gs2; c2_S := repeat (repeat S (length gs2)) (length gs2) |} in
  vourlaki theta s1 s2 w1 wneu1 wdel1 W2 sym t2 w2 wneu2 wdel2 pw gp pc pcp = Some r ->
  vourlaki theta s1 s2 w1 wneu1 wdel1 W2 sym t2 w2 wneu' wdel' pw gp pc pcp = Some r' ->
  r' - r = theta * S * ((1 - pw) * pc * pcp + pw * pc * (1 - pcp)) * ((wneu' - wneu2) + (wdel' - wdel2)).
Proof. exact vourlaki_foreign_tails. Qed.

(** * weights *)
Theorem C17_quadrant_weights_sum_to_one : forall rho p1 p2 sq : R,
  p_pos_pos rho p1 p2 sq + p_pos_neg rho p1 p2 + p_neg_pos rho p1 p2 + p_neg_neg rho p1 p2 sq = 1.
Proof. exact quadrant_sum. Qed.
Print Assumptions C17_quadrant_weights_sum_to_one.

Theorem C17_quadrant_weights_independent_limit : forall p1 p2 sq : R,
  p_pos_pos 0 p1 p2 sq = p1 * p2 /\ p_pos_neg 0 p1 p2 = p1 * (1 - p2) /\
  p_neg_pos 0 p1 p2 = (1 - p1) * p2 /\ p_neg_neg 0 p1 p2 sq = (1 - p1) * (1 - p2).
Proof. exact quadrant_rho0. Qed.

Theorem C17_quadrant_weights_correlated_limit : forall p1 p2 sq : R,
  p_pos_pos 1 p1 p2 sq = sq /\ p_pos_neg 1 p1 p2 = 0 /\ p_neg_pos 1 p1 p2 = 0 /\ p_neg_neg 1 p1 p2 sq = 1 - sq.
Proof. exact quadrant_rho1. Qed.

Theorem C17_mixture_weights : forall o s1 s2 ext (theta : R) params,
  mixture o s1 s2 ext theta params
  = (1 - last params 0) * c1_integrate o s1 ext theta (but_last 2 params)
    + last params 0 * c2_integrate o s2 ext theta (but_last 1 params).
Proof. exact mixture_weights. Qed.

Theorem C17_vourlaki_weights_sum_to_one : forall pw pc pcp : R,
  (1 - pw) * (1 - pc) + (1 - pw) * pc * (1 - pcp) + (1 - pw) * pc * pcp
  + pw * (1 - pc) + pw * pc * pcp + pw * pc * (1 - pcp) = 1.
Proof. exact vourlaki_weights_sum. Qed.

(** mixture_symmetric_point_pos as written: the 2-D density receives (pdf params ++ [rho, ppos, gamma_pos]) and gamma_pos is used as rho *)
Theorem C17_mixture_symmetric_point_pos_snapshot_plumbing : forall o s1 s2 rep1 (theta : R) pdfp rho ppos gpos p2d,
  let bp := pdfp ++ [rho; ppos; gpos] in
  mixture_sym_point_pos o s1 s2 rep1 false theta (pdfp ++ [rho; ppos; gpos; p2d])
  = opt_mix p2d (c1_point_pos o s1 rep1 true theta None 1 (pdfp ++ [ppos; gpos]))
            (point_pos2d (sym2 o bp) theta (Some gpos) (c2_xs s2) (c2_gs s2) (pdf2 o bp) (c2_S s2)
                         (tl2 o bp) ppos gpos ppos gpos (osqrt o (ppos * ppos))).
Proof. exact mixture_sym_point_pos_snapshot. Qed.

Theorem C17_mixture_symmetric_point_pos_refuted :
  exists (o : @oracle R) s1 s2 (params : list R) (theta a b : R),
    mixture_sym_point_pos o s1 s2 false false theta params = Some a /\
    mixture_sym_point_pos o s1 s2 false true theta params = Some b /\ a <> b.
Proof. exact mixture_sym_point_pos_refuted. Qed.

Theorem C17_mixture_symmetric_point_pos_repaired : forall o s1 s2 rep1 (theta : R) pdfp rho ppos gpos p2d,
  mixture_sym_point_pos o s1 s2 rep1 true theta (pdfp ++ [rho; ppos; gpos; p2d])
  = opt_mix p2d (c1_point_pos o s1 rep1 true theta None 1 (pdfp ++ [ppos; gpos]))
            (point_pos2d (sym2 o (pdfp ++ [rho])) theta (Some rho) (c2_xs s2) (c2_gs s2) (pdf2 o (pdfp ++ [rho])) (c2_S s2)
                         (tl2 o (pdfp ++ [rho])) ppos gpos ppos gpos (osqrt o (ppos * ppos))).
Proof. exact mixture_sym_point_pos_repaired. Qed.

(** mixture_point_pos as written hands None to rho: every call fails *)
Theorem C17_mixture_point_pos_refuted : forall o s1 s2 rep1 (theta : R) params,
  mixture_point_pos o s1 s2 rep1 false theta params = None.
Proof. exact mixture_point_pos_snapshot_fails. Qed.

Theorem C17_mixture_point_pos_repaired : forall o s1 s2 rep1 (theta : R) pdfp rho p1 g1 p2 g2 p2d,
  mixture_point_pos o s1 s2 rep1 true theta (pdfp ++ [rho; p1; g1; p2; g2; p2d])
  = opt_mix p2d (c1_point_pos o s1 rep1 true theta None 1 (pdfp ++ [p1; g1]))
            (point_pos2d (sym2 o (pdfp ++ [rho])) theta (Some rho) (c2_xs s2) (c2_gs s2) (pdf2 o (pdfp ++ [rho])) (c2_S s2)
                         (tl2 o (pdfp ++ [rho])) p1 g1 p2 g2 (osqrt o (p1 * p2))).
Proof. exact mixture_point_pos_repaired. Qed.

(** * the cache does not depend on the schedule (any number of workers, any interleaving, any number of jobs) *)
Theorem C17_cache_schedule_independent : forall (G V E : Type) (f : G -> V + E) k (gammas : list G) (vals : list V) sigma,
  map f gammas = map inl vals ->
  done G V E (exec G V E f k (jobs_of G gammas) sigma) ->
  build1d G V E f k gammas sigma = Some vals.
Proof. exact cache_schedule_independent. Qed.
Print Assumptions C17_cache_schedule_independent.

Theorem C17_multi_process_equals_single_process : forall (G V E : Type) (f : G -> V + E) k (gammas : list G) sigma,
  done G V E (exec G V E f k (jobs_of G gammas) sigma) ->
  build1d G V E f k gammas sigma = single1d G V E f gammas.
Proof. exact schedule_independent_1d. Qed.

Theorem C17_split_cache_schedule_independent : forall (G V E : Type) (f : G -> V + E) k s id (gammas : list G) (vals : list V) sigma,
  map f gammas = map inl vals ->
  done G V E (exec G V E f k (split_filter G s id (jobs_of G gammas)) sigma) ->
  build_split G V E f k s id gammas sigma = Some (split_cache V s id vals).
Proof. exact split_schedule_independent. Qed.

Theorem C17_worker_error_poisons : forall (G V E : Type) (f : G -> V + E) k (gammas : list G) sigma g e,
  In g gammas -> f g = inr e ->
  done G V E (exec G V E f k (jobs_of G gammas) sigma) ->
  build1d G V E f k gammas sigma = None.
Proof. exact worker_error_poisons. Qed.
Print Assumptions C17_worker_error_poisons.

Theorem C17_cache_only_if_no_worker_failed : forall (G V E : Type) (f : G -> V + E) k (gammas : list G) sigma c,
  done G V E (exec G V E f k (jobs_of G gammas) sigma) ->
  build1d G V E f k gammas sigma = Some c -> map f gammas = map inl c.
Proof. exact build_some_only_if_no_error. Qed.

Theorem C17_complete_schedule_exists : forall (G V E : Type) (f : G -> V + E) k (js : list (job G)), (0 < k)%nat ->
  exists sigma, done G V E (exec G V E f k js sigma).
Proof. exact complete_schedule_exists. Qed.

(** * merge *)
Theorem C17_merge_complete_iff_all_jobs : forall (V : Type) (veq : V -> V -> bool), (forall a b, veq a b = true <-> a = b) ->
  forall s ids vals, ids <> [] ->
  (merge V veq (map (fun id => split_cache V s id vals) ids) = MOk vals <-> forall i, (i < length vals)%nat -> In (i mod s) ids).
Proof. exact merge_complete_iff_all_jobs. Qed.
Print Assumptions C17_merge_complete_iff_all_jobs.

Theorem C17_merge_missing_job_reported : forall (V : Type) (veq : V -> V -> bool), (forall a b, veq a b = true <-> a = b) ->
  forall s ids vals i, ids <> [] -> (i < length vals)%nat -> ~ In (i mod s) ids ->
  merge V veq (map (fun id => split_cache V s id vals) ids) = MIncomplete.
Proof. exact merge_missing_split_incomplete. Qed.

Theorem C17_merge_never_completes_with_a_hole : forall (V : Type) (veq : V -> V -> bool), (forall a b, veq a b = true <-> a = b) ->
  forall n (cs : list (list (option V))) i, same_shape V n cs -> (i < n)%nat -> (forall v, ~ defined_at V cs i v) ->
  forall c, merge V veq cs <> MOk c.
Proof. exact merge_missing_detected. Qed.

Theorem C17_merge_conflict_detected : forall (V : Type) (veq : V -> V -> bool), (forall a b, veq a b = true <-> a = b) ->
  forall n (cs : list (list (option V))) i v v', same_shape V n cs ->
  defined_at V cs i v -> defined_at V cs i v' -> v <> v' -> merge V veq cs = MConflict.
Proof. exact merge_conflict_detected. Qed.

Theorem C17_merge_duplicate_identical_ok : forall (V : Type) (veq : V -> V -> bool), (forall a b, veq a b = true <-> a = b) ->
  forall n (cs : list (list (option V))) d, same_shape V n cs -> In d cs ->
  forall c, merge V veq cs = MOk c -> merge V veq (cs ++ [d]) = MOk c.
Proof. exact merge_duplicate_identical_ok. Qed.

Theorem C17_merge_order_irrelevant : forall (V : Type) (veq : V -> V -> bool), (forall a b, veq a b = true <-> a = b) ->
  forall n (cs cs' : list (list (option V))), same_shape V n cs -> Permutation cs cs' -> merge V veq cs = merge V veq cs'.
Proof. exact merge_order_irrelevant. Qed.

(** * compiled bivariate densities = reference formulas *)
Theorem C17_biv_lognormal_c_equals_py : forall mu1 mu2 sigma1 sigma2 rho x y : R,
  biv_lognormal_c mu1 mu2 sigma1 sigma2 rho x y = biv_lognormal_py mu1 mu2 sigma1 sigma2 rho x y.
Proof. exact biv_lognormal_c_equals_py. Qed.
Print Assumptions C17_biv_lognormal_c_equals_py.

Theorem C17_biv_ind_gamma_c_equals_py : forall (Gam : R -> R) alpha1 alpha2 beta1 beta2 x y,
  0 < x -> 0 < y -> 0 < beta1 -> 0 < beta2 -> Gam alpha1 <> 0 -> Gam alpha2 <> 0 ->
  biv_ind_gamma_c Gam alpha1 alpha2 beta1 beta2 x y = biv_ind_gamma_py Gam alpha1 alpha2 beta1 beta2 x y.
Proof. exact biv_ind_gamma_c_equals_py. Qed.

(** * non-vacuity: three jobs, two workers, an interleaving in which the results arrive out of order (1, 0, 2);
      the collected cache is map f; with a failing job the build is an error *)
Example C17_nonvacuous_schedule :
  let f := fun g : nat => if Nat.eqb g 7 then inr 99%nat else inl (g * g)%nat : nat + nat in
  let sigma := [0; 1; 1; 0; 1; 1]%nat in
  doneb nat nat nat (exec nat nat nat f 2 (jobs_of nat [3; 4; 5]%nat) sigma) = true /\
  results nat nat nat (exec nat nat nat f 2 (jobs_of nat [3; 4; 5]%nat) sigma) = [Res 1 16; Res 0 9; Res 2 25]%nat /\
  build1d nat nat nat f 2 [3; 4; 5]%nat sigma = Some [9; 16; 25]%nat /\
  build1d nat nat nat f 2 [3; 7; 5]%nat sigma = None.
Proof. vm_compute. repeat split. Qed.

Example C17_nonvacuous_quadrature :
  integrate1d true 2 [-2; -1] [1; 3] [5; 5] 5 (1 / 2) (1 / 4) = 2 * 5 * total_weight1d [-2; -1] [1; 3] (1 / 2) (1 / 4)
  /\ total_weight1d [-2; -1] [1; 3] (1 / 2) (1 / 4) = 2 + 3 / 4.
Proof.
  split.
  - exact (selection_free_1d 2 5 [-2; -1] [1; 3] (1 / 2) (1 / 4) 2 eq_refl (Nat.lt_0_succ 1)).
  - unfold total_weight1d. rewrite trapz_cons2, trapz_single_l. numR. lra.
Qed.

(** two caches with different ranges (1-D grid [-4;-1], 2-D grid [-2;-1/2]; a quad oracle that is the length of the
    region, capped at 8): the tails of the two grids differ, and so does the result when m4/m7 take the 1-D grid's tails *)
Example C17_nonvacuous_own_grid_tails :
  let Qd := fun (_ : list R) (lo : R) (hi : option R) => match hi with Some h => h - lo | None => 8 - lo end in
  tails_on Qd [] [-4; -1] = (1 - 0, 8 - 4) /\ tails_on Qd [] [-2; -(1/2)] = (1/2 - 0, 8 - 2) /\
  fst (tails_on Qd [] [-4; -1]) + snd (tails_on Qd [] [-4; -1]) <> fst (tails_on Qd [] [-2; -(1/2)]) + snd (tails_on Qd [] [-2; -(1/2)]).
Proof.
  cbv zeta. unfold tails_on, neu_hi, del_lo. cbn [last hd fst snd]. numR.
  repeat split; try (f_equal; lra).
Qed.
