(** C15 — library models are well-formed and reduce exactly to their nested special cases.
    Only statements; every proof is [exact <lemma>].  The programs themselves are regenerated from the
    current source on every run (harness/translate/models_dsl.py) and the boolean checks named below are
    evaluated on them inside Coq; the theorems here say what a [true] means. *)
From Coq Require Import QArith Qreals List Bool Arith Reals.
From Dadi Require Import Base.Num Base.NumR Model.NDSweep Model.DSL Proofs.DSLProofs Proofs.DSLInstance.
Import ListNotations.
Local Open Scope R_scope.

Section C15.
  (** the numerical layer, abstract: a state type and one operation per instruction *)
  Variable St : Type.
  Variable o_grid : St -> St.
  Variable o_phi1d : R -> R -> R -> R -> R -> St -> St.
  Variable o_split : nat -> nat -> St -> St.
  Variable o_admixnew : nat -> list R -> St -> St.
  Variable o_pulse : nat -> list nat -> nat -> list R -> St -> St.
  Variable o_integrate : R -> list (R -> R) -> list (list (R -> R)) -> list (R -> R) -> list (R -> R) ->
                         (R -> R) -> (R -> R) -> list bool -> list bool -> St -> St.
  Variable o_remove : nat -> St -> St.
  Variable o_reorder : list nat -> St -> St.
  Variable o_fromphi : nat -> St -> St.
  Variable o_fromphi_inb : nat -> list R -> list R -> St -> St.
  Variable o_mscmd : list R -> St -> St.
  Notation semp := (sem St o_grid o_phi1d o_split o_admixnew o_pulse o_integrate o_remove o_reorder o_fromphi o_fromphi_inb o_mscmd).

  (** zero-duration integration returns the density (dadi/Integration.py: [if T - initial_t == 0: return phi]);
      a pulse of proportion zero moves nothing *)
  Hypothesis H_T0 : forall nus ms gs hs th be fr nm s, o_integrate 0 nus ms gs hs th be fr nm s = s.
  Hypothesis H_pulse0 : forall d srcs dst fs s, Forall (fun f => f = 0) fs -> o_pulse d srcs dst fs s = s.
  (** directly after the first split (PhiManip.phi_1D_to_2D: the density lives on the diagonal) a third population created by
      admixture in any proportion f is the split of population 2: f x + (1 - f) x = x (rule [fuse] of the normaliser; decides
      the zero-length-first-epoch nestings of the admix_origin family at T1 = 0 against the sim_split family).  Proved for the concrete operations:
      Props/C15Concrete.v C15_concrete_H_admix_diag *)
  Hypothesis H_admix_diag : forall f s, o_admixnew 2 [f] (o_split 1 0 s) = o_split 2 1 (o_split 1 0 s).

  Theorem C15_simp_sound : forall A env, env_ok A env -> forall e t, eval (simp A e) env t = eval e env t.
  Proof. exact simp_sound. Qed.

  Theorem C15_norm_sound : forall A env, env_ok A env -> forall p s, semp (norm A p) env s = semp p env s.
  Proof. exact (norm_sound St o_grid o_phi1d o_split o_admixnew o_pulse o_integrate o_remove o_reorder o_fromphi o_fromphi_inb o_mscmd H_T0 H_pulse0 H_admix_diag). Qed.

  (** a discharged nesting obligation: for every admissible parameter vector of the simple model, the complex
      model run at the nesting point computes what the simple model computes *)
  Theorem C15_nesting_sound : forall A sg complex simple, nests A sg complex simple = true ->
    forall env, env_ok A env -> forall s, semp complex (env_of sg env) s = semp simple env s.
  Proof. exact (nesting_sound St o_grid o_phi1d o_split o_admixnew o_pulse o_integrate o_remove o_reorder o_fromphi o_fromphi_inb o_mscmd H_T0 H_pulse0 H_admix_diag). Qed.

  (** a discharged TWO-SIDED nesting obligation (both models instantiated over a common parameter vector, e.g. a complex
      model with a zero-length epoch against a simple model at unit sizes): for every admissible common vector the two
      models, each run at its side of the nesting point, compute the same *)
  Theorem C15_nesting2_sound : forall A sgc sgs complex simple, nests2 A sgc sgs complex simple = true ->
    forall env, env_ok A env -> forall s, semp complex (env_of sgc env) s = semp simple (env_of sgs env) s.
  Proof. exact (nesting2_sound St o_grid o_phi1d o_split o_admixnew o_pulse o_integrate o_remove o_reorder o_fromphi o_fromphi_inb o_mscmd H_T0 H_pulse0 H_admix_diag). Qed.

  (** a discharged well-formedness obligation: the unpacking binds exactly the declared names, every
      parameter occurs, no other does, and the result depends on nothing but those entries *)
  Theorem C15_params_match_names_sound : forall n unpacked p, params_match_names n unpacked p = true ->
    unpacked = seq 0 n /\
    (forall i, (i < n)%nat -> In i (vars_prog p)) /\
    (forall i, In i (vars_prog p) -> (i < n)%nat) /\
    (forall env env' s, (forall i, (i < n)%nat -> env i = env' i) -> semp p env s = semp p env' s).
  Proof. exact (params_match_names_sound St o_grid o_phi1d o_split o_admixnew o_pulse o_integrate o_remove o_reorder o_fromphi o_fromphi_inb o_mscmd). Qed.

  (** symmetric models (swap_labels_program): if the numerical layer commutes with a relabelling [tr] of the
      populations (seven hypotheses; exact for the diffusion, up to operator-splitting error for the
      alternating-direction scheme), a discharged [equivariant] obligation gives equivariance of the model *)
  Theorem C15_swap_labels_program : forall (pm : nat -> list nat) (tr : St -> St),
    (forall s, o_grid (tr s) = tr (o_grid s)) ->
    (forall a b c d e s, o_phi1d a b c d e (tr s) = tr (o_phi1d a b c d e s)) ->
    (forall d s, o_fromphi d (tr s) = tr (o_fromphi d s)) ->
    (forall l s, o_mscmd l (tr s) = tr (o_mscmd l s)) ->
    (forall d parent s, relabel_ok_instr pm (ISplit d parent) = true ->
       o_split d (index_of parent (pm d)) (tr s) = tr (o_split d parent s)) ->
    (forall d srcs dst fs s, is_perm_of d (pm d) = true ->
       o_pulse d (map (fun k => index_of k (pm d)) srcs) (index_of dst (pm d)) fs (tr s) = tr (o_pulse d srcs dst fs s)) ->
    (forall T nus ms gs hs th be fr nm s d0 d1, let pi := pm (length nus) in
       is_perm_of (length nus) pi = true ->
       o_integrate T (permute d0 pi nus) (permute d1 pi (map (permute d0 pi) ms)) (permute d0 pi gs) (permute d0 pi hs)
                   th be (permute false pi fr) (permute false pi nm) (tr s)
       = tr (o_integrate T nus ms gs hs th be fr nm s)) ->
    forall A sg p, equivariant A pm sg p = true ->
    forall env, env_ok A env -> forall s, semp p env (tr s) = tr (semp p (env_of sg env) s).
  Proof. exact (equivariance_sound St o_grid o_phi1d o_split o_admixnew o_pulse o_integrate o_remove o_reorder o_fromphi o_fromphi_inb o_mscmd H_T0 H_pulse0 H_admix_diag). Qed.
End C15.
Print Assumptions C15_simp_sound.
Print Assumptions C15_norm_sound.
Print Assumptions C15_nesting_sound.
Print Assumptions C15_nesting2_sound.
Print Assumptions C15_params_match_names_sound.
Print Assumptions C15_swap_labels_program.

(** instance of the zero-duration hypothesis for the drivers of Model/NDSweep.v (real-number instance):
    for every fuel, integrating from t to T = t returns the density unchanged *)
Theorem C15_zero_duration_const : forall fuel shape grids (pops : list (@pop R)) theta0 tf use_delj t phi,
  integrate_const fuel shape grids pops theta0 tf use_delj t t phi = Some phi.
Proof. exact integrate_const_T0. Qed.
Theorem C15_zero_duration_tdep : forall fuel shape grids (popsf : R -> list (@pop R)) thetaf tf use_delj t phi,
  integrate_tdep fuel shape grids popsf thetaf tf use_delj t t phi = Some phi.
Proof. exact integrate_tdep_T0. Qed.
(** a time function whose value does not change is the constant: the time-dependent driver on constant
    functions is the constant-parameter driver *)
Theorem C15_constant_function_is_constant : forall fuel shape grids (pops : list (@pop R)) theta0 tf use_delj t T phi,
  integrate_tdep fuel shape grids (fun _ => pops) (fun _ => theta0) tf use_delj t T phi =
  integrate_const fuel shape grids pops theta0 tf use_delj t T phi.
Proof. exact tdep_const. Qed.
Print Assumptions C15_zero_duration_const.

(** non-vacuity: split_asym_mig (nu1,nu2,T,m12,m21) at m12 = m21 = m normalises to split_mig (nu1,nu2,T,m),
    and IM_pre (nuPre,TPre,s,nu1,nu2,T,m12,m21) at nuPre = 1, TPre = 0 to IM (s,nu1,nu2,T,m12,m21) *)
Example C15_nonvacuous :
  nests ex_A_split_mig ex_sg_asym ex_split_asym_mig ex_split_mig = true /\
  nests ex_A_IM ex_sg_IM_pre ex_IM_pre ex_IM = true /\
  nests ex_A_split_mig ex_sg_asym_wrong ex_split_asym_mig ex_split_mig = false.
Proof. exact ex_nests. Qed.

(** non-vacuity of the two-sided obligation: bottlegrowth_split_mig_sel (nuB,nuF,m,T,Ts,gamma1,gamma2) at T = 0, Ts > 0
    normalises to split_mig_sel (nu1,nu2,T,m,gamma1,gamma2) at nu1 = nu2 = 1, T = Ts; the same function with gamma1 passed
    for gamma2 in the first two-population epoch of the branch T < Ts does not *)
Example C15_nonvacuous_two_sided :
  nests2 ex_A_bgsm_common ex_sgc_bgsm ex_sgs_bgsm ex_bgsm_sel ex_split_mig_sel = true /\
  nests2 ex_A_bgsm_common ex_sgc_bgsm ex_sgs_bgsm ex_bgsm_sel_wrong ex_split_mig_sel = false.
Proof. exact ex_nests2. Qed.

(** non-vacuity of rule [fuse] (zero-length first epoch before an admixed origin): admix_origin_uni_mig_adj
    (nu1,nu2,nu3,m32,m31,T1,T2,f) at T1 = 0 normalises to sim_split_uni_mig_adjacent_var (nu1,nu2,nu3,m32,m31,T1) for every f; the
    same function with the two one-way rates into population 3 exchanged in all their occurrences (the unpacking transposed
    relative to __param_names__) does not -- although it still reduces to admix_origin_no_mig at zero migration and is still
    invariant under the exchange of populations 1 and 2 *)
Example C15_nonvacuous_fuse :
  nests2 ex_A_admix_common ex_sgc_admix ex_sgs_admix ex_admix_uni ex_sim_split_uni = true /\
  nests2 ex_A_admix_common ex_sgc_admix ex_sgs_admix ex_admix_uni_exchanged ex_sim_split_uni = false.
Proof. exact ex_fuse. Qed.
