(** Base — the contract of the software floating point [NumD] (Base/NumD.v) on which the correspondence checks of
    the numerical properties (C01-C06, C15) evaluate the [Num]-polymorphic models, and of the rational exponential
    [Qexp] (Base/NumQ.v) behind the [nexp] slot.  Only statements; every proof is [exact <lemma>].
    Proofs: Proofs/NumDSpec.v, Proofs/QexpSpec.v, Proofs/NumDTrans.v.

    Reading guide.  A value [x : D] is a pair of Bignums integers (mantissa [dm x], exponent [de x]) and denotes the
    rational [D2Q x = dm x * 2^(de x)].  prec = 128, unit roundoff u = 2^(1-prec) = 2^-127.  NO theorem below
    assumes its inputs normalised.  Comparisons are exact, so every branch of a model run on NumD is the branch
    the exact-rational dictionary NumQ takes on the (rounded) intermediate values.
    [Print Assumptions]: the NumD theorems rest on Coq's primitive 63-bit integers only (the 25 [PrimInt63.*]
    primitives and the 26 [Uint63.*] axioms of the standard library that specify them - Bignums computes on
    them); the exponential theorems add the standard axioms of the classical reals. *)
From Coq Require Import ZArith QArith Qabs Qreals Reals.
From Bignums Require Import BigZ.
From Dadi Require Import Base.Num Base.NumQ Base.NumD Proofs.NumDSpec Proofs.QexpSpec Proofs.NumDTrans.
Local Open Scope Q_scope.

(** ** 1. denotation *)
Theorem Base_D2Q_spec : forall x : D,
  D2Q x == inject_Z (BigZ.to_Z (dm x)) * 2 ^ (BigZ.to_Z (de x)).
Proof. exact D2Q_spec. Qed.
Print Assumptions Base_D2Q_spec.

(** ** 2. normalisation: the mantissa is truncated toward -infinity to [prec] bits *)
Theorem Base_Dnorm_spec : forall m e : bigZ, BigZ.to_Z m <> 0%Z ->
  D2Q (Dnorm m e) <= inject_Z (BigZ.to_Z m) * 2 ^ (BigZ.to_Z e) /\
  inject_Z (BigZ.to_Z m) * 2 ^ (BigZ.to_Z e) - D2Q (Dnorm m e)
    < 2 ^ (-127) * Qabs (inject_Z (BigZ.to_Z m) * 2 ^ (BigZ.to_Z e)).
Proof. exact Dnorm_spec. Qed.
Print Assumptions Base_Dnorm_spec.

Theorem Base_Dnorm_zero : forall m e : bigZ, BigZ.to_Z m = 0%Z -> D2Q (Dnorm m e) == 0.
Proof. exact Dnorm_0. Qed.
Print Assumptions Base_Dnorm_zero.

Theorem Base_Dnorm_exact : forall m e : bigZ, (Z.abs (BigZ.to_Z m) < 2 ^ 128)%Z ->
  D2Q (Dnorm m e) == inject_Z (BigZ.to_Z m) * 2 ^ (BigZ.to_Z e).
Proof. exact Dnorm_exact. Qed.
Print Assumptions Base_Dnorm_exact.

(** the result mantissa: |dm| <= 2^prec; < 2^prec for a nonnegative mantissa.  "At most prec bits" is FALSE for
    negative mantissas (truncation toward -infinity of -(2^129-1) is -2^128, 129 bits); no bound below needs it. *)
Theorem Base_Dnorm_mantissa_bound : forall m e : bigZ, (Z.abs (BigZ.to_Z (dm (Dnorm m e))) <= 2 ^ 128)%Z.
Proof. exact Dnorm_mantissa_bound. Qed.
Print Assumptions Base_Dnorm_mantissa_bound.
Theorem Base_Dnorm_mantissa_bound_pos : forall m e : bigZ, (0 <= BigZ.to_Z m)%Z ->
  (0 <= BigZ.to_Z (dm (Dnorm m e)) < 2 ^ 128)%Z.
Proof. exact Dnorm_mantissa_bound_pos. Qed.
Print Assumptions Base_Dnorm_mantissa_bound_pos.
Theorem Base_Dnorm_bits_refuted : exists m e : bigZ, BigZ.to_Z (bbits (dm (Dnorm m e))) = 129%Z.
Proof. exact Dnorm_bits_refuted. Qed.
Print Assumptions Base_Dnorm_bits_refuted.

(** ** 3. arithmetic: relative error <= 2^-127 per operation, for all inputs *)
Theorem Base_Dopp_exact : forall x : D, D2Q (Dopp x) == - D2Q x.
Proof. exact Dopp_spec. Qed.
Print Assumptions Base_Dopp_exact.

Theorem Base_Dmul_error : forall x y : D,
  Qabs (D2Q (Dmul x y) - D2Q x * D2Q y) <= 2 ^ (-127) * Qabs (D2Q x * D2Q y).
Proof. exact Dmul_spec. Qed.
Print Assumptions Base_Dmul_error.

(** includes the two shortcuts returning x (or y) unchanged when the binary magnitudes differ by more than 2*prec+4 *)
Theorem Base_Dadd_error : forall x y : D,
  Qabs (D2Q (Dadd x y) - (D2Q x + D2Q y)) <= 2 ^ (-127) * Qabs (D2Q x + D2Q y).
Proof. exact Dadd_spec. Qed.
Print Assumptions Base_Dadd_error.

Theorem Base_Dsub_error : forall x y : D,
  Qabs (D2Q (Dsub x y) - (D2Q x - D2Q y)) <= 2 ^ (-127) * Qabs (D2Q x - D2Q y).
Proof. exact Dsub_spec. Qed.
Print Assumptions Base_Dsub_error.

(** the truncating BigZ.div and the truncation of Dnorm together stay within one unit roundoff; the quotient is
    rounded toward -infinity *)
Theorem Base_Ddiv_error : forall x y : D, ~ D2Q y == 0 ->
  Qabs (D2Q (Ddiv x y) - D2Q x / D2Q y) <= 2 ^ (-127) * Qabs (D2Q x / D2Q y) /\
  D2Q (Ddiv x y) <= D2Q x / D2Q y.
Proof. exact Ddiv_spec. Qed.
Print Assumptions Base_Ddiv_error.

(** the model's totalisation: x / 0 = 0 *)
Theorem Base_Ddiv_by_zero : forall x y : D, D2Q y == 0 -> D2Q (Ddiv x y) == 0.
Proof. exact Ddiv_zero_spec. Qed.
Print Assumptions Base_Ddiv_by_zero.

(** ** conversions into D: float64 inputs (mantissa < 2^53) and integers below 2^128 enter exactly *)
Theorem Base_DofZ_error : forall z : Z, Qabs (D2Q (DofZ z) - inject_Z z) <= 2 ^ (-127) * Qabs (inject_Z z).
Proof. exact DofZ_spec. Qed.
Print Assumptions Base_DofZ_error.
Theorem Base_DofZ_exact : forall z : Z, (Z.abs z < 2 ^ 128)%Z -> D2Q (DofZ z) == inject_Z z.
Proof. exact DofZ_exact. Qed.
Print Assumptions Base_DofZ_exact.

Theorem Base_ZZ2D_error : forall m e : Z,
  Qabs (D2Q (ZZ2D (m, e)) - inject_Z m * 2 ^ e) <= 2 ^ (-127) * Qabs (inject_Z m * 2 ^ e).
Proof. exact ZZ2D_spec. Qed.
Print Assumptions Base_ZZ2D_error.
Theorem Base_ZZ2D_exact : forall m e : Z, (Z.abs m < 2 ^ 128)%Z -> D2Q (ZZ2D (m, e)) == inject_Z m * 2 ^ e.
Proof. exact ZZ2D_exact. Qed.
Print Assumptions Base_ZZ2D_exact.

Theorem Base_Q2D_error : forall x : Q, Qabs (D2Q (Q2D x) - x) <= 2 ^ (-127) * Qabs x.
Proof. exact Q2D_spec. Qed.
Print Assumptions Base_Q2D_error.
Theorem Base_Q2D_exact : forall (x : Q) (k : Z), (0 <= k)%Z -> Zpos (Qden x) = (2 ^ k)%Z ->
  (Z.abs (Qnum x) < 2 ^ 128)%Z -> D2Q (Q2D x) == x.
Proof. exact Q2D_exact. Qed.
Print Assumptions Base_Q2D_exact.

(** ** 4. comparisons are exact *)
Theorem Base_Dcmp_exact : forall x y : D, Dcmp x y = (D2Q x ?= D2Q y).
Proof. exact Dcmp_spec. Qed.
Print Assumptions Base_Dcmp_exact.

Theorem Base_Dleb_exact : forall x y : D, Dleb x y = true <-> D2Q x <= D2Q y.
Proof. exact Dleb_spec. Qed.
Print Assumptions Base_Dleb_exact.
Theorem Base_Deqb_exact : forall x y : D, Deqb x y = true <-> D2Q x == D2Q y.
Proof. exact Deqb_spec. Qed.
Print Assumptions Base_Deqb_exact.

(** the tests of the dictionary NumD are the tests of the exact dictionary NumQ on the denotations *)
Theorem Base_NumD_tests_are_NumQ_tests : forall x y : D,
  @nleb D NumD x y = @nleb Q NumQ (D2Q x) (D2Q y) /\ @neqb D NumD x y = @neqb Q NumQ (D2Q x) (D2Q y).
Proof. exact (fun x y => conj (Dleb_Qle_bool x y) (Deqb_Qeq_bool x y)). Qed.
Print Assumptions Base_NumD_tests_are_NumQ_tests.

(** ** 5. the standard model of floating-point arithmetic, on the methods of the dictionary NumD *)
Theorem Base_NumD_faithful : forall x y : D,
  (exists d, Qabs d <= 2 ^ (-127) /\ D2Q (@nadd D NumD x y) == (D2Q x + D2Q y) * (1 + d)) /\
  (exists d, Qabs d <= 2 ^ (-127) /\ D2Q (@nsub D NumD x y) == (D2Q x - D2Q y) * (1 + d)) /\
  (exists d, Qabs d <= 2 ^ (-127) /\ D2Q (@nmul D NumD x y) == (D2Q x * D2Q y) * (1 + d)) /\
  (~ D2Q y == 0 -> exists d, Qabs d <= 2 ^ (-127) /\ D2Q (@ndiv D NumD x y) == (D2Q x / D2Q y) * (1 + d)) /\
  (D2Q y == 0 -> D2Q (@ndiv D NumD x y) == 0) /\
  D2Q (@nopp D NumD x) == - D2Q x.
Proof. exact NumD_faithful. Qed.
Print Assumptions Base_NumD_faithful.

Theorem Base_NumD_constants : D2Q (@n0 D NumD) == 0 /\ D2Q (@n1 D NumD) == 1 /\
  forall z : Z, (Z.abs z < 2 ^ 128)%Z -> D2Q (@nofZ D NumD z) == inject_Z z.
Proof. exact NumD_constants. Qed.
Print Assumptions Base_NumD_constants.

(** ** 5b. the verdict function of the correspondence checks *)
(** [Q2D] (used for the tolerance) rounds toward -infinity *)
Theorem Base_Q2D_le : forall x : Q, D2Q (Q2D x) <= x.
Proof. exact Q2D_le. Qed.
Print Assumptions Base_Q2D_le.

(** [Dscale a b], the scale [Dlists_close] uses: an upper bound of every |entry| of both lists, positive, and either
    the constant 1 (when all entries are 0) or EQUAL to the absolute value of one of the entries *)
Theorem Base_Dscale_spec : forall a b : list D,
  (forall x, List.In x a -> Qabs (D2Q x) <= D2Q (Dscale a b)) /\
  (forall y, List.In y b -> Qabs (D2Q y) <= D2Q (Dscale a b)) /\
  0 < D2Q (Dscale a b) /\
  (Dscale a b = mkD b1 b0 \/ exists x, List.In x (a ++ b) /\ D2Q (Dscale a b) == Qabs (D2Q x)).
Proof. exact Dscale_spec. Qed.
Print Assumptions Base_Dscale_spec.

(** soundness of a [true] verdict: equal lengths and every entrywise difference of the EXACT denotations is within
    tol * scale / (1 - 2^-127) (the subtraction, the product tol * scale and the conversion of tol all round in the
    safe direction or are accounted for) *)
Theorem Base_Dlists_close_sound : forall (tol : Q) (a b : list D), fst (Dlists_close tol a b) = true ->
  length a = length b /\
  List.Forall2 (fun x y => (1 - 2 ^ (-127)) * Qabs (D2Q x - D2Q y) <= tol * D2Q (Dscale a b)) a b.
Proof. exact Dlists_close_sound. Qed.
Print Assumptions Base_Dlists_close_sound.

(** ** 6. transcendental slots *)
(** one rounding of the rational function of Base/NumQ.v applied to the exact denotation *)
Theorem Base_NumD_nexp_rounding : forall x : D,
  Qabs (D2Q (@nexp D NumD x) - Qexp (D2Q x)) <= 2 ^ (-127) * Qabs (Qexp (D2Q x)).
Proof. exact NumD_nexp_rounding. Qed.
Print Assumptions Base_NumD_nexp_rounding.
Theorem Base_NumD_nln_rounding : forall x : D,
  Qabs (D2Q (@nln D NumD x) - Qln (D2Q x)) <= 2 ^ (-127) * Qabs (Qln (D2Q x)).
Proof. exact NumD_nln_rounding. Qed.
Print Assumptions Base_NumD_nln_rounding.

(** Qexp against the real exponential: never above it for a >= 0, below by at most 2^k (2^-119 + 106 2^-160) relative,
    k = the number of squarings; on |x| <= 2^16 (k <= 18) the relative error is <= 2^-99 *)
Theorem Base_Qexp_pos_error : forall a : Q, (0 <= Qnum a)%Z ->
  (exp (Q2R a) * (1 - 2 ^ Z.to_nat (Qexp_k a) * (/ 2 ^ 119 + 106 / 2 ^ 160)) <= Q2R (Qexp_pos a) <= exp (Q2R a))%R.
Proof. exact Qexp_pos_spec'. Qed.
Print Assumptions Base_Qexp_pos_error.

Theorem Base_Qexp_error : forall x : Q, Qabs x <= 65536 ->
  (Rabs (Q2R (Qexp x) - exp (Q2R x)) <= exp (Q2R x) / 2 ^ 99)%R.
Proof. exact Qexp_spec. Qed.
Print Assumptions Base_Qexp_error.

Theorem Base_NumD_nexp_error : forall x : D, Qabs (D2Q x) <= 65536 ->
  (Rabs (Q2R (D2Q (@nexp D NumD x)) - exp (Q2R (D2Q x))) <= exp (Q2R (D2Q x)) / 2 ^ 98)%R.
Proof. exact NumD_nexp_spec. Qed.
Print Assumptions Base_NumD_nexp_error.
