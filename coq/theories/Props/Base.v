(** Base — the contract of the software floating point [NumD] (Base/NumD.v) on which the correspondence checks of
    the numerical properties (C01-C06, C15) evaluate the [Num]-polymorphic models, and of the rational exponential
    [Qexp] (Base/NumQ.v) behind the [nexp] slot.  Only statements; every proof is [exact <lemma>].
    Proofs: Proofs/NumDSpec.v, Proofs/QexpSpec.v, Proofs/NumDTrans.v.

    Reading guide.  A value [x : D] is a pair of Bignums integers (mantissa [dm x], exponent [de x]) and denotes the
    rational [D2Q x = dm x * 2^(de x)].  prec = 128, unit roundoff u = 2^(1-prec) = 2^-127.  NO theorem below
    assumes its inputs normalised.  Comparisons are exact, so every branch of a model run on NumD is the branch
    the exact-rational dictionary NumQ takes on the (rounded) intermediate values.
    [Print Assumptions]: the NumD theorems rest on Coq's primitive 63-bit integers only (the 25 [PrimInt63.*]
    primitives and the 26 [Uint63.*] axioms of the standard library that specify them - Bignums computes on
    them); the exponential theorems add the standard axioms of the classical reals. *)
From Coq Require Import ZArith QArith Qabs Qreals Reals.
From Bignums Require Import BigZ.
From Dadi Require Import Base.Num Base.NumQ Base.NumD Proofs.NumDSpec Proofs.QexpSpec Proofs.NumDTrans.
Local Open Scope Q_scope.

(** ** 1. denotation *)
Theorem Base_D2Q_spec : forall x : D,
  D2Q x == inject_Z (BigZ.to_Z (dm x)) * 2 ^ (BigZ.to_Z (de x)).
Proof. exact D2Q_spec. Qed.
Print Assumptions Base_D2Q_spec.

(** ** 2. normalisation: the mantissa is truncated toward -infinity to [prec] bits *)
Theorem Base_Dnorm_spec : forall m e : bigZ, BigZ.to_Z m <> 0%Z ->
  D2Q (Dnorm m e) <= inject_Z (BigZ.to_Z m) * 2 ^ (BigZ.to_Z e) /\
  inject_Z (BigZ.to_Z m) * 2 ^ (BigZ.to_Z e) - D2Q (Dnorm m e)
    < 2 ^ (-127) * Qabs (inject_Z (BigZ.to_Z m) * 2 ^ (BigZ.to_Z e)).
Proof. exact Dnorm_spec. Qed.
Print Assumptions Base_Dnorm_spec.

Theorem Base_Dnorm_zero : forall m e : bigZ, BigZ.to_Z m = 0%Z -> D2Q (Dnorm m e) == 0.
Proof. exact Dnorm_0. Qed.
Print Assumptions Base_Dnorm_zero.

Theorem Base_Dnorm_exact : forall m e : bigZ, (Z.abs (BigZ.to_Z m) < 2 ^ 128)%Z ->
  D2Q (Dnorm m e) == inject_Z (BigZ.to_Z m) * 2 ^ (BigZ.to_Z e).
Proof. exact Dnorm_exact. Qed.
Print Assumptions Base_Dnorm_exact.

(** the result mantissa: |dm| <= 2^prec; < 2^prec for a nonnegative mantissa.  "At most prec bits" is FALSE for
    negative mantissas (truncation toward -infinity of -(2^129-1) is -2^128, 129 bits); no bound below needs it. *)
Theorem Base_Dnorm_mantissa_bound : forall m e : bigZ, (Z.abs (BigZ.to_Z (dm (Dnorm m e))) <= 2 ^ 128)%Z.
Proof. exact Dnorm_mantissa_bound. Qed.
Print Assumptions Base_Dnorm_mantissa_bound.
Theorem Base_Dnorm_mantissa_bound_pos : forall m e : bigZ, (0 <= BigZ.to_Z m)%Z ->
  (0 <= BigZ.to_Z (dm (Dnorm m e)) < 2 ^ 128)%Z.
Proof. exact Dnorm_mantissa_bound_pos. Qed.
Print Assumptions Base_Dnorm_mantissa_bound_pos.
Theorem Base_Dnorm_bits_refuted : exists m e : bigZ, BigZ.to_Z (bbits (dm (Dnorm m e))) = 129%Z.
Proof. exact Dnorm_bits_refuted. Qed.
Print Assumptions Base_Dnorm_bits_refuted.

(** ** 3. arithmetic: relative error <= 2^-127 per operation, for all inputs *)
Theorem Base_Dopp_exact : forall x : D, D2Q (Dopp x) == - D2Q x.
Proof. exact Dopp_spec. Qed.
Print Assumptions Base_Dopp_exact.

Theorem Base_Dmul_error : forall x y : D,
  Qabs (D2Q (Dmul x y) - D2Q x * D2Q y) <= 2 ^ (-127) * Qabs (D2Q x * D2Q y).
Proof. exact Dmul_spec. Qed.
Print Assumptions Base_Dmul_error.

(** includes the two shortcuts returning x (or y) unchanged when the binary magnitudes differ by more than 2*prec+4 *)
Theorem Base_Dadd_error : forall x y : D,
  Qabs (D2Q (Dadd x y) - (D2Q x + D2Q y)) <= 2 ^ (-127) * Qabs (D2Q x + D2Q y).
Proof. exact Dadd_spec. Qed.
Print Assumptions Base_Dadd_error.

Theorem Base_Dsub_error : forall x y : D,
  Qabs (D2Q (Dsub x y) - (D2Q x - D2Q y)) <= 2 ^ (-127) * Qabs (D2Q x - D2Q y).
Proof. exact Dsub_spec. Qed.
Print Assumptions Base_Dsub_error.

(** the truncating BigZ.div and the truncation of Dnorm together stay within one unit roundoff; the quotient is
    rounded toward -infinity *)
Theorem Base_Ddiv_error : forall x y : D, ~ D2Q y == 0 ->
  Qabs (D2Q (Ddiv x y) - D2Q x / D2Q y) <= 2 ^ (-127) * Qabs (D2Q x / D2Q y) /\
  D2Q (Ddiv x y) <= D2Q x / D2Q y.
Proof. exact Ddiv_spec. Qed.
Print Assumptions Base_Ddiv_error.

(** the model's totalisation: x / 0 = 0 *)
Theorem Base_Ddiv_by_zero : forall x y : D, D2Q y == 0 -> D2Q (Ddiv x y) == 0.
Proof. exact Ddiv_zero_spec. Qed.
Print Assumptions Base_Ddiv_by_zero.

(** ** conversions into D: float64 inputs (mantissa < 2^53) and integers below 2^128 enter exactly *)
Theorem Base_DofZ_error : forall z : Z, Qabs (D2Q (DofZ z) - inject_Z z) <= 2 ^ (-127) * Qabs (inject_Z z).
Proof. exact DofZ_spec. Qed.
Print Assumptions Base_DofZ_error.
Theorem Base_DofZ_exact : forall z : Z, (Z.abs z < 2 ^ 128)%Z -> D2Q (DofZ z) == inject_Z z.
Proof. exact DofZ_exact. Qed.
Print Assumptions Base_DofZ_exact.

Theorem Base_ZZ2D_error : forall m e : Z,
  Qabs (D2Q (ZZ2D (m, e)) - inject_Z m * 2 ^ e) <= 2 ^ (-127) * Qabs (inject_Z m * 2 ^ e).
Proof. exact ZZ2D_spec. Qed.
Print Assumptions Base_ZZ2D_error.
Theorem Base_ZZ2D_exact : forall m e : Z, (Z.abs m < 2 ^ 128)%Z -> D2Q (ZZ2D (m, e)) == inject_Z m * 2 ^ e.
Proof. exact ZZ2D_exact. Qed.
Print Assumptions Base_ZZ2D_exact.

Theorem Base_Q2D_error : forall x : Q, Qabs (D2Q (Q2D x) - x) <= 2 ^ (-127) * Qabs x.
Proof. exact Q2D_spec. Qed.
Print Assumptions Base_Q2D_error.
Theorem Base_Q2D_exact : forall (x : Q) (k : Z), (0 <= k)%Z -> Zpos (Qden x) = (2 ^ k)%Z ->
  (Z.abs (Qnum x) < 2 ^ 128)%Z -> D2Q (Q2D x) == x.
Proof. exact Q2D_exact. Qed.
Print Assumptions Base_Q2D_exact.

(** ** 4. comparisons are exact *)
Theorem Base_Dcmp_exact : forall x y : D, Dcmp x y = (D2Q x ?= D2Q y).
Proof. exact Dcmp_spec. Qed.
Print Assumptions Base_Dcmp_exact.

Theorem Base_Dleb_exact : forall x y : D, Dleb x y = true <-> D2Q x <= D2Q y.
Proof. exact Dleb_spec. Qed.
Print Assumptions Base_Dleb_exact.
Theorem Base_Deqb_exact : forall x y : D, Deqb x y = true <-> D2Q x == D2Q y.
Proof. exact Deqb_spec. Qed.
Print Assumptions Base_Deqb_exact.

(** the tests of the dictionary NumD are the tests of the exact dictionary NumQ on the denotations *)
Theorem Base_NumD_tests_are_NumQ_tests : forall x y : D,
  @nleb D NumD x y = @nleb Q NumQ (D2Q x) (D2Q y) /\ @neqb D NumD x y = @neqb Q NumQ (D2Q x) (D2Q y).
Proof. exact (fun x y => conj (Dleb_Qle_bool x y) (Deqb_Qeq_bool x y)). Qed.
Print Assumptions Base_NumD_tests_are_NumQ_tests.

(** ** 5. the standard model of floating-point arithmetic, on the methods of the dictionary NumD *)
Theorem Base_NumD_faithful : forall x y : D,
  (exists d, Qabs d <= 2 ^ (-127) /\ D2Q (@nadd D NumD x y) == (D2Q x + D2Q y) * (1 + d)) /\
  (exists d, Qabs d <= 2 ^ (-127) /\ D2Q (@nsub D NumD x y) == (D2Q x - D2Q y) * (1 + d)) /\
  (exists d, Qabs d <= 2 ^ (-127) /\ D2Q (@nmul D NumD x y) == (D2Q x * D2Q y) * (1 + d)) /\
  (~ D2Q y == 0 -> exists d, Qabs d <= 2 ^ (-127) /\ D2Q (@ndiv D NumD x y) == (D2Q x / D2Q y) * (1 + d)) /\
  (D2Q y == 0 -> D2Q (@ndiv D NumD x y) == 0) /\
  D2Q (@nopp D NumD x) == - D2Q x.
Proof. exact NumD_faithful. Qed.
Print Assumptions Base_NumD_faithful.

Theorem Base_NumD_constants : D2Q (@n0 D NumD) == 0 /\ D2Q (@n1 D NumD) == 1 /\
  forall z : Z, (Z.abs z < 2 ^ 128)%Z -> D2Q (@nofZ D NumD z) == inject_Z z.
Proof. exact NumD_constants. Qed.
Print Assumptions Base_NumD_constants.

(** ** 5b. the verdict function of the correspondence checks *)
(** [Q2D] (used for the tolerance) rounds toward -infinity *)
Theorem Base_Q2D_le : forall x : Q, D2Q (Q2D x) <= x.
Proof. exact Q2D_le. Qed.
Print Assumptions Base_Q2D_le.

(** [Dscale a b], the scale [Dlists_close] uses: an upper bound of every |entry| of both lists, positive, and either
    the constant 1 (when all entries are 0) or EQUAL to the absolute value of one of the entries *)
Theorem Base_Dscale_spec : forall a b : list D,
  (forall x, List.In x a -> Qabs (D2Q x) <= D2Q (Dscale a b)) /\
  (forall y, List.In y b -> Qabs (D2Q y) <= D2Q (Dscale a b)) /\
  0 < D2Q (Dscale a b) /\
  (Dscale a b = mkD b1 b0 \/ exists x, List.In x (a ++ b) /\ D2Q (Dscale a b) == Qabs (D2Q x)).
Proof. exact Dscale_spec. Qed.
Print Assumptions Base_Dscale_spec.

(** soundness of a [true] verdict: equal lengths and every entrywise difference of the EXACT denotations is within
    tol * scale / (1 - 2^-127) (the subtraction, the product tol * scale and the conversion of tol all round in the
    safe direction or are accounted for) *)
Theorem Base_Dlists_close_sound : forall (tol : Q) (a b : list D), fst (Dlists_close tol a b) = true ->
  length a = length b /\
  List.Forall2 (fun x y => (1 - 2 ^ (-127)) * Qabs (D2Q x - D2Q y) <= tol * D2Q (Dscale a b)) a b.
Proof. exact Dlists_close_sound. Qed.
Print Assumptions Base_Dlists_close_sound.

(** ** 6. transcendental slots *)
(** one rounding of the rational function of Base/NumQ.v applied to the exact denotation *)
Theorem Base_NumD_nexp_rounding : forall x : D,
  Qabs (D2Q (@nexp D NumD x) - Qexp (D2Q x)) <= 2 ^ (-127) * Qabs (Qexp (D2Q x)).
Proof. exact NumD_nexp_rounding. Qed.
Print Assumptions Base_NumD_nexp_rounding.
Theorem Base_NumD_nln_rounding : forall x : D,
  Qabs (D2Q (@nln D NumD x) - Qln (D2Q x)) <= 2 ^ (-127) * Qabs (Qln (D2Q x)).
Proof. exact NumD_nln_rounding. Qed.
Print Assumptions Base_NumD_nln_rounding.

(** Qexp against the real exponential: never above it for a >= 0, below by at most 2^k (2^-119 + 106 2^-160) relative,
    k = the number of squarings; on |x| <= 2^16 (k <= 18) the relative error is <= 2^-99 *)
Theorem Base_Qexp_pos_error : forall a : Q, (0 <= Qnum a)%Z ->
  (exp (Q2R a) * (1 - 2 ^ Z.to_nat (Qexp_k a) * (/ 2 ^ 119 + 106 / 2 ^ 160)) <= Q2R (Qexp_pos a) <= exp (Q2R a))%R.
Proof. exact Qexp_pos_spec'. Qed.
Print Assumptions Base_Qexp_pos_error.

Theorem Base_Qexp_error : forall x : Q, Qabs x <= 65536 ->
  (Rabs (Q2R (Qexp x) - exp (Q2R x)) <= exp (Q2R x) / 2 ^ 99)%R.
Proof. exact Qexp_spec. Qed.
Print Assumptions Base_Qexp_error.

Theorem Base_NumD_nexp_error : forall x : D, Qabs (D2Q x) <= 65536 ->
  (Rabs (Q2R (D2Q (@nexp D NumD x)) - exp (Q2R (D2Q x))) <= exp (Q2R (D2Q x)) / 2 ^ 98)%R.
Proof. exact NumD_nexp_spec. Qed.
Print Assumptions Base_NumD_nexp_error.

(** ** 7. the logarithm [Qln], the fast exponentials and logarithm (trusted-base reduction, part 2)
    Proofs: Proofs/FixSeries.v (fixed-point series with p fractional bits, signed invariants, atanh remainder by the
    mean value theorem, binary argument reduction), Proofs/QlnSpec.v, Proofs/FastSpec.v, Proofs/FastLnSpec.v.
    All bounds are against Coq's real [exp] / [ln]; constants (ln 2 to 160 bits, Taylor remainders) are checked by
    the [interval] tactic at explicit precision. *)
From Dadi Require Import Proofs.FixSeries Proofs.QlnSpec Model.QFast Model.DFast Proofs.FastSpec Proofs.FastLnSpec.
Local Open Scope Q_scope.

(** the 160-bit constant ln 2 of Base/NumQ.v (true error 44.45 2^-160) *)
Theorem Base_fln2_error : (Rabs (IZR NumQ.fln2 / 2 ^ 160 - ln 2) <= 45 / 2 ^ 160)%R.
Proof. exact (eq_ind _ (fun u => (Rabs (IZR NumQ.fln2 / u - ln 2) <= 45 / u)%R) QlnSpec.fln2_spec _ QexpSpec.U_val). Qed.
Print Assumptions Base_fln2_error.
Theorem Base_Qln2_error : (Rabs (Q2R Qln2 - ln 2) <= 45 / 2 ^ 160)%R.
Proof. exact QlnSpec.Qln2_spec. Qed.
Print Assumptions Base_Qln2_error.

(** Qln against the real logarithm: ABSOLUTE error (226 + 45 |e|) 2^-160 for every positive rational,
    e = log2 num - log2 den the binary reduction exponent; <= 2^-144 on [2^-1024, 2^1024] *)
Theorem Base_Qln_error_gen : forall x : Q, (0 < Qnum x)%Z ->
  (Rabs (Q2R (Qln x) - ln (Q2R x)) <= (226 + 45 * IZR (Z.abs (Z.log2 (Qnum x) - Z.log2 (Zpos (Qden x))))) / 2 ^ 160)%R.
Proof. exact QlnSpec.Qln_spec_gen. Qed.
Print Assumptions Base_Qln_error_gen.

Theorem Base_Qln_error : forall x : Q, / inject_Z (2 ^ 1024) <= x -> x <= inject_Z (2 ^ 1024) ->
  (Rabs (Q2R (Qln x) - ln (Q2R x)) <= / 2 ^ 144)%R.
Proof. exact QlnSpec.Qln_spec. Qed.
Print Assumptions Base_Qln_error.

(** the model's totalisation: ln of a non-positive rational is 0 *)
Theorem Base_Qln_nonpos : forall x : Q, (Qnum x <= 0)%Z -> Qln x = 0.
Proof. exact QlnSpec.Qln_nonpos. Qed.
Print Assumptions Base_Qln_nonpos.

(** "relative error below 2^-100" (comment in Base/NumQ.v) is FALSE for Qln near 1 (the logarithm vanishes, the
    absolute error does not): Qln (1 + 2^-200) = 0.  It holds wherever |ln x| >= 2^-44. *)
Theorem Base_Qln_relative_refuted : exists x : Q, 1 < x /\ x <= 2 /\ Qln x = 0 /\ (0 < ln (Q2R x))%R.
Proof. exact QlnSpec.Qln_relative_refuted. Qed.
Print Assumptions Base_Qln_relative_refuted.
Theorem Base_Qln_relative_away : forall x : Q, / inject_Z (2 ^ 1024) <= x -> x <= inject_Z (2 ^ 1024) ->
  (/ 2 ^ 44 <= Rabs (ln (Q2R x)))%R -> (Rabs (Q2R (Qln x) - ln (Q2R x)) <= Rabs (ln (Q2R x)) / 2 ^ 100)%R.
Proof. exact QlnSpec.Qln_relative_away. Qed.
Print Assumptions Base_Qln_relative_away.

(** the [nln] slot of NumD (one rounding of Qln): absolute error <= 2^-117 on [2^-1024, 2^1024] (|ln x| <= 710) *)
Theorem Base_NumD_nln_error : forall x : D, / inject_Z (2 ^ 1024) <= D2Q x -> D2Q x <= inject_Z (2 ^ 1024) ->
  (Rabs (Q2R (D2Q (@nln D NumD x)) - ln (Q2R (D2Q x))) <= / 2 ^ 117)%R.
Proof. exact QlnSpec.NumD_nln_spec. Qed.
Print Assumptions Base_NumD_nln_error.

(** [Dexp_fast] (Model/DFast.v, Bignums; the [nexp] slot of NumDF on which the C01 correspondence runs): relative
    error <= 2^-126 on |x| <= 2^16, for every input (normalised or not), including the final Dnorm rounding and the
    two shortcuts (x = 0, |x| < 2^-171) *)
Theorem Base_Dexp_fast_error : forall x : D, Qabs (D2Q x) <= 65536 ->
  (Rabs (Q2R (D2Q (Dexp_fast x)) - exp (Q2R (D2Q x))) <= exp (Q2R (D2Q x)) / 2 ^ 126)%R.
Proof. exact FastSpec.Dexp_fast_spec. Qed.
Print Assumptions Base_Dexp_fast_error.
Theorem Base_NumDF_nexp_error : forall x : D, Qabs (D2Q x) <= 65536 ->
  (Rabs (Q2R (D2Q (@nexp D NumDF x)) - exp (Q2R (D2Q x))) <= exp (Q2R (D2Q x)) / 2 ^ 126)%R.
Proof. exact FastSpec.NumDF_nexp_spec. Qed.
Print Assumptions Base_NumDF_nexp_error.
Theorem Base_NumDF_nln_error : forall x : D, / inject_Z (2 ^ 1024) <= D2Q x -> D2Q x <= inject_Z (2 ^ 1024) ->
  (Rabs (Q2R (D2Q (@nln D NumDF x)) - ln (Q2R (D2Q x))) <= / 2 ^ 117)%R.
Proof. exact FastSpec.NumDF_nln_spec. Qed.
Print Assumptions Base_NumDF_nln_error.

(** [Qexp_fast] (Model/QFast.v, the [nexp] slot of NumQfast used by C11): relative error (133 + B/10) 2^-96 on
    |x| <= B <= 2^64: 2^-88 on |x| <= 1024, 2^-84 (the accuracy claimed in QFast.v) on |x| <= 2^15 *)
Theorem Base_Qexp_fast_error_gen : forall (x : Q) (B : R), (Rabs (Q2R x) <= B)%R -> (B <= 2 ^ 64)%R ->
  (Rabs (Q2R (Qexp_fast x) - exp (Q2R x)) <= (133 + B / 10) / 2 ^ 96 * exp (Q2R x))%R.
Proof. exact FastSpec.Qexp_fast_spec_gen. Qed.
Print Assumptions Base_Qexp_fast_error_gen.
Theorem Base_Qexp_fast_error : forall x : Q, Qabs x <= 1024 ->
  (Rabs (Q2R (@nexp Q NumQfast x) - exp (Q2R x)) <= exp (Q2R x) / 2 ^ 88)%R.
Proof. exact FastSpec.Qexp_fast_spec. Qed.
Print Assumptions Base_Qexp_fast_error.
Theorem Base_Qexp_fast_error_84 : forall x : Q, Qabs x <= 32768 ->
  (Rabs (Q2R (Qexp_fast x) - exp (Q2R x)) <= exp (Q2R x) / 2 ^ 84)%R.
Proof. exact FastSpec.Qexp_fast_spec_84. Qed.
Print Assumptions Base_Qexp_fast_error_84.

(** [Qln_fast] (the [nln] slot of NumQfast): absolute error (60 + |e|) 2^-96 for every positive rational (the table
    ln((2k+1)/64), k = 16..63, is tied to Qln by computation and Qln to ln by Base_Qln_error_gen);
    <= 2^-88 (the accuracy claimed in QFast.v) on [2^-195, 2^195] *)
Theorem Base_Qln_fast_error_gen : forall x : Q, (0 < Qnum x)%Z ->
  (Rabs (Q2R (Qln_fast x) - ln (Q2R x)) <= (60 + 1 * IZR (Z.abs (Z.log2 (Qnum x) - Z.log2 (Zpos (Qden x))))) / 2 ^ 96)%R.
Proof. exact FastLnSpec.Qln_fast_spec_gen. Qed.
Print Assumptions Base_Qln_fast_error_gen.
Theorem Base_Qln_fast_error : forall x : Q, / inject_Z (2 ^ 195) <= x -> x <= inject_Z (2 ^ 195) ->
  (Rabs (Q2R (@nln Q NumQfast x) - ln (Q2R x)) <= / 2 ^ 88)%R.
Proof. exact FastLnSpec.Qln_fast_spec. Qed.
Print Assumptions Base_Qln_fast_error.

(** sharper form of the NumD logarithm slot: the Qln error plus one relative rounding (2^-127) of the result *)
Theorem Base_NumD_nln_error_rel : forall x : D, / inject_Z (2 ^ 1024) <= D2Q x -> D2Q x <= inject_Z (2 ^ 1024) ->
  (Rabs (Q2R (D2Q (@nln D NumD x)) - ln (Q2R (D2Q x)))
   <= / 2 ^ 144 + / 2 ^ 127 * (Rabs (ln (Q2R (D2Q x))) + / 2 ^ 144))%R.
Proof. exact QlnSpec.NumD_nln_spec_rel. Qed.
Print Assumptions Base_NumD_nln_error_rel.
