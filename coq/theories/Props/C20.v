(** C20 — results are independent of call history; inputs are never modified in place.
    Only statements; every proof is [exact <lemma>]. *)
From Coq Require Import List ZArith Bool Arith Lia Permutation.
From Dadi Require Import Model.Memo Model.Heap Proofs.MemoProofs Proofs.HeapProofs.
Import ListNotations.

(** memoisation: a key that determines the value makes every history transparent ... *)
Theorem C20_memo_transparent : forall (call K result : Type) (key : call -> K)
  (Kdec : forall a b : K, {a = b} + {a <> b}) (f : call -> result),
  (forall c1 c2, key c1 = key c2 -> f c1 = f c2) ->
  forall h, results key Kdec f h = map f h.
Proof. exact memo_transparent. Qed.
Print Assumptions C20_memo_transparent.

(** ... and the dictionary holds exactly the keys of the calls made, each once, each with f of its call *)
Theorem C20_cache_contents : forall (call K result : Type) (key : call -> K)
  (Kdec : forall a b : K, {a = b} + {a <> b}) (f : call -> result) h,
  (forall e, In e (fst (run key Kdec f [] h)) -> exists x, In x h /\ e = (key x, f x)) /\
  (forall k, In k (keys_of (fst (run key Kdec f [] h))) <-> In k (map key h)) /\
  NoDup (keys_of (fst (run key Kdec f [] h))).
Proof. exact cache_contents. Qed.
Print Assumptions C20_cache_contents.

(** ... the converse: a key that forgets an argument the value depends on answers some history wrongly *)
Theorem C20_incomplete_key_refuted : forall (call K result : Type) (key : call -> K)
  (Kdec : forall a b : K, {a = b} + {a <> b}) (f : call -> result),
  (exists c1 c2, key c1 = key c2 /\ f c1 <> f c2) -> exists h, results key Kdec f h <> map f h.
Proof. exact incomplete_key_refuted. Qed.
Print Assumptions C20_incomplete_key_refuted.

(** the near-collision pair test of the check (two calls that differ in ONE argument and in their value, run one after
    the other from an empty dictionary): both are answered correctly exactly when the key tells them apart ... *)
Theorem C20_near_collision_pair_decides : forall (call K result : Type) (key : call -> K)
  (Kdec : forall a b : K, {a = b} + {a <> b}) (f : call -> result) c1 c2, f c1 <> f c2 ->
  (results key Kdec f [c1; c2] = map f [c1; c2] <-> key c1 <> key c2).
Proof. exact near_collision_pair_decides. Qed.
Print Assumptions C20_near_collision_pair_decides.

(** ... and the two-call histories are a complete test: the key is incomplete iff some pair is answered wrongly *)
Theorem C20_key_incomplete_iff_some_pair_fails : forall (call K result : Type) (key : call -> K)
  (Kdec : forall a b : K, {a = b} + {a <> b}) (f : call -> result),
  (exists c1 c2, key c1 = key c2 /\ f c1 <> f c2) <-> (exists c1 c2, results key Kdec f [c1; c2] <> map f [c1; c2]).
Proof. exact key_incomplete_iff_some_pair_fails. Qed.
Print Assumptions C20_key_incomplete_iff_some_pair_fails.

(** a module-level SETTING read by the memoised function (dadi.Integration.timescale_factor, re-bound by plain attribute
    assignment) is part of the call for the purpose of key completeness: call = (setting, arguments).
    A key that keeps the setting is transparent ... *)
Theorem C20_setting_in_key_transparent : forall (S A KA result : Type) (akey : A -> KA) (g : S -> A -> result)
  (S_dec : forall a b : S, {a = b} + {a <> b}) (KA_dec : forall a b : KA, {a = b} + {a <> b}),
  (forall s a1 a2, akey a1 = akey a2 -> g s a1 = g s a2) ->
  forall h : list (st_call S A), results (st_key_full akey) (dec_st_full S KA S_dec KA_dec) (st_f g) h = map (st_f g) h.
Proof. exact setting_in_key_transparent. Qed.
Print Assumptions C20_setting_in_key_transparent.

(** ... a memo keyed on the arguments only is NOT: the same call under two values of the setting, one after the other, returns
    the first value twice (the setting-collision pair of the check; the refutation instance) ... *)
Theorem C20_setting_outside_key_refuted : forall (S A KA result : Type) (akey : A -> KA) (g : S -> A -> result)
  (KA_dec : forall a b : KA, {a = b} + {a <> b}) s1 s2 a, g s1 a <> g s2 a ->
  ~ key_complete (st_key_args (S := S) akey) (st_f g) /\
  results (st_key_args akey) KA_dec (st_f g) [(s1, a); (s2, a)] = [g s1 a; g s1 a] /\
  results (st_key_args akey) KA_dec (st_f g) [(s1, a); (s2, a)] <> map (st_f g) [(s1, a); (s2, a)].
Proof. exact setting_outside_key_refuted_pair. Qed.
Print Assumptions C20_setting_outside_key_refuted.

(** ... as a user program: call, `module.setting = s2` by plain assignment, the same call - the old value is replayed; a setter
    that empties the memo repairs the next call but not the one after the value is restored by plain assignment ... *)
Theorem C20_plain_assignment_replays : forall (S A KA result : Type) (akey : A -> KA) (g : S -> A -> result)
  (KA_dec : forall a b : KA, {a = b} + {a <> b}) s1 s2 a, g s1 a <> g s2 a ->
  st_prun akey g KA_dec s1 [] [Call a; Assign s2; Call a] = [g s1 a; g s1 a] /\
  st_prun akey g KA_dec s1 [] [Call a; Assign s2; Call a] <> st_pspec g s1 [Call a; Assign s2; Call a].
Proof. exact plain_assignment_replays. Qed.

Theorem C20_setter_then_plain_restore_replays : forall (S A KA result : Type) (akey : A -> KA) (g : S -> A -> result)
  (KA_dec : forall a b : KA, {a = b} + {a <> b}) s1 s2 a, g s1 a <> g s2 a ->
  st_prun akey g KA_dec s1 [] [Call a; Setter s2; Call a; Assign s1; Call a] = [g s1 a; g s2 a; g s2 a] /\
  st_pspec g s1 [Call a; Setter s2; Call a; Assign s1; Call a] = [g s1 a; g s2 a; g s1 a].
Proof. exact setter_then_plain_restore_replays. Qed.

(** ... and only programs that never assign the setting directly are safe with such a memo *)
Theorem C20_setter_only_program_transparent : forall (S A KA result : Type) (akey : A -> KA) (g : S -> A -> result)
  (KA_dec : forall a b : KA, {a = b} + {a <> b}), (forall s a1 a2, akey a1 = akey a2 -> g s a1 = g s a2) ->
  forall p s c, st_no_assign p = true -> cache_ok akey KA_dec (g s) c -> st_prun akey g KA_dec s c p = st_pspec g s p.
Proof. exact setter_only_program_transparent. Qed.
Print Assumptions C20_setter_only_program_transparent.

Theorem C20_setting_memo_refuted_instance :
  exists (g : nat -> nat -> nat) (p : list (st_event nat nat)),
    st_prun (fun a => a) g Nat.eq_dec 10 [] p <> st_pspec g 10 p.
Proof. exact setting_memo_refuted_instance. Qed.
Print Assumptions C20_setting_memo_refuted_instance.

(** the six numeric caches of dadi (Numerics._multinomln_cache, _BetaBinomln_cache, _part_cache, _part_precalc_cache,
    _projection_cache, Spectrum_mod._dbeta_cache): the key is the whole argument list, every history is transparent;
    special functions are oracles *)
Theorem C20_dadi_numeric_caches_transparent : forall (V : Type) (gammaln : Z -> V) (betaln : V -> V -> V)
  (lncomb : Z -> Z -> V) (betainc : Z -> Z -> V -> V) (vadd vsub : V -> V -> V) (vexp : V -> V) (vofZ : Z -> V) (v0 : V)
  (clip01 : V -> V) (Vdec : forall a b : V, {a = b} + {a <> b}),
  (forall h, results (@multinomln_key) dec_multinomln (multinomln_f V gammaln vsub) h = map (multinomln_f V gammaln vsub) h) /\
  (forall h, results (bb_key V) (dec_bb V Vdec) (bb_f V betaln lncomb vadd vsub vofZ) h = map (bb_f V betaln lncomb vadd vsub vofZ) h) /\
  (forall h, results part_key dec_part part_f h = map part_f h) /\
  (forall h, results part_key dec_part (part_precalc_f V gammaln vsub) h = map (part_precalc_f V gammaln vsub) h) /\
  (forall h, results proj_key dec_proj (proj_f V lncomb vadd vsub vexp v0) h = map (proj_f V lncomb vadd vsub vexp v0) h) /\
  (forall h, results (dbeta_key V) (dec_dbeta V Vdec) (dbeta_f V betainc vsub clip01) h = map (dbeta_f V betainc vsub clip01) h).
Proof. exact dadi_numeric_caches_transparent. Qed.
Print Assumptions C20_dadi_numeric_caches_transparent.

(** _dbeta_cache: the key is the grid as passed, the value is computed from the clipped grid *)
Theorem C20_key_complete_dbeta_cache : forall (V : Type) (betainc : Z -> Z -> V -> V) (vsub : V -> V -> V) (clip01 : V -> V)
  (c1 c2 : dbeta_call V), dbeta_key V c1 = dbeta_key V c2 ->
  dbeta_f V betainc vsub clip01 c1 = dbeta_f V betainc vsub clip01 c2.
Proof. exact key_complete_dbeta_cache. Qed.

(** the closure-level cache of the low-pass wrapper *)
Theorem C20_key_complete_lowpass_precalc_cache : forall (Env Args Precalc : Type) (env : Env) (nsub : Env -> list Z)
  (precalc : Env -> Precalc) (a1 a2 : Args), lp_key Env Args env nsub a1 = lp_key Env Args env nsub a2 ->
  lp_f Env Args Precalc env precalc a1 = lp_f Env Args Precalc env precalc a2.
Proof. exact key_complete_lowpass_precalc_cache. Qed.

(** the same matrices in a dictionary SHARED by all generated low-pass functions (module level): transparent when the key
    keeps the whole environment of the generated function ... *)
Theorem C20_shared_cache_transparent : forall (Env Args KeyT Precalc : Type) (kproj : Env -> KeyT)
  (Kdec : forall a b : KeyT, {a = b} + {a <> b}) (precalc : Env -> Precalc),
  (forall e1 e2, kproj e1 = kproj e2 -> precalc e1 = precalc e2) ->
  forall h : list (sh_call Env Args), results (sh_key kproj) Kdec (sh_f precalc) h = map (sh_f precalc) h.
Proof. exact shared_cache_transparent. Qed.

Theorem C20_lowpass_shared_full_key_transparent : forall (Args Precalc : Type) (precalc : lp_env -> Precalc) (h : list (sh_call lp_env Args)),
  results (sh_key lp_key_full) dec_lp_full (sh_f precalc) h = map (sh_f precalc) h.
Proof. exact lowpass_shared_full_key_transparent. Qed.
Print Assumptions C20_lowpass_shared_full_key_transparent.

(** ... a key that confuses two environments answers the second generated function with the first one's matrices ... *)
Theorem C20_shared_cache_incomplete_key_refuted : forall (Env Args KeyT Precalc : Type) (kproj : Env -> KeyT)
  (Kdec : forall a b : KeyT, {a = b} + {a <> b}) (precalc : Env -> Precalc) e1 e2 (a1 a2 : Args),
  kproj e1 = kproj e2 -> precalc e1 <> precalc e2 ->
  results (sh_key kproj) Kdec (sh_f precalc) [(e1, a1); (e2, a2)] = [precalc e1; precalc e1] /\
  results (sh_key kproj) Kdec (sh_f precalc) [(e1, a1); (e2, a2)] <> map (sh_f precalc) [(e1, a1); (e2, a2)].
Proof. exact shared_cache_incomplete_key_refuted. Qed.

(** ... and [tuple(cov_dist)] (the population NAMES of the coverage dictionary) is such a key *)
Theorem C20_lowpass_shared_names_key_refuted :
  exists (precalc : lp_env -> list (nat * list Z)) (h : list (sh_call lp_env unit)),
    results (sh_key lp_key_names) dec_lp_names (sh_f precalc) h <> map (sh_f precalc) h.
Proof. exact lowpass_shared_names_key_refuted. Qed.
Print Assumptions C20_lowpass_shared_names_key_refuted.

(** Godambe.cache keyed by func_ex.__hash__(): with address reuse there is a history with a stale hit ... *)
Theorem C20_godambe_cache_key_refuted :
  exists (sem : nat -> list Z -> nat) (h : list gcall), gresults sem true h <> map (gspec sem) h.
Proof. exact godambe_cache_key_refuted. Qed.
Print Assumptions C20_godambe_cache_key_refuted.

(** ... for ANY two function objects that differ at a common parameter point ... *)
Theorem C20_godambe_stale_hit : forall (result : Type) (sem : nat -> list Z -> result) c1 c2 p, sem c1 p <> sem c2 p ->
  let h := [{| g_code := c1; g_points := [p] |}; {| g_code := c2; g_points := [p] |}] in
  gresults sem true h = [[sem c1 p]; [sem c1 p]] /\ gresults sem true h <> map (gspec sem) h.
Proof. exact godambe_stale_hit. Qed.

(** ... and a key that holds the function object itself (no address is ever reused) is transparent *)
Theorem C20_godambe_strong_ref_transparent : forall (result : Type) (sem : nat -> list Z -> result) h,
  gresults sem false h = map (gspec sem) h.
Proof. exact godambe_strong_ref_transparent. Qed.
Print Assumptions C20_godambe_strong_ref_transparent.

(** hash seed: a commutative-associative accumulation over a set / dict does not depend on the iteration order *)
Theorem C20_sum_over_set_order_irrelevant : forall (A B : Type) (op : B -> B -> B) (g : A -> B),
  (forall a b, op a b = op b a) -> (forall a b c, op a (op b c) = op (op a b) c) ->
  forall l1 l2, Permutation l1 l2 -> forall e,
  fold_left (fun acc a => op acc (g a)) l1 e = fold_left (fun acc a => op acc (g a)) l2 e.
Proof. exact sum_over_set_order_irrelevant. Qed.
Print Assumptions C20_sum_over_set_order_irrelevant.

(** integrator entry protocols *)
Theorem C20_copy_protocol_frames_input : forall (V : Type) (kern : list V -> list V) (h : heap V) p, p < length h ->
  let (h', q) := integ_copy kern h p in
  (forall a, a < length h -> read h' a = read h a) /\ q = length h /\ q <> p /\ read h' q = kern (read h p).
Proof. exact copy_protocol_frames_input. Qed.
Print Assumptions C20_copy_protocol_frames_input.

Theorem C20_copying_integrator_frames_also_at_T0 : forall (V : Type) (kern : list V -> list V) pr tzero (h : heap V) p,
  copies_at_entry pr = true -> p < length h ->
  let (h', q) := integrate kern pr tzero h p in
  (forall a, a < length h -> read h' a = read h a) /\ q = length h /\ q <> p.
Proof. exact copying_integrator_frames. Qed.

Theorem C20_inplace_protocol_aliases_refuted :
  exists (kern : list nat -> list nat) (h : heap nat) (p : nat), p < length h /\
    let (h', q) := integ_inplace kern h p in q = p /\ read h' p <> read h p.
Proof. exact inplace_protocol_aliases_refuted. Qed.
Print Assumptions C20_inplace_protocol_aliases_refuted.

Theorem C20_inplace_protocol_aliases_always : forall (V : Type) (kern : list V -> list V) (h : heap V) p, p < length h ->
  let (h', q) := integ_inplace kern h p in
  q = p /\ read h' p = kern (read h p) /\ (forall a, a <> p -> read h' a = read h a).
Proof. exact inplace_protocol_aliases. Qed.

Theorem C20_early_return_aliases : forall (V : Type) (kern : list V -> list V) (h : heap V) p,
  integrate kern inplace_protocol true h p = (h, p).
Proof. exact early_return_aliases. Qed.

(** adding the copy changes no value *)
Theorem C20_protocols_same_value : forall (V : Type) (kern : list V -> list V) (h : heap V) p, p < length h ->
  read (fst (integ_copy kern h p)) (snd (integ_copy kern h p)) =
  read (fst (integ_inplace kern h p)) (snd (integ_inplace kern h p)).
Proof. exact protocols_same_value. Qed.

(** memory layout *)
Theorem C20_copy_protocol_layout_independent : forall (V : Type) (d : V) (kern : list V -> list V) (h1 h2 : heap V) v1 v2,
  logical d h1 v1 = logical d h2 v2 ->
  logical d (fst (integ_copy_view d kern h1 v1)) (snd (integ_copy_view d kern h1 v1)) =
  logical d (fst (integ_copy_view d kern h2 v2)) (snd (integ_copy_view d kern h2 v2)).
Proof. exact copy_protocol_layout_independent. Qed.
Print Assumptions C20_copy_protocol_layout_independent.

Theorem C20_inplace_protocol_layout_refuted :
  exists (kern : list nat -> list nat) (h : heap nat) (v1 v2 : view),
    logical 0 h v1 = logical 0 h v2 /\
    logical 0 (fst (integ_inplace_view kern h v1)) (snd (integ_inplace_view kern h v1)) <>
    logical 0 (fst (integ_inplace_view kern h v2)) (snd (integ_inplace_view kern h v2)).
Proof. exact inplace_protocol_layout_refuted. Qed.

(** Spectrum.S(): save the mask, mask the corners, sum, restore *)
Theorem C20_save_mutate_restore_frames : forall (V R : Type) (mutate : list V -> list V) (observe : heap V -> R) (h : heap V) p,
  fst (save_mutate_restore mutate observe h p) = h.
Proof. exact save_mutate_restore_frames. Qed.

(** a Spectrum is a PAIR of buffers (data, mask).  The arithmetic operators (fs*c, c*fs, fs/c, fs+1, 1-fs, fs**2, fs*ndarray, ...)
    whose constructor call copies: every array that existed before is unchanged, BOTH buffers of the result are new addresses ... *)
Theorem C20_arith_copy_frames_both_buffers : forall (V : Type) (op : list V -> list V) (h : heap V) s,
  s_data s < length h -> s_mask s < length h ->
  let (h', r) := arith_copy op h s in
  (forall a, a < length h -> read h' a = read h a) /\
  length h <= s_data r /\ length h <= s_mask r /\ s_data r <> s_mask r /\
  s_data r < length h' /\ s_mask r < length h' /\
  read h' (s_data r) = op (read h (s_data s)) /\ read h' (s_mask r) = read h (s_mask s).
Proof. exact arith_copy_frames_both_buffers. Qed.
Print Assumptions C20_arith_copy_frames_both_buffers.

(** ... so whatever is later written through either buffer of the result (scaled.mask[1,:] = True, mask_corners(), acc += b)
    leaves the operand bit for bit what it was, and every later computation on it (any function of its data and mask: ll,
    ll_multinom, S, sum) returns what it returned before ... *)
Theorem C20_arith_copy_result_edit_frames_operand : forall (V : Type) (op : list V -> list V) (h : heap V) s,
  s_data s < length h -> s_mask s < length h ->
  let (h', r) := arith_copy op h s in
  forall b, (forall a, a < length h -> read (write h' (s_mask r) b) a = read h a) /\
            (forall a, a < length h -> read (write h' (s_data r) b) a = read h a).
Proof. exact arith_copy_result_edit_frames_operand. Qed.

Theorem C20_arith_copy_later_results_unchanged : forall (V : Type) (op : list V -> list V) (O : Type) (obs : list V -> list V -> O) (h : heap V) s,
  s_data s < length h -> s_mask s < length h ->
  let (h', r) := arith_copy op h s in
  forall b, observe_spectrum obs (write h' (s_mask r) b) s = observe_spectrum obs h s /\
            observe_spectrum obs (write h' (s_data r) b) s = observe_spectrum obs h s.
Proof. exact arith_copy_later_results_unchanged. Qed.
Print Assumptions C20_arith_copy_later_results_unchanged.

(** ... and the mirror: later writes through the operand's buffers leave both buffers of the result alone *)
Theorem C20_arith_copy_operand_edit_frames_result : forall (V : Type) (op : list V -> list V) (h : heap V) s,
  s_data s < length h -> s_mask s < length h ->
  let (h', r) := arith_copy op h s in
  forall b, read (write h' (s_mask s) b) (s_mask r) = read h' (s_mask r) /\
            read (write h' (s_mask s) b) (s_data r) = read h' (s_data r) /\
            read (write h' (s_data s) b) (s_mask r) = read h' (s_mask r) /\
            read (write h' (s_data s) b) (s_data r) = read h' (s_data r).
Proof. exact arith_copy_operand_edit_frames_result. Qed.

(** the constructor called with copy=False: the result's data is new but its mask address IS the operand's; a write through
    one is read back through the other ... *)
Theorem C20_arith_nocopy_shares_mask : forall (V : Type) (op : list V -> list V) (h : heap V) s,
  s_data s < length h -> s_mask s < length h ->
  let (h', r) := arith_nocopy op h s in
  s_mask r = s_mask s /\ s_data r = length h /\ read h' (s_data r) = op (read h (s_data s)) /\
  (forall a, a < length h -> read h' a = read h a) /\
  forall b, read (write h' (s_mask r) b) (s_mask s) = b /\ read (write h' (s_mask s) b) (s_mask r) = b.
Proof. exact arith_nocopy_shares_mask. Qed.

(** ... with the same VALUES as the copying constructor (no single call shows the difference) ... *)
Theorem C20_arith_protocols_same_value : forall (V : Type) (op : list V -> list V) (h : heap V) s,
  s_data s < length h -> s_mask s < length h ->
  read (fst (arith_copy op h s)) (s_data (snd (arith_copy op h s))) =
    read (fst (arith_nocopy op h s)) (s_data (snd (arith_nocopy op h s))) /\
  read (fst (arith_copy op h s)) (s_mask (snd (arith_copy op h s))) =
    read (fst (arith_nocopy op h s)) (s_mask (snd (arith_nocopy op h s))).
Proof. exact arith_protocols_same_value. Qed.

(** ... refuted as a history-independent protocol: masking an entry of the result changes sum() of the operand *)
Theorem C20_arith_nocopy_refuted :
  exists (op : list nat -> list nat) (h : heap nat) (s : spectrum) (b : list nat),
    s_data s < length h /\ s_mask s < length h /\
    let (h', r) := arith_nocopy op h s in
    s_mask r = s_mask s /\
    read (write h' (s_mask r) b) (s_mask s) <> read h (s_mask s) /\
    observe_spectrum msum (write h' (s_mask r) b) s <> observe_spectrum msum h s.
Proof. exact arith_nocopy_refuted. Qed.
Print Assumptions C20_arith_nocopy_refuted.

Theorem C20_arith_nocopy_aliases_always : forall (V : Type) (op : list V -> list V) (h : heap V) s b,
  s_data s < length h -> s_mask s < length h -> b <> read h (s_mask s) ->
  let (h', r) := arith_nocopy op h s in read (write h' (s_mask r) b) (s_mask s) <> read h (s_mask s).
Proof. exact arith_nocopy_aliases_always. Qed.

(** the operator protocol extracted from the source is history-independent exactly when its constructor copies *)
Theorem C20_arith_frames_iff_copies : forall pr : arith_protocol,
  (forall (h : heap nat) s b, s_data s < length h -> s_mask s < length h ->
     let (h', r) := arith (map (fun x => 2 * x)) pr h s in
     observe_spectrum msum (write h' (s_mask r) b) s = observe_spectrum msum h s) <-> ctor_copies pr = true.
Proof. exact arith_frames_iff_copies. Qed.
Print Assumptions C20_arith_frames_iff_copies.

(** non-vacuity: a three-call history through the projection cache repeats a key and is answered from the dictionary;
    the copy protocol on a two-array heap leaves both arrays alone and returns a third *)
Example C20_nonvacuous :
  nrun [] [(7, 70); (8, 80); (7, 70)]%N = ([(8, 80); (7, 70)], [70; 80; 70])%N /\
  integ_copy (map S) [[1; 2]; [5]] 0 = ([[1; 2]; [5]; [2; 3]], 2) /\
  integ_inplace (map S) [[1; 2]; [5]] 0 = ([[2; 3]; [5]], 0).
Proof. repeat split. Qed.

(** non-vacuity of the two-buffer model: fs = (data [3;5;7], mask [1;0;0]); 2*fs with the copying constructor returns data and
    mask at the new addresses 3 and 4 (2 is the temporary), with copy=False data at 2 and the operand's own mask address 1 *)
Example C20_arith_nonvacuous :
  arith_copy (map (fun x => 2 * x)) [[3; 5; 7]; [1; 0; 0]] {| s_data := 0; s_mask := 1 |} =
    ([[3; 5; 7]; [1; 0; 0]; [6; 10; 14]; [6; 10; 14]; [1; 0; 0]], {| s_data := 3; s_mask := 4 |}) /\
  arith_nocopy (map (fun x => 2 * x)) [[3; 5; 7]; [1; 0; 0]] {| s_data := 0; s_mask := 1 |} =
    ([[3; 5; 7]; [1; 0; 0]; [6; 10; 14]], {| s_data := 2; s_mask := 1 |}) /\
  observe_spectrum msum [[3; 5; 7]; [1; 0; 0]] {| s_data := 0; s_mask := 1 |} = 12.
Proof. repeat split. Qed.
