(** C04 — mass leaves only via fixation/loss.  Only statements; every proof is [exact <lemma>]. *)
From Coq Require Import Reals List Lra Lia Bool.
From Dadi Require Import Base.Num Base.NumR Model.Tridiag Model.Scheme Model.NDSweep
  Proofs.TridiagProofs Proofs.SchemeProofs Proofs.MassBalance Proofs.Drivers Proofs.NDLines Proofs.NDSweepProofs Proofs.NDWeights Proofs.IntegrateLinear Proofs.IntegrateRescale Proofs.SumLemmas Proofs.FrozenMarginal Proofs.FrozenStep Proofs.TotalMass
  Proofs.IsolatedLine Proofs.IsolatedSweep Proofs.IsolatedStep Proofs.StepMass.
Import ListNotations.
Local Open Scope R_scope.

(** dfactor is the reciprocal trapezoid weight, so interior fluxes telescope under the trapezoid rule *)
Theorem C04_dfactor_is_inverse_trapezoid_weight : forall xs, (2 <= length xs)%nat ->
  (forall i, (i < length xs - 1)%nat -> 0 < dx xs i) ->
  forall i, (i < length xs)%nat -> trap_w xs i * dfactor xs i = 1.
Proof. exact w_dfactor. Qed.

(** mass balance of one implicit step along a line: the trapezoid mass changes only by the outflow at the
    first and last grid point ... *)
Theorem C04_line_mass_balance : forall xs Vf Mf nu c0 c1 dt use_delj, (2 <= length xs)%nat ->
  (forall i, (i < length xs - 1)%nat -> 0 < dx xs i) -> dt <> 0 -> forall phi,
  nonzero (all_pivots (line_rows xs Vf Mf nu c0 c1 dt use_delj phi)) ->
  let u := line_solve xs Vf Mf nu c0 c1 dt use_delj phi in
  trapz xs phi = trapz xs u + dt * (out0 xs Mf nu c0 * nthF u 0 + out1 xs Mf nu c1 * nthF u (length xs - 1)).
Proof. exact line_mass_balance. Qed.
Print Assumptions C04_line_mass_balance.

(** ... which exists only where all other frequencies are 0 (resp. 1) and the drift-plus-selection term points outward *)
Theorem C04_outflow_at_loss_corner : forall xs Mf nu c0, (2 <= length xs)%nat ->
  (forall i, (i < length xs - 1)%nat -> 0 < dx xs i) ->
  out0 xs Mf nu c0 = if c0 && Rleb (Mf (x xs 0)) 0 then 1 / 2 / nu - Mf (x xs 0) else 0.
Proof. exact out0_value. Qed.
Theorem C04_outflow_at_fixation_corner : forall xs Mf nu c1, (2 <= length xs)%nat ->
  (forall i, (i < length xs - 1)%nat -> 0 < dx xs i) ->
  out1 xs Mf nu c1 = if c1 && Rleb 0 (Mf (x xs (length xs - 1))) then 1 / 2 / nu + Mf (x xs (length xs - 1)) else 0.
Proof. exact out1_value. Qed.

(** on every line that is not a corner line the step conserves the line's mass exactly: this is what keeps the
    marginal density of the swept population's complement unchanged at interior frequencies *)
Theorem C04_mass_conserved_off_corner : forall xs Vf Mf nu c0 c1 dt use_delj, (2 <= length xs)%nat ->
  (forall i, (i < length xs - 1)%nat -> 0 < dx xs i) -> dt <> 0 -> forall phi,
  c0 = false -> c1 = false ->
  nonzero (all_pivots (line_rows xs Vf Mf nu c0 c1 dt use_delj phi)) ->
  trapz xs (line_solve xs Vf Mf nu c0 c1 dt use_delj phi) = trapz xs phi.
Proof. exact line_mass_conserved_off_corner. Qed.

(** d dimensions, any axis k: integrating population k out (trapezoid rule) before and after its sweep gives the same
    joint density of the other populations at every point that is not the all-0 or the all-1 corner *)
Theorem C04_sweep_preserves_marginal_off_corners : forall shape grids pops k p, nth_error pops k = Some p ->
  length (nth k grids []) = ax_len shape k -> forall dt dj phi o q, (2 <= ax_len shape k)%nat ->
  (forall i, (i < length (nth k grids []) - 1)%nat -> 0 < dx (nth k grids []) i) -> dt <> 0 ->
  (o < ax_outer shape k)%nat -> (q < ax_inner shape k)%nat ->
  corner0 shape grids k o q = false -> corner1 shape grids k o q = false ->
  nonzero (all_pivots (line_rows (nth k grids []) (Vfunc_beta (p_nu p) (p_beta p)) (Mline shape grids k p o q) (p_nu p) false false dt dj (get_line shape k phi o q))) ->
  trapz (nth k grids []) (get_line shape k (sweep shape grids pops k dt dj phi) o q) = trapz (nth k grids []) (get_line shape k phi o q).
Proof. exact sweep_preserves_marginal_off_corners. Qed.
Print Assumptions C04_sweep_preserves_marginal_off_corners.

(** ... and at those two corners the loss is dt * outflow * density at the end point of the corner line *)
Theorem C04_sweep_mass_balance_on_every_line : forall shape grids pops k p, nth_error pops k = Some p ->
  length (nth k grids []) = ax_len shape k -> forall dt dj phi o q, (2 <= ax_len shape k)%nat ->
  (forall i, (i < length (nth k grids []) - 1)%nat -> 0 < dx (nth k grids []) i) -> dt <> 0 ->
  (o < ax_outer shape k)%nat -> (q < ax_inner shape k)%nat ->
  nonzero (all_pivots (line_rows (nth k grids []) (Vfunc_beta (p_nu p) (p_beta p)) (Mline shape grids k p o q) (p_nu p)
                                 (corner0 shape grids k o q) (corner1 shape grids k o q) dt dj (get_line shape k phi o q))) ->
  let u := get_line shape k (sweep shape grids pops k dt dj phi) o q in
  trapz (nth k grids []) (get_line shape k phi o q) =
  trapz (nth k grids []) u + dt * (out0 (nth k grids []) (Mline shape grids k p o q) (p_nu p) (corner0 shape grids k o q) * nthF u 0
                                  + out1 (nth k grids []) (Mline shape grids k p o q) (p_nu p) (corner1 shape grids k o q) * nthF u (length (nth k grids []) - 1)).
Proof. exact sweep_mass_balance_line. Qed.

(** the trapezoid-marginal density of population f at a frequency strictly inside (0,1) is unchanged by the sweep of
    any OTHER population k, whatever k's size, selection, dominance and migration (any dimension) *)
Theorem C04_sweep_preserves_marginal_of_other_population : forall shape grids pops k f i p,
  (k < length shape)%nat -> (f < length shape)%nat -> f <> k -> nth_error pops k = Some p ->
  length (nth k grids []) = ax_len shape k -> (2 <= ax_len shape k)%nat ->
  (forall j, (j < length (nth k grids []) - 1)%nat -> 0 < dx (nth k grids []) j) -> length grids = length shape ->
  nthF (nth f grids []) i <> 0 /\ nthF (nth f grids []) i <> 1 ->
  forall dt, dt <> 0 -> forall dj phi,
  (forall o q, (o < ax_outer shape k)%nat -> (q < ax_inner shape k)%nat ->
     nonzero (all_pivots (line_rows (nth k grids []) (Vfunc_beta (p_nu p) (p_beta p)) (Mline shape grids k p o q) (p_nu p)
                                    (corner0 shape grids k o q) (corner1 shape grids k o q) dt dj (get_line shape k phi o q)))) ->
  marginal_at shape grids f i (sweep shape grids pops k dt dj phi) = marginal_at shape grids f i phi.
Proof. exact sweep_preserves_marginal_of_other_population. Qed.

(** frozen_marginal_exact: a frozen population's marginal density at every interior frequency is unchanged by a whole
    integration (mutation influx + sweeps of all non-frozen populations, any number of time steps and populations) *)
Theorem C04_frozen_marginal_exact : forall shape grids pops f i pf dj tf,
  wf_pops shape pops -> length grids = length shape -> (forall n, In n shape -> (2 <= n)%nat) ->
  (forall k, (k < length shape)%nat ->
     length (nth k grids []) = ax_len shape k /\ (2 <= ax_len shape k)%nat /\
     (forall j, (j < length (nth k grids []) - 1)%nat -> 0 < dx (nth k grids []) j)) ->
  (f < length shape)%nat -> nth_error pops f = Some pf -> p_frozen pf = true -> i <> 0%nat ->
  nthF (nth f grids []) i <> 0 /\ nthF (nth f grids []) i <> 1 ->
  0 < tf -> (forall dt, 0 < dt -> nonsingular shape grids pops dj dt) ->
  forall fuel theta t T phi res,
  integrate_const fuel shape grids pops theta tf dj t T phi = Some res ->
  marginal_at shape grids f i res = marginal_at shape grids f i phi.
Proof. exact integrate_preserves_frozen_marginal. Qed.
Print Assumptions C04_frozen_marginal_exact.

(** the same under the time-dependent driver: every parameter of the other populations and theta0 may be functions of time *)
Theorem C04_frozen_marginal_exact_timedep : forall shape grids popsf thetaf f i dj tf,
  (forall s, wf_pops shape (popsf s)) -> length grids = length shape -> (forall n, In n shape -> (2 <= n)%nat) ->
  (forall k, (k < length shape)%nat ->
     length (nth k grids []) = ax_len shape k /\ (2 <= ax_len shape k)%nat /\
     (forall j, (j < length (nth k grids []) - 1)%nat -> 0 < dx (nth k grids []) j)) ->
  (f < length shape)%nat -> (forall s, exists pf, nth_error (popsf s) f = Some pf /\ p_frozen pf = true) -> i <> 0%nat ->
  nthF (nth f grids []) i <> 0 /\ nthF (nth f grids []) i <> 1 ->
  0 < tf -> (forall s dt, 0 < dt -> nonsingular shape grids (popsf s) dj dt) ->
  forall fuel t T phi res,
  integrate_tdep fuel shape grids popsf thetaf tf dj t T phi = Some res ->
  marginal_at shape grids f i res = marginal_at shape grids f i phi.
Proof. exact integrate_tdep_preserves_frozen_marginal. Qed.

(** total trapezoid mass of a d-dimensional density: a sweep of population k changes it only by dt times the
    outflow on its lines, and the outflow coefficients vanish on every line that is not an all-0 / all-1 corner line *)
Theorem C04_sweep_total_mass_balance : forall shape grids pops k p, (k < length shape)%nat -> nth_error pops k = Some p ->
  length (nth k grids []) = ax_len shape k -> (2 <= ax_len shape k)%nat ->
  (forall j, (j < length (nth k grids []) - 1)%nat -> 0 < dx (nth k grids []) j) ->
  forall dt, dt <> 0 -> forall dj phi,
  (forall o q, (o < ax_outer shape k)%nat -> (q < ax_inner shape k)%nat ->
     nonzero (all_pivots (line_rows (nth k grids []) (Vfunc_beta (p_nu p) (p_beta p)) (Mline shape grids k p o q) (p_nu p)
                                    (corner0 shape grids k o q) (corner1 shape grids k o q) dt dj (get_line shape k phi o q)))) ->
  total_mass shape grids phi =
  total_mass shape grids (sweep shape grids pops k dt dj phi)
  + dt * rsum (ax_outer shape k) (fun o => rsum (ax_inner shape k) (fun q =>
      Wother shape grids k o q * (out0 (nth k grids []) (Mline shape grids k p o q) (p_nu p) (corner0 shape grids k o q)
                      * nthF (get_line shape k (sweep shape grids pops k dt dj phi) o q) 0
                    + out1 (nth k grids []) (Mline shape grids k p o q) (p_nu p) (corner1 shape grids k o q)
                      * nthF (get_line shape k (sweep shape grids pops k dt dj phi) o q) (length (nth k grids []) - 1)))).
Proof. exact sweep_total_mass_balance. Qed.
Theorem C04_outflow_only_on_corner_lines : forall shape grids k p,
  length (nth k grids []) = ax_len shape k -> (2 <= ax_len shape k)%nat ->
  (forall j, (j < length (nth k grids []) - 1)%nat -> 0 < dx (nth k grids []) j) ->
  forall o q, corner0 shape grids k o q = false -> corner1 shape grids k o q = false ->
  out0 (nth k grids []) (Mline shape grids k p o q) (p_nu p) (corner0 shape grids k o q) = 0 /\
  out1 (nth k grids []) (Mline shape grids k p o q) (p_nu p) (corner1 shape grids k o q) = 0.
Proof. exact outflow_only_on_corner_lines. Qed.

(** whole time step: total mass changes only by the mutation influx and by the corner outflow of the sweeps
    (influx = sum over the populations that are neither frozen nor nomut of weight(e_k) * injected amount;
     outflow_of = corner outflow of the sweeps of the non-frozen populations, in sweep order) *)
Theorem C04_step_total_mass_balance : forall shape grids, (forall n, In n shape -> (2 <= n)%nat) ->
  (forall k, (k < length shape)%nat ->
     length (nth k grids []) = ax_len shape k /\ (2 <= ax_len shape k)%nat /\
     (forall j, (j < length (nth k grids []) - 1)%nat -> 0 < dx (nth k grids []) j)) ->
  forall pops theta dt dj phi, wf_pops shape pops -> length phi = prodn shape -> dt <> 0 -> nonsingular shape grids pops dj dt ->
  total_mass shape grids (step shape grids pops theta dt dj phi)
  = total_mass shape grids phi + influx shape grids pops theta dt
    - dt * outflow_of shape grids pops dt dj (combine (seq 0 (length shape)) pops) (inject shape grids pops theta dt phi).
Proof. exact step_total_mass_balance. Qed.
Print Assumptions C04_step_total_mass_balance.
(** the influx of one population on grids that start at 0: weight * amount = dt * theta0 / (2 x_k[1]), i.e. new mutations
    enter at the first interior frequency at rate theta0/2 per unit of x *)
Theorem C04_influx_per_population : forall shape grids k theta dt, (k < length shape)%nat ->
  (forall a, (a < length shape)%nat -> nthF (nth a grids []) 0 = 0 /\ nthF (nth a grids []) 1 <> 0 /\ (2 <= length (nth a grids []))%nat) ->
  (3 <= length (nth k grids []))%nat -> nthF (nth k grids []) 2 <> 0 ->
  influx_term shape grids k theta dt = dt * theta / (2 * nthF (nth k grids []) 1).
Proof. exact influx_term_value. Qed.
(** frozen and nomut populations receive no new mutations (the influx is the sum over the others) ... *)
Theorem C04_no_influx_when_frozen_or_nomut : forall shape grids pops theta dt,
  influx shape grids pops theta dt =
  fold_right (fun kp acc => (if p_frozen (snd kp) || p_nomut (snd kp) then 0 else influx_term shape grids (fst kp) theta dt) + acc)
             0 (combine (seq 0 (length shape)) pops).
Proof. reflexivity. Qed.
(** ... and a sweep none of whose lines is a corner line has no outflow *)
Theorem C04_no_outflow_without_corner_lines : forall shape grids,
  (forall k, (k < length shape)%nat ->
     length (nth k grids []) = ax_len shape k /\ (2 <= ax_len shape k)%nat /\
     (forall j, (j < length (nth k grids []) - 1)%nat -> 0 < dx (nth k grids []) j)) ->
  forall k p after, (k < length shape)%nat ->
  (forall o q, (o < ax_outer shape k)%nat -> (q < ax_inner shape k)%nat ->
     corner0 shape grids k o q = false /\ corner1 shape grids k o q = false) ->
  sweep_outflow shape grids k p after = 0.
Proof. exact sweep_outflow_corner_lines_only. Qed.

(** zero-duration integration returns the density unchanged (constant and time-dependent drivers) *)
Theorem C04_zero_duration_identity : forall fuel shape grids (pops : list (@pop R)) theta0 tf use_delj t phi,
  nltb t t = false -> integrate_const fuel shape grids pops theta0 tf use_delj t t phi = Some phi.
Proof. exact zero_duration_is_identity_const. Qed.

(** isolated_subset_marginal_exact.  Line level: when the advection term vanishes in the first and last cell and the
    diffusion term at the first and last grid point (no migration, no selection, grid from 0 to 1), entry i of one
    implicit step depends only on the interior input values, and for i = 0 (i = N-1) on the corner flag c0 (c1) and the
    input at that end point *)
Theorem C04_isolated_line_step_is_local : forall xs Vf Mf nu dt dj, (3 <= length xs)%nat ->
  Mf (xint xs 0) = 0 -> Mf (xint xs (length xs - 2)) = 0 -> Vf (x xs 0) = 0 -> Vf (x xs (length xs - 1)) = 0 ->
  forall c0 c1 c0' c1' phi phi' i, (i < length xs)%nat ->
  (forall i', (1 <= i' <= length xs - 2)%nat -> nthF phi i' = nthF phi' i') ->
  (i = 0%nat -> c0 = c0' /\ nthF phi 0 = nthF phi' 0) ->
  (i = (length xs - 1)%nat -> c1 = c1' /\ nthF phi (length xs - 1) = nthF phi' (length xs - 1)) ->
  nthF (line_solve xs Vf Mf nu c0 c1 dt dj phi) i = nthF (line_solve xs Vf Mf nu c0' c1' dt dj phi') i.
Proof. exact line_solve_local. Qed.
Print Assumptions C04_isolated_line_step_is_local.

(** sweep level, any dimension, any removed axis r, any swept axis k <> r of an isolated population: integrating r out
    commutes with the sweep of k at every point of the reduced array that is not the all-0 / all-1 corner *)
Theorem C04_isolated_sweep_commutes_with_marginal : forall Sh G pops pops' r k p p' dt dj phi,
  Forall2 unit_grid G Sh -> (r < length Sh)%nat -> (k < length Sh)%nat -> k <> r ->
  nth_error pops k = Some p -> nth_error pops' (red_axis r k) = Some p' -> iso_pair p p' ->
  agree_off_corners (dropn r Sh) (dropn r G)
    (marginal_out Sh G r (sweep Sh G pops k dt dj phi))
    (sweep (dropn r Sh) (dropn r G) pops' (red_axis r k) dt dj (marginal_out Sh G r phi)).
Proof. exact marginal_sweep_other_axis. Qed.
Print Assumptions C04_isolated_sweep_commutes_with_marginal.

(** ... and r's own sweep (any parameters) leaves the marginal unchanged off the corners *)
Theorem C04_isolated_own_sweep_keeps_marginal : forall Sh G pops r p dt dj phi,
  Forall2 unit_grid G Sh -> (r < length Sh)%nat -> nth_error pops r = Some p -> dt <> 0 ->
  nonsingular_axis Sh G p dj dt r ->
  agree_off_corners (dropn r Sh) (dropn r G)
    (marginal_out Sh G r (sweep Sh G pops r dt dj phi)) (marginal_out Sh G r phi).
Proof. exact marginal_sweep_same_axis. Qed.

(** "agree off the corners" is: same length, equal at every flat index except the first and the last *)
Theorem C04_agree_off_corners_is_all_but_first_and_last : forall Sh G X Y, Forall2 unit_grid G Sh ->
  agree_off_corners Sh G X Y ->
  length X = length Y /\ forall j, (0 < j < prodn Sh - 1)%nat -> nthF X j = nthF Y j.
Proof. exact agree_off_corners_flat. Qed.

(** isolated_subset_marginal_exact, one population removed, any number of steps with the same time steps: the marginal
    over r of the full run equals the run of the remaining populations alone, except at the two corners.
    Population r may have any parameters; all others have no selection and receive no migrants. *)
Theorem C04_isolated_marginal_exact_steps : forall Sh G pops r pr theta dj dts phi,
  Forall2 unit_grid G Sh -> (r < length Sh)%nat -> length pops = length Sh -> nth_error pops r = Some pr ->
  Forall isolated (dropn r pops) ->
  (forall dt, In dt dts -> dt <> 0 /\ nonsingular_axis Sh G pr dj dt r) -> length phi = prodn Sh ->
  length (marginal_out Sh G r (steps Sh G pops theta dj dts phi)) =
  length (steps (dropn r Sh) (dropn r G) (reduce_pops r pops) theta dj dts (marginal_out Sh G r phi)) /\
  forall j, (0 < j < prodn (dropn r Sh) - 1)%nat ->
    nthF (marginal_out Sh G r (steps Sh G pops theta dj dts phi)) j =
    nthF (steps (dropn r Sh) (dropn r G) (reduce_pops r pops) theta dj dts (marginal_out Sh G r phi)) j.
Proof. exact isolated_marginal_steps_canonical. Qed.
Print Assumptions C04_isolated_marginal_exact_steps.

(** the same for any reduced population list that keeps sizes, beta and flags (one step, general form) *)
Theorem C04_isolated_marginal_exact_one_step : forall Sh G pops pops' r pr, Forall2 unit_grid G Sh -> (r < length Sh)%nat ->
  length pops = length Sh -> nth_error pops r = Some pr -> Forall2 iso_pair (dropn r pops) pops' ->
  forall theta dj dt phi, dt <> 0 -> nonsingular_axis Sh G pr dj dt r -> length phi = prodn Sh ->
  agree_off_corners (dropn r Sh) (dropn r G)
    (marginal_out Sh G r (step Sh G pops theta dt dj phi))
    (step (dropn r Sh) (dropn r G) pops' theta dt dj (marginal_out Sh G r phi)).
Proof. exact isolated_marginal_step. Qed.

(** a subset: populations removed one after another *)
Theorem C04_isolated_subset_marginal_exact : forall dj dts theta, (forall dt, In dt dts -> dt <> 0) ->
  forall Sh G pops rs popsF, iso_chain dj dts Sh G pops rs popsF -> Forall2 unit_grid G Sh ->
  forall phi, length phi = prodn Sh ->
  agree_off_corners (dropns rs Sh) (dropns rs G)
    (marginal_outs Sh G rs (steps Sh G pops theta dj dts phi))
    (steps (dropns rs Sh) (dropns rs G) popsF theta dj dts (marginal_outs Sh G rs phi)).
Proof. exact isolated_subset_marginal_steps. Qed.
Print Assumptions C04_isolated_subset_marginal_exact.

(** the constant-parameter and the time-dependent driver, when both runs choose the same time step *)
Theorem C04_isolated_marginal_exact_integrate : forall Sh G pops pops' r pr, Forall2 unit_grid G Sh -> (r < length Sh)%nat ->
  length pops = length Sh -> nth_error pops r = Some pr -> Forall2 iso_pair (dropn r pops) pops' ->
  forall theta dj tf, 0 < tf -> dt_of tf pops = dt_of tf pops' ->
  (forall dt, 0 < dt -> nonsingular_axis Sh G pr dj dt r) ->
  forall fuel t T X Y RX, length X = prodn Sh -> agree_off_corners (dropn r Sh) (dropn r G) (marginal_out Sh G r X) Y ->
  integrate_const fuel Sh G pops theta tf dj t T X = Some RX ->
  exists RY, integrate_const fuel (dropn r Sh) (dropn r G) pops' theta tf dj t T Y = Some RY /\
             agree_off_corners (dropn r Sh) (dropn r G) (marginal_out Sh G r RX) RY.
Proof. exact isolated_marginal_integrate_const. Qed.
Theorem C04_isolated_marginal_exact_integrate_timedep : forall Sh G popsf popsf' prf thetaf r dj tf,
  Forall2 unit_grid G Sh -> (r < length Sh)%nat ->
  (forall s, length (popsf s) = length Sh) -> (forall s, nth_error (popsf s) r = Some (prf s)) ->
  (forall s, Forall2 iso_pair (dropn r (popsf s)) (popsf' s)) ->
  0 < tf -> (forall s, dt_of tf (popsf s) = dt_of tf (popsf' s)) ->
  (forall s dt, 0 < dt -> nonsingular_axis Sh G (prf s) dj dt r) ->
  forall fuel t T X Y RX, length X = prodn Sh ->
  agree_off_corners (dropn r Sh) (dropn r G) (marginal_out Sh G r X) Y ->
  integrate_tdep fuel Sh G popsf thetaf tf dj t T X = Some RX ->
  exists RY, integrate_tdep fuel (dropn r Sh) (dropn r G) popsf' thetaf tf dj t T Y = Some RY /\
             agree_off_corners (dropn r Sh) (dropn r G) (marginal_out Sh G r RX) RY.
Proof. exact isolated_marginal_integrate_tdep. Qed.
Print Assumptions C04_isolated_marginal_exact_integrate_timedep.

(** when r is isolated too (positive size and beta), no pivot can vanish: the pivot hypothesis is automatic *)
Theorem C04_isolated_pivots_never_vanish : forall Sh G p dj dt r, Forall2 unit_grid G Sh -> (r < length Sh)%nat ->
  isolated p -> 0 < p_nu p -> 0 < p_beta p -> 0 < dt -> nonsingular_axis Sh G p dj dt r.
Proof. exact nonsingular_axis_isolated. Qed.

Example C04_isolated_nonvacuous :
  let g := [0; 1/2; 1] in
  let Sh := [3; 3]%nat in let G := [g; g] in
  let p0 := {| p_nu := 1; p_gamma := 0; p_h := 1/2; p_beta := 1; p_ms := [0]; p_frozen := false; p_nomut := false |} in
  let p1 := {| p_nu := 2; p_gamma := 0; p_h := 1/2; p_beta := 1; p_ms := [0]; p_frozen := false; p_nomut := false |} in
  let p0' := {| p_nu := 1; p_gamma := 0; p_h := 1/2; p_beta := 1; p_ms := []; p_frozen := false; p_nomut := false |} in
  let pops := [p0; p1] in let pops' := [p0'] in let r := 1%nat in
  let dts := [1/10; 1/20] in let phi := repeat 1 9 in
  Forall2 unit_grid G Sh /\ (r < length Sh)%nat /\ length pops = length Sh /\ nth_error pops r = Some p1 /\
  Forall2 iso_pair (dropn r pops) pops' /\
  (forall dt, In dt dts -> dt <> 0 /\ nonsingular_axis Sh G p1 false dt r) /\ length phi = prodn Sh /\
  (0 < prodn (dropn r Sh) - 1)%nat.
Proof. exact isolated_marginal_nonvacuous. Qed.

Example C04_nonvacuous : trap_w [0; 1/2; 1] 1 * dfactor [0; 1/2; 1] 1 = 1.
Proof. apply w_dfactor; cbn [length]; try lia. intros i Hi. unfold dx, x, nthF. numR.
  destruct i as [|[|i]]; cbn [nth]; try lia; lra. Qed.
