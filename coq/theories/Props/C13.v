(** C13 — genotype data become the spectrum and statistics that direct counting gives.
    Only statements; every proof is [exact <lemma>].

    Model (Model/DataDict.v, Model/Stats.v): [make_data_dict_vcf] on tokenised lines, [count_data_dict],
    [fcd_data] = the accumulation loop of Spectrum._from_count_dict (C-order flat data, C08 weights),
    [from_data_dict] (folds when polarized = false, C09 fold), [fragment_data_dict], [bootstrap_data],
    statistics [stat_*] as the code computes them and [direct_*] from the per-SNP counts.
      get v i        = entry i of the flat array v (0 outside)
      rtot v         = sum of all entries
      lsum f l       = sum over the list l of f
      snp_term pop_ids projs polarized s i
                     = entry i of the outer product of the projection vectors of SNP s if s is biallelic
                       (and polarised by an outgroup allele among the two segregating alleles when polarized = true), else 0
      hyper_prod     = prod_k H(n_k, m_k, j_k, i_k) with H the hypergeometric weight of C08, 0 when n_k < m_k.
    Oracles: [choose] (numpy.random.choice) and the index lists [idx] (random.choices) are universally quantified. *)
From Coq Require Import String Ascii ZArith NArith Reals List Lra Lia Bool Arith Permutation.
From Dadi Require Import Base.Num Base.NumR Model.Projection Model.Fold Model.DataDict Model.Stats
  Proofs.ProjH Proofs.DataDictSpec Proofs.DataDictChunks Proofs.DataDictSub Proofs.DataDictFrag Proofs.StatsProofs Proofs.StatsBridge
  Proofs.StatsThetaL Proofs.DataDictWindows Proofs.DataDictVcfSpec.
Import ListNotations.
Local Open Scope R_scope.

(** the spectrum is the sum over the SNPs of the data dictionary of each usable SNP's projection *)
Theorem C13_spectrum_is_sum_of_projections : forall (dd : dict snp) pop_ids projs polarized cd,
  length pop_ids = length projs -> count_data_dict dd pop_ids = Some cd ->
  length (fcd_data (F:=R) cd projs polarized) = size (spec_shape projs) /\
  forall i, get (fcd_data (F:=R) cd projs polarized) i
            = lsum (fun s => snp_term pop_ids projs polarized s i) (map snd dd).
Proof. exact spectrum_is_sum_of_projections. Qed.
Print Assumptions C13_spectrum_is_sum_of_projections.

(** ... and a SNP's projection is the outer product of hypergeometric weights (zero when it has fewer calls
    than the projection in some population) *)
Theorem C13_snp_projection_is_hypergeometric : forall projs succ der mi,
  length succ = length projs -> length der = length projs ->
  Forall2 (fun m i => (i <= m)%nat) projs mi ->
  get (snp_contrib (F:=R) projs succ der) (ravel (spec_shape projs) mi) = hyper_prod projs succ der mi.
Proof. exact snp_contrib_entry. Qed.
Print Assumptions C13_snp_projection_is_hypergeometric.

(** total = number of usable SNPs with enough calls (polarised / unpolarised-and-folded) *)
Theorem C13_total_is_number_of_usable_snps : forall (dd : dict snp) pop_ids projs polarized cd,
  length pop_ids = length projs -> count_data_dict dd pop_ids = Some cd ->
  rtot (fcd_data (F:=R) cd projs polarized)
  = INR (length (filter (snp_counts pop_ids projs polarized) (map snd dd))).
Proof. exact total_is_number_of_usable_snps. Qed.
Print Assumptions C13_total_is_number_of_usable_snps.

Theorem C13_total_is_number_of_usable_snps_folded : forall (dd : dict snp) pop_ids projs mask_corners (fs : lspec R),
  length pop_ids = length projs ->
  from_data_dict (F:=R) dd pop_ids projs mask_corners false = Some fs ->
  ls_folded fs = true /\
  rtot (ls_data fs) = INR (length (filter (snp_counts pop_ids projs false) (map snd dd))).
Proof. exact total_is_number_of_usable_snps_folded. Qed.
Print Assumptions C13_total_is_number_of_usable_snps_folded.

(** chunking: every position of a chromosome lands in exactly one chunk ... *)
Theorem C13_chunks_partition_positions : forall cs ps sorted,
  sort_positions ps [] = Some sorted ->
  Permutation (concat (chunk_loop cs sorted [] [] cs)) ps.
Proof. exact chunks_partition_positions. Qed.
Print Assumptions C13_chunks_partition_positions.

(** ... so fragment_data_dict partitions the SNPs of a dictionary with canonical keys (re-formatting the parsed
    key gives the key back: 'chrom_pos[.info]', position without sign or leading zeros) *)
Theorem C13_chunks_partition_snps : forall (dd : dict snp) cs frags,
  NoDup (map fst dd) -> Forall canonical_key (map fst dd) ->
  fragment_data_dict dd cs = Some frags ->
  Permutation (concat frags) dd.
Proof. exact chunks_partition_snps. Qed.
Print Assumptions C13_chunks_partition_snps.

Theorem C13_fragment_chunk_spectra_add_up : forall (dd : dict snp) cs frags pop_ids projs polarized cd cds,
  NoDup (map fst dd) -> Forall canonical_key (map fst dd) -> fragment_data_dict dd cs = Some frags ->
  length pop_ids = length projs -> count_data_dict dd pop_ids = Some cd ->
  Forall2 (fun f c => count_data_dict f pop_ids = Some c) frags cds ->
  forall i, get (fcd_data (F:=R) cd projs polarized) i
            = lsum (fun c => get (fcd_data (F:=R) c projs polarized) i) cds.
Proof. exact fragment_chunk_spectra_add_up. Qed.

(** ... and when the chunks partition the SNPs the chunk spectra add up to the whole (before and after folding) *)
Theorem C13_chunk_spectra_add_up : forall (dd : dict snp) (frags : list (dict snp)) pop_ids projs polarized cd cds,
  length pop_ids = length projs ->
  Permutation (concat frags) dd ->
  count_data_dict dd pop_ids = Some cd ->
  Forall2 (fun f c => count_data_dict f pop_ids = Some c) frags cds ->
  forall i, get (fcd_data (F:=R) cd projs polarized) i
            = lsum (fun c => get (fcd_data (F:=R) c projs polarized) i) cds.
Proof. exact chunk_spectra_add_up. Qed.
Print Assumptions C13_chunk_spectra_add_up.

Theorem C13_folded_chunk_spectra_add_up : forall (s : list nat) (whole : list R) (parts : list (list R)),
  (forall i, get whole i = lsum (fun c => get c i) parts) ->
  forall p, (p < size s)%nat ->
  get (fold_data_l (F:=R) s whole) p = lsum (fun c => get (fold_data_l (F:=R) s c) p) parts.
Proof. exact folded_chunk_spectra_add_up. Qed.

Theorem C13_chunk_totals_add_up : forall (dd : dict snp) (frags : list (dict snp)) pop_ids projs polarized,
  Permutation (concat frags) dd ->
  length (filter (snp_counts pop_ids projs polarized) (map snd dd))
  = list_sum (map (fun f => length (filter (snp_counts pop_ids projs polarized) (map snd f))) frags).
Proof. exact chunk_totals_add_up. Qed.

(** a bootstrap is the sum of the drawn chunk spectra, whatever is drawn *)
Theorem C13_bootstrap_is_sum_of_chunks : forall (spectra : list (list R)) (idx : list nat) L,
  Forall (fun v => length v = L) spectra -> idx <> [] -> Forall (fun c => (c < length spectra)%nat) idx ->
  exists b, bootstrap_data (F:=R) spectra idx = Some b /\ length b = L /\
            forall i, get b i = lsum (fun c => get (nth c spectra []) i) idx.
Proof. exact bootstrap_is_sum_of_chunks. Qed.
Print Assumptions C13_bootstrap_is_sum_of_chunks.

Theorem C13_bootstrap_total : forall (spectra : list (list R)) (idx : list nat) L b,
  Forall (fun v => length v = L) spectra -> Forall (fun c => (c < length spectra)%nat) idx ->
  bootstrap_data (F:=R) spectra idx = Some b ->
  rtot b = lsum (fun c => rtot (nth c spectra [])) idx.
Proof. exact bootstrap_total. Qed.

(** subsampling: for every oracle returning k indices, the calls of a stored SNP are the allele counts of exactly
    k called individuals of each requested population (2k chromosomes when the genotypes are diploid 0/1);
    a SNP with fewer than k called individuals somewhere is dropped *)
Theorem C13_subsample_uses_exactly_k : forall choose sub gtindex dpindex ps sd calls c c',
  oracle_returns_k choose ->
  collect_loop sub gtindex dpindex ps [] = Some sd ->
  choose_loop choose sub sd [] c = (Some calls, c') ->
  forall pop genos, In (pop, genos) sd ->
    Forall (fun gt => has_char "."%char gt = false) genos /\
    (sub_k sub pop <= length genos)%nat /\
    exists idx, length idx = sub_k sub pop /\ Forall (fun i => (i < length genos)%nat) idx /\
                dget pop calls = Some (add_chosen genos idx (0, 0)%nat) /\
                (Forall (fun gt => gt_alleles gt = 2%nat) genos ->
                 (fst (add_chosen genos idx (0, 0)%nat) + snd (add_chosen genos idx (0, 0)%nat) = 2 * sub_k sub pop)%nat).
Proof. exact subsample_uses_exactly_k. Qed.
Print Assumptions C13_subsample_uses_exactly_k.

Theorem C13_subsample_drops_undercalled : forall choose sub sd c c',
  choose_loop choose sub sd [] c = (None, c') ->
  exists pop genos, In (pop, genos) sd /\ (length genos < sub_k sub pop)%nat.
Proof. exact subsample_drops_undercalled. Qed.

Theorem C13_vcf_line_subsample_structure : forall choose cfg sub poplist cols c key s c',
  cfg_sub cfg = Some sub ->
  vcf_line choose cfg poplist cols c = (LSnp key s, c') ->
  exists gtindex dpindex sd,
    collect_loop sub gtindex dpindex (combine poplist (skipn 9 cols)) [] = Some sd /\
    choose_loop choose sub sd [] c = (Some (s_calls s), c').
Proof. exact vcf_line_subsample_structure. Qed.

(** statistics of the spectrum of a fully called count matrix = the same statistics SNP by SNP *)
Theorem C13_S_from_sfs_matches_direct : forall ns rows, Forall (row_ok ns) rows ->
  stat_S (F:=R) (map S ns) (sfs_of_rows ns rows) (corner_mask ns) = direct_S ns rows.
Proof. exact S_from_sfs_matches_direct. Qed.
Print Assumptions C13_S_from_sfs_matches_direct.

Theorem C13_pi_from_sfs_is_mean_pairwise_diff : forall n rows, (2 <= n)%nat -> Forall (row_ok [n]) rows ->
  stat_pi (F:=R) n (sfs_of_rows [n] rows) (corner_mask [n]) = direct_pi n rows.
Proof. exact pi_from_sfs_is_mean_pairwise_diff. Qed.
Print Assumptions C13_pi_from_sfs_is_mean_pairwise_diff.

Theorem C13_pi_is_pairwise_difference_count : forall n (cols : list (list bool)),
  Forall (fun col => length col = n) cols ->
  direct_pi_hap (F:=R) n cols = direct_pi (F:=R) n (map (fun col => [derived_count col]) cols).
Proof. exact pi_is_pairwise_difference_count. Qed.

Theorem C13_thetaW_from_sfs_matches_direct : forall n rows, Forall (row_ok [n]) rows ->
  stat_thetaW (F:=R) n (sfs_of_rows [n] rows) (corner_mask [n]) = direct_thetaW n rows.
Proof. exact thetaW_from_sfs_matches_direct. Qed.

Theorem C13_TajimaD_from_sfs_matches_direct : forall (sqrtF : R -> R) n rows, (2 <= n)%nat -> Forall (row_ok [n]) rows ->
  stat_tajimaD sqrtF n (sfs_of_rows [n] rows) (corner_mask [n]) = direct_tajimaD sqrtF n rows.
Proof. exact TajimaD_from_sfs_matches_direct. Qed.
Print Assumptions C13_TajimaD_from_sfs_matches_direct.

Theorem C13_Fst_from_sfs_matches_direct : forall ns rows, Forall (row_ok ns) rows ->
  stat_Fst (F:=R) ns (sfs_of_rows ns rows) (corner_mask ns) = direct_Fst ns rows.
Proof. exact Fst_from_sfs_matches_direct. Qed.
Print Assumptions C13_Fst_from_sfs_matches_direct.

(** a SNP with exactly as many calls as the projection size projects to the unit vector: the spectrum of a fully
    called matrix is the histogram used above *)
Theorem C13_full_call_projection_is_unit : forall n j, (j <= n)%nat ->
  cached_projection (F:=R) n n j = unit_vec (F:=R) (S n) j.
Proof. exact cached_projection_full. Qed.

(** ... so when every usable SNP has exactly as many calls as the projection sizes, the spectrum the code builds is
    the histogram [sfs_of_rows] of the derived-allele counts read off the dictionary, to which the statistics theorems apply *)
Theorem C13_full_call_spectrum_is_histogram : forall (dd : dict snp) pop_ids ns polarized cd,
  length pop_ids = length ns -> count_data_dict dd pop_ids = Some cd ->
  (forall s succ der pol, In s (map snd dd) -> snp_row pop_ids s = RKey (succ, der, pol) -> succ = ns) ->
  fcd_data (F:=R) cd ns polarized = sfs_of_rows (F:=R) ns (rows_of pop_ids polarized (map snd dd)) /\
  Forall (row_ok ns) (rows_of pop_ids polarized (map snd dd)).
Proof. exact full_call_spectrum_is_histogram. Qed.
Print Assumptions C13_full_call_spectrum_is_histogram.

(** theta_L (numpy.sum(numpy.arange(1,n)*self[1:n])/(n-1)) of the spectrum of a fully called count matrix = the same
    statistic SNP by SNP: a segregating SNP with k derived alleles among n contributes k/(n-1) *)
Theorem C13_thetaL_from_sfs_matches_direct : forall n rows, Forall (row_ok [n]) rows ->
  stat_thetaL (F:=R) n (sfs_of_rows [n] rows) (corner_mask [n]) = direct_thetaL n rows.
Proof. exact thetaL_from_sfs_matches_direct. Qed.
Print Assumptions C13_thetaL_from_sfs_matches_direct.

Theorem C13_thetaL_per_snp : forall n rows, (2 <= n)%nat -> Forall (row_ok [n]) rows ->
  stat_thetaL (F:=R) n (sfs_of_rows [n] rows) (corner_mask [n])
  = lsum (fun row => if segregating [n] row then INR (hd 0%nat row) / (INR n - 1) else 0) rows.
Proof. exact thetaL_from_sfs_per_snp. Qed.

(** chunk windows.  win cs p = (p - 1) / cs (natural-number subtraction) is the number of the window of position p:
    window j is the interval j*cs < p <= (j+1)*cs (window 0 also holds position 0); the windows are disjoint and cover *)
Theorem C13_chunk_window_intervals : forall cs p j, (0 < cs)%N ->
  win cs p = j <-> ((j * cs < p /\ p <= (j + 1) * cs) \/ (p = 0 /\ j = 0))%N.
Proof. exact win_spec. Qed.

(** the chunking loop of one chromosome (positions sorted as sorted() leaves them): the chunks are the windows
    0 .. win cs (largest position), chunk j holding exactly the positions of window j, nothing lost *)
Theorem C13_chunk_loop_windows : forall cs (srt : list (N * option string)), (0 < cs)%N -> sortedP srt ->
  let chunks := chunk_loop cs srt [] [] cs in
  length chunks = S (N.to_nat (win cs (fst (last srt (0%N, None))))) /\
  concat chunks = srt /\
  forall j, (j < length chunks)%nat -> nth j chunks [] = filter (fun x => (win cs (fst x) =? N.of_nat j)%N) srt.
Proof. exact chunk_windows. Qed.

Theorem C13_sorted_positions_are_sorted : forall l acc l', sortedP acc -> sort_positions l acc = Some l' -> sortedP l'.
Proof. exact sort_positions_sorted. Qed.

(** fragment_data_dict: one chunk per chromosome (order of first appearance, names distinct) and window number
    (0 .. window of the largest position; chunk_tags lists them in the order of the result); the positions of a
    chromosome are those parsed from the keys; the chunk of (chromosome, window j) is built from exactly the positions of
    the chromosome lying in window j, so every SNP of a chunk lies in the chunk's chromosome and window *)
Theorem C13_chunk_window_characterisation : forall (dd : dict snp) cs frags,
  fragment_data_dict dd cs = Some frags ->
  (0 < cs)%N /\
  exists chroms : list (string * list (N * option string)),
    NoDup (map fst chroms) /\
    (forall key chr p a, In key (map fst dd) -> parse_key key = Some (chr, p, a) -> In chr (map fst chroms)) /\
    Forall (fun c => sortedP (snd c) /\
                     forall p a, In (p, a) (snd c) <-> exists key, In key (map fst dd) /\ parse_key key = Some (fst c, p, a)) chroms /\
    Forall2 (fun tag frag =>
               chunk_dict dd (fst (fst tag)) (filter (fun x => (win cs (fst x) =? snd tag)%N) (snd (fst tag))) [] = Some frag)
            (chunk_tags cs chroms) frags /\
    Forall2 (fun tag frag => forall k s, In (k, s) frag ->
               exists p a, In (p, a) (snd (fst tag)) /\ k = format_key (fst (fst tag)) p a /\
                           win cs p = snd tag /\ dget k dd = Some s)
            (chunk_tags cs chroms) frags.
Proof. exact chunk_window_characterisation. Qed.
Print Assumptions C13_chunk_window_characterisation.

(** ... and conversely (canonical, distinct keys) the SNP with key chrom_pos[.info] is in the chunk of chromosome chrom
    and window (pos - 1) / chunk_size *)
Theorem C13_snp_lands_in_its_window : forall (dd : dict snp) cs frags,
  NoDup (map fst dd) -> Forall canonical_key (map fst dd) ->
  fragment_data_dict dd cs = Some frags ->
  exists chroms : list (string * list (N * option string)),
    NoDup (map fst chroms) /\ length (chunk_tags cs chroms) = length frags /\
    forall k s chr p a, In (k, s) dd -> parse_key k = Some (chr, p, a) ->
      exists c i frag, In c chroms /\ fst c = chr /\ In (p, a) (snd c) /\
        nth_error (chunk_tags cs chroms) i = Some (c, win cs p) /\
        nth_error frags i = Some frag /\ In (k, s) frag.
Proof. exact snp_lands_in_its_window. Qed.
Print Assumptions C13_snp_lands_in_its_window.

(** one tokenised VCF data line without subsampling (cols = line.split("\t")).
      line_passes cfg REF ALT FILTER  = (not filter or FILTER in (PASS, .)) and REF, ALT single bases after upper-casing
      assigned q ps                   = the sample columns of the individuals assigned to population q
      sample_counts gt ad dp sample   = (0,0) when AD = '0,0' or DP = '0' flag the sample, else (number of '0' alleles,
                                        number of '1' alleles) of its GT sub-field (alleles = even positions of the string;
                                        a missing allele '.' counts for neither), None when there is no GT sub-field
      sum_counts                      = componentwise sum of sample_counts over a list of samples *)
Theorem C13_vcf_line_counts_spec : forall choose cfg poplist cols c c3 c4 c6 c7 c8,
  cfg_sub cfg = None ->
  nth_error cols 3 = Some c3 -> nth_error cols 4 = Some c4 -> nth_error cols 6 = Some c6 ->
  nth_error cols 7 = Some c7 -> nth_error cols 8 = Some c8 ->
  let ps := combine poplist (skipn 9 cols) in
  let fmt := split ":" c8 in
  (line_passes cfg c3 c4 c6 = false -> vcf_line choose cfg poplist cols c = (LSkip, c)) /\
  (line_passes cfg c3 c4 c6 = true ->
     (index_of "GT" fmt = None -> vcf_line choose cfg poplist cols c = (LErr, c)) /\
     forall gtindex, index_of "GT" fmt = Some gtindex ->
       let covindex := index_of "AD" fmt in let dpindex := index_of "DP" fmt in
       (forall calls, calls_loop gtindex covindex dpindex ps [] = Some calls ->
          vcf_line choose cfg poplist cols c = (LSnp (join "_" (firstn 2 cols)) (line_record c3 c4 c7 calls), c) /\
          (forall q, dget q calls = match assigned q ps with
                                    | [] => None
                                    | l => Some (sum_counts gtindex covindex dpindex l)
                                    end) /\
          Forall (fun p => fst p <> None -> sample_counts gtindex covindex dpindex (snd p) <> None) ps) /\
       (calls_loop gtindex covindex dpindex ps [] = None ->
          vcf_line choose cfg poplist cols c = (LErr, c) /\
          exists pop sample, In (Some pop, sample) ps /\ sample_counts gtindex covindex dpindex sample = None)).
Proof. exact vcf_line_counts_spec. Qed.
Print Assumptions C13_vcf_line_counts_spec.

(** only lines that pass the filters give a record; a skipped line leaves the dictionary unchanged *)
Theorem C13_vcf_record_only_from_passing_line : forall choose cfg poplist cols c key s c',
  vcf_line choose cfg poplist cols c = (LSnp key s, c') ->
  exists c3 c4 c6 c7 c8,
    nth_error cols 3 = Some c3 /\ nth_error cols 4 = Some c4 /\ nth_error cols 6 = Some c6 /\
    nth_error cols 7 = Some c7 /\ nth_error cols 8 = Some c8 /\
    line_passes cfg c3 c4 c6 = true /\ key = join "_" (firstn 2 cols) /\
    s_seg s = [upper c3; upper c4] /\ s_out s = Some (ancestral (split ";" c7)).
Proof. exact vcf_line_record_passed. Qed.

Theorem C13_vcf_skipped_line_contributes_nothing : forall choose cfg popinfo cols r poplist dd c c',
  starts_with "#" (hd EmptyString cols) = false ->
  vcf_line choose cfg poplist cols c = (LSkip, c') ->
  vcf_loop choose cfg popinfo (cols :: r) (Some poplist) dd c = vcf_loop choose cfg popinfo r (Some poplist) dd c'.
Proof. exact vcf_loop_skip. Qed.

(** genotype strings: a/b or a|b counts its two allele characters, a missing allele counts for neither *)
Theorem C13_gt_counts_diploid : forall a sep b,
  let gt := String a (String sep (String b EmptyString)) in
  gt_ref gt = (is0 a + is0 b)%nat /\ gt_alt gt = (is1 a + is1 b)%nat.
Proof. exact gt_counts_diploid. Qed.
Theorem C13_gt_missing_allele_not_counted : is0 "."%char = 0%nat /\ is1 "."%char = 0%nat.
Proof. exact missing_allele_not_counted. Qed.

(** INFO column: the first AA= / AA_ensembl= / AA_chimp= field decides; none: '-' *)
Theorem C13_ancestral_allele_first_field : forall pre f post, Forall (fun x => aa_field x = false) pre -> aa_field f = true ->
  ancestral (pre ++ f :: post) = aa_value f.
Proof. exact ancestral_first. Qed.
Theorem C13_ancestral_allele_absent : forall info, Forall (fun x => aa_field x = false) info -> ancestral info = "-"%string.
Proof. exact ancestral_none. Qed.

(** non-vacuity: a two-SNP dictionary for one population (6 and 3 calls), projected to 4 chromosomes:
    count_data_dict succeeds, only the first SNP has enough calls, the total is 1 *)
Example C13_nonvacuous :
  let mk := fun calls out => {| s_seg := ["A"; "T"]%string; s_context := "-A-"%string; s_out := Some out;
                                s_out_context := "-A-"%string; s_calls := [("P"%string, calls)] |} in
  let dd : dict snp := [("c_1"%string, mk (4, 2)%nat "A"%string); ("c_9"%string, mk (1, 2)%nat "T"%string)] in
  exists cd, count_data_dict dd ["P"%string] = Some cd /\
             rtot (fcd_data (F:=R) cd [4%nat] true) = 1.
Proof. cbv zeta. match goal with |- context [count_data_dict ?d _] => set (dd := d) end.
  destruct (count_data_dict dd ["P"%string]) as [cd|] eqn:E; [|vm_compute in E; discriminate].
  exists cd. split; [reflexivity|].
  rewrite (total_is_number_of_usable_snps dd ["P"%string] [4%nat] true cd eq_refl E). cbn. lra. Qed.
