(** C12 -- optimisers honour bounds and fixed parameters and report the point they found.
    Only statements; every proof is [exact <lemma>].  Model: Model/Optim.v (real-number instance).
    Oracles: the optimiser [O] (nlopt / scipy.optimize) constrained by [contract]; the likelihoods
    [ll_multinom], [ll_plain] : list R -> option R ([None] = NaN) are arbitrary functions.
    The default definitions ([opt], [optimize_lbfgsb], [optimize_log_lbfgsb], [optimize_grid], [perturb_params]) model the
    current code, i.e. after the repairs c501335, b08df5e, a803c6e, 85f4799, 87150b4, 64356e4 of /repo; the [_snapshot]
    definitions are the forms of the original snapshot.  [_refuted] theorems are clauses that the faithful model of the
    snapshot violates (the findings that led to those repairs) or, for the narrow box, that the current code still violates
    (known finding). *)
From Coq Require Import ZArith Reals List Bool Lra Lia.
From Dadi Require Import Base.Num Base.NumR Model.Optim Proofs.OptimAll.
Import ListNotations.
Local Open Scope R_scope.

(** *** expanding and contracting around fixed values are mutually inverse (all lists, all fixed patterns, any element type) *)
Theorem C12_up_down_inverse : forall (A : Type) (dflt : A) (p d : list A) (fixed : option (list (option A))),
  project_down p fixed = Some d -> project_up dflt d fixed = subst_fixed p fixed.
Proof. exact @up_down_inverse. Qed.
Print Assumptions C12_up_down_inverse.

Theorem C12_up_down_inverse_exact : forall (A : Type) (dflt : A) (p d : list A) (fixed : option (list (option A))),
  agrees p fixed -> project_down p fixed = Some d -> project_up dflt d fixed = p.
Proof. exact @up_down_inverse_exact. Qed.

Theorem C12_down_up_inverse : forall (A : Type) (dflt : A) (d : list A) (fixed : option (list (option A))),
  match fixed with Some fx => length d = nfree fx | None => True end ->
  project_down (project_up dflt d fixed) fixed = Some d.
Proof. exact @down_up_inverse. Qed.
Print Assumptions C12_down_up_inverse.

(** a fixed value is a value whatever number it is (0 in particular; [Some 0] is not [None]): slot by slot, a parameter
    fixed at [v] is dropped when contracting and written back as [v] when expanding, a free one is kept and consumed *)
Theorem C12_project_fixed_slot : forall (A : Type) (dflt v x : A) (p : list A) (fx : list (option A)) (d : list A),
  project_down (x :: p) (Some (Some v :: fx)) = Some d ->
  project_down p (Some fx) = Some d /\
  project_up dflt d (Some (Some v :: fx)) = v :: project_up dflt d (Some fx).
Proof. exact @project_fixed_slot. Qed.

Theorem C12_project_free_slot : forall (A : Type) (dflt x : A) (p : list A) (fx : list (option A)) (d : list A),
  project_down (x :: p) (Some (None :: fx)) = Some d ->
  exists d', d = x :: d' /\ project_down p (Some fx) = Some d' /\
             project_up dflt d (Some (None :: fx)) = x :: project_up dflt d' (Some fx).
Proof. exact @project_free_slot. Qed.

(** *** the model is never evaluated outside the bounds: from the bound test of _object_func alone,
        for ANY optimiser, any start, any point it may try (optimize, optimize_log, optimize_log_fmin, optimize_log_powell) *)
Theorem C12_never_evaluates_out_of_bounds :
  forall (ll_multinom ll_plain : list R -> option R) (cfg : wcfg) (O : optimiser R) p0 lower upper fixed multinom s w,
  wc_obj_bounds cfg = true ->
  scipy_wrapper ll_multinom ll_plain cfg O p0 lower upper fixed multinom s = Some w ->
  Forall (fun e => in_bounds lower upper e = true) (w_evals w).
Proof. exact never_evaluates_out_of_bounds. Qed.
Print Assumptions C12_never_evaluates_out_of_bounds.

Theorem C12_object_func_never_out_of_bounds :
  forall (ll_multinom ll_plain : list R -> option R) params lower upper multinom fixed s,
  Forall (fun e => in_bounds lower upper e = true) (snd (object_func ll_multinom ll_plain params lower upper multinom fixed s)).
Proof. exact object_func_never_out_of_bounds. Qed.

(** *** NLopt_mod.opt as it stands, log_opt on and off, under the oracle contract *)
Theorem C12_opt_contract :
  forall (ll_multinom ll_plain : list R -> option R) (O : optimiser R) p0 lower upper fixed multinom lg w d0,
  opt ll_multinom ll_plain O p0 lower upper fixed multinom lg = Some w ->
  project_down p0 fixed = Some d0 -> (lg = true -> positive d0) ->
  contract true (w_lo w) (w_hi w) (w_start w)
           (fun x => fst (opt_objective ll_multinom ll_plain multinom fixed lg x)) (w_oracle w) ->
  agrees (w_x w) fixed /\
  (exists xf, w_x w = project_up 0 (tr lg xf) fixed /\ box_ok (w_lo w) (w_hi w) xf = true) /\
  ll_guard ll_multinom ll_plain multinom (w_x w) = w_f w /\
  ll_guard ll_multinom ll_plain multinom (subst_fixed p0 fixed) <= w_f w /\
  hd_error (w_evals w) = Some (subst_fixed p0 fixed).
Proof. exact opt_contract. Qed.
Print Assumptions C12_opt_contract.

Theorem C12_opt_free_entries_within_bounds :
  forall (ll_multinom ll_plain : list R -> option R) (O : optimiser R) p0 lower upper fx multinom lg w d0,
  opt ll_multinom ll_plain O p0 lower upper (Some fx) multinom lg = Some w ->
  project_down p0 (Some fx) = Some d0 ->
  (lg = true -> positive d0 /\ Forall pos_opt (dflt_bounds lower (length p0)) /\ Forall pos_opt (dflt_bounds upper (length p0))) ->
  contract true (w_lo w) (w_hi w) (w_start w)
           (fun x => fst (opt_objective ll_multinom ll_plain multinom (Some fx) lg x)) (w_oracle w) ->
  free_within fx (dflt_bounds lower (length p0)) (dflt_bounds upper (length p0)) (w_x w).
Proof. exact opt_free_entries_within_bounds. Qed.

(** *** the snapshot's opt: right with log_opt=False ... *)
Theorem C12_opt_snapshot_nolog_contract :
  forall (ll_multinom ll_plain : list R -> option R) (O : optimiser R) p0 lower upper fixed multinom w,
  opt_snapshot ll_multinom ll_plain O p0 lower upper fixed multinom false = Some w ->
  contract true (w_lo w) (w_hi w) (w_start w)
           (fun x => fst (opt_objective ll_multinom ll_plain multinom fixed false x)) (w_oracle w) ->
  agrees (w_x w) fixed /\
  (exists xf, w_x w = project_up 0 xf fixed /\ box_ok (w_lo w) (w_hi w) xf = true) /\
  ll_guard ll_multinom ll_plain multinom (w_x w) = w_f w /\
  ll_guard ll_multinom ll_plain multinom (subst_fixed p0 fixed) <= w_f w /\
  hd_error (w_evals w) = Some (subst_fixed p0 fixed).
Proof. exact opt_snapshot_nolog_contract. Qed.

(** ... with log_opt=True: what still held (the start is returned) ... *)
Theorem C12_opt_log_partial :
  forall (ll_multinom ll_plain : list R -> option R) (O : optimiser R) p0 lower upper fixed multinom w d0,
  opt_snapshot ll_multinom ll_plain O p0 lower upper fixed multinom true = Some w ->
  project_down p0 fixed = Some d0 -> positive d0 ->
  contract true (w_lo w) (w_hi w) (w_start w)
           (fun x => fst (opt_objective ll_multinom ll_plain multinom fixed true x)) (w_oracle w) ->
  agrees (w_x w) fixed /\
  ll_guard ll_multinom ll_plain multinom (subst_fixed p0 fixed) <= w_f w /\
  hd_error (w_evals w) = Some (subst_fixed p0 fixed) /\
  w_f w = ll_guard ll_multinom ll_plain multinom (project_up 0 (map exp (o_x (w_oracle w))) fixed) /\
  w_x w = subst_fixed p0 fixed.
Proof. exact opt_log_partial. Qed.
Print Assumptions C12_opt_log_partial.

(** ... and the clause that failed: likelihood of the returned vector <> reported optimum (finding, fixed by c501335) *)
Theorem C12_opt_log_reported_value_refuted :
  exists (ll : list R -> option R) (O : optimiser R) p0 lower upper w,
    opt_snapshot ll ll O p0 (Some lower) (Some upper) None false true = Some w /\
    contract true (w_lo w) (w_hi w) (w_start w) (fun x => fst (opt_objective ll ll false None true x)) (w_oracle w) /\
    ll_guard ll ll false (w_x w) <> w_f w.
Proof. exact opt_log_reported_value_refuted. Qed.
Print Assumptions C12_opt_log_reported_value_refuted.

(** every combination of the two repaired lines of opt: free entries within the user's bounds *)
Theorem C12_opt_gen_free_entries_within_bounds :
  forall (ll_multinom ll_plain : list R -> option R) repaired replb (O : optimiser R) p0 lower upper fx multinom lg w d0,
  opt_gen ll_multinom ll_plain repaired replb O p0 lower upper (Some fx) multinom lg = Some w ->
  project_down p0 (Some fx) = Some d0 ->
  (lg = true -> repaired = true /\ positive d0 /\
                Forall pos_opt (dflt_bounds lower (length p0)) /\ Forall pos_opt (dflt_bounds upper (length p0))) ->
  contract true (w_lo w) (w_hi w) (w_start w)
           (fun x => fst (opt_objective ll_multinom ll_plain multinom (Some fx) lg x)) (w_oracle w) ->
  free_within fx (dflt_bounds lower (length p0)) (dflt_bounds upper (length p0)) (w_x w).
Proof. exact opt_free_within. Qed.

(** *** the scipy wrappers: one theorem over the configuration table ... *)
Theorem C12_scipy_contract :
  forall (ll_multinom ll_plain : list R -> option R) cfg (O : optimiser R) p0 lower upper fixed multinom s w d0,
  coherent cfg ->
  scipy_wrapper ll_multinom ll_plain cfg O p0 lower upper fixed multinom s = Some w ->
  project_down p0 fixed = Some d0 ->
  (wc_obj_log cfg = true -> positive d0) ->
  0 < eff_scale cfg s ->
  in_bounds (obj_bound cfg lower) (obj_bound cfg upper) (subst_fixed p0 fixed) = true ->
  (wc_obj_bounds cfg = true -> IZR (-100000000) < ll_guard ll_multinom ll_plain multinom (subst_fixed p0 fixed)) ->
  contract false (w_lo w) (w_hi w) (w_start w)
           (fun x => fst (scipy_objective ll_multinom ll_plain cfg lower upper multinom fixed s x)) (w_oracle w) ->
  agrees (w_x w) fixed /\
  in_bounds (obj_bound cfg lower) (obj_bound cfg upper) (w_x w) = true /\
  w_f w = - ll_guard ll_multinom ll_plain multinom (w_x w) / eff_scale cfg s /\
  w_f w <= - ll_guard ll_multinom ll_plain multinom (subst_fixed p0 fixed) / eff_scale cfg s /\
  hd_error (w_evals w) = Some (subst_fixed p0 fixed) /\
  (exists xf, w_x w = project_up 0 (tr (wc_obj_log cfg) xf) fixed /\ box_ok (w_lo w) (w_hi w) xf = true /\ length xf = length d0).
Proof. exact scipy_contract. Qed.
Print Assumptions C12_scipy_contract.

(** ... which covers every wrapper of the current code (and of the snapshot except its optimize_lbfgsb) *)
Theorem C12_coherent_wrappers :
  coherent cfg_optimize /\ coherent cfg_optimize_log /\ coherent cfg_optimize_log_lbfgsb /\ coherent cfg_optimize_log_fmin /\
  coherent cfg_optimize_log_powell /\ coherent cfg_optimize_cons /\ coherent cfg_optimize_lbfgsb /\
  coherent cfg_optimize_log_lbfgsb_snapshot /\ ~ coherent cfg_optimize_lbfgsb_snapshot.
Proof. exact coherent_wrappers. Qed.

Theorem C12_optimize_lbfgsb_first_evaluation_refuted :
  exists (ll : list R -> option R) (O : optimiser R) p0 w,
    optimize_lbfgsb_snapshot ll ll O p0 None None None false 1 = Some w /\
    contract false (w_lo w) (w_hi w) (w_start w)
             (fun x => fst (scipy_objective ll ll cfg_optimize_lbfgsb_snapshot None None false None 1 x)) (w_oracle w) /\
    hd_error (w_evals w) <> Some p0.
Proof. exact optimize_lbfgsb_first_evaluation_refuted. Qed.
Print Assumptions C12_optimize_lbfgsb_first_evaluation_refuted.

Theorem C12_scipy_plain_free_entries_within_bounds :
  forall (ll_multinom ll_plain : list R -> option R) cfg (O : optimiser R) p0 lower upper fx multinom s w d0,
  coherent cfg -> wc_oracle_bounds cfg = BPlain -> wc_obj_log cfg = false -> wc_obj_bounds cfg = false ->
  scipy_wrapper ll_multinom ll_plain cfg O p0 lower upper (Some fx) multinom s = Some w ->
  project_down p0 (Some fx) = Some d0 ->
  0 < eff_scale cfg s ->
  contract false (w_lo w) (w_hi w) (w_start w)
           (fun x => fst (scipy_objective ll_multinom ll_plain cfg lower upper multinom (Some fx) s x)) (w_oracle w) ->
  free_within fx (dflt_bounds lower (length p0)) (dflt_bounds upper (length p0)) (w_x w).
Proof. exact scipy_plain_free_within. Qed.

(** *** every model evaluation respects the bounds the user gave -- both lists, only lower_bound, only upper_bound, single
        entries: an absent list is a list of absent bounds ([dflt_bounds]) -- for the wrappers that leave the bounds to the
        optimiser, from the box part of the contract alone (no assumption on which point is returned) *)
Theorem C12_scipy_plain_evaluations_within_bounds :
  forall (ll_multinom ll_plain : list R -> option R) cfg (O : optimiser R) p0 lower upper fx multinom s w d0,
  wc_oracle_bounds cfg = BPlain -> wc_obj_log cfg = false -> wc_start_log cfg = false ->
  scipy_wrapper ll_multinom ll_plain cfg O p0 lower upper (Some fx) multinom s = Some w ->
  project_down p0 (Some fx) = Some d0 ->
  Forall (fun x => box_ok (w_lo w) (w_hi w) x = true /\ length x = length (w_start w)) (o_trace (w_oracle w)) ->
  Forall (free_within fx (dflt_bounds lower (length p0)) (dflt_bounds upper (length p0))) (w_evals w).
Proof. exact scipy_plain_evals_within. Qed.
Print Assumptions C12_scipy_plain_evaluations_within_bounds.

Theorem C12_opt_evaluations_within_bounds :
  forall (ll_multinom ll_plain : list R -> option R) repaired replb (O : optimiser R) p0 lower upper fx multinom lg w d0,
  opt_gen ll_multinom ll_plain repaired replb O p0 lower upper (Some fx) multinom lg = Some w ->
  project_down p0 (Some fx) = Some d0 ->
  (lg = true -> Forall pos_opt (dflt_bounds lower (length p0)) /\ Forall pos_opt (dflt_bounds upper (length p0))) ->
  Forall (fun x => box_ok (w_lo w) (w_hi w) x = true /\ length x = length (w_start w)) (o_trace (w_oracle w)) ->
  Forall (free_within fx (dflt_bounds lower (length p0)) (dflt_bounds upper (length p0))) (w_evals w).
Proof. exact opt_evals_within. Qed.
Print Assumptions C12_opt_evaluations_within_bounds.

(** the scripted optimiser of the keyword-combination stream moves every proposal onto the box it is handed: it honours the
    contract for EVERY script, proposals beyond the bounds included (so that a bound the wrapper does not hand over shows as
    a model evaluation beyond it) *)
Theorem C12_clipping_script_honours_contract : forall maximize props lo hi x0 f,
  box_wf lo hi -> box_ok lo hi x0 = true -> Forall (fun x => length x = length x0) props ->
  contract maximize lo hi x0 f (scripted_clip maximize props None lo hi x0 f).
Proof. exact scripted_clip_honours_contract. Qed.
Print Assumptions C12_clipping_script_honours_contract.

Theorem C12_clipped_point_in_box : forall lo hi x, box_wf lo hi -> box_ok lo hi (clip lo hi x) = true.
Proof. exact clip_box_ok. Qed.
Print Assumptions C12_clipped_point_in_box.

(** *** optimize_grid *)
Theorem C12_grid_contract :
  forall (ll_multinom ll_plain : list R -> option R) repaired (O : grid_optimiser R) grid fixed multinom full w,
  optimize_grid_gen ll_multinom ll_plain repaired O grid fixed multinom full = Some w ->
  grid_contract grid (fun x => fst (grid_objective ll_multinom ll_plain multinom fixed x)) (w_oracle w) ->
  agrees (w_x w) fixed /\
  In (w_x w) (map (fun x => project_up 0 x fixed) grid) /\
  w_f w = - ll_guard ll_multinom ll_plain multinom (w_x w) /\
  w_evals w = map (fun x => project_up 0 x fixed) grid /\
  Forall (fun e => ll_guard ll_multinom ll_plain multinom e <= ll_guard ll_multinom ll_plain multinom (w_x w)) (w_evals w).
Proof. exact grid_contract_thm. Qed.

Theorem C12_optimize_grid_full_output_one_parameter_refuted :
  forall (ll : list R -> option R) (O : grid_optimiser R) (g : R) rest fixed multinom,
    optimize_grid_snapshot ll ll O ([g] :: rest) fixed multinom true = None.
Proof. exact optimize_grid_full_output_one_parameter_refuted. Qed.

(** *** perturb_params: the current code (sign-aware 1% margins) stays in the box for bounds of any sign ... *)
Theorem C12_perturb_in_bounds : forall params fold us lb ub,
  length us = length params -> length lb = length params -> length ub = length params ->
  Forall2 (fun l u => forall a c, l = Some a -> u = Some c -> a <= shrink_hi true c) lb ub ->
  in_bounds (Some lb) (Some ub) (perturb_params params fold us (Some lb) (Some ub)) = true.
Proof. exact perturb_in_bounds. Qed.
Print Assumptions C12_perturb_in_bounds.

(** ... unless the box is narrower than the two margins (known finding perturb_params:narrow-box; snapshot and current code) *)
Theorem C12_perturb_narrow_box_refuted : forall repaired,
  exists params fold us lb ub,
    in_bounds (Some lb) (Some ub) params = true /\ Forall (fun u => 0 <= u < 1) us /\
    Forall2 (fun l u => forall a c, l = Some a -> u = Some c -> 0 < a <= c) lb ub /\
    in_bounds (Some lb) (Some ub) (perturb_gen repaired params fold us (Some lb) (Some ub)) = false.
Proof. exact perturb_narrow_box_refuted. Qed.

(** the snapshot (1.01*lower, 0.99*upper): in bounds for non-negative bounds only *)
Theorem C12_perturb_snapshot_in_bounds : forall params fold us lb ub,
  length us = length params -> length lb = length params -> length ub = length params ->
  Forall2 sign_ok lb ub ->
  in_bounds (Some lb) (Some ub) (perturb_params_snapshot params fold us (Some lb) (Some ub)) = true.
Proof. exact perturb_snapshot_in_bounds. Qed.

Theorem C12_perturb_negative_bound_refuted :
  exists params fold us lb ub,
    in_bounds (Some lb) (Some ub) params = true /\ Forall (fun u => 0 <= u < 1) us /\
    in_bounds (Some lb) (Some ub) (perturb_params_snapshot params fold us (Some lb) (Some ub)) = false.
Proof. exact perturb_negative_bound_refuted. Qed.
Print Assumptions C12_perturb_negative_bound_refuted.

(** *** the contract is satisfiable: the scripted optimiser of the correspondence check honours it whenever its
        script stays in the box; and the boolean contract evaluated on every correspondence case implies it *)
Theorem C12_scripted_honours_contract : forall maximize props lo hi x0 f,
  Forall (fun x => box_ok lo hi x = true /\ length x = length x0) (x0 :: props) ->
  contract maximize lo hi x0 f (scripted maximize props None lo hi x0 f).
Proof. exact scripted_honours_contract. Qed.

Theorem C12_contractb_sound : forall maximize lo hi x0 f r,
  contractb maximize lo hi x0 f r = true -> contract maximize lo hi x0 f r.
Proof. exact contractb_sound. Qed.

(** non-vacuity: a concrete call of opt with a fixed parameter whose oracle honours the contract *)
Example C12_nonvacuous :
  exists w, opt ll_first ll_first O_start [1; 2] None None (Some [None; Some 5]) false false = Some w /\
    contract true (w_lo w) (w_hi w) (w_start w) (fun x => fst (opt_objective ll_first ll_first false (Some [None; Some 5]) false x)) (w_oracle w) /\
    w_x w = [1; 5].
Proof. exact opt_contract_nonvacuous. Qed.

(** non-vacuity at zero: parameters fixed at exactly 0 before and after a free one; opt with a leading parameter fixed at 0
    starts from the free entry of p0 and evaluates the model at (0, p0_1) *)
Example C12_zero_fixed_nonvacuous :
  project_down [1; 2; 3] (Some [Some 0; None; Some 0]) = Some [2] /\
  project_up 7 [2] (Some [Some 0; None; Some 0]) = [0; 2; 0] /\
  exists w, opt ll_first ll_first O_start [1; 2] None None (Some [Some 0; None]) false false = Some w /\
    contract true (w_lo w) (w_hi w) (w_start w) (fun x => fst (opt_objective ll_first ll_first false (Some [Some 0; None]) false x)) (w_oracle w) /\
    w_start w = [2] /\ w_x w = [0; 2] /\ w_evals w = [[0; 2]].
Proof. exact zero_fixed_nonvacuous. Qed.
