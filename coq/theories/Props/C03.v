(** C03 — integration is linear in (density, theta0) and independent of the reference size.
    Only statements; every proof is [exact <lemma>]. *)
From Coq Require Import Reals List Lra Lia.
From Dadi Require Import Base.Num Base.NumR Model.Tridiag Model.Scheme
  Proofs.TridiagProofs Proofs.SchemeProofs Proofs.Linearity Proofs.Rescale.
Import ListNotations.
Local Open Scope R_scope.

(** the coefficients a,b,c do not depend on the density; the right-hand side is phi/dt *)
Theorem C03_coefficients_independent_of_density : forall xs Vf Mf nu c0 c1 dt use_delj, (2 <= length xs)%nat -> forall phi,
  line_rows xs Vf Mf nu c0 c1 dt use_delj phi = mkrows (abc_of xs Vf Mf nu c0 c1 dt use_delj) (rhs_of xs dt phi).
Proof. exact line_rows_mkrows. Qed.

(** one implicit step along any line is linear in the density, for arbitrary coefficient pairs *)
Theorem C03_step_linear_in_density : forall xs Vf Mf nu c0 c1 dt use_delj, (2 <= length xs)%nat ->
  forall al be (p1 p2 : list R), length p1 = length p2 ->
  line_solve xs Vf Mf nu c0 c1 dt use_delj (lincomb al be p1 p2) =
  lincomb al be (line_solve xs Vf Mf nu c0 c1 dt use_delj p1) (line_solve xs Vf Mf nu c0 c1 dt use_delj p2).
Proof. exact line_solve_linear. Qed.
Print Assumptions C03_step_linear_in_density.

(** the Thomas solve is linear in the right-hand side and invariant under scaling all equations *)
Theorem C03_thomas_linear : forall abc rs1 rs2 al be, length rs1 = length rs2 ->
  thomas (mkrows abc (lincomb al be rs1 rs2)) = lincomb al be (thomas (mkrows abc rs1)) (thomas (mkrows abc rs2)).
Proof. exact thomas_linear. Qed.
Theorem C03_thomas_scale : forall rows k, k <> 0 -> nonzero (all_pivots rows) -> thomas (scale_rows k rows) = thomas rows.
Proof. exact thomas_scale. Qed.

(** re-expressing the step relative to another reference size (V/c, M/c, c nu, c dt) leaves it unchanged,
    with either setting of the delj switch *)
Theorem C03_step_rescale_invariant : forall xs Vf Mf nu c0 c1 dt use_delj c, 0 < c -> (2 <= length xs)%nat -> forall phi,
  nonzero (all_pivots (line_rows xs Vf Mf nu c0 c1 dt use_delj phi)) ->
  line_solve xs (Vf' Vf c) (Mf' Mf c) (c * nu) c0 c1 (c * dt) use_delj phi = line_solve xs Vf Mf nu c0 c1 dt use_delj phi.
Proof. exact line_solve_rescale_invariant. Qed.
Print Assumptions C03_step_rescale_invariant.

(** dadi's coefficient functions transform as required: nu -> c nu, m -> m/c, gamma -> gamma/c *)
Theorem C03_V_rescales : forall nu beta c x, Vfunc_beta (c * nu) beta x = Vfunc_beta nu beta x / c.
Proof. exact Vfunc_beta_rescale. Qed.
Theorem C03_M_rescales : forall ms os gamma h c x,
  Mfunc (map (fun m => m / c) ms) os (gamma / c) h x = Mfunc ms os gamma h x / c.
Proof. exact Mfunc_rescale. Qed.

Example C03_nonvacuous : lincomb 2 3 [1; 2] [10; 20] = [32; 64].
Proof. unfold lincomb. cbn. f_equal; [lra | f_equal; lra]. Qed.
