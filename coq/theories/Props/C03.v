(** C03 — integration is linear in (density, theta0) and independent of the reference size.
    Only statements; every proof is [exact <lemma>]. *)
From Coq Require Import Reals List Lra Lia.
From Dadi Require Import Base.Num Base.NumR Model.Tridiag Model.Scheme Model.NDSweep
  Proofs.TridiagProofs Proofs.SchemeProofs Proofs.Linearity Proofs.Rescale Proofs.NDLines Proofs.NDSweepProofs Proofs.IntegrateLinear Proofs.IntegrateRescale Proofs.IntegrateRegimes.
Import ListNotations.
Local Open Scope R_scope.

(** the coefficients a,b,c do not depend on the density; the right-hand side is phi/dt *)
Theorem C03_coefficients_independent_of_density : forall xs Vf Mf nu c0 c1 dt use_delj, (2 <= length xs)%nat -> forall phi,
  line_rows xs Vf Mf nu c0 c1 dt use_delj phi = mkrows (abc_of xs Vf Mf nu c0 c1 dt use_delj) (rhs_of xs dt phi).
Proof. exact line_rows_mkrows. Qed.

(** one implicit step along any line is linear in the density, for arbitrary coefficient pairs *)
Theorem C03_step_linear_in_density : forall xs Vf Mf nu c0 c1 dt use_delj, (2 <= length xs)%nat ->
  forall al be (p1 p2 : list R), length p1 = length p2 ->
  line_solve xs Vf Mf nu c0 c1 dt use_delj (lincomb al be p1 p2) =
  lincomb al be (line_solve xs Vf Mf nu c0 c1 dt use_delj p1) (line_solve xs Vf Mf nu c0 c1 dt use_delj p2).
Proof. exact line_solve_linear. Qed.
Print Assumptions C03_step_linear_in_density.

(** the Thomas solve is linear in the right-hand side and invariant under scaling all equations *)
Theorem C03_thomas_linear : forall abc rs1 rs2 al be, length rs1 = length rs2 ->
  thomas (mkrows abc (lincomb al be rs1 rs2)) = lincomb al be (thomas (mkrows abc rs1)) (thomas (mkrows abc rs2)).
Proof. exact thomas_linear. Qed.
Theorem C03_thomas_scale : forall rows k, k <> 0 -> nonzero (all_pivots rows) -> thomas (scale_rows k rows) = thomas rows.
Proof. exact thomas_scale. Qed.

(** re-expressing the step relative to another reference size (V/c, M/c, c nu, c dt) leaves it unchanged,
    with either setting of the delj switch *)
Theorem C03_step_rescale_invariant : forall xs Vf Mf nu c0 c1 dt use_delj c, 0 < c -> (2 <= length xs)%nat -> forall phi,
  nonzero (all_pivots (line_rows xs Vf Mf nu c0 c1 dt use_delj phi)) ->
  line_solve xs (Vf' Vf c) (Mf' Mf c) (c * nu) c0 c1 (c * dt) use_delj phi = line_solve xs Vf Mf nu c0 c1 dt use_delj phi.
Proof. exact line_solve_rescale_invariant. Qed.
Print Assumptions C03_step_rescale_invariant.

(** dadi's coefficient functions transform as required: nu -> c nu, m -> m/c, gamma -> gamma/c *)
Theorem C03_V_rescales : forall nu beta c x, Vfunc_beta (c * nu) beta x = Vfunc_beta nu beta x / c.
Proof. exact Vfunc_beta_rescale. Qed.
Theorem C03_M_rescales : forall ms os gamma h c x,
  Mfunc (map (fun m => m / c) ms) os (gamma / c) h x = Mfunc ms os gamma h x / c.
Proof. exact Mfunc_rescale. Qed.

(** whole integrations: any number of populations and time steps, frozen / nomut flags; constant-parameter driver *)
Theorem C03_integration_linear_const : forall shape grids,
  (forall k, (k < length shape)%nat -> length (nth k grids []) = ax_len shape k /\ (2 <= length (nth k grids []))%nat) ->
  forall pops tf dj al be, wf_pops shape pops ->
  forall fuel th1 th2 t T (p1 p2 : list R), length p1 = length p2 ->
  integrate_const fuel shape grids pops (al * th1 + be * th2) tf dj t T (lincomb al be p1 p2) =
  olincomb al be (integrate_const fuel shape grids pops th1 tf dj t T p1) (integrate_const fuel shape grids pops th2 tf dj t T p2).
Proof. exact integrate_const_linear. Qed.
Print Assumptions C03_integration_linear_const.

(** ... and the time-dependent driver with theta0(t) = a theta1(t) + b theta2(t) *)
Theorem C03_integration_linear_timedep : forall shape grids,
  (forall k, (k < length shape)%nat -> length (nth k grids []) = ax_len shape k /\ (2 <= length (nth k grids []))%nat) ->
  forall popsf tf dj al be, (forall s, wf_pops shape (popsf s)) ->
  forall fuel (thf1 thf2 : R -> R) t T (p1 p2 : list R), length p1 = length p2 ->
  integrate_tdep fuel shape grids popsf (fun s => al * thf1 s + be * thf2 s) tf dj t T (lincomb al be p1 p2) =
  olincomb al be (integrate_tdep fuel shape grids popsf thf1 tf dj t T p1) (integrate_tdep fuel shape grids popsf thf2 tf dj t T p2).
Proof. exact integrate_tdep_linear. Qed.

(** a whole d-dimensional sweep is unchanged when the swept population is re-expressed relative to another reference size *)
Theorem C03_sweep_rescale_invariant_any_dimension : forall shape grids pops pops' k (p : @pop R) c dt dj phi,
  0 < c -> nth_error pops k = Some p -> nth_error pops' k = Some (rescale_pop c p) ->
  (2 <= length (nth k grids []))%nat ->
  (forall o q, (o < ax_outer shape k)%nat -> (q < ax_inner shape k)%nat ->
     nonzero (all_pivots (line_rows (nth k grids []) (Vfunc_beta (p_nu p) (p_beta p))
                                    (Mfunc (p_ms p) (line_os shape grids k o q) (p_gamma p) (p_h p)) (p_nu p)
                                    (all_eq n0 (line_os shape grids k o q)) (all_eq n1 (line_os shape grids k o q)) dt dj
                                    (get_line shape k phi o q)))) ->
  sweep shape grids pops' k (c * dt) dj phi = sweep shape grids pops k dt dj phi.
Proof. exact sweep_rescale_invariant. Qed.
Print Assumptions C03_sweep_rescale_invariant_any_dimension.

(** whole constant-parameter integrations are independent of the reference size: every size and time times c,
    every migration rate, selection coefficient and theta0 divided by c, in any number of populations, over any
    number of time steps (the time-step rule scales with c), with frozen / nomut flags *)
Theorem C03_integration_rescale_invariant : forall c, 0 < c -> forall shape grids,
  (forall k, (k < length shape)%nat -> length (nth k grids []) = ax_len shape k /\ (2 <= length (nth k grids []))%nat) ->
  forall pops, wf_pops shape pops -> forall dj tf, 0 < tf ->
  (forall dt, 0 < dt -> nonsingular shape grids pops dj dt) ->
  forall fuel theta t T phi,
  integrate_const fuel shape grids (map (rescale_pop c) pops) (theta / c) tf dj (c * t) (c * T) phi =
  integrate_const fuel shape grids pops theta tf dj t T phi.
Proof. exact integrate_const_rescale_invariant. Qed.
Print Assumptions C03_integration_rescale_invariant.

(** the same for time-varying parameters: nu(t) -> c nu(t/c), m(t) -> m(t/c)/c, gamma(t) -> gamma(t/c)/c,
    theta0(t) -> theta0(t/c)/c, integrated from c t to c T *)
Theorem C03_integration_rescale_invariant_timedep : forall c, 0 < c -> forall shape grids,
  (forall k, (k < length shape)%nat -> length (nth k grids []) = ax_len shape k /\ (2 <= length (nth k grids []))%nat) ->
  forall popsf thetaf, (forall s, wf_pops shape (popsf s)) -> forall dj tf, 0 < tf ->
  (forall s dt, 0 < dt -> nonsingular shape grids (popsf s) dj dt) ->
  forall fuel t T phi,
  integrate_tdep fuel shape grids (popsf' c popsf) (thetaf' c thetaf) tf dj (c * t) (c * T) phi =
  integrate_tdep fuel shape grids popsf thetaf tf dj t T phi.
Proof. exact integrate_tdep_rescale_invariant. Qed.

(** the time-step rule promises exactly that: dt scales with c *)
Theorem C03_time_step_rule_scales : forall c, 0 < c -> forall tf pops,
  dt_of tf (map (rescale_pop c) pops) = option_map (Rmult c) (dt_of tf pops).
Proof. exact dt_of_rescale. Qed.

(** amplitude and duration regimes (harness/props/c03_regimes.py evaluates exactly these identities on the real drivers with
    factors from 1e-12 to 1e12 and epochs from a fraction of a step to hundreds of steps).
    Duration: a whole integration is the fold of the step over a list of step lengths that is a function of the parameters, the
    time-step factor and the end times only; the density and theta0 have no influence on the number or the length of the steps. *)
Theorem C03_steps_do_not_depend_on_density_const : forall shape grids pops theta tf dj fuel t T (phi : list R),
  integrate_const fuel shape grids pops theta tf dj t T phi =
  option_map (fun dts => fold_left (fun acc dt => step shape grids pops theta dt dj acc) dts phi) (step_times fuel pops tf t T).
Proof. exact integrate_const_steps. Qed.
Theorem C03_steps_do_not_depend_on_density_timedep : forall shape grids popsf thetaf tf dj fuel t T (phi : list R),
  integrate_tdep fuel shape grids popsf thetaf tf dj t T phi =
  option_map (fun nds => fold_left (fun acc nd => step shape grids (popsf (fst nd)) (thetaf (fst nd)) (snd nd) dj acc) nds phi)
             (step_times_tdep fuel popsf tf t T).
Proof. exact integrate_tdep_steps. Qed.

(** Amplitude: homogeneity in (density, theta0) for EVERY factor s, over any number of steps, both drivers *)
Theorem C03_integration_homogeneous_const : forall shape grids,
  (forall k, (k < length shape)%nat -> length (nth k grids []) = ax_len shape k /\ (2 <= length (nth k grids []))%nat) ->
  forall pops tf dj s, wf_pops shape pops -> forall fuel th t T (p : list R),
  integrate_const fuel shape grids pops (s * th) tf dj t T (vscale s p) =
  option_map (vscale s) (integrate_const fuel shape grids pops th tf dj t T p).
Proof. exact integrate_const_homogeneous. Qed.
Print Assumptions C03_integration_homogeneous_const.
Theorem C03_integration_homogeneous_timedep : forall shape grids,
  (forall k, (k < length shape)%nat -> length (nth k grids []) = ax_len shape k /\ (2 <= length (nth k grids []))%nat) ->
  forall popsf tf dj s, (forall u, wf_pops shape (popsf u)) -> forall fuel (thf : R -> R) t T (p : list R),
  integrate_tdep fuel shape grids popsf (fun u => s * thf u) tf dj t T (vscale s p) =
  option_map (vscale s) (integrate_tdep fuel shape grids popsf thf tf dj t T p).
Proof. exact integrate_tdep_homogeneous. Qed.

(** a density built up from nothing by the influx alone scales with theta0 *)
Theorem C03_integration_from_nothing_scales_with_theta_const : forall shape grids,
  (forall k, (k < length shape)%nat -> length (nth k grids []) = ax_len shape k /\ (2 <= length (nth k grids []))%nat) ->
  forall pops tf dj s, wf_pops shape pops -> forall fuel th t T n,
  integrate_const fuel shape grids pops (s * th) tf dj t T (zeros n) =
  option_map (vscale s) (integrate_const fuel shape grids pops th tf dj t T (zeros n)).
Proof. exact integrate_const_from_nothing. Qed.
Theorem C03_integration_from_nothing_scales_with_theta_timedep : forall shape grids,
  (forall k, (k < length shape)%nat -> length (nth k grids []) = ax_len shape k /\ (2 <= length (nth k grids []))%nat) ->
  forall popsf tf dj s, (forall u, wf_pops shape (popsf u)) -> forall fuel (thf : R -> R) t T n,
  integrate_tdep fuel shape grids popsf (fun u => s * thf u) tf dj t T (zeros n) =
  option_map (vscale s) (integrate_tdep fuel shape grids popsf thf tf dj t T (zeros n)).
Proof. exact integrate_tdep_from_nothing. Qed.

(** any theta0 against a density of any size: result = (the density integrated without influx) + theta0 * (unit build-up from nothing) *)
Theorem C03_integration_affine_in_theta0 : forall shape grids,
  (forall k, (k < length shape)%nat -> length (nth k grids []) = ax_len shape k /\ (2 <= length (nth k grids []))%nat) ->
  forall pops tf dj, wf_pops shape pops -> forall fuel th t T (p : list R),
  integrate_const fuel shape grids pops th tf dj t T p =
  olincomb 1 th (integrate_const fuel shape grids pops 0 tf dj t T p) (integrate_const fuel shape grids pops 1 tf dj t T (zeros (length p))).
Proof. exact integrate_const_theta_range. Qed.

Example C03_nonvacuous : lincomb 2 3 [1; 2] [10; 20] = [32; 64].
Proof. unfold lincomb. cbn. f_equal; [lra | f_equal; lra]. Qed.
Example C03_regimes_nonvacuous : vscale (1/4) [4; 8] = [1; 2] /\ zeros 2 = [0; 0].
Proof. unfold vscale, zeros. cbn. split; [f_equal; [lra | f_equal; lra] | reflexivity]. Qed.
