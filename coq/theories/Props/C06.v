(** C06 — splits, admixture, pulses, removal and reordering conserve marginal densities.
    Only statements; every proof is [exact <lemma>].  Model: Model/PhiManip.v (dadi/PhiManip.py).

    Reading guide.  [deposit_col zz phi adz] is one row of the new axis written by _admixture_intermediates;
    [trapz] / [marginal_out] are the trapezoid rule in weighted-sum form (Model/Scheme.v, Model/NDSweep.v),
    [trapz_np] / [marginal_np] the form Numerics.trapz evaluates (equal: C06_trapz_forms_agree).
    [pulse_table] / [cons_table] describe the 14 pulse functions and the 5 constructors as the source wires
    them today (re-extracted from PhiManip.py and compared on every run).
    Two clauses of the property are FALSE of the faithful model and are proved as [..._refuted]:
    the 1 -> 2 split drops the two boundary values, and proportion vectors summing above 1 are
    rejected only by the pulses into the last population. *)
From Coq Require Import String.
From Coq Require Import List Arith Bool ZArith Reals Lra Lia Permutation.
From Dadi Require Import Base.Num Base.NumR Model.Tridiag Model.Scheme Model.NDSweep Model.PhiManip
  Proofs.PhiManipSums Proofs.PhiManipDeposit Proofs.PhiManipND Proofs.PhiManipTable Proofs.PhiManipMisc
  Proofs.PhiManipReorder Proofs.PhiManipFilter.
Import ListNotations.
Local Open Scope R_scope.

(** ** the deposit *)
(** KEY: for EVERY ad-mixed frequency (inside the grid, on a grid point, below 0, above 1) whose normalising
    denominator does not vanish, the trapezoid integral of the deposited row is the deposited value *)
Theorem C06_deposit_conserves : forall (zz : list R) (phi adz : R), (2 <= length zz)%nat -> incr zz ->
  dep_den zz (lower_index zz adz) (upper_index zz adz) adz <> 0 ->
  trapz zz (deposit_col zz phi adz) = phi.
Proof. exact deposit_conserves. Qed.
Print Assumptions C06_deposit_conserves.

(** the denominator is positive everywhere inside the grid, end points included ... *)
Theorem C06_deposit_defined_inside_grid : forall (zz : list R) (adz : R), (2 <= length zz)%nat -> incr zz ->
  nthF zz 0 <= adz <= nthF zz (length zz - 1) ->
  0 < dep_den zz (lower_index zz adz) (upper_index zz adz) adz.
Proof. exact dep_den_pos. Qed.

(** ... and above the last grid point ("values > 1 by round-off": upper index clamped to the last point)
    as long as  overshoot * previous spacing < last spacing^2 *)
Theorem C06_deposit_defined_just_above_grid : forall (zz : list R) (adz : R), (2 <= length zz)%nat -> incr zz ->
  let L := length zz in
  nthF zz (L - 1) < adz ->
  (adz - nthF zz (L - 1)) * delz0 zz (L - 2) < (nthF zz (L - 1) - nthF zz (L - 2)) * (nthF zz (L - 1) - nthF zz (L - 2)) ->
  upper_index zz adz = (L - 1)%nat /\ 0 < dep_den zz (lower_index zz adz) (upper_index zz adz) adz.
Proof. exact dep_den_pos_above. Qed.

(** the two grid points bracket the frequency; the fractions are its barycentric coordinates *)
Theorem C06_deposit_brackets : forall (zz : list R) (adz : R), (2 <= length zz)%nat -> incr zz ->
  nthF zz 0 <= adz <= nthF zz (length zz - 1) ->
  let up := upper_index zz adz in let lo := lower_index zz adz in
  lo = (up - 1)%nat /\ (1 <= up <= length zz - 1)%nat /\
  nthF zz lo <= adz <= nthF zz up /\
  0 <= frac_lower zz lo up adz <= 1 /\ 0 <= frac_upper zz lo up adz <= 1 /\
  frac_lower zz lo up adz + frac_upper zz lo up adz = 1 /\
  frac_lower zz lo up adz * nthF zz lo + frac_upper zz lo up adz * nthF zz up = adz.
Proof. exact deposit_brackets. Qed.

(** exactly on a grid point (incl. 0 and 1): the whole value goes to that point *)
Theorem C06_deposit_on_grid_point : forall (zz : list R) (phi : R) (i : nat), (2 <= length zz)%nat -> incr zz -> (i < length zz)%nat ->
  deposit_col zz phi (nthF zz i) = map (fun k => if Nat.eqb k i then phi / trap_w zz i else 0) (seq 0 (length zz)).
Proof. exact deposit_on_grid. Qed.

(** Numerics.trapz (sum of dx*(y[1:]+y[:-1])/2) is the weighted-sum trapezoid rule *)
Theorem C06_trapz_forms_agree : forall xs ys : list R, (2 <= length xs)%nat -> trapz_np xs ys = trapz xs ys.
Proof. exact trapz_np_eq_trapz. Qed.

(** ** new populations, any dimension, any per-axis grids, any coefficients *)
Theorem C06_new_pop_marginal_exact : forall (shape : list nat) (grids gs : list (list R)) (cs zz phi : list R),
  length phi = prodn shape -> (2 <= length zz)%nat -> incr zz -> length gs = length shape ->
  (forall idx, (idx < prodn shape)%nat -> dep_ok zz (adfreq grids cs (unflat shape idx))) ->
  marginal_out (shape ++ [length zz]) (gs ++ [zz]) (length shape) (new_pop shape grids cs zz phi) = phi.
Proof. exact new_pop_marginal_exact. Qed.
Print Assumptions C06_new_pop_marginal_exact.

(** ** pulses, any dimension, any destination, any coefficients: when the function deposits on and integrates
    with the destination's own grid g, the joint density of the other populations is unchanged *)
Theorem C06_pulse_preserves_others : forall (shape : list nat) (grids : list (list R)) (cs : list R) (dest : nat) (g phi : list R),
  length g = nth dest shape 0%nat -> (2 <= length g)%nat -> incr g ->
  forall gs : list (list R), nth dest gs [] = g ->
  (forall o i q, (o < prodn (firstn dest shape))%nat -> (i < nth dest shape 0%nat)%nat -> (q < prodn (skipn (S dest) shape))%nat ->
     dep_ok g (adfreq grids cs (unflat shape ((o * nth dest shape 0%nat + i) * prodn (skipn (S dest) shape) + q)%nat))) ->
  marginal_out shape gs dest (pulse shape grids cs dest g g phi) = marginal_out shape gs dest phi.
Proof. exact pulse_preserves_others. Qed.
Print Assumptions C06_pulse_preserves_others.

(** which functions satisfy that premise with per-axis grids, and which pass another axis' grid *)
Theorem C06_own_grid_functions :
  map pd_name (filter own_grid pulse_table) =
  ["phi_2D_admix_1_into_2"; "phi_2D_admix_2_into_1"; "phi_3D_admix_1_and_2_into_3"; "phi_3D_admix_1_and_3_into_2";
   "phi_3D_admix_2_and_3_into_1"; "phi_4D_admix_into_1"; "phi_4D_admix_into_2"; "phi_5D_admix_into_1"]%string.
Proof. exact own_grid_functions. Qed.
Theorem C06_other_grid_functions :
  map pd_name (filter (fun p => negb (own_grid p)) pulse_table) =
  ["phi_4D_admix_into_4"; "phi_4D_admix_into_3"; "phi_5D_admix_into_2"; "phi_5D_admix_into_3";
   "phi_5D_admix_into_4"; "phi_5D_admix_into_5"]%string.
Proof. exact other_grid_functions. Qed.

(** ** the 14 pulse functions as wired in the source, one grid shared by all axes (what dadi.Integration assumes),
    every proportion vector in the simplex: accepted, and the other populations' joint density is unchanged *)
Theorem C06_pulse14_preserve_others : forall p, In p pulse_table ->
  forall (g ps phi : list R) (gs' : list (list R)), (2 <= length g)%nat -> incr g ->
  length ps = (pd_dim p - 1)%nat -> simplex ps ->
  let d := pd_dim p in let sh := repeat (length g) d in
  exists r dest, pd_dest p = Some dest /\ run_desc p sh (repeat g d) ps phi = Some r /\
    (nth dest gs' [] = g -> marginal_out sh gs' dest r = marginal_out sh gs' dest phi).
Proof. exact pulse14_preserve_others. Qed.
Print Assumptions C06_pulse14_preserve_others.

Theorem C06_pulse14_zero_is_identity : forall p, In p pulse_table ->
  forall (g phi : list R), (2 <= length g)%nat -> incr g ->
  let d := pd_dim p in let sh := repeat (length g) d in
  length phi = prodn sh ->
  run_desc p sh (repeat g d) (repeat 0 (d - 1)) phi = Some phi.
Proof. exact pulse14_zero_identity. Qed.

(** the constructors 2->3 (admix, split_1, split_2), 3->4, 4->5 on a shared grid *)
Theorem C06_cons5_new_pop_marginal_exact : forall p, In p cons_table ->
  forall (g ps phi : list R) (gs' : list (list R)), (2 <= length g)%nat -> incr g ->
  (length ps = (pd_dim p - 1)%nat \/ pd_args p = [PZ 1] \/ pd_args p = [PZ 0]) -> simplex ps ->
  let d := pd_dim p in let sh := repeat (length g) d in
  length phi = prodn sh -> length gs' = d ->
  exists r, run_desc p sh (repeat g (S d)) ps phi = Some r /\
    marginal_out (sh ++ [length g]) (gs' ++ [g]) d r = phi.
Proof. exact cons5_marginal_exact. Qed.

(** a pure split is a copy of its parent *)
Theorem C06_split_1_is_copy : forall g ps phi : list R, (2 <= length g)%nat -> incr g ->
  run_desc (mkp "phi_2D_to_3D_split_1" 2 [PZ 1] [0; 0]%nat 0 None 0) [length g; length g] [g] ps phi = Some (copy_along g 0 phi).
Proof. exact split_1_is_copy. Qed.
Theorem C06_split_2_is_copy : forall g ps phi : list R, (2 <= length g)%nat -> incr g ->
  run_desc (mkp "phi_2D_to_3D_split_2" 2 [PZ 0] [0; 0]%nat 0 None 0) [length g; length g] [g] ps phi = Some (copy_along g 1 phi).
Proof. exact split_2_is_copy. Qed.

(** ** acceptance / rejection *)
Theorem C06_simplex_accepted : forall (p : pdesc) (ps : list R), In p pulse_table \/ In p cons_table ->
  length ps = (pd_dim p - 1)%nat \/ pd_args p = [PZ 1] \/ pd_args p = [PZ 0] ->
  simplex ps -> rejected (desc_args p ps) = false.
Proof. exact simplex_not_rejected. Qed.

(** what the code's test rejects: pulses into the LAST population reject exactly the vectors summing above 1;
    all other 3-D..5-D pulses reject exactly a negative last proportion; the 2-D pulses reject nothing *)
Theorem C06_rejection_characterised : forall p, In p pulse_table -> forall ps : list R, length ps = (pd_dim p - 1)%nat ->
  (rejected (desc_args p ps) = true <->
   (3 <= pd_dim p)%nat /\ (if dest_last p then 1 < nsum ps else last ps 0 < 0)).
Proof. exact rejection_characterised. Qed.

(** "rejects those summing above 1" is false of the code: full statement
      forall p ps, In p pulse_table -> length ps = pd_dim p - 1 -> 1 < nsum ps -> rejected (desc_args p ps) = true *)
Theorem C06_sum_above_one_rejected_refuted :
  exists p (ps : list R), In p pulse_table /\ length ps = (pd_dim p - 1)%nat /\ Forall (fun f => 0 <= f) ps /\ 1 < nsum ps /\
                          rejected (desc_args p ps) = false.
Proof. exact sum_above_one_rejected_refuted. Qed.

(** ** the 1 -> 2 split *)
Theorem C06_phi_1D_to_2D_marginal : forall (xx phi : list R) gs, (2 <= length xx)%nat -> incr xx -> nth 1 gs [] = xx ->
  marginal_out [length xx; length xx] gs 1 (phi_1D_to_2D xx phi) =
  map (fun i => if Nat.ltb 0 i && Nat.ltb i (length xx - 1) then nthF phi i else 0) (seq 0 (length xx)).
Proof. exact phi_1D_to_2D_marginal. Qed.

(** "integrating the new population out leaves the parental density unchanged" is false of phi_1D_to_2D *)
Theorem C06_phi_1D_to_2D_marginal_refuted :
  exists xx phi : list R, (2 <= length xx)%nat /\ incr xx /\ length phi = length xx /\
    marginal_out [length xx; length xx] [xx; xx] 1 (phi_1D_to_2D xx phi) <> phi.
Proof. exact phi_1D_to_2D_marginal_refuted. Qed.

(** ** removal and reordering *)
Theorem C06_remove_is_marginalisation : forall (shape : list nat) (g phi : list R) (gs : list (list R)) popnum,
  (2 <= length g)%nat -> nth (popnum - 1) gs [] = g ->
  remove_pop shape g popnum phi = (remove_nth (popnum - 1) shape, marginal_out shape gs (popnum - 1) phi).
Proof. exact remove_is_marginalisation. Qed.

(** out[ix'] = in[ix] with ix[axes[j]] = ix'[j] and shape'[j] = shape[axes[j]], axes = neworder - 1 *)
Theorem C06_reorder_is_permutation : forall (shape no : list nat) (phi : list R), valid_order (length shape) no ->
  forall ix' : list nat, Forall2 lt ix' (map (fun a => nth a shape 0%nat) (map pred no)) ->
  reorder_pops shape no phi = Some (map (fun a => nth a shape 0%nat) (map pred no), snd (transpose_flat shape (map pred no) phi)) /\
  nth (flatidx (map (fun a => nth a shape 0%nat) (map pred no)) ix') (snd (transpose_flat shape (map pred no) phi)) n0
  = nth (flatidx shape (old_index shape no ix')) phi n0 /\
  Forall2 lt (old_index shape no ix') shape /\
  (forall j, (j < length shape)%nat -> nth (nth j (map pred no) 0%nat) (old_index shape no ix') 0%nat = nth j ix' 0%nat).
Proof. exact (@reorder_is_permutation_gen R NumR). Qed.

Theorem C06_reorder_refuses_malformed : forall (shape no : list nat) (phi : list R),
  ~ Permutation no (seq 1 (length shape)) -> reorder_pops shape no phi = None.
Proof. exact (@reorder_refuses R NumR). Qed.

(** the validity test of reorder_pops is "neworder is a permutation of 1..d" *)
Theorem C06_reorder_valid_iff_permutation : forall d no, valid_order d no <-> Permutation no (seq 1 d).
Proof. exact valid_order_iff. Qed.

(** reordering by n1 and then by n2 is reordering by  [n1[i-1] for i in n2] *)
Theorem C06_reorder_compose : forall (shape n1 n2 : list nat) (phi : list R),
  valid_order (length shape) n1 -> valid_order (length shape) n2 ->
  match reorder_pops shape n1 phi with
  | Some (s1, r1) => reorder_pops s1 n2 r1
  | None => None
  end = reorder_pops shape (compose_order n1 n2) phi.
Proof. exact (@reorder_compose R NumR). Qed.
Print Assumptions C06_reorder_compose.

(** non-vacuity: a concrete non-uniform grid and a frequency strictly between two grid points *)
Example C06_nonvacuous : trapz [0; 1 / 4; 1] (deposit_col [0; 1 / 4; 1] 3 (1 / 8)) = 3.
Proof.
  assert (Hinc : incr [0; 1 / 4; 1]).
  { intros i j [H1 H2]. cbn [length] in H2.
    destruct j as [|[|[|j]]]; try lia; destruct i as [|[|i]]; try lia; unfold nthF; cbn [nth]; numR; lra. }
  apply C06_deposit_conserves; [cbn; lia | exact Hinc |].
  apply Rgt_not_eq. apply C06_deposit_defined_inside_grid; [cbn; lia | exact Hinc |].
  unfold nthF; cbn [nth length Nat.sub]; numR; lra. Qed.

(** ** filter_pops (Proofs/PhiManipFilter.v).  [keep_ok d tokeep]: no repeats, every entry in 1..d;
    [kept_axes] / [removed_axes]: the 0-based axes listed / not listed in tokeep, in increasing order;
    [marg_axes sh gs axes phi]: integrate the listed axes out one after the other with [marginal_out]
    (each number refers to the array as it is at that moment; shape and grid list lose the entry). *)
(** accepted calls: the shape is the shape at the kept axes in INCREASING axis order whatever the order of tokeep,
    the values are the iterated trapezoid marginal over the other axes, highest axis first *)
Theorem C06_filter_pops_is_iterated_marginalisation : forall (shape : list nat) (g phi : list R) (tokeep : list nat),
  (2 <= length g)%nat -> keep_ok (length shape) tokeep ->
  filter_pops shape g tokeep phi =
    Some (map (fun a => nth a shape 0%nat) (kept_axes (length shape) tokeep),
          snd (marg_axes shape (repeat g (length shape)) (rev (removed_axes (length shape) tokeep)) phi)) /\
  fst (marg_axes shape (repeat g (length shape)) (rev (removed_axes (length shape) tokeep)) phi) =
    map (fun a => nth a shape 0%nat) (kept_axes (length shape) tokeep).
Proof. exact filter_pops_is_iterated_marginalisation. Qed.
Print Assumptions C06_filter_pops_is_iterated_marginalisation.

(** refusal (list.remove raising ValueError) exactly when an entry of tokeep is outside 1..d or repeated; any Num type *)
Theorem C06_filter_pops_refusal : forall (F : Type) (H : Num F) (shape : list nat) (g : list F) (tokeep : list nat) (phi : list F),
  filter_pops shape g tokeep phi = None <-> ~ (NoDup tokeep /\ Forall (fun p => (1 <= p <= length shape)%nat) tokeep).
Proof. exact (@filter_pops_refusal). Qed.
Print Assumptions C06_filter_pops_refusal.

(** Fubini for two axes k < r of any array whose grids have the lengths of its axes *)
Theorem C06_marginal_out_commute : forall (sh : list nat) (gs : list (list R)) (phi : list R) (k r : nat),
  Forall2 (fun (g : list R) n => length g = n) gs sh -> (k < r < length sh)%nat ->
  marginal_out (remove_nth k sh) (remove_nth k gs) (r - 1) (marginal_out sh gs k phi) =
  marginal_out (remove_nth r sh) (remove_nth r gs) k (marginal_out sh gs r phi) /\
  remove_nth (r - 1) (remove_nth k sh) = remove_nth k (remove_nth r sh).
Proof. exact marginal_out_commute. Qed.
Print Assumptions C06_marginal_out_commute.

(** any two orders of integrating any set of populations out give the same shape, grids and values.  The state
    (labels, shape, grids, values) carries the original axis number of every current axis; [rm_label st a]
    integrates out the axis labelled a, wherever it now is.  [wf_state]: labels distinct, one per axis, every
    grid as long as its axis. *)
Theorem C06_marginalisation_order_irrelevant : forall (l1 l2 : list nat), Permutation l1 l2 ->
  forall st : mstate, wf_state st -> NoDup l1 -> incl l1 (st_labels st) ->
  fold_left rm_label l1 st = fold_left rm_label l2 st.
Proof. exact marginalisation_order_irrelevant. Qed.
Print Assumptions C06_marginalisation_order_irrelevant.

(** in particular filter_pops returns what ANY order of removing the unlisted populations returns *)
Theorem C06_filter_pops_any_order : forall (shape : list nat) (g phi : list R) (tokeep order : list nat),
  (2 <= length g)%nat -> Forall (fun n => n = length g) shape -> keep_ok (length shape) tokeep ->
  Permutation order (removed_axes (length shape) tokeep) ->
  filter_pops shape g tokeep phi =
    Some (let r := fold_left rm_label order (seq 0 (length shape), shape, repeat g (length shape), phi) in
          (snd (fst (fst r)), snd r)).
Proof. exact filter_pops_any_order. Qed.
Print Assumptions C06_filter_pops_any_order.

(** ** refusal guards (round 11).  The constructors 3 -> 4 and 4 -> 5 hand their proportion parameters to the helper
    unchanged: they refuse exactly the vectors summing above 1; the 2 -> 3 constructors refuse nothing.  Together with
    C06_rejection_characterised this fixes, for every pulse function and constructor, the exact set of refused
    proportion vectors; the guard stream of harness/props/c06.py compares the real code's ValueError with it. *)
Theorem C06_constructor_rejection_characterised : forall p, In p cons_table -> forall ps : list R, length ps = (pd_dim p - 1)%nat ->
  (rejected (desc_args p ps) = true <-> (3 <= pd_dim p)%nat /\ 1 < nsum ps).
Proof. exact cons_rejection_characterised. Qed.
Print Assumptions C06_constructor_rejection_characterised.

(** the guard-only comparison used for correspondence cases whose values are not compared (it evaluates [rejected] on
    the helper arguments and no density) returns what the full comparison returns *)
Theorem C06_guard_check_is_the_model : forall tol c, PhiManipCheck.mcheck_guard tol c = PhiManipCheck.mcheck tol c.
Proof. exact mcheck_guard_is_mcheck. Qed.
