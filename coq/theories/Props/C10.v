(** C10 — population bookkeeping on spectra equals explicit index arithmetic, keeps labels.
    Only statements; every proof is [exact <lemma>].

    Model: Model/PopOps.v (spectra of ANY dimension and shape: shape, value and mask functions on multi-indices,
    labels, folded flag; the loops of the code are loops in the model).  Vocabulary used below:
      inr S I                    the multi-index I lies inside an array of shape S
      fiber_sum S f g J          sum of g I over all entries I of a shape-S array with f I = J   (explicit re-indexing)
      fiber_all / fiber_any      the same with "all masked" / "any masked"
      eff a I                    the value numpy reductions see (0 where masked); etotal = sum of eff; total = sum of data
      drop_axes over l           l without the positions listed in over;  select d ks l = [l[k] for k in ks]
      merge_idx t0 ts I          I[t0] := sum of I[t] for t in t0::ts, positions ts deleted (merge_shape, merge_labels alike)
      valid_order d n            n is a permutation of 1..d;  compose_order n1 n2 = [n1[i-1] for i in n2]
      same_spectrum / same_visible   equal shape, labels, folded flag, mask and data (data where unmasked) *)
From Coq Require Import String.
From Coq Require Import ZArith Reals List Bool Arith Lia Lra Permutation.
From Dadi Require Model.PopOpsCheck.
From Dadi Require Import Base.Num Base.NumR Model.PopOps Proofs.PopOpsIdx Proofs.PopOpsProofs Proofs.PopOpsReorder
  Proofs.PopOpsCommute Proofs.PopOpsFoldCommute Proofs.PopOpsCombine Proofs.PopOpsScramble
  Proofs.PopOpsProjCommute Proofs.PopOpsFoldMarg Proofs.PopOpsFoldCombine Proofs.PopOpsFoldScramble.
Import ListNotations.
Local Open Scope R_scope.

(** *** marginalize / filter_pops *)
Theorem C10_marginalize_is_sum_over_dropped_populations : forall (a : spec R) over mc,
  fo a = false -> NoDup over -> Forall (fun k => (k < length (sh a))%nat) over ->
  let out := marginalize_core over mc a in
  sh out = drop_axes over (sh a) /\ ids out = option_map (drop_axes over) (ids a) /\ fo out = false /\
  forall J, inr (sh out) J ->
    mk out J = fiber_all (sh a) (drop_axes over) (mk a) J || (mc && is_corner (sh out) J) /\
    (mk out J = false -> va out J = fiber_sum (sh a) (drop_axes over) (eff a) J).
Proof. exact marginalize_spec. Qed.
Print Assumptions C10_marginalize_is_sum_over_dropped_populations.

Theorem C10_marginalize_accepts_valid_axes : forall (a : spec R) over mc,
  valid_over (length (sh a)) over = true -> marginalize over mc a = Some (marginalize_core over mc a).
Proof. exact marginalize_accepts. Qed.

Theorem C10_marginalize_folded_is_unfold_work_fold : forall (a : spec R) over mc,
  fo a = true -> marginalize_core over mc a = fold (marginalize_core over mc (unfold a)).
Proof. exact marginalize_folded. Qed.

Theorem C10_marginalize_conserves_total : forall (a : spec R) over,
  fo a = false -> NoDup over -> Forall (fun k => (k < length (sh a))%nat) over ->
  etotal (marginalize_core over false a) = etotal a.
Proof. exact marginalize_conserves_total. Qed.
Print Assumptions C10_marginalize_conserves_total.

Theorem C10_marginalize_labels_follow_axes : forall (a : spec R) over mc,
  let ks := kept over (length (sh a)) in
  (forall I : idx, length I = length (sh a) -> drop_axes over I = select 0%nat ks I) /\
  (forall l : list string, ids a = Some l -> length l = length (sh a) ->
     ids (marginalize_core over mc a) = Some (select EmptyString ks l) \/ fo a = true).
Proof. exact marginalize_labels_follow_axes. Qed.

Theorem C10_filter_pops_is_marginalize_over_the_complement : forall (a : spec R) keep,
  NoDup keep -> Forall (fun p => (1 <= p <= length (sh a))%nat) keep ->
  filter_pops keep a = marginalize (filter (fun k => negb (memb (S k) keep)) (seq 0 (length (sh a)))) true a.
Proof. exact filter_pops_is_marginalize. Qed.

(** *** reorder_pops *)
Theorem C10_reorder_is_axis_permutation : forall (a : spec R) neworder,
  valid_order (length (sh a)) neworder ->
  let p := map pred neworder in
  exists r, reorder_pops neworder a = Some r /\
    sh r = select 0%nat p (sh a) /\ ids r = option_map (select EmptyString p) (ids a) /\ fo r = fo a /\
    (forall I, inr (sh a) I -> inr (sh r) (select 0%nat p I) /\
                               va r (select 0%nat p I) = va a I /\ mk r (select 0%nat p I) = mk a I) /\
    (forall J, inr (sh r) J -> va r J = fiber_sum (sh a) (select 0%nat p) (va a) J /\
                               mk r J = fiber_any (sh a) (select 0%nat p) (mk a) J) /\
    total r = total a /\ etotal r = etotal a.
Proof. exact reorder_spec. Qed.
Print Assumptions C10_reorder_is_axis_permutation.

Theorem C10_reorder_refuses_non_permutations : forall (a : spec R) neworder,
  ~ valid_order (length (sh a)) neworder -> reorder_pops neworder a = None.
Proof. exact reorder_refuses. Qed.

Theorem C10_reorder_composition : forall (a : spec R) n1 n2,
  valid_order (length (sh a)) n1 -> valid_order (length (sh a)) n2 ->
  exists r1 r2 r12, reorder_pops n1 a = Some r1 /\ reorder_pops n2 r1 = Some r2 /\
                    reorder_pops (compose_order n1 n2) a = Some r12 /\ same_spectrum r2 r12.
Proof. exact reorder_compose. Qed.

Theorem C10_reorder_inverse : forall (a : spec R) n,
  valid_order (length (sh a)) n -> labels_ok a ->
  exists r1 r2, reorder_pops n a = Some r1 /\ reorder_pops (inverse_order n) r1 = Some r2 /\ same_spectrum r2 a.
Proof. exact reorder_inverse. Qed.

(** marginalising axes [over] of the reordered spectrum = reordering (by the order induced on the surviving axes)
    the marginal over the corresponding original axes *)
Theorem C10_marginalize_commutes_with_reorder : forall (a : spec R) n over,
  fo a = false -> valid_order (length (sh a)) n -> NoDup over ->
  Forall (fun k => (k < length (sh a))%nat) over -> labels_ok a -> forall mc,
  exists r r', reorder_pops n a = Some r /\
               reorder_pops (induced_order a n over) (marginalize_core (orig_axes n over) mc a) = Some r' /\
               same_visible (marginalize_core over mc r) r'.
Proof. exact marginalize_commutes_with_reorder. Qed.
Print Assumptions C10_marginalize_commutes_with_reorder.

(** folding the reordered spectrum = reordering the folded spectrum: data and mask, whatever is masked *)
Theorem C10_reorder_commutes_with_fold : forall (a : spec R) n,
  valid_order (length (sh a)) n ->
  exists r1 r2, reorder_pops n a = Some r1 /\ reorder_pops n (fold a) = Some r2 /\ same_spectrum (fold r1) r2.
Proof. exact reorder_commutes_with_fold. Qed.
Print Assumptions C10_reorder_commutes_with_fold.

(** *** combine_two_pops / combine_pops / Misc.combine_pops *)
Theorem C10_combine_two_adds_allele_counts : forall (a : spec R) p q,
  (1 <= p <= length (sh a))%nat -> (1 <= q <= length (sh a))%nat -> p <> q ->
  let t0 := pred (Nat.min p q) in let t1 := pred (Nat.max p q) in
  let o := combine_two_pops p q a in
  sh o = merge2 (fun x y => x + y - 1)%nat 0%nat t0 t1 (sh a) /\ fo o = fo a /\
  ids o = option_map (merge2 (fun x y => (x ++ "+" ++ y)%string) EmptyString t0 t1) (ids a) /\
  (forall K, inr (sh o) K -> va o K = fiber_sum (sh a) (merge2 Nat.add 0%nat t0 t1) (va a) K /\
                             mk o K = is_corner (sh o) K || fiber_any (sh a) (merge2 Nat.add 0%nat t0 t1) (mk a) K) /\
  total o = total a.
Proof. exact combine_two_spec. Qed.

Theorem C10_combine_two_argument_order_irrelevant : forall (a : spec R) p q,
  combine_two_pops p q a = combine_two_pops q p a.
Proof. exact combine_two_sym. Qed.

Theorem C10_combine_pops_is_explicit_merge : forall (a : spec R) tc,
  NoDup tc -> tc <> [] -> Forall (fun p => (1 <= p <= length (sh a))%nat) tc ->
  let t0 := merged_axis tc in let ts := other_axes tc in
  let o := combine_pops tc a in
  (Forall (fun x => (1 <= x)%nat) (sh a) -> sh o = merge_shape t0 ts (sh a)) /\
  (forall K, inr (sh o) K -> va o K = fiber_sum (sh a) (merge_idx t0 ts) (va a) K) /\
  total o = total a /\
  (forall l, ids a = Some l -> length l = length (sh a) -> ids o = Some (merge_labels t0 ts l)) /\
  (ids a = None -> ids o = None) /\
  fo o = fo a.
Proof. exact combine_pops_spec. Qed.
Print Assumptions C10_combine_pops_is_explicit_merge.

Theorem C10_combine_pops_order_irrelevant : forall (a : spec R) tc tc',
  Permutation tc tc' -> combine_pops tc a = combine_pops tc' a.
Proof. exact combine_pops_order_irrelevant. Qed.

Theorem C10_misc_combine_pops_2d : forall (a : spec R) s0 s1 idxs,
  sh a = [s0; s1] ->
  exists o, misc_combine_pops idxs a = Some o /\ sh o = [s0 + s1 - 1]%nat /\ ids o = None /\ fo o = false /\
    (forall K, inr (sh o) K ->
       va o K = fiber_sum (sh a) (fun I => [nth 0 I 0 + nth 1 I 0]%nat) (va a) K /\ mk o K = is_corner (sh o) K) /\
    total o = total a.
Proof. exact misc_combine_2d. Qed.

Theorem C10_misc_combine_pops_3d : forall (a : spec R) s0 s1 s2 x y z,
  sh a = [s0; s1; s2] -> (x, y, z) = (0, 1, 2)%nat \/ (x, y, z) = (0, 2, 1)%nat \/ (x, y, z) = (1, 2, 0)%nat ->
  exists o, misc_combine_pops [x; y] a = Some o /\
    sh o = [nth x (sh a) 0 + nth y (sh a) 0 - 1; nth z (sh a) 0]%nat /\ ids o = None /\ fo o = false /\
    (forall K, inr (sh o) K ->
       va o K = fiber_sum (sh a) (fun I => [nth x I 0 + nth y I 0; nth z I 0]%nat) (va a) K /\ mk o K = is_corner (sh o) K) /\
    total o = total a.
Proof. exact misc_combine_3d. Qed.

(** *** scramble_pop_ids: pool, then deal back (multivariate hypergeometric) *)
Theorem C10_scramble_is_pool_then_redeal : forall (a : spec R) mc,
  let o := scramble_unfolded mc a in
  sh o = sh a /\ ids o = None /\ fo o = false /\
  forall c, inr (sh a) c ->
    va o c = deal_prob (sh a) c * fiber_sum (sh a) (fun I => [isum I]) (va a) [isum c] /\
    mk o c = (mc && is_corner (sh a) c).
Proof. exact scramble_spec. Qed.

Theorem C10_scramble_unfolded_and_folded_cases : forall (a : spec R) mc,
  (fo a = false -> scramble_pop_ids mc a = scramble_unfolded mc a) /\
  (fo a = true -> scramble_pop_ids mc a = fold (scramble_unfolded mc (unfold a))).
Proof. exact (fun a mc => conj (scramble_unfolded_case a mc) (scramble_folded_case a mc)). Qed.

(** multivariate Vandermonde, any number of populations *)
Theorem C10_scramble_conserves_total : forall (a : spec R) mc,
  Forall (fun s => (1 <= s)%nat) (sh a) -> total (scramble_unfolded mc a) = total a.
Proof. exact scramble_conserves_total. Qed.
Print Assumptions C10_scramble_conserves_total.

(** non-vacuity: a concrete 2 x 3 spectrum with labels; populations 2 and 1 merged *)
Example C10_nonvacuous :
  let a := of_flat [2; 3]%nat [1; 2; 3; 4; 5; 6] [false; false; false; false; false; false]
                   (Some ["A"%string; "B"%string]) false in
  total (combine_pops [2; 1]%nat a) = 21 /\ ids (combine_pops [2; 1]%nat a) = Some ["A+B"%string] /\
  total (scramble_unfolded false a) = 21.
Proof. intros a.
  assert (T : total a = 21) by (unfold total; simpl; lra).
  destruct (combine_pops_spec a [2; 1]%nat) as (_ & _ & E & L & _ & _).
  - repeat constructor; simpl; intuition lia.
  - discriminate.
  - repeat constructor; simpl; lia.
  - split; [now rewrite E|]. split; [apply (L ["A"%string; "B"%string]); reflexivity|].
    rewrite scramble_conserves_total; [exact T|]. repeat constructor; simpl; lia. Qed.

(** *** commutation with projection and folding (unmasked data)
    proj_spec ax m a   = Spectrum._project_one_axis(m, ax) on the multi-index representation: entry J of the data is
                         sum_j H(n, m, j, J[ax]) * a[J with J[ax] := j]  (H = the hypergeometric weight of C08), entry J of the
                         mask is "some masked source entry in the window contributes"; these ARE the entries of the nested-array
                         model of C08 (C10_projection_is_the_C08_projection below)
    proj_all ns a      = Spectrum.project(ns): axis k to ns[k] for k = 0, 1, ...
    unmasked a         = no entry inside the array is masked;  corner_masked a = at most the two corner entries are *)
Theorem C10_projection_is_the_C08_projection : forall d ax n m shp (x : Projection.tens R d) (I : idx),
  ProjTensor.wf d shp x -> (ax < d)%nat -> length I = d -> nth ax shp 0%nat = S n -> (m <= n)%nat -> (nth ax I 0 <= m)%nat ->
  ProjTensor.tget 0 d I (Projection.proj_axis 0 Rplus d ax (Projection.pcoef n m) m x)
  = proj_va ax n m (fun I' => ProjTensor.tget 0 d I' x) I.
Proof. exact proj_va_is_tensor_projection. Qed.
Theorem C10_mask_projection_is_the_C08_projection : forall d ax n m shp (b : Projection.tens bool d) (I : idx),
  ProjTensor.wf d shp b -> (ax < d)%nat -> length I = d -> nth ax shp 0%nat = S n -> (m <= n)%nat -> (nth ax I 0 <= m)%nat ->
  ProjTensor.tget false d I (Projection.proj_axis false orb d ax (Projection.pmask n m) m b)
  = proj_mk ax n m (fun I' => ProjTensor.tget false d I' b) I.
Proof. exact proj_mk_is_tensor_projection. Qed.

(** marginalize(project(ns)) = project(ns on the surviving axes)(marginalize): shape, labels, flag, data and mask *)
Theorem C10_marginalize_commutes_with_projection : forall (a : spec R) over mc ns,
  fo a = false -> NoDup over -> Forall (fun k => (k < length (sh a))%nat) over ->
  Forall (fun s => (1 <= s)%nat) (sh a) -> unmasked a ->
  length ns = length (sh a) -> Forall2 (fun m s => (m < s)%nat) ns (sh a) ->
  same_spectrum (marginalize_core over mc (proj_all ns a))
                (proj_all (drop_axes over ns) (marginalize_core over mc a)).
Proof. exact marginalize_commutes_with_projection. Qed.
Print Assumptions C10_marginalize_commutes_with_projection.

(** one axis: a surviving axis (projected at its new position afterwards), a dropped axis (projection is irrelevant:
    the weights H sum to 1 along the projected axis) *)
Theorem C10_marginalize_projection_of_surviving_axis : forall (a : spec R) over mc ax m,
  fo a = false -> NoDup over -> Forall (fun k => (k < length (sh a))%nat) over ->
  Forall (fun s => (1 <= s)%nat) (sh a) -> unmasked a ->
  (ax < length (sh a))%nat -> (m <= pred (nth ax (sh a) 0))%nat -> ~ In ax over ->
  same_spectrum (marginalize_core over mc (proj_spec ax m a))
                (proj_spec (index_of ax (kept over (length (sh a)))) m (marginalize_core over mc a)).
Proof. exact marginalize_proj_kept. Qed.
Theorem C10_marginalize_projection_of_dropped_axis : forall (a : spec R) over mc ax m,
  fo a = false -> NoDup over -> Forall (fun k => (k < length (sh a))%nat) over ->
  Forall (fun s => (1 <= s)%nat) (sh a) -> unmasked a ->
  (ax < length (sh a))%nat -> (m <= pred (nth ax (sh a) 0))%nat -> In ax over ->
  same_spectrum (marginalize_core over mc (proj_spec ax m a)) (marginalize_core over mc a).
Proof. exact marginalize_proj_dropped. Qed.

(** combine_two_pops and projection of an axis that is not merged *)
Theorem C10_combine_two_commutes_with_projection : forall (a : spec R) p q ax m,
  (1 <= p <= length (sh a))%nat -> (1 <= q <= length (sh a))%nat -> p <> q ->
  Forall (fun s => (1 <= s)%nat) (sh a) -> unmasked a ->
  (ax < length (sh a))%nat -> ax <> pred p -> ax <> pred q -> (m <= pred (nth ax (sh a) 0))%nat ->
  let ax' := if (ax <? pred (Nat.max p q))%nat then ax else (ax - 1)%nat in
  same_spectrum (combine_two_pops p q (proj_spec ax m a)) (proj_spec ax' m (combine_two_pops p q a)).
Proof. exact combine_two_commutes_with_projection. Qed.
Print Assumptions C10_combine_two_commutes_with_projection.

(** marginalize(fold fs) and fold(marginalize fs): same shape, labels, folded flag and mask, same data wherever unmasked
    (the two corner entries of the result are masked on both sides; there the data differ) *)
Theorem C10_marginalize_commutes_with_fold : forall (g : spec R) over mc,
  fo g = false -> NoDup over -> Forall (fun k => (k < length (sh g))%nat) over ->
  Forall (fun s => (1 <= s)%nat) (sh g) -> corner_masked g ->
  same_visible (marginalize_core over mc (fold g)) (fold (marginalize_core over mc g)).
Proof. exact marginalize_commutes_with_fold. Qed.
Print Assumptions C10_marginalize_commutes_with_fold.

(** non-vacuity: a concrete unmasked 2 x 3 spectrum satisfies the hypotheses above *)
Example C10_commutation_nonvacuous :
  let a := of_flat [2; 3]%nat [1; 2; 3; 4; 5; 6] [false; false; false; false; false; false] None false in
  fo a = false /\ unmasked a /\ corner_masked a /\ Forall (fun s => (1 <= s)%nat) (sh a) /\
  Forall2 (fun m s => (m < s)%nat) [1; 1]%nat (sh a) /\
  same_spectrum (marginalize_core [1%nat] true (proj_all [1; 1]%nat a)) (proj_all [1%nat] (marginalize_core [1%nat] true a)).
Proof. intros a.
  assert (U : unmasked a).
  { intros I HI. apply in_indices in HI. simpl in HI. repeat (destruct HI as [<-|HI]; [reflexivity|]). contradiction. }
  assert (P : Forall (fun s => (1 <= s)%nat) (sh a)) by (repeat constructor).
  assert (F2 : Forall2 (fun m s => (m < s)%nat) [1; 1]%nat (sh a)) by (repeat constructor).
  split; [reflexivity|]. split; [exact U|]. split; [intros I HI E; rewrite (U I HI) in E; discriminate|].
  split; [exact P|]. split; [exact F2|].
  apply (marginalize_commutes_with_projection a [1%nat] true [1; 1]%nat); auto.
  all: try (constructor; [intros []|constructor]); try (constructor; [simpl; lia|constructor]). Qed.

(** combine_two_pops(fold fs) and fold(combine_two_pops fs): same shape, labels, folded flag, data AND mask at every entry,
    whatever is masked (merging two axes keeps the total derived-allele count of an entry and the total sample size, and maps
    the mirror of an entry to the mirror of its image); every axis needs at least one entry *)
Theorem C10_combine_commutes_with_fold : forall (g : spec R) p q,
  (1 <= p <= length (sh g))%nat -> (1 <= q <= length (sh g))%nat -> p <> q ->
  Forall (fun s => (1 <= s)%nat) (sh g) ->
  same_spectrum (combine_two_pops p q (fold g)) (fold (combine_two_pops p q g)).
Proof. exact combine_two_commutes_with_fold. Qed.
Print Assumptions C10_combine_commutes_with_fold.

(** ... hence combine_pops (any set of populations) by iteration *)
Theorem C10_combine_pops_commutes_with_fold : forall (g : spec R) tc,
  NoDup tc -> tc <> [] -> Forall (fun p => (1 <= p <= length (sh g))%nat) tc ->
  Forall (fun s => (1 <= s)%nat) (sh g) ->
  same_spectrum (combine_pops tc (fold g)) (fold (combine_pops tc g)).
Proof. exact combine_pops_commutes_with_fold. Qed.
Print Assumptions C10_combine_pops_commutes_with_fold.

(** scramble_pop_ids(fold fs) and fold(scramble_pop_ids fs): same shape, labels, folded flag, data AND mask at every entry
    (the pooled spectrum of the symmetrisation is the symmetrisation of the pooled spectrum; the multivariate hypergeometric
    weights are invariant under complementing all counts) *)
Theorem C10_scramble_commutes_with_fold : forall (g : spec R) mc,
  fo g = false ->
  same_spectrum (scramble_pop_ids mc (fold g)) (fold (scramble_pop_ids mc g)).
Proof. exact scramble_commutes_with_fold. Qed.
Print Assumptions C10_scramble_commutes_with_fold.

(** the multivariate hypergeometric weights are invariant under complementing all counts *)
Theorem C10_deal_prob_complement_symmetry : forall S c, inr S c -> deal_prob (F:=R) S (rev_idx S c) = deal_prob S c.
Proof. exact deal_prob_rev. Qed.

(** nan pattern: with at most the corners of fs masked, the entries of either side poisoned by a masked input entry are
    corner entries, which fold masks *)
Theorem C10_scramble_fold_poison_is_corners : forall (g : spec R) c,
  corner_masked g -> inr (sh g) c ->
  scramble_poison (fold g) c = true -> is_corner (sh g) c = true.
Proof. exact scramble_fold_poison_is_corners. Qed.
Theorem C10_scramble_poison_is_corners : forall (g : spec R) c,
  fo g = false -> corner_masked g -> inr (sh g) c ->
  scramble_poison g c = true -> is_corner (sh g) c = true.
Proof. exact scramble_poison_is_corners. Qed.

(** *** large sample sizes: the correspondence files of the large cases evaluate the model's re-dealing weights through rows of
    Pascal's triangle ([binomZ] is the literal Pascal recursion, exponential in time) and list the totals of the masked entries
    once (Model/PopOpsCheck.v).  The binomials are the same for ALL n, k, and for EVERY case the fast check returns exactly
    what the check on the model returns: a verdict of pcheck_full_fast is a verdict of the model. *)
Theorem C10_fast_binomials_are_the_binomials : forall n k, PopOpsCheck.binomZ_fast n k = binomZ n k.
Proof. exact binomZ_fast_correct. Qed.
Theorem C10_fast_check_is_the_check : forall tol c, PopOpsCheck.pcheck_full_fast tol c = PopOpsCheck.pcheck_full tol c.
Proof. exact pcheck_full_fast_correct. Qed.
Print Assumptions C10_fast_check_is_the_check.
