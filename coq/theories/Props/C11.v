(** C11 — likelihoods are Poisson/multinomial over jointly unmasked entries, optimal theta.
    Only statements; every proof is [exact <lemma>].

    Vocabulary (Proofs/LikelihoodBasics.v, LikelihoodProofs.v): a spectrum is its flat list of (value, mask)
    entries; [valat l i], [maskat l i] read entry i; [sum_over n J f] = sum of f i over i < n with J i = true;
    [poisson_ll lg m d] = - m + d ln m - lg (d+1); [auto_fold fold mf df m] = fold m iff data folded and model not.
    [lg] is gammaln (uninterpreted), [fold] any function on flat entry lists commuting with scalar multiplication,
    [remask] the mask_corners flag with which Numerics.intersect_masks re-wraps its arguments. *)
From Coq Require Import ZArith Reals List Bool Lra Lia.
From Dadi Require Import Base.Num Base.NumR Model.Fold Model.Likelihood
  Proofs.LikelihoodBasics Proofs.LikelihoodProofs Proofs.LikelihoodResid Proofs.FoldND Proofs.LikelihoodFoldLink.
Import ListNotations.
Local Open Scope R_scope.

(** ll = sum of Poisson log-probabilities over exactly the entries masked in neither
    (and with positive model entry: numpy.ma.log masks the others) *)
Theorem C11_ll_is_poisson_sum_over_joint_unmasked :
  forall (lg : R -> R) (fold : list entryR -> list entryR) (mf df : bool) (m d : list entryR) (J : nat -> bool),
  let m' := auto_fold fold mf df m in
  length m' = length d ->
  (forall i, (i < length d)%nat -> (J i = true <-> maskat m' i = false /\ maskat d i = false /\ 0 < valat m' i)) ->
  ll lg fold mf df m d = sum_over (length d) J (fun i => poisson_ll lg (valat m' i) (valat d i)).
Proof. exact ll_is_poisson_sum. Qed.
Print Assumptions C11_ll_is_poisson_sum_over_joint_unmasked.

Theorem C11_ll_is_poisson_sum_positive_model :
  forall (lg : R -> R) (fold : list entryR -> list entryR) (mf df : bool) (m d : list entryR) (J : nat -> bool),
  let m' := auto_fold fold mf df m in
  length m' = length d ->
  (forall i, (i < length d)%nat -> maskat m' i = false -> maskat d i = false -> 0 < valat m' i) ->
  (forall i, (i < length d)%nat -> (J i = true <-> maskat m' i = false /\ maskat d i = false)) ->
  ll lg fold mf df m d = sum_over (length d) J (fun i => poisson_ll lg (valat m' i) (valat d i)).
Proof. exact ll_is_poisson_sum_positive. Qed.

Theorem C11_ll_per_bin_mask_and_value :
  forall (lg : R -> R) (fold : list entryR -> list entryR) (mf df : bool) (m d : list entryR) (J : nat -> bool) (i : nat),
  let m' := auto_fold fold mf df m in
  length m' = length d ->
  (forall i, (i < length d)%nat -> (J i = true <-> maskat m' i = false /\ maskat d i = false /\ 0 < valat m' i)) ->
  (i < length d)%nat ->
  maskat (ll_per_bin lg fold mf df m d) i = negb (J i) /\
  (J i = true -> valat (ll_per_bin lg fold mf df m d) i = poisson_ll lg (valat m' i) (valat d i)).
Proof. exact ll_per_bin_spec. Qed.

Theorem C11_term_is_log_of_poisson_pmf : forall (lg : R -> R) (m : R) (k : nat),
  0 < m -> lg (INR k + 1) = ln (INR (fact k)) ->
  poisson_ll lg m (INR k) = ln (exp (- m) * m ^ k / INR (fact k)).
Proof. exact poisson_ll_is_log_pmf. Qed.

(** reported scaling = sum(data)/sum(model) over the entries masked in neither *)
Theorem C11_scaling_is_ratio :
  forall (remask : bool) (fold : list entryR -> list entryR) (mf df : bool) (m d : list entryR) (J : nat -> bool),
  let m' := auto_fold fold mf df m in
  length m' = length d -> corner_ok remask m' d ->
  (forall i, (i < length d)%nat -> (J i = true <-> maskat m' i = false /\ maskat d i = false)) ->
  optimal_sfs_scaling fold remask mf df m d = sum_over (length d) J (valat d) / sum_over (length d) J (valat m').
Proof. exact scaling_is_ratio. Qed.
Print Assumptions C11_scaling_is_ratio.

(** ... and exactly what the code computes without the corner hypothesis *)
Theorem C11_scaling_exact :
  forall (remask : bool) (fold : list entryR -> list entryR) (mf df : bool) (m d : list entryR),
  let m' := auto_fold fold mf df m in
  length m' = length d ->
  optimal_sfs_scaling fold remask mf df m d =
    sum_over (length d) (scaling_index_set remask m' d) (valat d) /
    sum_over (length d) (scaling_index_set remask m' d) (valat m').
Proof. exact scaling_exact. Qed.

(** the corner hypothesis cannot be dropped while intersect_masks re-wraps with mask_corners=True *)
Theorem C11_scaling_is_ratio_refuted_when_corners_remasked :
  exists m d : list entryR,
    length m = length d /\
    optimal_sfs_scaling (fun l => l) true true true m d
      <> sum_over (length d) (joint_unmasked m d) (valat d) / sum_over (length d) (joint_unmasked m d) (valat m).
Proof. exact scaling_is_ratio_refuted_when_corners_remasked. Qed.

(** ll_multinom = max over positive rescalings of the model *)
Theorem C11_ll_multinom_is_max_over_scaling :
  forall (lg : R -> R) (remask : bool) (fold : list entryR -> list entryR),
  (forall s l, fold (scale s l) = scale s (fold l)) ->
  forall (mf df : bool) (m d : list entryR) (s : R),
  let m' := auto_fold fold mf df m in
  length m' = length d ->
  (forall i, (i < length d)%nat -> maskat m' i = false -> maskat d i = false -> 0 < valat m' i) ->
  0 < sum_over (length d) (joint_unmasked m' d) (valat d) ->
  corner_ok remask m' d -> 0 < s ->
  ll lg fold mf df (scale s m) d <= ll_multinom lg fold remask mf df m d
  /\ ll_multinom lg fold remask mf df m d
     = ll lg fold mf df (scale (optimal_sfs_scaling fold remask mf df m d) m) d.
Proof. exact ll_multinom_is_max_and_is_attained. Qed.
Print Assumptions C11_ll_multinom_is_max_over_scaling.

(** invariance to rescaling the model (entries of any sign, any masks) *)
Theorem C11_ll_multinom_scale_invariant :
  forall (lg : R -> R) (remask : bool) (fold : list entryR -> list entryR),
  (forall s l, fold (scale s l) = scale s (fold l)) ->
  forall (mf df : bool) (m d : list entryR) (c : R),
  let m' := auto_fold fold mf df m in
  length m' = length d -> c <> 0 ->
  sum_over (length d) (scaling_index_set remask m' d) (valat m') <> 0 ->
  ll_multinom lg fold remask mf df (scale c m) d = ll_multinom lg fold remask mf df m d /\
  optimal_sfs_scaling fold remask mf df (scale c m) d = optimal_sfs_scaling fold remask mf df m d / c.
Proof. exact ll_multinom_scale_invariant. Qed.
Print Assumptions C11_ll_multinom_scale_invariant.

(** model == const * data maximises ll_multinom over all positive models with the same masks *)
Theorem C11_data_multiple_is_global_max :
  forall (lg : R -> R) (remask : bool) (fold : list entryR -> list entryR),
  (forall s l, fold (scale s l) = scale s (fold l)) ->
  forall (mf df : bool) (m r d : list entryR) (c : R),
  let m' := auto_fold fold mf df m in
  length m' = length d -> length r = length d ->
  (forall i, (i < length d)%nat -> valat r i = c * valat d i) ->
  (forall i, (i < length d)%nat -> maskat m' i = maskat r i) ->
  0 < c -> lg 1 = 0 ->
  (forall i, (i < length d)%nat -> maskat m' i = false -> maskat d i = false -> 0 < valat m' i) ->
  (forall i, (i < length d)%nat -> maskat m' i = false -> maskat d i = false -> 0 <= valat d i) ->
  0 < sum_over (length d) (joint_unmasked m' d) (valat d) ->
  corner_ok remask m' d ->
  ll_multinom lg fold remask mf df m d <= ll_multinom lg fold remask df df r d.
Proof. exact data_multiple_is_global_max. Qed.
Print Assumptions C11_data_multiple_is_global_max.

(** a model is folded automatically against folded data, and only then *)
Theorem C11_auto_fold :
  forall (lg : R -> R) (remask : bool) (fold : list entryR -> list entryR),
  (forall s l, fold (scale s l) = scale s (fold l)) ->
  forall m d : list entryR,
  ll lg fold false true m d = ll lg fold true true (fold m) d /\
  ll_multinom lg fold remask false true m d = ll_multinom lg fold remask true true (fold m) d /\
  optimal_sfs_scaling fold remask false true m d = optimal_sfs_scaling fold remask true true (fold m) d /\
  (forall mf, auto_fold fold mf false m = m) /\ auto_fold fold true true m = m.
Proof. exact auto_fold_spec. Qed.

(** the executable fold instance satisfies the hypothesis on [fold] *)
Theorem C11_fold_flat_commutes_with_scaling : forall (N : Z) (tot : list Z) (s : R) (l : list entryR),
  fold_flat N tot (scale s l) = scale s (fold_flat N tot l).
Proof. exact fold_flat_scale. Qed.

(** residuals: masking, value and sign *)
Theorem C11_residual_sign_and_mask_linear : forall (cut : option R) (m d : entryR),
  (lin_entry cut m d = RMasked <->
     (em m = true \/ em d = true \/ ev m < 0 \/ cutP cut (ev m) (ev d))) /\
  (em m = false -> em d = false -> 0 < ev m -> ~ cutP cut (ev m) (ev d) ->
     exists r, lin_entry cut m d = RVal r /\ r = (ev m - ev d) / sqrt (ev m) /\
               (0 < r <-> ev d < ev m) /\ (r < 0 <-> ev m < ev d) /\ (r = 0 <-> ev m = ev d)) /\
  (em m = false -> em d = false -> ev m = 0 -> ~ cutP cut (ev m) (ev d) -> lin_entry cut m d = RNonFinite).
Proof. exact linear_residual_spec. Qed.
Print Assumptions C11_residual_sign_and_mask_linear.

Theorem C11_residual_sign_and_mask_anscombe : forall (cut : option R) (m d : entryR),
  (ans_entry cut m d = RMasked <->
     (em m = true \/ em d = true \/ ev m <= 0 \/ ev d <= 0 \/ cutP cut (ev m) (ev d))) /\
  (em m = false -> em d = false -> 0 < ev m -> 0 < ev d -> ~ cutP cut (ev m) (ev d) ->
     exists r, ans_entry cut m d = RVal r /\
               r = 3 / 2 * (anscombeT (ev m) - anscombeT (ev d)) / Rpower (ev m) (1 / 6) /\
               (0 < r <-> ev d < ev m) /\ (r < 0 <-> ev m < ev d) /\ (r = 0 <-> ev m = ev d)).
Proof. exact anscombe_residual_spec. Qed.
Print Assumptions C11_residual_sign_and_mask_anscombe.

Theorem C11_residual_arrays_entrywise :
  forall (fold : list entryR -> list entryR) (cut : option R) (mf df : bool) (m d : list entryR) (i : nat),
  let m' := auto_fold fold mf df m in
  length m' = length d -> (i < length d)%nat ->
  nth i (linear_Poisson_residual fold cut mf df m d) RMasked = lin_entry cut (nth i m' edef) (nth i d edef) /\
  nth i (Anscombe_Poisson_residual fold cut mf df m d) RMasked = ans_entry cut (nth i m' edef) (nth i d edef).
Proof. exact residual_arrays_entrywise. Qed.

(** non-vacuity: a concrete 1-D pair with masked corners, an interior data mask, a zero in the data, folded data and
    an unfolded model (fold = the executable instance): the hypotheses of the maximisation theorem hold *)
Example C11_nonvacuous : forall lg : R -> R,
  let m := [(7, true); (2, false); (1, false); (3, false); (5, true)] in
  let d := [(0, true); (4, false); (0, false); (0, true); (0, true)] in
  let fold := fold_flat 4 [0; 1; 2; 3; 4]%Z in
  ll lg fold false true (scale 3 m) d <= ll_multinom lg fold true false true m d.
Proof. intros lg m d fold.
  apply (proj1 (C11_ll_multinom_is_max_over_scaling lg true fold (fold_flat_scale 4 [0; 1; 2; 3; 4]%Z)
                  false true m d 3 eq_refl
                  ltac:(intros [|[|[|[|[|i]]]]] Li; cbn in Li; try lia; unfold maskat, valat; cbn;
                        unfold nhalf, n2; numR; intros; try discriminate; lra)
                  ltac:(unfold sum_over, joint_unmasked, maskat, valat; cbn; lra)
                  ltac:(right; right; split; reflexivity)
                  ltac:(lra))). Qed.

(** non-vacuity of the global-maximum theorem: data with a zero entry, reference model 2 * data, a competitor
    with the same masks (corners masked, so the corner hypothesis holds with mask_corners=True) *)
Example C11_nonvacuous_global_max : forall lg : R -> R, lg 1 = 0 ->
  let d := [(0, true); (4, false); (0, false); (6, false); (0, true)] in
  let m := [(7, true); (2, false); (1, false); (3, false); (5, true)] in
  let r := [(0, true); (8, false); (0, false); (12, false); (0, true)] in
  ll_multinom lg (fun l => l) true false false m d <= ll_multinom lg (fun l => l) true false false r d.
Proof. intros lg LG d m r.
  apply (C11_data_multiple_is_global_max lg true (fun l => l) (fun _ _ => eq_refl) false false m r d 2 eq_refl eq_refl);
    try (intros [|[|[|[|[|i]]]]] Li; cbn in Li; try lia; unfold maskat, valat; cbn; intros; try discriminate; lra);
    try lra; try exact LG.
  - unfold sum_over, joint_unmasked, maskat, valat; cbn; lra.
  - right; right; split; reflexivity. Qed.

(** ** the fold of the likelihood functions IS the C09 model of Spectrum.fold (Proofs/LikelihoodFoldLink.v).
    [fold_c09 s l] = combine (fold_data_l s (map ev l)) (fold_mask_l s (map em l)): Model/Fold.v's fold of an array of
    shape s, on (value, mask) entries; [tot_of s] = the sum of the multi-index of every entry in C order,
    [N_of s] = the total sample size: what the harness hands to [fold_flat].  For every shape: the executable
    instance is the C09 fold on data and mask; the C09 fold commutes with scaling on every list; and the
    auto-fold theorem holds with the C09 fold itself, no hypothesis on fold left. *)
Theorem C11_autofold_uses_the_C09_fold : forall (lg : R -> R) (remask : bool) (s : list nat),
  (forall l : list entryR, length l = size s ->
     fold_flat (N_of s) (tot_of s) l = fold_c09 s l /\
     map ev (fold_flat (N_of s) (tot_of s) l) = fold_data_l s (map ev l) /\
     map em (fold_flat (N_of s) (tot_of s) l) = fold_mask_l s (map em l)) /\
  (forall c l, fold_c09 s (scale c l) = scale c (fold_c09 s l)) /\
  (forall m d : list entryR,
     ll lg (fold_c09 s) false true m d = ll lg (fold_c09 s) true true (fold_c09 s m) d /\
     ll_multinom lg (fold_c09 s) remask false true m d = ll_multinom lg (fold_c09 s) remask true true (fold_c09 s m) d /\
     optimal_sfs_scaling (fold_c09 s) remask false true m d = optimal_sfs_scaling (fold_c09 s) remask true true (fold_c09 s m) d /\
     (forall mf, auto_fold (fold_c09 s) mf false m = m) /\ auto_fold (fold_c09 s) true true m = m).
Proof. exact autofold_uses_the_C09_fold. Qed.
Print Assumptions C11_autofold_uses_the_C09_fold.

(** the maximisation and invariance theorems with the C09 fold, hypothesis discharged *)
Theorem C11_ll_multinom_is_max_over_scaling_C09_fold :
  forall (lg : R -> R) (remask : bool) (s : list nat) (mf df : bool) (m d : list entryR) (c : R),
  let m' := auto_fold (fold_c09 s) mf df m in
  length m' = length d ->
  (forall i, (i < length d)%nat -> maskat m' i = false -> maskat d i = false -> 0 < valat m' i) ->
  0 < sum_over (length d) (joint_unmasked m' d) (valat d) ->
  corner_ok remask m' d -> 0 < c ->
  ll lg (fold_c09 s) mf df (scale c m) d <= ll_multinom lg (fold_c09 s) remask mf df m d
  /\ ll_multinom lg (fold_c09 s) remask mf df m d
     = ll lg (fold_c09 s) mf df (scale (optimal_sfs_scaling (fold_c09 s) remask mf df m d) m) d.
Proof. exact ll_multinom_is_max_with_C09_fold. Qed.

Theorem C11_ll_multinom_scale_invariant_C09_fold :
  forall (lg : R -> R) (remask : bool) (s : list nat) (mf df : bool) (m d : list entryR) (c : R),
  let m' := auto_fold (fold_c09 s) mf df m in
  length m' = length d -> c <> 0 ->
  sum_over (length d) (scaling_index_set remask m' d) (valat m') <> 0 ->
  ll_multinom lg (fold_c09 s) remask mf df (scale c m) d = ll_multinom lg (fold_c09 s) remask mf df m d /\
  optimal_sfs_scaling (fold_c09 s) remask mf df (scale c m) d = optimal_sfs_scaling (fold_c09 s) remask mf df m d / c.
Proof. exact ll_multinom_scale_invariant_with_C09_fold. Qed.

(** the C09 model's own likelihood ([ll_ls], Model/Fold.v: Spectrum records, fold_ls, refusals) returns, whenever it
    returns, the C11 likelihood run with the C09 fold on the (data, mask) entries of the two spectra *)
Theorem C11_C09_likelihoods_agree : forall (lg : R -> R) (model data : lspec R) (v : R),
  length (ls_data model) = length (ls_mask model) ->
  ll_ls lg model data = Some v ->
  v = ll lg (fold_c09 (ls_shape model)) (ls_folded model) (ls_folded data) (entries_of model) (entries_of data).
Proof. exact ll_ls_is_C11_ll_with_C09_fold. Qed.
Print Assumptions C11_C09_likelihoods_agree.

(** ** hidden content (seed C11f): what is stored under a masked entry of the model or of the data is irrelevant.
    [vis_eq a b] (Proofs/LikelihoodFoldLink.v) = Forall2 (same mask, same value where unmasked): same length, same
    masks, arbitrary and possibly different values under the masks.  Every output of two visibly equal (model, data)
    pairs is the same: scalars and residual arrays equal, masked arrays visibly equal.  [fold] is any function on flat
    entry lists that maps visibly equal lists to visibly equal lists; the executable instance does (next theorem).
    Over R a stored value cannot be nan or inf: the harness hands such content, and the same numbers in every container
    type the API accepts, to the real code on every run (harness/props/c11_types.py). *)
Theorem C11_hidden_content_irrelevant :
  forall (lg : R -> R) (remask : bool) (fold : list entryR -> list entryR),
  (forall a b, vis_eq a b -> vis_eq (fold a) (fold b)) ->
  forall (cut : option R) (mf df : bool) (m m' d d' : list entryR),
  vis_eq m m' -> vis_eq d d' ->
  ll lg fold mf df m d = ll lg fold mf df m' d' /\
  vis_eq (ll_per_bin lg fold mf df m d) (ll_per_bin lg fold mf df m' d') /\
  optimal_sfs_scaling fold remask mf df m d = optimal_sfs_scaling fold remask mf df m' d' /\
  vis_eq (optimally_scaled_sfs fold remask mf df m d) (optimally_scaled_sfs fold remask mf df m' d') /\
  vis_eq (ll_multinom_per_bin lg fold remask mf df m d) (ll_multinom_per_bin lg fold remask mf df m' d') /\
  ll_multinom lg fold remask mf df m d = ll_multinom lg fold remask mf df m' d' /\
  linear_Poisson_residual fold cut mf df m d = linear_Poisson_residual fold cut mf df m' d' /\
  Anscombe_Poisson_residual fold cut mf df m d = Anscombe_Poisson_residual fold cut mf df m' d'.
Proof. exact hidden_content_irrelevant. Qed.
Print Assumptions C11_hidden_content_irrelevant.

(** the executable fold instance satisfies the hypothesis on [fold] (an entry of the folded spectrum is masked as
    soon as one of the two entries it adds up is masked) *)
Theorem C11_fold_flat_respects_hidden_content : forall (N : Z) (tot : list Z) (a b : list entryR),
  vis_eq a b -> vis_eq (fold_flat N tot a) (fold_flat N tot b).
Proof. exact fold_flat_vis. Qed.

Theorem C11_hidden_content_irrelevant_fold_flat :
  forall (lg : R -> R) (remask : bool) (N : Z) (tot : list Z) (cut : option R) (mf df : bool) (m m' d d' : list entryR),
  vis_eq m m' -> vis_eq d d' ->
  let fold := fold_flat N tot in
  ll lg fold mf df m d = ll lg fold mf df m' d' /\
  vis_eq (ll_per_bin lg fold mf df m d) (ll_per_bin lg fold mf df m' d') /\
  optimal_sfs_scaling fold remask mf df m d = optimal_sfs_scaling fold remask mf df m' d' /\
  vis_eq (optimally_scaled_sfs fold remask mf df m d) (optimally_scaled_sfs fold remask mf df m' d') /\
  vis_eq (ll_multinom_per_bin lg fold remask mf df m d) (ll_multinom_per_bin lg fold remask mf df m' d') /\
  ll_multinom lg fold remask mf df m d = ll_multinom lg fold remask mf df m' d' /\
  linear_Poisson_residual fold cut mf df m d = linear_Poisson_residual fold cut mf df m' d' /\
  Anscombe_Poisson_residual fold cut mf df m d = Anscombe_Poisson_residual fold cut mf df m' d'.
Proof. exact hidden_content_irrelevant_fold_flat. Qed.
Print Assumptions C11_hidden_content_irrelevant_fold_flat.

(** non-vacuity: folded data, unfolded model, different raw values under the masks of both (0 / -3 / 1000 under the
    data's corner and interior masks, 7 / -1 under the model's): same ll, same ll_multinom *)
Example C11_nonvacuous_hidden_content : forall lg : R -> R,
  let m  := [(7, true); (2, false); (1, false); (3, false); (5, true)] in
  let m' := [(-1, true); (2, false); (1, false); (3, false); (0, true)] in
  let d  := [(0, true); (4, false); (0, false); (0, true); (0, true)] in
  let d' := [(-3, true); (4, false); (0, false); (1000, true); (8, true)] in
  let fold := fold_flat 4 [0; 1; 2; 3; 4]%Z in
  ll lg fold false true m d = ll lg fold false true m' d' /\
  ll_multinom lg fold true false true m d = ll_multinom lg fold true false true m' d'.
Proof. intros lg m m' d d' fold.
  assert (Hm : vis_eq m m') by (repeat constructor; cbn; intros E; discriminate E).
  assert (Hd : vis_eq d d') by (repeat constructor; cbn; intros E; discriminate E).
  destruct (C11_hidden_content_irrelevant_fold_flat lg true 4 [0; 1; 2; 3; 4]%Z None false true m m' d d' Hm Hd)
    as [A [_ [_ [_ [_ [B _]]]]]].
  split; assumption. Qed.
