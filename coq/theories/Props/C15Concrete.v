(** C15, concrete semantics — the programs of the library model functions run on the executable models of the
    numerical building blocks (Model/ProgSem.v: Equilibrium.phi_1D, PhiManip split / admixture / pulses / remove /
    reorder, NDSweep.integrate_const / integrate_tdep, FromPhi.from_phi / from_phi_inbreeding), real-number instance.
    Only statements; every proof is [exact <lemma>].

    [csem] is the abstract [sem] of Model/DSL.v instantiated with the concrete operations [c_*]; [run_prog] is the strict
    interpreter the harness runs (on the NumD instance) against the real functions on every check.  On a program passing
    the static check [prog_ok] (evaluated on every translated program on every run) the two coincide. *)
From Coq Require Import QArith Qreals List Bool Arith Reals.
From Dadi Require Import Base.Num Base.NumR Model.NDSweep Model.DSL Model.ProgSem Proofs.DSLProofs Proofs.ProgSemProofs.
Import ListNotations.
Local Open Scope R_scope.

Section C15Concrete.
  (** oracle slots of the equilibrium model (overflow threshold, quadrature: used only for h <> 1/2, which no library
      model uses), fuel of the drivers, and the inputs of a run: pts, Numerics.default_grid(pts), ns, timescale_factor *)
  Variable ovf : R.
  Variable quad : (R -> R) -> R -> R -> R.
  Variable fuel pts : nat.
  Variable grid0 : list R.
  Variable ns : list nat.
  Variable tf : R.
  Notation csemp := (csem ovf quad fuel pts grid0 ns tf).
  Notation runp := (@run_prog R NumR ovf quad fuel pts grid0 ns tf).

  (** the expression evaluator of the executable semantics, at F = R, is the [eval] of the DSL *)
  Theorem C15_evalF_is_eval : forall e env t, @evalF R NumR e env t = eval e env t.
  Proof. exact evalF_R. Qed.

  (** the strict interpreter is an instance of the abstract semantics *)
  Theorem C15_exec_is_sem : forall p env s, prog_ok p (@kind_of R NumR s) = true ->
    @exec R NumR ovf quad fuel pts grid0 ns tf p env s = Some (csemp p env s).
  Proof. exact (exec_is_sem ovf quad fuel pts grid0 ns tf). Qed.
  Theorem C15_run_prog_is_sem : forall p params, prog_ok p KInit = true ->
    runp p params = result_of (Some (csemp p (env_of_list params) SInit)).
  Proof. exact (run_prog_is_sem ovf quad fuel pts grid0 ns tf). Qed.

  (** the two hypotheses of the normaliser hold of the concrete operations: an integration of duration 0 and a pulse
      with all proportions 0 return the state (any state, any arguments) *)
  Theorem C15_concrete_H_T0 : forall nus ms gs hs th be fr nm s, c_integrate fuel tf 0 nus ms gs hs th be fr nm s = s.
  Proof. exact (c_integrate_T0 fuel tf). Qed.
  Theorem C15_concrete_H_pulse0 : forall d srcs dst fs s, Forall (fun f => f = 0) fs -> c_pulse d srcs dst fs s = s.
  Proof. exact (c_pulse_zero ovf quad). Qed.

  (** hence the soundness theorems hold of the concrete semantics without hypotheses on the numerical layer *)
  Theorem C15_concrete_norm_sound : forall A env, env_ok A env -> forall p s, csemp (norm A p) env s = csemp p env s.
  Proof. exact (concrete_norm_sound ovf quad fuel pts grid0 ns tf). Qed.
  Theorem C15_concrete_nesting_sound : forall A sg complex simple, nests A sg complex simple = true ->
    forall env, env_ok A env -> forall s, csemp complex (env_of sg env) s = csemp simple env s.
  Proof. exact (concrete_nesting_sound ovf quad fuel pts grid0 ns tf). Qed.
  Theorem C15_concrete_nesting2_sound : forall A sgc sgs complex simple, nests2 A sgc sgs complex simple = true ->
    forall env, env_ok A env -> forall s, csemp complex (env_of sgc env) s = csemp simple (env_of sgs env) s.
  Proof. exact (concrete_nesting2_sound ovf quad fuel pts grid0 ns tf). Qed.

  (** ... and of the spectra returned by the interpreter: a discharged nesting obligation means that the complex model at the
      nesting point and the simple model return THE SAME spectrum (both [None] or both the same list of reals), for every
      admissible parameter vector, grid, sample sizes, timescale_factor and fuel *)
  Theorem C15_run_prog_norm_sound : forall A p params, env_ok A (env_of_list params) ->
    prog_ok p KInit = true -> prog_ok (norm A p) KInit = true -> runp (norm A p) params = runp p params.
  Proof. exact (run_prog_norm_sound ovf quad fuel pts grid0 ns tf). Qed.
  Theorem C15_run_prog_nesting_sound : forall A sg complex simple, nests A sg complex simple = true ->
    prog_ok complex KInit = true -> prog_ok simple KInit = true ->
    forall params, env_ok A (env_of_list params) -> runp complex (at_point sg params) = runp simple params.
  Proof. exact (run_prog_nesting_sound ovf quad fuel pts grid0 ns tf). Qed.
  Theorem C15_run_prog_nesting2_sound : forall A sgc sgs complex simple, nests2 A sgc sgs complex simple = true ->
    prog_ok complex KInit = true -> prog_ok simple KInit = true ->
    forall params, env_ok A (env_of_list params) -> runp complex (at_point sgc params) = runp simple (at_point sgs params).
  Proof. exact (run_prog_nesting2_sound ovf quad fuel pts grid0 ns tf). Qed.
  Theorem C15_run_prog_params_only : forall n unpacked p, params_match_names n unpacked p = true -> prog_ok p KInit = true ->
    forall params params', firstn n params = firstn n params' -> (n <= length params)%nat -> (n <= length params')%nat ->
    runp p params = runp p params'.
  Proof. exact (run_prog_params_only ovf quad fuel pts grid0 ns tf). Qed.
End C15Concrete.
Print Assumptions C15_exec_is_sem.
Print Assumptions C15_concrete_H_T0.
Print Assumptions C15_concrete_H_pulse0.
Print Assumptions C15_run_prog_nesting_sound.
Print Assumptions C15_run_prog_nesting2_sound.
Print Assumptions C15_run_prog_params_only.
