(** C15, concrete semantics — the programs of the library model functions run on the executable models of the
    numerical building blocks (Model/ProgSem.v: Equilibrium.phi_1D, PhiManip split / admixture / pulses / remove /
    reorder, NDSweep.integrate_const / integrate_tdep, FromPhi.from_phi / from_phi_inbreeding), real-number instance.
    Only statements; every proof is [exact <lemma>].

    [csem] is the abstract [sem] of Model/DSL.v instantiated with the concrete operations [c_*]; [run_prog] is the strict
    interpreter the harness runs (on the NumD instance) against the real functions on every check.  On a program passing
    the static check [prog_ok] (evaluated on every translated program on every run) the two coincide. *)
From Coq Require Import QArith Qreals List Bool Arith Reals.
From Dadi Require Import Base.Num Base.NumR Model.NDSweep Model.DSL Model.ProgSem Proofs.NDSweepProofs Proofs.IntegrateRescale
                         Proofs.FromPhiLin Proofs.DSLProofs Proofs.DSLInstance Proofs.ProgSemProofs Proofs.ProgSemScale.
Import ListNotations.
Local Open Scope R_scope.

Section C15Concrete.
  (** oracle slots of the equilibrium model (overflow threshold, quadrature: used only for h <> 1/2, which no library
      model uses), fuel of the drivers, and the inputs of a run: pts, Numerics.default_grid(pts), ns, timescale_factor *)
  Variable ovf : R.
  Variable quad : (R -> R) -> R -> R -> R.
  Variable fuel pts : nat.
  Variable grid0 : list R.
  Variable ns : list nat.
  Variable tf : R.
  Notation csemp := (csem ovf quad fuel pts grid0 ns tf).
  Notation runp := (@run_prog R NumR ovf quad fuel pts grid0 ns tf).

  (** the expression evaluator of the executable semantics, at F = R, is the [eval] of the DSL *)
  Theorem C15_evalF_is_eval : forall e env t, @evalF R NumR e env t = eval e env t.
  Proof. exact evalF_R. Qed.

  (** the strict interpreter is an instance of the abstract semantics *)
  Theorem C15_exec_is_sem : forall p env s, prog_ok p (@kind_of R NumR s) = true ->
    @exec R NumR ovf quad fuel pts grid0 ns tf p env s = Some (csemp p env s).
  Proof. exact (exec_is_sem ovf quad fuel pts grid0 ns tf). Qed.
  Theorem C15_run_prog_is_sem : forall p params, prog_ok p KInit = true ->
    runp p params = result_of (Some (csemp p (env_of_list params) SInit)).
  Proof. exact (run_prog_is_sem ovf quad fuel pts grid0 ns tf). Qed.

  (** the two hypotheses of the normaliser hold of the concrete operations: an integration of duration 0 and a pulse
      with all proportions 0 return the state (any state, any arguments) *)
  Theorem C15_concrete_H_T0 : forall nus ms gs hs th be fr nm s, c_integrate fuel tf 0 nus ms gs hs th be fr nm s = s.
  Proof. exact (c_integrate_T0 fuel tf). Qed.
  Theorem C15_concrete_H_pulse0 : forall d srcs dst fs s, Forall (fun f => f = 0) fs -> c_pulse d srcs dst fs s = s.
  Proof. exact (c_pulse_zero ovf quad). Qed.
  (** ... and the third (rule [fuse]): directly after the first split a third population created by admixture in ANY proportion
      is the split of population 2 -- phi_1D_to_2D leaves the density on the diagonal, where f x + (1 - f) x = x; off the
      diagonal a zero entry deposits zeros wherever it lands (any state: a split that does not apply gives the error state) *)
  Theorem C15_concrete_H_admix_diag : forall f s, c_admixnew 2 [f] (c_split 1 0 s) = c_split 2 1 (c_split 1 0 s).
  Proof. exact c_admix_diag. Qed.
  (** the fact about the building blocks behind it: on the output of phi_1D_to_2D the new-population constructor does not
      depend on the proportion *)
  Theorem C15_admix_of_fresh_split_any_proportion : forall (g phi : list R) (f f' : R),
    PhiManip.new_pop [length g; length g] [g; g] (PhiManip.coefs_of [f]) g (PhiManip.phi_1D_to_2D g phi) =
    PhiManip.new_pop [length g; length g] [g; g] (PhiManip.coefs_of [f']) g (PhiManip.phi_1D_to_2D g phi).
  Proof. exact new_pop_diag. Qed.

  (** hence the soundness theorems hold of the concrete semantics without hypotheses on the numerical layer *)
  Theorem C15_concrete_norm_sound : forall A env, env_ok A env -> forall p s, csemp (norm A p) env s = csemp p env s.
  Proof. exact (concrete_norm_sound ovf quad fuel pts grid0 ns tf). Qed.
  Theorem C15_concrete_nesting_sound : forall A sg complex simple, nests A sg complex simple = true ->
    forall env, env_ok A env -> forall s, csemp complex (env_of sg env) s = csemp simple env s.
  Proof. exact (concrete_nesting_sound ovf quad fuel pts grid0 ns tf). Qed.
  Theorem C15_concrete_nesting2_sound : forall A sgc sgs complex simple, nests2 A sgc sgs complex simple = true ->
    forall env, env_ok A env -> forall s, csemp complex (env_of sgc env) s = csemp simple (env_of sgs env) s.
  Proof. exact (concrete_nesting2_sound ovf quad fuel pts grid0 ns tf). Qed.

  (** ... and of the spectra returned by the interpreter: a discharged nesting obligation means that the complex model at the
      nesting point and the simple model return THE SAME spectrum (both [None] or both the same list of reals), for every
      admissible parameter vector, grid, sample sizes, timescale_factor and fuel *)
  Theorem C15_run_prog_norm_sound : forall A p params, env_ok A (env_of_list params) ->
    prog_ok p KInit = true -> prog_ok (norm A p) KInit = true -> runp (norm A p) params = runp p params.
  Proof. exact (run_prog_norm_sound ovf quad fuel pts grid0 ns tf). Qed.
  Theorem C15_run_prog_nesting_sound : forall A sg complex simple, nests A sg complex simple = true ->
    prog_ok complex KInit = true -> prog_ok simple KInit = true ->
    forall params, env_ok A (env_of_list params) -> runp complex (at_point sg params) = runp simple params.
  Proof. exact (run_prog_nesting_sound ovf quad fuel pts grid0 ns tf). Qed.
  Theorem C15_run_prog_nesting2_sound : forall A sgc sgs complex simple, nests2 A sgc sgs complex simple = true ->
    prog_ok complex KInit = true -> prog_ok simple KInit = true ->
    forall params, env_ok A (env_of_list params) -> runp complex (at_point sgc params) = runp simple (at_point sgs params).
  Proof. exact (run_prog_nesting2_sound ovf quad fuel pts grid0 ns tf). Qed.
  Theorem C15_run_prog_params_only : forall n unpacked p, params_match_names n unpacked p = true -> prog_ok p KInit = true ->
    forall params params', firstn n params = firstn n params' -> (n <= length params)%nat -> (n <= length params')%nat ->
    runp p params = runp p params'.
  Proof. exact (run_prog_params_only ovf quad fuel pts grid0 ns tf). Qed.

  (** ** whole-program scaling laws (close the C03 clause "rescale invariance of phi_1D / splits / admixture / sampling
      inside whole models"): by induction over programs, from the per-block facts
        phi_1D depends on (nu, gamma) through gamma nu and is proportional to nu theta0; split / admixture / pulse / remove /
        reorder / sampling are linear in the density; the drivers are linear in (phi, theta0) and rescale-invariant. *)

  (** linearity in theta0: the program with every theta0 multiplied by q returns q times the spectrum; no side condition *)
  Theorem C15_theta0_linear : forall q, 0 < tf -> forall p params, prog_ok p KInit = true ->
    runp (scale_theta q p) params = option_map (vscal (Q2R q)) (runp p params).
  Proof. exact (fun q Htf => run_prog_theta0_linear q fuel tf Htf ovf quad pts grid0 ns). Qed.

  (** change of the reference size: every size and time argument of every instruction multiplied by q > 0, every migration
      rate, selection coefficient and theta0 divided by q, time-dependent arguments read at t / q: the same spectrum.
      Hypothesis [ns_prog]: no pivot of a line system of a sweep of the program's integrations vanishes (the hypothesis
      of the rescale theorems of C03, Proofs/IntegrateRescale.v) *)
  Theorem C15_rescale_invariant : forall q, 0 < Q2R q -> 0 < tf -> forall p params,
    prog_ok p KInit = true -> ns_prog grid0 (env_of_list params) p ->
    runp (rescale_prog q p) params = runp p params.
  Proof. exact (fun q Hq Htf => run_prog_rescale_invariant q Hq grid0 fuel tf Htf ovf quad pts ns). Qed.

  (** the general law: two programs run at two parameter vectors whose instruction arguments are related by
      sizes x c, times x c, rates / c, gammas / c, theta0 x k / c (same proportions, flags and branch decisions):
      the second run's states are k times the first's *)
  Theorem C15_scaling_law : forall c k, 0 < c -> 0 < tf -> forall p p' env env' s,
    rel_prog c k grid0 env env' p p' -> on_grid0 grid0 s ->
    csemp p' env' (sscale k s) = sscale k (csemp p env s).
  Proof. exact (fun c k Hc Htf => csem_scaling c k Hc fuel tf Htf ovf quad pts grid0 ns). Qed.
End C15Concrete.
Print Assumptions C15_theta0_linear.
Print Assumptions C15_rescale_invariant.
Print Assumptions C15_scaling_law.

(** the per-block facts used above *)
Theorem C15_phi_1D_rescale : forall ovf quad xs c k nu th gamma h beta, c <> 0 ->
  Equilibrium.phi_1D ovf quad xs (c * nu) (k * th / c) (gamma / c) h beta = vscal k (Equilibrium.phi_1D ovf quad xs nu th gamma h beta).
Proof. exact phi_1D_rescale. Qed.
Print Assumptions C15_exec_is_sem.
Print Assumptions C15_concrete_H_T0.
Print Assumptions C15_concrete_H_pulse0.
Print Assumptions C15_concrete_H_admix_diag.
Print Assumptions C15_run_prog_nesting_sound.
Print Assumptions C15_run_prog_nesting2_sound.
Print Assumptions C15_run_prog_params_only.

(** non-vacuity of the static check: the translated programs of split_mig, IM_pre and bottlegrowth_split_mig_sel (both
    branches) pass it and end in a spectrum; a pulse before any density exists, or a two-population integration of a
    one-population density, does not *)
Example C15_prog_ok_nonvacuous :
  prog_ok DSLInstance.ex_split_mig KInit = true /\ ends_in_fs DSLInstance.ex_split_mig KInit = true /\
  prog_ok DSLInstance.ex_IM_pre KInit = true /\ prog_ok DSLInstance.ex_bgsm_sel KInit = true /\
  prog_ok (Step (IPulse 2 [0%nat] 1 [Const 0]) Done) KInit = false /\
  prog_ok (Step IGrid (Step (IPhi1D (Const 1) (Const 1) (Const 0) (Const (1 # 2)) (Const 1))
            (Step (IIntegrate (Var 0) [Const 1; Const 1] [[Const 0; Const 0]; [Const 0; Const 0]] [Const 0; Const 0]
                              [Const (1 # 2); Const (1 # 2)] (Const 1) (Const 1) [false; false] [false; false]) Done))) KInit = false.
Proof. exact ProgSemProofs.prog_ok_examples. Qed.
