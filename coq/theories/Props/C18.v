(** C18 — the low-pass calling model redistributes probability and vanishes at deep coverage.
    Only statements; every proof is [exact <lemma>].  Model: Model/LowPass.v (exact over Q, no Num: the
    theorems are about the very terms the correspondence check runs).  [==] is equality of rationals.

    parts nseq x            = Numerics.cached_part(x, nseq/2): the genotype partitions of allele count x
    part_probs F pts        = their probabilities (partitions_and_probabilities, F = 0 and F <> 0 branches)
    proj_matrix / cem       = projection_matrix / calling_error_matrix ; nocall_1D, enough = the two probabilities
    cstats / stats_of cov   = the six numbers the correction uses from a coverage distribution
    lowpass d pops thr sim  = make_low_pass_func_GATK_multisample for d populations, [sim] = the simulated arrays
    F_ok F                  = F == 0 \/ 0 < F < 1 ;  cov_ok = non-negative, total one, some mass at depth >= 1
    pop_ok                  = valid statistics, even sizes, subsample <= sequenced, F_ok
    prob_vector n v         = length n, entries >= 0, sum == 1.   All theorems: any sizes, any number of populations. *)
From Coq Require Import ZArith QArith List Bool Arith Lia Sorted.
From Dadi Require Import Model.LowPass Proofs.LowPassPart Proofs.LowPassQ Proofs.LowPassProb Proofs.LowPassMat
  Proofs.LowPassCall Proofs.LowPassTens Proofs.LowPassTotal Proofs.LowPassGet Proofs.LowPassDeep Proofs.LowPassF0.
Import ListNotations.
Local Open Scope Q_scope.

(** partitions: all and only the sorted genotype vectors (entries 0..2, nseq/2 individuals) of the allele count, no duplicates *)
Theorem C18_part_enumerates_all_and_only : forall nseq x l,
  In l (parts nseq x) <->
  (length l = (nseq / 2)%nat /\ Z.of_nat (list_sum l) = Z.of_nat x /\ Forall (fun g => 0 <= g <= 2)%nat l /\ StronglySorted le l).
Proof. exact parts_spec. Qed.
Theorem C18_part_no_duplicates : forall nseq x, NoDup (parts nseq x).
Proof. exact parts_nodup. Qed.
Theorem C18_part_general : forall n x mn l, (mn <= 2)%nat -> (In l (part n x mn) <-> is_config n x mn l).
Proof. exact part_spec. Qed.
Print Assumptions C18_part_enumerates_all_and_only.

(** partition probabilities: non-negative, sum to one, with and without inbreeding *)
Theorem C18_partition_probs_sum_to_one : forall nseq x F, (x <= 2 * (nseq / 2))%nat -> F_ok F ->
  qsum (part_probs F (parts nseq x)) == 1.
Proof. exact part_probs_sum_to_one. Qed.
Theorem C18_partition_probs_nonneg : forall nseq x F, F_ok F -> forall y, In y (part_probs F (parts nseq x)) -> 0 <= y.
Proof. exact part_probs_nonneg. Qed.
Print Assumptions C18_partition_probs_sum_to_one.

(** subsampling matrix: every row is a probability vector (F = 0: hypergeometric, by Vandermonde; F <> 0: mixture over partitions) *)
Theorem C18_projection_matrix_row_stochastic : forall nseq nsub F, (nsub <= nseq)%nat -> Nat.even nseq = true -> F_ok F ->
  length (proj_matrix nseq nsub F) = (nseq + 1)%nat /\
  forall row, In row (proj_matrix nseq nsub F) -> prob_vector (nsub + 1) row.
Proof. exact proj_matrix_rows. Qed.
Theorem C18_hypergeometric_row : forall n m j, (m <= n)%nat -> (j <= n)%nat -> prob_vector (m + 1) (hyper_row n m j).
Proof. exact hyper_row_prob_vector. Qed.
Theorem C18_projection_inbreeding_normalised : forall pt k, Forall (fun g => g <= 2)%nat pt -> (k / 2 <= length pt)%nat ->
  prob_vector (k + 1) (proj_inb pt k).
Proof. exact proj_inb_prob_vector. Qed.
Print Assumptions C18_projection_matrix_row_stochastic.

(** heterozygote-miscall matrix: every row is a probability vector *)
Theorem C18_calling_error_row_stochastic : forall st nsub F, 0 <= st_h st <= 1 -> Nat.even nsub = true -> F_ok F ->
  length (cem st nsub F) = (nsub + 1)%nat /\ forall row, In row (cem st nsub F) -> prob_vector (nsub + 1) row.
Proof. exact cem_rows. Qed.
Print Assumptions C18_calling_error_row_stochastic.

(** a coverage distribution gives valid statistics (in particular 0 <= prob_het_err <= 1) *)
Theorem C18_coverage_statistics_valid : forall cov, cov_ok cov -> valid_stats (stats_of cov).
Proof. exact stats_of_valid. Qed.

(** no-call probabilities and the enough-covered probability lie in [0,1] *)
Theorem C18_no_call_in_unit_interval : forall st nseq F, valid_stats st -> Nat.even nseq = true -> F_ok F ->
  length (nocall_1D st nseq F) = (nseq + 1)%nat /\ forall e, In e (nocall_1D st nseq F) -> 0 <= e <= 1.
Proof. exact nocall_1D_unit. Qed.
Theorem C18_enough_covered_in_unit_interval : forall st nseq nsub, valid_stats st -> 0 <= enough st nseq nsub <= 1.
Proof. exact enough_unit. Qed.
Print Assumptions C18_no_call_in_unit_interval.

(** a corrected model never has more total sites than the uncorrected one: any number of populations, any
    threshold (analytic, simulated and mixed regimes), ANY family of simulated arrays of total one *)
Theorem C18_corrected_total_le_uncorrected : forall d pops thr (sim : list nat -> tens d),
  length pops = d -> Forall pop_ok pops -> (forall idx, ttotal d (sim idx) == 1) ->
  forall model, shape_le d pops model -> tall d (fun m => 0 <= m) model ->
  ttotal d (lowpass d pops thr sim model) <= ttotal d model.
Proof. exact corrected_total_le. Qed.
(** ... and what the total is: the analytic part keeps (prod_i P(enough covered))^d (1 - P(no call)) of every
    entry, the simulated part keeps the entry *)
Theorem C18_corrected_total_formula : forall d pops thr (sim : list nat -> tens d),
  length pops = d -> Forall pop_ok pops -> (forall idx, ttotal d (sim idx) == 1) ->
  forall model, shape_le d pops model ->
  ttotal d (lowpass d pops thr sim model)
  == qpow (pe_tot pops) d * ttotal d (analytic0 d pops thr model)
     + ttotal d (tmapi d (fun idx m => if use_sim pops thr idx then m else 0) [] model).
Proof. exact lowpass_total. Qed.
Print Assumptions C18_corrected_total_le_uncorrected.

(** F -> 0: on (0,1) the partition probabilities ARE the rational functions [part_probs_poly] (polynomial
    weights over their sum), the denominator is positive on all of [0,1), and the value at F = 0 is the F = 0 branch *)
Theorem C18_F_to_0_continuous : forall nseq x, (x <= 2 * (nseq / 2))%nat ->
  (forall F, 0 < F -> F < 1 -> Forall2 Qeq (part_probs F (parts nseq x)) (part_probs_poly F (parts nseq x)))
  /\ (forall F, 0 <= F -> F < 1 -> 0 < qsum (map (ways_poly F) (parts nseq x)))
  /\ Forall2 Qeq (part_probs_poly 0 (parts nseq x)) (part_probs 0 (parts nseq x)).
Proof. exact part_probs_F_to_0. Qed.
(** full statement for the subsampling matrix, whose F = 0 branch is a different formula:
      forall nseq nsub j, Forall2 Qeq (proj_row_inb nseq nsub 0 j) (hyper_row nseq nsub j)
    proved here for the sizes of the property (even nseq <= 20), exhaustively by computation *)
Theorem C18_F_to_0_projection_matrix_partial : forall hn hm j, (1 <= hm <= hn)%nat -> (hn <= 10)%nat -> (j <= 2 * hn)%nat ->
  Forall2 Qeq (proj_row_inb (2 * hn) (2 * hm) 0 j) (hyper_row (2 * hn) (2 * hm) j).
Proof. exact proj_matrix_F0_consistent_bounded. Qed.
Print Assumptions C18_F_to_0_continuous.

(** deep coverage.  Limit statement: at the limit point of the coverage statistics (P(depth 0) = P(depth 1) = 0,
    sum c_d 2^-d = sum d c_d 2^-d = 0, prob_het_err = 0) every entry of the corrected model equals the entry of the
    plain projection (projection_matrix along every axis), for any threshold >= 0 and any simulated arrays; the
    absent-allele corner of the model is 0 (Spectrum masks it). *)
Theorem C18_deep_coverage_is_plain_projection : forall d pops thr (sim : list nat -> tens d) (model : tens d),
  length pops = d -> Forall deep_pop pops -> 0 <= thr -> tget d model (repeat 0%nat d) == 0 ->
  forall idx, length idx = d ->
  tget d (lowpass d pops thr sim model) idx == tget d (plain_projection d pops model) idx.
Proof. exact deep_coverage_plain_projection. Qed.
(** distance from the limit when every individual has depth >= D (eps = 2^-D): the statistics, in which the
    correction is polynomial, are O(D eps).  Full statement not proved: an explicit bound
      |lowpass - plain_projection| <= C n D eps * total(model)   for thr > (1 + n D) eps. *)
Theorem C18_deep_coverage_rate_partial : forall cov D, cov_ok cov -> supported_from D cov -> (2 <= D)%nat ->
  let st := stats_of cov in
  st_c0 st == 0 /\ st_c1 st == 0 /\ st_pos st == 1 /\
  0 <= st_s st <= qpow half D /\ 0 <= st_t st <= qnat D * qpow half D /\ 0 <= st_h st <= 2 * qpow half D.
Proof. exact deep_coverage_stats_bound. Qed.
Print Assumptions C18_deep_coverage_is_plain_projection.

(** non-vacuity: 6 haplotypes, allele count 2 (the case of tests/test_LowPass.py): the two partitions, their
    probabilities 1/5 and 4/5, and a hypothesis-satisfying population *)
Example C18_nonvacuous :
  parts 6 2 = [[0; 0; 2]; [0; 1; 1]]%nat /\ Forall2 Qeq (part_probs 0 (parts 6 2)) [1 # 5; 4 # 5]
  /\ cov_ok [1 # 4; 1 # 2; 1 # 4]
  /\ pop_ok {| p_nseq := 6; p_nsub := 4; p_st := stats_of [1 # 4; 1 # 2; 1 # 4]; p_F := 1 # 4 |}
  /\ deep_pop {| p_nseq := 6; p_nsub := 4; p_st := deep_stats; p_F := 0 |}.
Proof.
  split; [reflexivity|]. split; [repeat constructor|].
  assert (C : cov_ok [1 # 4; 1 # 2; 1 # 4]).
  { split; [|split; reflexivity]. intros c [<-|[<-|[<-|[]]]]; discriminate. }
  split; [exact C|]. split.
  - split; [apply stats_of_valid, C|]. cbn. repeat split; try lia. right. split; reflexivity.
  - split; [reflexivity|]. split; [|cbn; lia]. split; [apply deep_stats_valid|]. cbn. repeat split; try lia. left. reflexivity.
Qed.
