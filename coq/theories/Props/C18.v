(** C18 — the low-pass calling model redistributes probability and vanishes at deep coverage.
    Only statements; every proof is [exact <lemma>].  Model: Model/LowPass.v (exact over Q, no Num: the
    theorems are about the very terms the correspondence check runs).  [==] is equality of rationals.

    parts nseq x            = Numerics.cached_part(x, nseq/2): the genotype partitions of allele count x
    part_probs F pts        = their probabilities (partitions_and_probabilities, F = 0 and F <> 0 branches)
    proj_matrix / cem       = projection_matrix / calling_error_matrix ; nocall_1D, enough = the two probabilities
    cstats / stats_of cov   = the six numbers the correction uses from a coverage distribution
    lowpass d pops thr sim  = make_low_pass_func_GATK_multisample for d populations, [sim] = the simulated arrays
    F_ok F                  = F == 0 \/ 0 < F < 1 ;  cov_ok = non-negative, total one, some mass at depth >= 1
    pop_ok                  = valid statistics, even sizes, subsample <= sequenced, F_ok
    prob_vector n v         = length n, entries >= 0, sum == 1.   All theorems: any sizes, any number of populations. *)
From Coq Require Import ZArith QArith Qabs List Bool Arith Lia Sorted.
From Dadi Require Import Model.LowPass Proofs.LowPassPart Proofs.LowPassQ Proofs.LowPassProb Proofs.LowPassMat
  Proofs.LowPassCall Proofs.LowPassTens Proofs.LowPassTotal Proofs.LowPassGet Proofs.LowPassDeep Proofs.LowPassF0.
From Dadi Require Import Model.LowPassCheck Model.LowPassSim Model.LowPassSimCheck Proofs.LowPassSimExp Proofs.LowPassSimDraw Proofs.LowPassSimDeep.
From Dadi Require Import Proofs.LowPassF0All Proofs.LowPassPermPrefix Proofs.LowPassDeepRate.
Import ListNotations.
Local Open Scope Q_scope.

(** partitions: all and only the sorted genotype vectors (entries 0..2, nseq/2 individuals) of the allele count, no duplicates *)
Theorem C18_part_enumerates_all_and_only : forall nseq x l,
  In l (parts nseq x) <->
  (length l = (nseq / 2)%nat /\ Z.of_nat (list_sum l) = Z.of_nat x /\ Forall (fun g => 0 <= g <= 2)%nat l /\ StronglySorted le l).
Proof. exact parts_spec. Qed.
Theorem C18_part_no_duplicates : forall nseq x, NoDup (parts nseq x).
Proof. exact parts_nodup. Qed.
Theorem C18_part_general : forall n x mn l, (mn <= 2)%nat -> (In l (part n x mn) <-> is_config n x mn l).
Proof. exact part_spec. Qed.
Print Assumptions C18_part_enumerates_all_and_only.

(** partition probabilities: non-negative, sum to one, with and without inbreeding *)
Theorem C18_partition_probs_sum_to_one : forall nseq x F, (x <= 2 * (nseq / 2))%nat -> F_ok F ->
  qsum (part_probs F (parts nseq x)) == 1.
Proof. exact part_probs_sum_to_one. Qed.
Theorem C18_partition_probs_nonneg : forall nseq x F, F_ok F -> forall y, In y (part_probs F (parts nseq x)) -> 0 <= y.
Proof. exact part_probs_nonneg. Qed.
Print Assumptions C18_partition_probs_sum_to_one.

(** subsampling matrix: every row is a probability vector (F = 0: hypergeometric, by Vandermonde; F <> 0: mixture over partitions) *)
Theorem C18_projection_matrix_row_stochastic : forall nseq nsub F, (nsub <= nseq)%nat -> Nat.even nseq = true -> F_ok F ->
  length (proj_matrix nseq nsub F) = (nseq + 1)%nat /\
  forall row, In row (proj_matrix nseq nsub F) -> prob_vector (nsub + 1) row.
Proof. exact proj_matrix_rows. Qed.
Theorem C18_hypergeometric_row : forall n m j, (m <= n)%nat -> (j <= n)%nat -> prob_vector (m + 1) (hyper_row n m j).
Proof. exact hyper_row_prob_vector. Qed.
Theorem C18_projection_inbreeding_normalised : forall pt k, Forall (fun g => g <= 2)%nat pt -> (k / 2 <= length pt)%nat ->
  prob_vector (k + 1) (proj_inb pt k).
Proof. exact proj_inb_prob_vector. Qed.
Print Assumptions C18_projection_matrix_row_stochastic.

(** heterozygote-miscall matrix: every row is a probability vector *)
Theorem C18_calling_error_row_stochastic : forall st nsub F, 0 <= st_h st <= 1 -> Nat.even nsub = true -> F_ok F ->
  length (cem st nsub F) = (nsub + 1)%nat /\ forall row, In row (cem st nsub F) -> prob_vector (nsub + 1) row.
Proof. exact cem_rows. Qed.
Print Assumptions C18_calling_error_row_stochastic.

(** a coverage distribution gives valid statistics (in particular 0 <= prob_het_err <= 1) *)
Theorem C18_coverage_statistics_valid : forall cov, cov_ok cov -> valid_stats (stats_of cov).
Proof. exact stats_of_valid. Qed.

(** no-call probabilities and the enough-covered probability lie in [0,1] *)
Theorem C18_no_call_in_unit_interval : forall st nseq F, valid_stats st -> Nat.even nseq = true -> F_ok F ->
  length (nocall_1D st nseq F) = (nseq + 1)%nat /\ forall e, In e (nocall_1D st nseq F) -> 0 <= e <= 1.
Proof. exact nocall_1D_unit. Qed.
Theorem C18_enough_covered_in_unit_interval : forall st nseq nsub, valid_stats st -> 0 <= enough st nseq nsub <= 1.
Proof. exact enough_unit. Qed.
Print Assumptions C18_no_call_in_unit_interval.

(** a corrected model never has more total sites than the uncorrected one: any number of populations, any
    threshold (analytic, simulated and mixed regimes), ANY family of simulated arrays of total one *)
Theorem C18_corrected_total_le_uncorrected : forall d pops thr (sim : list nat -> tens d),
  length pops = d -> Forall pop_ok pops -> (forall idx, ttotal d (sim idx) == 1) ->
  forall model, shape_le d pops model -> tall d (fun m => 0 <= m) model ->
  ttotal d (lowpass d pops thr sim model) <= ttotal d model.
Proof. exact corrected_total_le. Qed.
(** ... and what the total is: the analytic part keeps (prod_i P(enough covered))^d (1 - P(no call)) of every
    entry, the simulated part keeps the entry *)
Theorem C18_corrected_total_formula : forall d pops thr (sim : list nat -> tens d),
  length pops = d -> Forall pop_ok pops -> (forall idx, ttotal d (sim idx) == 1) ->
  forall model, shape_le d pops model ->
  ttotal d (lowpass d pops thr sim model)
  == qpow (pe_tot pops) d * ttotal d (analytic0 d pops thr model)
     + ttotal d (tmapi d (fun idx m => if use_sim pops thr idx then m else 0) [] model).
Proof. exact lowpass_total. Qed.
Print Assumptions C18_corrected_total_le_uncorrected.

(** F -> 0: on (0,1) the partition probabilities ARE the rational functions [part_probs_poly] (polynomial
    weights over their sum), the denominator is positive on all of [0,1), and the value at F = 0 is the F = 0 branch *)
Theorem C18_F_to_0_continuous : forall nseq x, (x <= 2 * (nseq / 2))%nat ->
  (forall F, 0 < F -> F < 1 -> Forall2 Qeq (part_probs F (parts nseq x)) (part_probs_poly F (parts nseq x)))
  /\ (forall F, 0 <= F -> F < 1 -> 0 < qsum (map (ways_poly F) (parts nseq x)))
  /\ Forall2 Qeq (part_probs_poly 0 (parts nseq x)) (part_probs 0 (parts nseq x)).
Proof. exact part_probs_F_to_0. Qed.
(** full statement for the subsampling matrix, whose F = 0 branch is a different formula:
      forall nseq nsub j, Forall2 Qeq (proj_row_inb nseq nsub 0 j) (hyper_row nseq nsub j)
    proved here for the sizes of the property (even nseq <= 20), exhaustively by computation *)
Theorem C18_F_to_0_projection_matrix_partial : forall hn hm j, (1 <= hm <= hn)%nat -> (hn <= 10)%nat -> (j <= 2 * hn)%nat ->
  Forall2 Qeq (proj_row_inb (2 * hn) (2 * hm) 0 j) (hyper_row (2 * hn) (2 * hm) j).
Proof. exact proj_matrix_F0_consistent_bounded. Qed.
Print Assumptions C18_F_to_0_continuous.

(** deep coverage.  Limit statement: at the limit point of the coverage statistics (P(depth 0) = P(depth 1) = 0,
    sum c_d 2^-d = sum d c_d 2^-d = 0, prob_het_err = 0) every entry of the corrected model equals the entry of the
    plain projection (projection_matrix along every axis), for any threshold >= 0 and any simulated arrays; the
    absent-allele corner of the model is 0 (Spectrum masks it). *)
Theorem C18_deep_coverage_is_plain_projection : forall d pops thr (sim : list nat -> tens d) (model : tens d),
  length pops = d -> Forall deep_pop pops -> 0 <= thr -> tget d model (repeat 0%nat d) == 0 ->
  forall idx, length idx = d ->
  tget d (lowpass d pops thr sim model) idx == tget d (plain_projection d pops model) idx.
Proof. exact deep_coverage_plain_projection. Qed.
(** distance from the limit when every individual has depth >= D (eps = 2^-D): the statistics, in which the
    correction is polynomial, are O(D eps).  Full statement not proved: an explicit bound
      |lowpass - plain_projection| <= C n D eps * total(model)   for thr > (1 + n D) eps. *)
Theorem C18_deep_coverage_rate_partial : forall cov D, cov_ok cov -> supported_from D cov -> (2 <= D)%nat ->
  let st := stats_of cov in
  st_c0 st == 0 /\ st_c1 st == 0 /\ st_pos st == 1 /\
  0 <= st_s st <= qpow half D /\ 0 <= st_t st <= qnat D * qpow half D /\ 0 <= st_h st <= 2 * qpow half D.
Proof. exact deep_coverage_stats_bound. Qed.
Print Assumptions C18_deep_coverage_is_plain_projection.

(** THE SIMULATED REGIME.  simulate pops draws = simulate_GATK_multisample_calling as a deterministic function of what the
    random number generators delivered ([draws]: per aggregate partition the depths / heterozygote reads of every individual
    at every locus, and per subsampled population and locus the positions subsample_genotypes_1D selected).
    draw_ok = the partition has n_sequenced/2 individuals per population and a choice has at most n_subsampling/2 positions;
    everything else about the draws is arbitrary.  pdraw_okb = the boolean the replay evaluates on every recorded draw. *)
(** for EVERY draw: no simulated locus falls outside the bins 0..n_subsampling of any population ... *)
Theorem C18_simulated_counts_every_locus_once : forall pops draws, Forall (draw_ok pops) draws ->
  length (sim_counts pops draws) = sim_size pops /\ list_sum (sim_counts pops draws) = total_loci draws.
Proof. exact sim_counts_total. Qed.
(** ... so the returned array is a probability vector over the bins (the hypothesis of C18_corrected_total_le_uncorrected) *)
Theorem C18_simulated_array_is_probability_vector : forall pops draws, Forall (draw_ok pops) draws -> (0 < total_loci draws)%nat ->
  prob_vector (sim_size pops) (simulate pops draws).
Proof. exact simulate_prob_vector. Qed.
Theorem C18_recorded_draw_check_sound : forall pops pd, pdraw_okb pops pd = true -> draw_ok pops pd.
Proof. exact pdraw_okb_sound. Qed.
Print Assumptions C18_simulated_array_is_probability_vector.

(** deep coverage (deep_pd: the reads reveal every genotype -- hom-ref >= 1 read, het >= 2 alternative and >= 1 reference reads,
    hom-alt >= 2 reads; the partitions are sorted genotype vectors): every locus contributes one count at the row [deep_vec]
    = per population the true allele count, or the allele count of the chosen individuals where the population is subsampled *)
Theorem C18_simulated_deep_is_subsampling_step : forall pops draws, Forall (deep_pd pops) draws ->
  sim_counts pops draws = fold_left (bump_vec (sim_dims pops)) (deep_rows pops draws) (repeat 0%nat (sim_size pops)).
Proof. exact sim_counts_deep. Qed.
(** without subsampling: the point mass at the true allele counts, for every draw *)
Theorem C18_simulated_deep_no_subsampling_point_mass : forall pops draws af i0,
  Forall (deep_pd pops) draws -> (forall p, In p pops -> sp_nsub p = sp_nseq p) ->
  Forall (fun pd => map (@list_sum) (pd_part pd) = af) draws -> (0 < total_loci draws)%nat ->
  flat_index (sim_dims pops) af = Some i0 ->
  forall i, (i < sim_size pops)%nat -> nth i (simulate pops draws) 0 == if (i =? i0)%nat then 1 else 0.
Proof. exact simulate_deep_point_mass. Qed.
(** one subsampled population: the returned row is the frequency of the allele counts of the chosen individuals *)
Theorem C18_simulated_deep_one_population : forall p draws, Forall (deep_pd [p]) draws -> Forall (draw_ok [p]) draws ->
  sp_nsub p <> sp_nseq p -> (0 < total_loci draws)%nat ->
  forall j, (j <= sp_nsub p)%nat -> nth j (simulate [p] draws) 0 == freq_of j (deep_pts draws) (deep_sels draws).
Proof. exact simulate_deep_one_pop. Qed.
Print Assumptions C18_simulated_deep_no_subsampling_point_mass.

(** the subsampling step IN EXPECTATION.  One locus, averaged over all n_subsampling/2-subsets of its individuals (each subset
    with the same weight): projection_inbreeding of its genotype vector (equal as terms) ... *)
Theorem C18_subsampling_expectation_one_locus : forall pt nsub, expected_hist pt nsub = proj_inb pt nsub.
Proof. exact expected_hist_is_proj_inb. Qed.
(** ... any number of loci choosing INDEPENDENTLY (mean over all joint choices): the mean of their projection_inbreeding entries ... *)
Theorem C18_subsampling_expectation_independent_loci : forall j nsub pts, pts <> [] -> (j <= nsub)%nat ->
  Forall (fun pt => nsub / 2 <= length pt)%nat pts ->
  mean_freq j nsub pts == qsum (map (fun pt => nth j (proj_inb pt nsub) 0) pts) / qnat (length pts).
Proof. exact mean_freq_is_mean_of_proj_inb. Qed.
(** ... weighted with the partition probabilities: the row of projection_matrix -- F <> 0 for all sizes (equal as terms); F = 0,
    where the code uses the hypergeometric formula, for the sizes of the property (even n_sequenced <= 20) by exhaustive computation.
    Full statement for F = 0: forall nseq nsub j, Forall2 Qeq (expected_row nseq nsub 0 j) (nth j (proj_matrix nseq nsub 0) []) *)
Theorem C18_expected_row_is_projection_matrix_row : forall nseq nsub F j, (j <= nseq)%nat -> Qeq_bool F 0 = false ->
  nth j (proj_matrix nseq nsub F) [] = expected_row nseq nsub F j.
Proof. exact expected_row_is_projection_matrix_row. Qed.
Theorem C18_expected_row_is_projection_matrix_row_F0_partial : forall hn hm j, (1 <= hm <= hn)%nat -> (hn <= 10)%nat -> (j <= 2 * hn)%nat ->
  Forall2 Qeq (expected_row (2 * hn) (2 * hm) 0 j) (nth j (proj_matrix (2 * hn) (2 * hm) 0) []).
Proof. exact expected_row_is_projection_matrix_row_F0_bounded. Qed.
(** numpy draws a uniform ORDERING of the positions and keeps the first n_subsampling/2: every subset is the prefix set of the same
    number k! (n-k)! of the n! orderings, i.e. the kept individuals are a uniform subset.  Full statement: for all n, k <= n.
    Proved for n <= 6 individuals (n_sequenced <= 12) by exhaustive computation *)
Theorem C18_permutation_prefix_is_uniform_subset_partial : forall n k, (n <= 6)%nat -> (k <= n)%nat -> perm_prefix_uniform n k = true.
Proof. exact perm_prefix_uniform_bounded. Qed.
(** ... and for the model of the simulation itself: at deep coverage, with the partitions of the allele count and numbers of
    loci proportional to their probabilities, the expectation of entry j of the simulated row is entry j of the projection row *)
Theorem C18_deep_simulated_row_expectation_is_projection_row : forall nseq nsub F jj draws j,
  let p := {| sp_nseq := nseq; sp_nsub := nsub |} in
  Forall (deep_pd [p]) draws -> (0 < total_loci draws)%nat -> (j <= nsub)%nat ->
  map (fun pd => nth 0%nat (pd_part pd) []) draws = parts nseq jj ->
  Forall2 (fun pd pr => qnat (length (pd_loci pd)) == qnat (total_loci draws) * pr) draws (part_probs F (parts nseq jj)) ->
  mean_freq j nsub (deep_pts draws) == nth j (proj_row_inb nseq nsub F jj) 0.
Proof. exact deep_simulated_row_expectation_is_projection_row. Qed.
Print Assumptions C18_deep_simulated_row_expectation_is_projection_row.

(** non-vacuity of the simulation model: 6 sequenced / 4 subsampled haplotypes, allele count 2, both partitions with one
    deep locus each: the draws satisfy deep_pd and draw_ok, the chosen individuals carry 2 resp. 1 derived alleles *)
Example C18_simulation_nonvacuous :
  let p := {| sp_nseq := 6; sp_nsub := 4 |} in
  let draws := [ {| pd_part := [[0; 0; 2]]; pd_loci := [[[(60, 0); (61, 0); (62, 0)]]]; pd_sel := [[[2; 0]]] |};
                 {| pd_part := [[0; 1; 1]]; pd_loci := [[[(60, 0); (61, 30); (62, 31)]]]; pd_sel := [[[0; 2]]] |} ]%nat in
  Forall (deep_pd [p]) draws /\ Forall (draw_ok [p]) draws /\ forallb (pdraw_okb [p]) draws = true
  /\ Forall2 Qeq (simulate [p] draws) [0; 1 # 2; 1 # 2; 0; 0].
Proof.
  cbv zeta.
  assert (D : forall pt d0 d1 d2 sel, StronglySorted le pt -> Forall (fun g => g <= 2)%nat pt -> length pt = 3%nat ->
              Forall2 revealing pt [d0; d1; d2] ->
              deep_pd [{| sp_nseq := 6; sp_nsub := 4 |}] {| pd_part := [pt]; pd_loci := [[[d0; d1; d2]]]; pd_sel := [[sel]] |}).
  { intros pt d0 d1 d2 sel S L Len R. split; [reflexivity|]. split.
    - intros [|[|i]] q Hq; try discriminate. inversion Hq; subst. unfold pop_deep. cbn. repeat split; auto; lia.
    - repeat first [apply Forall_cons | apply Forall_nil | apply Forall2_cons | apply Forall2_nil]. exact R. }
  split; [|split; [|split]].
  - repeat first [apply Forall_cons | apply Forall_nil]; apply D;
      repeat first [apply SSorted_cons | apply SSorted_nil | apply Forall_cons | apply Forall_nil | apply Forall2_cons | apply Forall2_nil];
      cbn; lia.
  - repeat first [apply Forall_cons | apply Forall_nil]; (split; cbn;
      repeat first [apply Forall_cons | apply Forall_nil | apply Forall2_cons | apply Forall2_nil]; cbn; lia).
  - vm_compute. reflexivity.
  - vm_compute. repeat constructor.
Qed.

(** non-vacuity: 6 haplotypes, allele count 2 (the case of tests/test_LowPass.py): the two partitions, their
    probabilities 1/5 and 4/5, and a hypothesis-satisfying population *)
Example C18_nonvacuous :
  parts 6 2 = [[0; 0; 2]; [0; 1; 1]]%nat /\ Forall2 Qeq (part_probs 0 (parts 6 2)) [1 # 5; 4 # 5]
  /\ cov_ok [1 # 4; 1 # 2; 1 # 4]
  /\ pop_ok {| p_nseq := 6; p_nsub := 4; p_st := stats_of [1 # 4; 1 # 2; 1 # 4]; p_F := 1 # 4 |}
  /\ deep_pop {| p_nseq := 6; p_nsub := 4; p_st := deep_stats; p_F := 0 |}.
Proof.
  split; [reflexivity|]. split; [repeat constructor|].
  assert (C : cov_ok [1 # 4; 1 # 2; 1 # 4]).
  { split; [|split; reflexivity]. intros c [<-|[<-|[<-|[]]]]; discriminate. }
  split; [exact C|]. split.
  - split; [apply stats_of_valid, C|]. cbn. repeat split; try lia. right. split; reflexivity.
  - split; [reflexivity|]. split; [|cbn; lia]. split; [apply deep_stats_valid|]. cbn. repeat split; try lia. left. reflexivity.
Qed.

(** ** the statements above marked _partial (bounded sizes / statistics only), at full strength *)
(** F -> 0 for the subsampling matrix, whose F = 0 branch is a different formula (hypergeometric): for ALL even sizes the
    inbreeding form evaluated at F = 0 is the hypergeometric row *)
Theorem C18_F_to_0_projection_matrix : forall hn hm j, (hm <= hn)%nat -> (j <= 2 * hn)%nat ->
  Forall2 Qeq (proj_row_inb (2 * hn) (2 * hm) 0 j) (hyper_row (2 * hn) (2 * hm) j).
Proof. exact proj_matrix_F0_consistent. Qed.
Print Assumptions C18_F_to_0_projection_matrix.
(** ... the counting identity behind it: the Hardy-Weinberg weights of the partitions of allele count j add up to C(2n, j) *)
Theorem C18_partition_weights_total : forall hn j, qsum (map ways0 (parts (2 * hn) j)) == binQ (2 * hn) j.
Proof. exact ways0_total_parts. Qed.
Print Assumptions C18_partition_weights_total.

Theorem C18_expected_row_is_projection_matrix_row_F0 : forall hn hm j, (hm <= hn)%nat -> (j <= 2 * hn)%nat ->
  Forall2 Qeq (expected_row (2 * hn) (2 * hm) 0 j) (nth j (proj_matrix (2 * hn) (2 * hm) 0) []).
Proof. exact expected_row_is_projection_matrix_row_F0. Qed.
Print Assumptions C18_expected_row_is_projection_matrix_row_F0.

Theorem C18_permutation_prefix_is_uniform_subset : forall n k, (k <= n)%nat -> perm_prefix_uniform n k = true.
Proof. exact perm_prefix_uniform_all. Qed.
Theorem C18_permutation_prefix_count : forall n k S, NoDup S -> incl S (seq 0 n) -> length S = k ->
  length (filter (fun p => lnat_eqb (sort_row (firstn k p)) (sort_row S)) (perms_of n (seq 0 n))) = (fact k * fact (n - k))%nat.
Proof. exact prefix_subset_count. Qed.
Print Assumptions C18_permutation_prefix_is_uniform_subset.

Theorem C18_deep_rate_statistics : forall d pops thr (sim : list nat -> tens d) (model : tens d) (Bm : Q),
  length pops = d -> Forall near_deep pops -> Forall (fun p => nc_bound p <= Bm) pops -> 0 <= Bm -> Bm <= thr ->
  shape_le d pops model -> tall d (fun m => 0 <= m) model -> tget d model (repeat 0%nat d) == 0 ->
  forall idx, length idx = d ->
  Qabs (tget d (lowpass d pops thr sim model) idx - tget d (plain_projection d pops model) idx)
  <= (Bm + qsum (map het_bound pops)) * ttotal d model.
Proof. exact deep_rate. Qed.
Theorem C18_deep_coverage_rate : forall d pops thr (sim : list nat -> tens d) (model : tens d) D Nm,
  length pops = d -> (2 <= D)%nat -> Forall (covered_from D) pops -> Forall sizes_ok pops ->
  Forall (fun p => (p_nseq p / 2 <= Nm)%nat) pops -> (1 + qnat Nm * qnat D) * qpow half D <= thr ->
  shape_le d pops model -> tall d (fun m => 0 <= m) model -> tget d model (repeat 0%nat d) == 0 ->
  forall idx, length idx = d ->
  Qabs (tget d (lowpass d pops thr sim model) idx - tget d (plain_projection d pops model) idx)
  <= (1 + qnat Nm * qnat D + 2 * qsum (map (fun p => qnat (p_nsub p / 2)) pops)) * qpow half D * ttotal d model.
Proof. exact deep_coverage_rate. Qed.
Theorem C18_deep_coverage_rate_one_pop : forall p cov D thr (sim : list nat -> tens 1) (model : tens 1),
  cov_ok cov -> supported_from D cov -> (2 <= D)%nat -> p_st p = stats_of cov -> sizes_ok p ->
  (1 + qnat (p_nseq p / 2) * qnat D) * qpow half D <= thr ->
  shape_le 1 [p] model -> tall 1 (fun m => 0 <= m) model -> tget 1 model [0%nat] == 0 ->
  forall i,
  Qabs (tget 1 (lowpass 1 [p] thr sim model) [i] - tget 1 (plain_projection 1 [p] model) [i])
  <= (2 * qnat (p_nsub p / 2) + 1 + qnat (p_nseq p / 2) * qnat D) * qpow half D * ttotal 1 model.
Proof. exact deep_coverage_rate_one_pop. Qed.
Print Assumptions C18_deep_rate_statistics.
Print Assumptions C18_deep_coverage_rate.
