(** C05 — sampling a spectrum from phi is exact binomial integration on every code path.
    Only statements; every proof is [exact <lemma>].  Model: Model/FromPhi.v (instance: Coq's reals).
    Notation: [rsum] = sum of a list, [vadd]/[vscal] = entrywise sum / scalar multiple of flat arrays,
    [B n d t] = C(n,d) t^d (1-t)^(n-d), [nd ops shape] = apply the 1-D operators of [ops] along the axes, last axis first. *)
From Coq Require Import ZArith Reals List Lra Lia.
From Dadi Require Import Base.Num Base.NumR Model.FromPhi Proofs.FromPhiBase Proofs.FromPhiMass1D Proofs.FromPhiLin
  Proofs.FromPhiND Proofs.FromPhiPaths Proofs.FromPhiSums Proofs.FromPhiProject Proofs.FromPhiMarg Proofs.FromPhiMore
  Proofs.FromPhiIntegral Proofs.FromPhiAdmix
  Proofs.FromPhiMargK Proofs.FromPhiProjAnalytic Proofs.FromPhiBBConv Proofs.FromPhiInbF0.
Import ListNotations.
Local Open Scope R_scope.

(** *** linear in phi, on every path of the dispatcher (d = 1..5; analytic, direct, ascertained, admix_props);
    whether the call is refused does not depend on phi *)
Theorem C05_from_phi_linear : forall (o : @opts R) ns xxs shape a b phi psi,
  length phi = prodl shape -> length psi = prodl shape ->
  from_phi o ns xxs shape (vadd (vscal a phi) (vscal b psi))
  = olin a (from_phi o ns xxs shape phi) b (from_phi o ns xxs shape psi).
Proof. exact from_phi_linear. Qed.
Print Assumptions C05_from_phi_linear.

(** the inbreeding paths are linear operators as well (any dimension, ploidies, F) *)
Theorem C05_inbreeding_linear : forall het ns pls (Fs : list R) xxs shape,
  length ns = length shape -> length pls = length shape -> length Fs = length shape -> length xxs = length shape ->
  linop (prodl shape) (outsize (inb_ops het ns pls Fs xxs)) (nd (inb_ops het ns pls Fs xxs) shape).
Proof. intros; apply nd_linop, inb_ops_ok; assumption. Qed.

(** *** total = trapezoid mass.  1-D semi-analytic path: every n, every grid (also overshooting [0,1]: the clipped grid) *)
Theorem C05_total_equals_trapz_mass_1D : forall n (xx phi : list R),
  rsum (analytic1D n xx phi) = trapz (map clip xx) phi.
Proof. exact analytic1D_total. Qed.
Print Assumptions C05_total_equals_trapz_mass_1D.

(** the two identities behind it:  sum_d I_x(d+1, n-d+1) = (n+1) x  and  sum_d (d+1) I_x(d+2, n-d+1) = C(n+2,2) x^2 *)
Theorem C05_incomplete_beta_sums : forall n (x : R),
  rsum (map (fun d => betainc_int (d + 1) (n - d + 1) x) (seq 0 (S n))) = INR (n + 1) * x /\
  rsum (map (fun d => INR (d + 1) * betainc_int (d + 2) (n - d + 1) x) (seq 0 (S n))) = INR (n + 2) * (INR (n + 2) - 1) / 2 * x * x.
Proof. exact betainc_sums. Qed.

(** 2-D..5-D semi-analytic paths (grids inside [0,1]), direct paths, inbreeding paths, admix_props paths: any dimension *)
Theorem C05_total_equals_trapz_mass_linalg : forall ns xxs shape phi,
  Forall (Forall (fun x => 0 <= x <= 1)) xxs -> length ns = length shape -> length xxs = length shape -> length phi = prodl shape ->
  rsum (nd (linalg_ops ns xxs) shape phi) = trapz_nd xxs shape phi.
Proof. exact linalg_total. Qed.
Theorem C05_total_equals_trapz_mass_direct : forall ns xxs shape phi,
  Forall2 (fun xx L => length xx = L) xxs shape -> length ns = length shape -> length phi = prodl shape ->
  rsum (nd (direct_ops None ns xxs) shape phi) = trapz_nd xxs shape phi.
Proof. exact direct_total. Qed.
Theorem C05_total_equals_trapz_mass_inbreeding : forall ns pls (Fs : list R) xxs shape phi,
  Forall2 (fun xx L => length xx = L) xxs shape -> length ns = length shape -> length pls = length shape -> length Fs = length shape ->
  Forall (fun f => 0 < f < 1) Fs -> Forall (fun np => snd np <> 0%nat /\ (fst np mod snd np = 0)%nat) (combine ns pls) ->
  length phi = prodl shape ->
  rsum (nd (inb_ops None ns pls Fs xxs) shape phi) = trapz_nd xxs shape phi.
Proof. exact inbreeding_total. Qed.
Theorem C05_total_equals_trapz_mass_admix : forall (A : list (list R)) ns xxs shape phi,
  length A = length ns -> Forall2 (fun xx L => length xx = L) xxs shape ->
  rsum (admix_nd A ns xxs shape phi) = trapz_nd xxs shape phi.
Proof. exact admix_total. Qed.
Print Assumptions C05_total_equals_trapz_mass_admix.

(** *** the d-dimensional recursion is the 1-D analytic function applied along every axis (grids inside [0,1]) ... *)
Theorem C05_nD_recursion_is_iterated_1D : forall ns xxs shape phi, Forall (Forall (fun x => 0 <= x <= 1)) xxs ->
  nd (linalg_ops ns xxs) shape phi = nd (analytic1D_ops ns xxs) shape phi.
Proof. exact nD_recursion_is_iterated_1D. Qed.
(** ... i.e. multiplication by the Kronecker product of the 1-D matrices (for any list of linear 1-D operators) ... *)
Theorem C05_nD_is_kronecker : forall ops shape, ops_ok ops shape ->
  forall phi, length phi = prodl shape -> nd ops shape phi = mat_apply (Knd ops shape) (prodl shape) (outsize ops) phi.
Proof. exact nd_is_kronecker. Qed.
(** ... and the order of the axes is irrelevant: last axis first (the code) = first axis first (Fubini for finite sums) *)
Theorem C05_axis_order_irrelevant : forall ops shape phi, ops_ok ops shape -> length phi = prodl shape ->
  nd ops shape phi = nd_rev ops shape phi.
Proof. exact nd_axis_order. Qed.
Print Assumptions C05_axis_order_irrelevant.
Theorem C05_paths_are_linear_operator_lists : forall het ns xxs shape, length ns = length shape -> length xxs = length shape ->
  ops_ok (linalg_ops ns xxs) shape /\ ops_ok (direct_ops het ns xxs) shape.
Proof. intros; split; [apply linalg_ops_ok | apply direct_ops_ok]; assumption. Qed.

(** *** sampling n and projecting to m is sampling m: at the level of the sampling kernel (hence for every path whose
    entries are integrals / trapezoid sums of the kernel), and for the direct path with or without ascertainment.
    [project_of_sample] for the semi-analytic entries follows from the kernel identity and C05_analytic_is_exact_integral
    by linearity of the integral; that last step is not formalised (the statement proved is the _partial one). *)
Theorem C05_project_of_sample_kernel : forall n m i (x : R), (m <= n)%nat -> (i <= m)%nat ->
  rsum (map (fun j => hyperw n m j i * bker n j x) (seq 0 (S n))) = bker m i x.
Proof. exact kernel_projection. Qed.
Theorem C05_project_of_sample_partial : forall het n m xx (phi : list R), (m <= n)%nat -> length xx = length phi ->
  project1 n m (direct_ax het n xx phi) = direct_ax het m xx phi.
Proof. exact project_of_sample_direct. Qed.
Print Assumptions C05_project_of_sample_partial.

(** *** marginalising the first population after sampling = integrating it out of phi before sampling (any path made of
    linear 1-D operators whose outputs sum to the trapezoid integral: semi-analytic, direct, inbreeding).
    Full statement for an arbitrary axis k: same with [sum_axis k] / [trapz_axis k]; proved for the first axis. *)
Theorem C05_marginalise_commutes_partial : forall T nout ops' L rest xx phi,
  ops_ok ((T, nout) :: ops') (L :: rest) -> sums_to_trapz (T, nout) L xx -> length phi = prodl (L :: rest) ->
  sum_axis0 (outsize ops') nout (nd ((T, nout) :: ops') (L :: rest) phi)
  = nd ops' rest (trapz_axis0 xx (prodl rest) L phi).
Proof. exact marginalise_axis0. Qed.
Print Assumptions C05_marginalise_commutes_partial.
Theorem C05_marginalisable_axes : forall n (xx v : list R),
  (rsum (analytic1D n xx v) = trapz (map clip xx) v) /\
  (Forall (fun x => 0 <= x <= 1) xx -> rsum (analytic_ax n xx v) = trapz xx v) /\
  (length xx = length v -> rsum (direct_ax false n xx v) = trapz xx v).
Proof. intros; split; [apply analytic1D_total | split; [apply analytic_ax_total | apply direct_ax_total]]. Qed.

(** *** admix_props with identity proportions is the direct path *)
Theorem C05_admix_identity_is_direct : forall ns xxs shape phi,
  Forall2 (fun xx L => length xx = L) xxs shape -> length ns = length shape -> length phi = prodl shape ->
  admix_nd (idmat (length ns)) ns xxs shape phi = nd (direct_ops None ns xxs) shape phi.
Proof. exact admix_identity_is_direct. Qed.
Print Assumptions C05_admix_identity_is_direct.

(** *** sampling probabilities sum to one *)
Theorem C05_betabinom_conv_sums_to_one : forall n p (a b : R), rising (a + b) p <> 0 ->
  rsum (map (fun i => bbconv_pow i n a b p) (seq 0 (S (n * p)))) = 1.
Proof. exact betabinom_conv_sum1. Qed.
Print Assumptions C05_betabinom_conv_sums_to_one.
Theorem C05_admix_probs_sum_to_one : forall (A : list (list R)) ns coords, length A = length ns ->
  rsum (map (fun idx => admix_g A ns idx coords) (idxs ns)) = 1.
Proof. exact admix_probs_sum1. Qed.
Theorem C05_binomial_probs_sum_to_one : forall n (x : R), rsum (map (fun i => bker n i x) (seq 0 (S n))) = 1.
Proof. exact bker_sum1. Qed.

(** *** the dispatcher has no 5-D branch except the semi-analytic one (in the code: [fs] unbound), whatever phi *)
Theorem C05_5D_only_analytic : forall (o : @opts R) ns xxs L1 L2 L3 L4 L5 phi,
  (o_force o = true \/ o_het o <> None \/ o_admix o <> None) ->
  from_phi o ns xxs [L1; L2; L3; L4; L5] phi = None.
Proof. exact from_phi_5D_refused. Qed.

(** non-vacuity: a concrete 1-D case, n = 2 on the grid {0, 1/2, 1} with phi = (4, 2, 1): the dispatcher accepts it and the
    spectrum sums to the trapezoid mass 9/4 (the implementation returns 97/96, 35/48, 49/96) *)
Example C05_nonvacuous :
  rsum (analytic1D 2 [0; 1/2; 1] [4; 2; 1]) = 9/4 /\ @trapz R _ [0; 1/2; 1] [4; 2; 1] = 9/4 /\
  (exists fs, from_phi {| o_admix := None; o_het := None; o_force := false |} [2%nat] [[0; 1/2; 1]] [3%nat] [4; 2; 1] = Some fs /\ rsum fs = 9/4).
Proof. exact nonvacuous_example. Qed.

From Coquelicot Require Import Coquelicot.
(** *** entry d of the 1-D semi-analytic spectrum is the exact integral of C(n,d) t^d (1-t)^(n-d) against the
    piecewise-linear interpolant of phi, interval by interval (no hypothesis on the grid) *)
Theorem C05_analytic_is_exact_integral : forall n d (xx phi : list R), (d <= n)%nat ->
  nth d (analytic1D n xx phi) 0 =
  ivsum (fun x0 x1 p0 p1 => RInt (fun t => B n d t * (p0 + (p1 - p0) / (x1 - x0) * (t - x0))) x0 x1) (map clip xx) phi.
Proof. exact analytic1D_is_integral. Qed.
Print Assumptions C05_analytic_is_exact_integral.

(** its engine: d/dx I_x(a+1, N-a+1) = (N+1) C(N,a) x^a (1-x)^(N-a) *)
Theorem C05_incomplete_beta_derivative : forall N a (x : R), (a <= N)%nat ->
  is_derive (fun t => tailB (S N) (S a) t) x (INR (S N) * B N a x).
Proof. exact tail_derive. Qed.

(** *** marginalising ANY population k after sampling = integrating axis k out of phi before sampling.
    [sum_axis k shape fs] / [trapz_axis k xx shape phi] = [map_axis k g 1 shape] with g v = [rsum v] / [trapz xx v];
    [map_axis k g gout shape fs] applies the 1-D function g along axis k of the flat C-order array (C05_map_axis_entries);
    [remove_nth k l] drops position k, [replace_nth k x l] overwrites it. *)
Theorem C05_marginalise_commutes : forall k ops shape xx phi,
  ops_ok ops shape -> (k < length shape)%nat ->
  sums_to_trapz (nth k ops (fun v => v, 0%nat)) (nth k shape 0%nat) xx -> length phi = prodl shape ->
  sum_axis k (map snd ops) (nd ops shape phi)
  = nd (remove_nth k ops) (remove_nth k shape) (trapz_axis k xx shape phi).
Proof. exact marginalise_axis_k. Qed.
Print Assumptions C05_marginalise_commutes.
(** what [map_axis] is, on flat indices: with outer / inner = product of the axis lengths before / after axis k,
    entry (a, i, c) of the result is entry i of g applied to the line (a, . , c) of the input *)
Theorem C05_map_axis_entries : forall g gout k shape fs a i c,
  (k < length shape)%nat -> linop (nth k shape 0%nat) gout g -> length fs = prodl shape ->
  (a < prodl (firstn k shape))%nat -> (i < gout)%nat -> (c < prodl (skipn (S k) shape))%nat ->
  nth ((a * gout + i) * prodl (skipn (S k) shape) + c) (map_axis k g gout shape fs) 0
  = nth i (g (map (fun l => nth ((a * nth k shape 0%nat + l) * prodl (skipn (S k) shape) + c) fs 0) (seq 0 (nth k shape 0%nat)))) 0.
Proof. exact map_axis_nth. Qed.
Theorem C05_sum_axis_entries : forall k shape fs a c, (k < length shape)%nat -> length fs = prodl shape ->
  (a < prodl (firstn k shape))%nat -> (c < prodl (skipn (S k) shape))%nat ->
  nth (a * prodl (skipn (S k) shape) + c) (sum_axis k shape fs) 0
  = rsum (map (fun l => nth ((a * nth k shape 0%nat + l) * prodl (skipn (S k) shape) + c) fs 0) (seq 0 (nth k shape 0%nat))).
Proof. exact sum_axis_nth. Qed.
Theorem C05_trapz_axis_entries : forall k xx shape phi a c, (k < length shape)%nat -> length phi = prodl shape ->
  (a < prodl (firstn k shape))%nat -> (c < prodl (skipn (S k) shape))%nat ->
  nth (a * prodl (skipn (S k) shape) + c) (trapz_axis k xx shape phi) 0
  = trapz xx (map (fun l => nth ((a * nth k shape 0%nat + l) * prodl (skipn (S k) shape) + c) phi 0) (seq 0 (nth k shape 0%nat))).
Proof. exact trapz_axis_nth. Qed.
(** the model's n-D semi-analytic path, grids inside [0,1] *)
Theorem C05_marginalise_commutes_linalg : forall k ns xxs shape phi,
  List.Forall (List.Forall (fun x => 0 <= x <= 1)) xxs -> length ns = length shape -> length xxs = length shape ->
  (k < length shape)%nat -> length phi = prodl shape ->
  sum_axis k (map S ns) (nd (linalg_ops ns xxs) shape phi)
  = nd (linalg_ops (remove_nth k ns) (remove_nth k xxs)) (remove_nth k shape) (trapz_axis k (nth k xxs []) shape phi).
Proof. exact marginalise_linalg. Qed.
Print Assumptions C05_marginalise_commutes_linalg.

(** *** sampling n and projecting to m is sampling m: the semi-analytic 1-D path (every grid, every phi) and the axis
    function of the n-D recursion (line through the unclipped points, integrated between the clipped ones) *)
Theorem C05_project_of_sample_analytic : forall n m xx (phi : list R), (m <= n)%nat ->
  project1 n m (analytic1D n xx phi) = analytic1D m xx phi.
Proof. exact project_of_sample_analytic1D. Qed.
Print Assumptions C05_project_of_sample_analytic.
Theorem C05_project_of_sample_analytic_ax : forall n m xx (phi : list R), (m <= n)%nat ->
  project1 n m (analytic_ax n xx phi) = analytic_ax m xx phi.
Proof. exact project_of_sample_analytic_ax. Qed.
(** d dimensions, any axis k ([project_axis k n m shape] = [map_axis k (project1 n m) (S m) shape]): for every list of
    linear 1-D operators whose k-th member has the 1-D property; instances: the semi-analytic and the direct paths *)
Theorem C05_project_of_sample_any_axis : forall k ops shape T n T' m phi,
  ops_ok ops shape -> (k < length ops)%nat -> nth k ops axop0 = (T, S n) ->
  (forall v, length v = nth k shape 0%nat -> project1 n m (T v) = T' v) -> length phi = prodl shape ->
  project_axis k n m (map snd ops) (nd ops shape phi) = nd (replace_nth k (T', S m) ops) shape phi.
Proof. exact project_of_sample_nd. Qed.
Print Assumptions C05_project_of_sample_any_axis.
Theorem C05_project_of_sample_linalg : forall k ns xxs shape m phi,
  length ns = length shape -> length xxs = length shape -> (k < length shape)%nat -> (m <= nth k ns 0)%nat ->
  length phi = prodl shape ->
  project_axis k (nth k ns 0%nat) m (map S ns) (nd (linalg_ops ns xxs) shape phi)
  = nd (linalg_ops (replace_nth k m ns) xxs) shape phi.
Proof. exact project_of_sample_linalg. Qed.
Print Assumptions C05_project_of_sample_linalg.
Theorem C05_project_of_sample_direct_nd : forall het k ns xxs shape m phi,
  List.Forall2 (fun xx L => length xx = L) xxs shape -> length ns = length shape -> (k < length shape)%nat ->
  (m <= nth k ns 0)%nat -> length phi = prodl shape ->
  project_axis k (nth k ns 0%nat) m (map S ns) (nd (direct_ops het ns xxs) shape phi)
  = nd (direct_ops het (replace_nth k m ns) xxs) shape phi.
Proof. exact project_of_sample_direct_nd. Qed.

(** *** BetaBinomConvolution as written (sum over partitions, [bbconv]) = coefficient of the n-th power of the generating
    polynomial ([bbconv_pow], the form used by [inb_fac] and C05_betabinom_conv_sums_to_one): all i, n, ploidy, alpha, beta *)
Theorem C05_betabinom_conv_partition_is_power : forall i n (a b : R) p, bbconv i n a b p = bbconv_pow i n a b p.
Proof. exact bbconv_is_bbconv_pow. Qed.
Print Assumptions C05_betabinom_conv_partition_is_power.
(** the multinomial theorem behind it, for an arbitrary coefficient table *)
Theorem C05_partition_sum_is_power_coefficient : forall p (tb : list R), length tb = S p -> forall i n,
  rsum (map (fun prt => nprod (map2 fpow tb (pcounts p prt)) * IZR (multinomZ (pcounts p prt))) (parts n i 0 p))
  = nth i (ppow tb n) 0.
Proof. exact partition_sum_is_power_coefficient. Qed.
(** hence the partition form sums to one as well *)
Theorem C05_betabinom_conv_partition_sums_to_one : forall n p (a b : R), rising (a + b) p <> 0 ->
  rsum (map (fun i => bbconv i n a b p) (seq 0 (S (n * p)))) = 1.
Proof. exact bbconv_sum1. Qed.

(** *** the inbreeding path as F -> 0+ (Proofs/FromPhiInbF0.v).
    [risF a k F] = prod_{j<k} (a (1-F) + j F): a rising factorial with the 1/F cleared;
    [Rker p v a0 b0 F] = C(p,v) risF a0 v F * risF b0 (p-v) F / risF (a0+b0) p F: an explicit rational function of F;
    (a0, b0) = (x, 1-x) at the interior grid points, (1e-20, 1) and (1, 1e-20) at the two ends ([a0s], [b0s]: the code
    overwrites alpha and beta there); [inb_fac_ext] = [inb_fac] with [Rker] in place of the beta-binomial weights (defined
    at F = 0 too); [eff_freq xx] = a0/(a0+b0) per grid point = xx with its first entry replaced by 1e-20/(1+1e-20) and
    its last by 1/(1+1e-20); [direct_fac_eff] / [direct_eff_ops] = the direct path with the binomial kernel read at
    [eff_freq xx] (trapezoid weights and the ascertainment factor x(1-x) still on xx). *)
(** for 0 < F < 1 every beta-binomial weight of the inbreeding kernel IS the rational function, whose denominator is
    positive on [0,1) and which is continuous there *)
Theorem C05_inbreeding_kernel_is_rational_in_F : forall (p v : nat) (a0 b0 : R), (v <= p)%nat -> 0 < a0 + b0 ->
  (forall F, 0 < F < 1 -> betabinom p v (a0 * ((1 - F) / F)) (b0 * ((1 - F) / F)) = Rker p v a0 b0 F) /\
  (forall F, 0 <= F < 1 -> 0 < risF (a0 + b0) p F /\ continuous (Rker p v a0 b0) F).
Proof. exact inbreeding_kernel_is_rational_in_F. Qed.
Print Assumptions C05_inbreeding_kernel_is_rational_in_F.
(** ... hence the whole factor table of an axis, for any grid, n, ploidy, ascertainment *)
Theorem C05_inbreeding_table_is_rational_in_F : forall het n pl (F : R) xx, 0 < F < 1 ->
  inb_fac het n pl F xx = inb_fac_ext het n pl F xx.
Proof. exact inb_fac_is_ext. Qed.

(** at F = 0: the binomial kernel of the direct path -- C(p,v) x^v (1-x)^(p-v) at the interior points; in general at
    q = a0/(a0+b0); the convolution over n/ploidy individuals is the binomial kernel of n chromosomes; the table of an
    axis is the direct-path table at the effective frequencies *)
Theorem C05_inbreeding_F_to_0_is_binomial :
  (forall p v (x : R), (v <= p)%nat -> Rker p v x (1 - x) 0 = bker p v x) /\
  (forall p v (a0 b0 : R), (v <= p)%nat -> 0 < a0 + b0 -> Rker p v a0 b0 0 = bker p v (a0 / (a0 + b0))) /\
  (forall n pl (a0 b0 : R) i, pl <> 0%nat -> (n mod pl = 0)%nat -> 0 < a0 + b0 ->
     nth i (ppow (tblF pl a0 b0 0) (n / pl)) 0 = bker n i (a0 / (a0 + b0))) /\
  (forall het n pl xx, pl <> 0%nat -> (n mod pl = 0)%nat -> inb_fac_ext het n pl 0 xx = direct_fac_eff het n xx) /\
  (forall xx, eff_freq xx = set_ends xx (tiny / (tiny + 1)) (1 / (1 + tiny))).
Proof. exact inbreeding_F_to_0_is_binomial. Qed.
Print Assumptions C05_inbreeding_F_to_0_is_binomial.

(** every dimension, grid, phi, n, ploidy, ascertained axis: along ANY continuous path of inbreeding coefficients
    (g_1(t), ..., g_d(t)) that starts at 0 and lies in (0,1) for small t > 0, every entry of the inbreeding spectrum tends,
    as t -> 0+, to the entry of the direct path with the kernel read at the effective frequencies *)
Theorem C05_inbreeding_path_tends_to_direct_path :
  forall het ns pls (gs : list (R -> R)) xxs shape phi idx,
  length ns = length shape -> length pls = length shape -> length gs = length shape -> length xxs = length shape ->
  List.Forall (fun np => snd np <> 0%nat /\ (fst np mod snd np = 0)%nat) (combine ns pls) ->
  length phi = prodl shape ->
  List.Forall (fun g => continuous g 0 /\ g 0 = 0) gs ->
  (exists delta, 0 < delta /\ forall t, 0 < t < delta -> List.Forall (fun g => 0 < g t < 1) gs) ->
  filterlim (fun t => nth idx (nd (inb_ops het ns pls (map (fun g => g t) gs) xxs) shape phi) 0) (at_right 0)
            (locally (nth idx (nd (direct_eff_ops het ns xxs) shape phi) 0)).
Proof. exact inbreeding_path_tends_to_direct_path. Qed.
Print Assumptions C05_inbreeding_path_tends_to_direct_path.
(** one common F *)
Theorem C05_inbreeding_common_F_tends_to_direct_path : forall het ns pls xxs shape phi idx,
  length ns = length shape -> length pls = length shape -> length xxs = length shape ->
  List.Forall (fun np => snd np <> 0%nat /\ (fst np mod snd np = 0)%nat) (combine ns pls) ->
  length phi = prodl shape ->
  filterlim (fun F => nth idx (nd (inb_ops het ns pls (repeat F (length shape)) xxs) shape phi) 0) (at_right 0)
            (locally (nth idx (nd (direct_eff_ops het ns xxs) shape phi) 0)).
Proof. exact inbreeding_common_F_tends_to_direct_path. Qed.
(** the two ingredients: on (0,1)^d the model's operator list is the rational-function one; at 0 that one is the
    direct path at the effective frequencies *)
Theorem C05_inbreeding_ops_are_rational_and_direct_at_0 : forall het ns pls (Fs : list R) xxs,
  (List.Forall (fun f => 0 < f < 1) Fs -> inb_ops het ns pls Fs xxs = inb_ext_ops het ns pls Fs xxs) /\
  (List.Forall (fun f => f = 0) Fs -> length pls = length ns -> length Fs = length ns ->
   List.Forall (fun np => snd np <> 0%nat /\ (fst np mod snd np = 0)%nat) (combine ns pls) ->
   inb_ext_ops het ns pls Fs xxs = direct_eff_ops het ns xxs).
Proof. exact inb_ops_rational_and_direct_at_0. Qed.

(** the limit is the direct path only up to the 1e-20 the code writes at the two grid ends: not exactly ... *)
Theorem C05_inbreeding_limit_is_not_exactly_direct_refuted :
  exists (n : nat) (xx phi : list R) (i : nat),
    nth i (fac_apply xx (direct_fac_eff false n xx) phi) 0 <> nth i (direct_ax false n xx phi) 0.
Proof. exact limit_is_not_exactly_direct_refuted. Qed.
(** ... but exactly where the density vanishes at the two end points (one axis, no ascertainment) *)
Theorem C05_inbreeding_limit_is_direct_when_density_vanishes_at_ends : forall n xx (v : list R),
  length v = length xx -> hd 0 v = 0 -> last v 0 = 0 ->
  fac_apply xx (direct_fac_eff false n xx) v = direct_ax false n xx v.
Proof. exact limit_is_direct_when_density_vanishes_at_ends. Qed.
Print Assumptions C05_inbreeding_limit_is_direct_when_density_vanishes_at_ends.
