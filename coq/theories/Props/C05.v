(** C05 — sampling a spectrum from phi is exact binomial integration on every code path.
    Only statements; every proof is [exact <lemma>]. *)
From Coq Require Import ZArith Reals List Lra Lia.
From Dadi Require Import Base.Num Base.NumR Model.FromPhi Proofs.FromPhiBase Proofs.FromPhiMass1D Proofs.FromPhiLin
  Proofs.FromPhiND Proofs.FromPhiPaths.
Import ListNotations.
Local Open Scope R_scope.

Theorem C05_from_phi_linear : forall (o : @opts R) ns xxs shape a b phi psi,
  length phi = prodl shape -> length psi = prodl shape ->
  from_phi o ns xxs shape (vadd (vscal a phi) (vscal b psi))
  = olin a (from_phi o ns xxs shape phi) b (from_phi o ns xxs shape psi).
Proof. exact from_phi_linear. Qed.
Print Assumptions C05_from_phi_linear.
