(** * Num: the number interface every executable model is written against.

    One Gallina term, two dictionaries: [NumR] (Coq's reals; all theorems are
    stated on this instance) and [NumQ] (exact rationals; used to *run* the
    model under [vm_compute] in the correspondence check). *)
From Coq Require Import ZArith QArith List.
Import ListNotations.

Class Num (F : Type) := {
  n0 : F; n1 : F;
  nadd : F -> F -> F; nsub : F -> F -> F; nmul : F -> F -> F; ndiv : F -> F -> F;
  nopp : F -> F;
  nleb : F -> F -> bool;      (* x <= y *)
  neqb : F -> F -> bool;      (* x = y  *)
  nofZ : Z -> F;
  nexp : F -> F;              (* transcendental slots: exact on R, approximations on Q *)
  nln  : F -> F
}.

Declare Scope num_scope.
Delimit Scope num_scope with num.
Infix "+" := nadd : num_scope.
Infix "-" := nsub : num_scope.
Infix "*" := nmul : num_scope.
Infix "/" := ndiv : num_scope.
Notation "- x" := (nopp x) : num_scope.
Infix "<=?" := nleb : num_scope.
Infix "=?" := neqb : num_scope.

Section Derived.
  Context {F : Type} `{Num F}.
  Local Open Scope num_scope.
  Definition nltb (x y : F) : bool := negb (y <=? x).
  Definition n2 : F := n1 + n1.
  Definition nhalf : F := n1 / n2.
  Definition nmax (x y : F) : F := if x <=? y then y else x.
  Definition nmin (x y : F) : F := if x <=? y then x else y.
  Definition nabs (x : F) : F := if n0 <=? x then x else - x.
  Definition nsum (l : list F) : F := fold_right nadd n0 l.
  Definition nprod (l : list F) : F := fold_right nmul n1 l.
  Definition ndot (l1 l2 : list F) : F := nsum (map (fun p => fst p * snd p) (combine l1 l2)).
  Definition nofnat (n : nat) : F := nofZ (Z.of_nat n).
  Fixpoint npow (x : F) (n : nat) : F := match n with O => n1 | S k => x * npow x k end.
End Derived.
Infix "<?" := nltb : num_scope.
