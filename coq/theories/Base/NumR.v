(** * NumR: the real-number instance, on which all theorems are stated. *)
From Coq Require Import ZArith Reals List.
From Dadi Require Import Base.Num.

Definition Rleb (x y : R) : bool := if Rle_dec x y then true else false.
Definition Reqb (x y : R) : bool := if Req_EM_T x y then true else false.

#[global] Instance NumR : Num R := {
  n0 := 0%R; n1 := 1%R;
  nadd := Rplus; nsub := Rminus; nmul := Rmult; ndiv := Rdiv;
  nopp := Ropp;
  nleb := Rleb; neqb := Reqb;
  nofZ := IZR;
  nexp := exp; nln := ln
}.

Lemma Rleb_true x y : Rleb x y = true <-> (x <= y)%R.
Proof. unfold Rleb; destruct (Rle_dec x y); split; intros; auto; try discriminate; contradiction. Qed.
Lemma Rleb_false x y : Rleb x y = false <-> (y < x)%R.
Proof. unfold Rleb; destruct (Rle_dec x y); split; intros; auto; try discriminate.
  - exfalso; apply (Rlt_irrefl x); eapply Rle_lt_trans; eauto.
  - apply Rnot_le_lt; auto. Qed.
Lemma Reqb_true x y : Reqb x y = true <-> x = y.
Proof. unfold Reqb; destruct (Req_EM_T x y); split; intros; auto; try discriminate; contradiction. Qed.
Lemma Reqb_false x y : Reqb x y = false <-> x <> y.
Proof. unfold Reqb; destruct (Req_EM_T x y); split; intros; auto; try discriminate; contradiction. Qed.

(** Unfold the dictionary: turns a [Num]-polymorphic term at [R] into plain real arithmetic. *)
Ltac numR := cbn [n0 n1 nadd nsub nmul ndiv nopp nleb neqb nofZ nexp nln NumR] in *.
Ltac numR_all := unfold n2, nhalf, nmax, nmin, nabs, nltb, nofnat in *; numR.
