(** * NumQ: exact rationals (reduced after every operation), for running models. *)
From Coq Require Import ZArith QArith Qreduction Qround Qabs List.
From Dadi Require Import Base.Num.
Import ListNotations.

Definition Qdiv' (x y : Q) : Q := Qred (x / y).

(** exp and ln on Q: rational approximations computed in fixed point on Z with
    [fp] fractional bits; relative error below 2^-100, far below the correspondence
    tolerances.  exp: argument reduction x/2^k with |x/2^k| <= 1/2, 26-term Taylor,
    k squarings; exp of a negative argument is the reciprocal (keeps relative accuracy).
    ln: scale into [1/2,2) by powers of two, then 2 atanh((m-1)/(m+1)), 40 terms. *)
Definition fp : Z := 160.
Definition fp1 : Z := 2 ^ fp.
Definition to_fix (x : Q) : Z := (Qnum x * fp1 / Zpos (Qden x))%Z.
Definition of_fix (z : Z) : Q := Qred (z # (Z.to_pos fp1)).
Definition fmul (a b : Z) : Z := Z.shiftr (a * b) fp.

Fixpoint fexp_taylor (n : nat) (k : Z) (x term acc : Z) : Z :=
  match n with
  | O => acc
  | S m => let term' := (fmul term x / k)%Z in fexp_taylor m (k + 1) x term' (acc + term')
  end.
Fixpoint fsquare_n (n : nat) (y : Z) : Z :=
  match n with O => y | S m => fsquare_n m (fmul y y) end.

Definition Qexp_pos (a : Q) : Q :=   (* a >= 0 *)
  let k := match Qnum a with Z0 => 0%Z | _ => Z.max 0 (Z.log2 (Qnum a) - Z.log2 (Zpos (Qden a)) + 2) end in
  let xf := (Qnum a * fp1 / (Zpos (Qden a) * 2 ^ k))%Z in
  let t := fexp_taylor 26 1 xf fp1 fp1 in
  of_fix (fsquare_n (Z.to_nat k) t).
Definition Qexp (x : Q) : Q :=
  match Qnum x with
  | Zneg _ => Qred (/ Qexp_pos (Qopp x))
  | _ => Qexp_pos x
  end.

Fixpoint fatanh_series (n : nat) (k : Z) (z2 pw acc : Z) : Z :=
  match n with
  | O => acc
  | S m => let pw' := fmul pw z2 in fatanh_series m (k + 2) z2 pw' (acc + pw' / (k + 2))
  end.
Definition fatanh (z : Z) (terms : nat) : Z := fatanh_series terms 1 (fmul z z) z z.
Definition fln2 : Z := Eval vm_compute in (2 * fatanh (fp1 / 3) 52)%Z.
Definition Qln (x : Q) : Q :=
  match Qnum x with
  | Zpos _ =>
    let e := (Z.log2 (Qnum x) - Z.log2 (Zpos (Qden x)))%Z in
    let m := if (0 <=? e)%Z then Qred (x / inject_Z (2 ^ e)) else Qred (x * inject_Z (2 ^ (- e))) in
    (* m in (1/2, 2); |z| <= 1/3 *)
    let mf := to_fix m in
    let z := ((mf - fp1) * fp1 / (mf + fp1))%Z in
    of_fix (2 * fatanh z 52 + e * fln2)
  | _ => 0
  end.
Definition Qln2 : Q := of_fix fln2.

#[global] Instance NumQ : Num Q := {
  n0 := 0%Q; n1 := 1%Q;
  nadd := Qplus'; nsub := Qminus'; nmul := Qmult'; ndiv := Qdiv';
  nopp := Qopp;
  nleb := Qle_bool; neqb := Qeq_bool;
  nofZ := inject_Z;
  nexp := Qexp; nln := Qln
}.

(** Helpers for the correspondence files. *)
Definition Qabs' (x : Q) : Q := Qabs x.
Definition Qclose (tol scale a b : Q) : bool :=
  Qle_bool (Qabs (a - b)) (tol * scale).
Definition Qmaxl (l : list Q) : Q := fold_right (fun x m => if Qle_bool m x then x else m) 0 l.
Definition Qabsmax (l : list Q) : Q := Qmaxl (map Qabs l).
(** log10-ish exponent of a rational (floor of log2, for reporting only). *)
Definition Qlog2 (x : Q) : Z :=
  match Qnum x with Z0 => (-10000)%Z | _ => (Z.log2 (Z.abs (Qnum x)) - Z.log2 (Zpos (Qden x)))%Z end.
(** largest |a_i - b_i| over two lists; missing entries count as a mismatch of 1. *)
Fixpoint Qmaxdiff (a b : list Q) : Q :=
  match a, b with
  | [], [] => 0
  | x :: a', y :: b' => let d := Qabs (Qred (x - y)) in let r := Qmaxdiff a' b' in
                        if Qle_bool r d then d else r
  | _, _ => 1000000
  end.
(** lists agree entrywise within tol * max(1-norm scale) *)
Definition Qlists_close (tol : Q) (a b : list Q) : bool * Z :=
  let scale := Qmaxl (1 :: nil) in
  let s := Qmaxl (Qabsmax a :: Qabsmax b :: nil) in
  let s := if Qle_bool s 0 then 1 else s in
  let d := Qmaxdiff a b in
  (Qle_bool d (tol * s) && Nat.eqb (length a) (length b), Qlog2 (Qred (d / s))).
